(* C02, Maven part: ordering agrees with ComparableVersion (Maven 3.6 algorithm, Spec/MavenSpec.v).
   Statements only. *)
From DepsDev Require Import Lib.Base Semver.Version Semver.Compare Semver.Maven Semver.MavenParse Semver.MavenDomain
  Semver.MavenItems Semver.Maven_proofs Semver.MavenSpec_proofs Spec.MavenSpec.
Local Open Scope Z_scope.

(* The full statement on the property's domain (D_mvn minus a release-equivalent qualifier
   followed by a number, as a predicate on strings). *)
Definition C02_maven_full : Prop := forall sa sb a b,
  d_mvn_c02_str sa = true -> d_mvn_c02_str sb = true ->
  mvn_parse sa = Some (Ok a) -> mvn_parse sb = Some (Ok b) ->
  compare a b = Ok (mspec_compare sa sb).

(* It is false on the code as it stands.  F-C02-11: isEmptyMavenElem tests the spelling "0", so
   a zero component spelled 00 is not trimmed: 1.00 > 1 here, equal in ComparableVersion. *)
Theorem C02_maven_refuted : ~ C02_maven_full.
Proof.
  intros F. destruct maven_zero_witness as [W1 [W2 _]]. unfold mvn_cmp_strings in W1.
  change (mvn_parse_with false) with mvn_parse in W1.
  destruct (mvn_parse s_1_00) as [[a| | |]|] eqn:Pa; try discriminate.
  destruct (mvn_parse s_1) as [[b| | |]|] eqn:Pb; try discriminate.
  rewrite (F s_1_00 s_1 a b eq_refl eq_refl Pa Pb), W2 in W1. discriminate.
Qed.
Print Assumptions C02_maven_refuted.

Theorem C02_maven_refuted_witnesses :
  (* F-C02-11; third clause: with the repaired test (switch mvn_fix_zero_spelling) the pair agrees *)
  (mvn_cmp_strings false s_1_00 s_1 = Some 1 /\ mspec_compare s_1_00 s_1 = 0 /\ mvn_cmp_strings true s_1_00 s_1 = Some 0) /\
  (* F-C02-15: a release-equivalent qualifier right before -SNAPSHOT: both strings are in the
     property's domain, ComparableVersion keeps the emptied nesting level and orders them *)
  (mvn_cmp_strings false s_1_final_snapshot s_1_snapshot = Some 0 /\ d_mvn_c02_str s_1_final_snapshot = true /\
   d_mvn_c02_str s_1_snapshot = true /\ mspec_compare s_1_final_snapshot s_1_snapshot = 1).
Proof. exact (conj maven_zero_witness maven_nulldash_witness). Qed.

(* What holds, for ALL element lists of the domain c02_wide_b (the proved domain d_mvn_wide of
   C01 -- which contains D_mvn -- with numerals not negative, the last prefix numeral not 0 by
   value, and no null item in the tail: no number 0, no release-equivalent qualifier): compare
   is ComparableVersion's comparison of the item trees the lists stand for (a '-'-attached
   element opens a sub-list, qualifiers through ALIASES).  The qualifier table regenerated
   from maven.go is related to QUALIFIERS inside the proof (rank = order + 7 on every key).
   Missing for the full statement: that the parser with the repaired zero test maps a string of
   the domain to the element list whose tree is the normalised ComparableVersion of the string;
   the harness checks this on every generated string (kind svm_maven_tie), leaving out the
   classes of F-C02-15 and versions 0 / 0-qualifier (leading zero dropped by ComparableVersion). *)
Theorem C02_maven_partial : forall l1 l2, c02_wide_b l1 = true -> c02_wide_b l2 = true ->
  maven_compare l1 l2 = Ok (item_cmp (items_of l1) (items_of l2)).
Proof. intros l1 l2 H1 H2. apply maven_spec_agree; apply c02_wide_b_hyp; auto. Qed.
Print Assumptions C02_maven_partial.

(* The table tie used by the proof, stated on its own: for every qualifier text, ComparableVersion's
   rank of its stored value is the deps.dev table's order plus 7. *)
Theorem C02_maven_table : forall q, mrank q = qualifier_order q + 7.
Proof. exact mrank_order. Qed.
Print Assumptions C02_maven_table.

(* Non-vacuity: 1.0-alpha-1 and 1.0-SNAPSHOT parse into the domain, their lists stand for the
   normalised ComparableVersion trees of the strings, and both sides say -1. *)
Example C02_maven_nonvacuous :
  match mvn_parse s_1_0_alpha_1, mvn_parse s_1_0_snapshot with
  | Some (Ok a), Some (Ok b) =>
      c02_wide_b (mvn_elems a) = true /\ c02_wide_b (mvn_elems b) = true /\
      items_of (mvn_elems a) = comparable_version s_1_0_alpha_1 /\
      items_of (mvn_elems b) = comparable_version s_1_0_snapshot /\
      compare a b = Ok (-1) /\ mspec_compare s_1_0_alpha_1 s_1_0_snapshot = -1
  | _, _ => False
  end.
Proof. exact maven_c02_nonvacuous. Qed.
