(* C03, Cargo: per operator, the span opVersionToSpan produces for a full release version
   M.m.p denotes, on release candidates, exactly what the semver crate's VersionReq::matches
   (Spec/CargoReq.v, a transcription of eval.rs validated against the compiled crate) accepts
   for the requirement made of that comparator.  A comparator written without operator is a
   caret comparator for the crate and for deps.dev alike.  Statements only; proofs in
   Semver/C03_cargo_proofs.v.  Partial versions, wildcards, prerelease tags (class F-C03-8) and
   the comma list are decided by the oracle. *)
From DepsDev Require Import Lib.Base Semver.Version Semver.Span Semver.Interval Semver.C03_proofs Semver.C03_cargo_proofs Semver.C03_cargo_more_proofs
     Gen.SemverTables Spec.CargoReq.
Local Open Scope Z_scope.

Theorem C03_cargo_ge_sound : forall pv str M m p, fin M -> fin m -> fin p ->
  cargo_sound M m p (op_version_to_span pv go_tokGreaterEqual (mk3c str M m p)) CGreaterEq.
Proof. exact cargo_ge_sound. Qed.
Print Assumptions C03_cargo_ge_sound.

Theorem C03_cargo_lt_sound : forall pv str M m p, fin M -> fin m -> fin p -> (M <> 0 \/ m <> 0 \/ p <> 0) ->
  cargo_sound M m p (op_version_to_span pv go_tokLess (mk3c str M m p)) CLess.
Proof. exact cargo_lt_sound. Qed.
Print Assumptions C03_cargo_lt_sound.

(* ^M.m.p in its three shapes: M > 0; 0.m.p with m > 0; 0.0.p *)
Theorem C03_cargo_caret_sound : forall pv str M m p, fin M -> fin m -> fin p ->
  cargo_sound M m p (op_version_to_span pv go_tokCaret (mk3c str M m p)) CCaret.
Proof. exact cargo_caret_sound. Qed.
Print Assumptions C03_cargo_caret_sound.

Theorem C03_cargo_tilde_sound : forall pv str M m p, fin M -> fin m -> fin p ->
  cargo_sound M m p (op_version_to_span pv go_tokTilde (mk3c str M m p)) CTilde.
Proof. exact cargo_tilde_sound. Qed.
Print Assumptions C03_cargo_tilde_sound.

Theorem C03_cargo_eq_sound : forall pv str M m p, fin M -> fin m -> fin p ->
  cargo_sound M m p (op_version_to_span pv go_tokEqual (mk3c str M m p)) CExact.
Proof. exact cargo_eq_sound. Qed.
Print Assumptions C03_cargo_eq_sound.

Theorem C03_cargo_le_sound : forall pv str M m p, fin M -> fin m -> fin p ->
  cargo_sound M m p (op_version_to_span pv go_tokLessEqual (mk3c str M m p)) CLessEq.
Proof. exact cargo_le_sound. Qed.
Print Assumptions C03_cargo_le_sound.

(* p + 1 must stay below the value that stands for infinity *)
Theorem C03_cargo_gt_sound : forall pv str M m p, fin M -> fin m -> fin p -> p < infinity - 1 ->
  cargo_sound M m p (op_version_to_span pv go_tokGreater (mk3c str M m p)) CGreater.
Proof. exact cargo_gt_sound. Qed.
Print Assumptions C03_cargo_gt_sound.
