(* C17 — v3alpha is a wire-compatible superset of v3; the generated Go code describes the
   .proto sources; the resolver's system identifiers are the API's System numbers.

   Gen/ApiDesc.v is regenerated from the repository on every run (harness/go/apidesc):
     v3_emb, v3alpha_emb     descriptors embedded in api.pb.go, read through protoreflect
     v3_proto, v3alpha_proto the same structure parsed from the api.proto text
     v3_grpc, v3alpha_grpc   Insights_ServiceDesc, FullMethodName constants, client/server interfaces
     v3_go_enums, v3_go_structs (and v3alpha_) enum constants and protobuf struct tags of api.pb.go (go/ast)
     v3_ext_types            types of imported files in use: proto package and Go import path
     resolve_systems         the constants of type System of package util/resolve (go/ast, all files)
     resolve_runtime         int(resolve.X) for the four known constants, from the compiled package
   The domain is finite and enumerated completely: each theorem is decided by evaluating a
   boolean checker in the kernel and lifted to the quantified statement by its soundness lemma. *)
From DepsDev Require Import Lib.Base Api.Desc Api.Desc_proofs Api.GoCode Api.GoCode_proofs Gen.ApiDesc.

(* Every message (with its fields, oneofs, nested messages and enums, recursively), enum
   value, service and method of v3 exists identically in v3alpha, up to the package name
   in type names and the version prefix of HTTP paths (Desc.is_superset). *)
Theorem C17_superset : is_superset v3_emb v3alpha_emb.
Proof. apply superset_sound. vm_compute. reflexivity. Qed.
Print Assumptions C17_superset.

(* The same, read flat: every v3 message at any nesting depth ... *)
Theorem C17_superset_messages : forall path m, msg_at (fd_messages v3_emb) path m ->
  exists m', msg_at (fd_messages v3alpha_emb) path m' /\
    m_map_entry m' = m_map_entry m /\
    (forall f, In f (m_fields m) ->
       In (ren_field (fd_package v3_emb) (fd_package v3alpha_emb) f) (m_fields m')) /\
    (forall o, In o (m_oneofs m) -> In o (m_oneofs m')) /\
    (forall e, In e (m_enums m) -> exists e', In e' (m_enums m') /\ e_name e' = e_name e /\
                                              forall v, In v (e_values e) -> In v (e_values e')).
Proof. exact (superset_messages _ _ C17_superset). Qed.
Print Assumptions C17_superset_messages.

(* ... every v3 enum value ... *)
Theorem C17_superset_enums : forall e, In e (fd_enums v3_emb) ->
  exists e', In e' (fd_enums v3alpha_emb) /\ e_name e' = e_name e /\
    forall v, In v (e_values e) -> In v (e_values e').
Proof. exact (superset_enums _ _ C17_superset). Qed.
Print Assumptions C17_superset_enums.

(* ... and every v3 RPC has a v3alpha RPC of the same name, request and response type,
   streaming flags and idempotency level, among whose HTTP bindings (pattern and additional
   bindings) is each binding of the v3 RPC: same verb, body and response body, path with
   /v3/ replaced by /v3alpha/ (Desc.method_incl; bindings only v3alpha has are allowed). *)
Theorem C17_superset_methods : forall s, In s (fd_services v3_emb) ->
  exists s', In s' (fd_services v3alpha_emb) /\ s_name s' = s_name s /\
    forall me, In me (s_methods s) -> exists me', In me' (s_methods s') /\
      method_incl (fd_package v3_emb) (fd_package v3alpha_emb)
                  (api_prefix (fd_package v3_emb)) (api_prefix (fd_package v3alpha_emb)) me me'.
Proof. exact (superset_methods _ _ C17_superset). Qed.
Print Assumptions C17_superset_methods.

(* The committed generated Go code describes exactly the committed .proto sources. *)
Theorem C17_gen_v3 : v3_emb = v3_proto.
Proof. apply desc_eq_sound. vm_compute. reflexivity. Qed.
Print Assumptions C17_gen_v3.

Theorem C17_gen_v3alpha : v3alpha_emb = v3alpha_proto.
Proof. apply desc_eq_sound. vm_compute. reflexivity. Qed.
Print Assumptions C17_gen_v3alpha.

(* ... also below the descriptor: every enum has its Go type with exactly its constants
   (name and number), and every message (recursively, map entries excepted) has its Go
   struct whose tagged fields are, in order, the ones protoc-gen-go derives: Go name
   (GoCamelCase), Go type expression (fieldGoType), protobuf tag (tag.Marshal), json tag,
   map key/value tags, one interface field per declared oneof and one wrapper struct per
   oneof member (GoCode.gocode_spec). *)
Theorem C17_go_code :
  gocode_spec v3_emb v3_ext_types v3_go_enums v3_go_structs /\
  gocode_spec v3alpha_emb v3alpha_ext_types v3alpha_go_enums v3alpha_go_structs.
Proof. split; apply gocode_ok_sound; vm_compute; reflexivity. Qed.
Print Assumptions C17_go_code.

(* ... and in _grpc.pb.go: the client method of every rpc passes on that rpc's
   FullMethodName constant and has the request/response Go types; the ServiceDesc literal
   binds every method name to its own handler; every handler decodes into the request type,
   calls exactly its method of the server interface and reports its own FullMethodName
   (GoCode.grpc_code_spec). *)
Theorem C17_grpc_code :
  grpc_code_spec v3_emb v3_ext_types v3_grpc /\ grpc_code_spec v3alpha_emb v3alpha_ext_types v3alpha_grpc.
Proof. split; apply grpc_code_ok_sound; vm_compute; reflexivity. Qed.
Print Assumptions C17_grpc_code.

(* Insights_ServiceDesc, the FullMethodName constants and the InsightsClient/InsightsServer
   interfaces list exactly the methods of the service of the descriptor (Desc.grpc_spec). *)
Theorem C17_grpc : grpc_spec v3_emb v3_grpc /\ grpc_spec v3alpha_emb v3alpha_grpc.
Proof. split; apply grpc_ok_sound; vm_compute; reflexivity. Qed.
Print Assumptions C17_grpc.

(* Every constant of type resolve.System equals the number of its value of the API enum
   System, in both API versions (Desc.system_spec). *)
Theorem C17_system : system_spec v3_emb resolve_systems /\ system_spec v3alpha_emb resolve_systems.
Proof. split; apply system_ok_sound; vm_compute; reflexivity. Qed.
Print Assumptions C17_system.

(* The numbers the compiled package util/resolve gives UnknownSystem, NPM, Maven and PyPI
   (printed by cmd/resolvesys at run time) are the ones read from the sources: none of
   them escaped the go/ast reading, whichever file declares it. *)
Theorem C17_system_runtime : runtime_spec resolve_systems resolve_runtime.
Proof. apply runtime_ok_sound. vm_compute. reflexivity. Qed.
Print Assumptions C17_system_runtime.

(* Non-vacuity: the regenerated descriptors are inhabited and the renaming is the intended one. *)
Example C17_nonvacuous :
  fd_messages v3_emb <> [] /\ fd_enums v3_emb <> [] /\ fd_services v3_emb <> [] /\
  resolve_systems <> [] /\ resolve_runtime <> [] /\
  ren_type (fd_package v3_emb) (fd_package v3alpha_emb) (fd_package v3_emb ++ [46; 88]) =
    fd_package v3alpha_emb ++ [46; 88].
Proof. vm_compute. repeat split; discriminate. Qed.
