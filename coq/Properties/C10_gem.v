(* C10, RubyGems part: a release-only version's canonical string denotes the same version;
   prerelease canonical forms are a recorded finding.  Statements only. *)
From DepsDev Require Import Lib.Base Semver.Version Semver.Compare Semver.Gem Semver.GemParse Semver.GemDomain
  Semver.Gem_proofs Semver.Canon_mg_proofs.
Local Open Scope Z_scope.

(* The statement without the release-only restriction. *)
Definition C10_gem_unrestricted : Prop := forall s c r,
  gem_roundtrip s = Some (c, r) -> r = Some (0, c).

(* F-C10-1: 1.0.0.pre prints as 1.0.0-, which does not parse; 1.0.0.a.1 prints as 1.0.0-a.1,
   which parses to a different version (the dash re-inserts the element pre). *)
Theorem C10_gem_pre_refuted : ~ C10_gem_unrestricted.
Proof.
  intros F. destruct gem_pre_witness as [W _]. specialize (F _ _ _ W). discriminate.
Qed.
Print Assumptions C10_gem_pre_refuted.

Theorem C10_gem_pre_witnesses :
  gem_roundtrip s_100pre = Some (s_100dash, None) /\
  gem_roundtrip s_100a1 = Some (s_100_a1, Some (-1, s_100_a1)).
Proof. exact gem_pre_witness. Qed.

(* Release-only versions: the printer writes the numbers (at least three) and nothing else.
   The print/parse inversion for dotted decimals (the three clauses on release-only versions)
   is decided on every generated string by the correspondence check and the direct oracle
   (kinds sv_canon / svm_canon_gem); it is NOT a theorem here. *)
Theorem C10_gem_release_canon_partial : forall nums,
  gem_canon nums [] = print_plain_nums nums 0 (at_least3 nums).
Proof. exact gem_canon_release. Qed.
Print Assumptions C10_gem_release_canon_partial.

(* Clause 4 from clauses 1-2 and the order laws of C01: two versions of the C01 domain that
   compare equal to a common third one compare equal to each other. *)
Theorem C10_gem_same_canon_equal : forall v1 v2 v', gem_dom v1 -> gem_dom v2 -> gem_dom v' ->
  compare v1 v' = Ok 0 -> compare v2 v' = Ok 0 -> compare v1 v2 = Ok 0.
Proof. exact gem_same_canon_equal. Qed.
Print Assumptions C10_gem_same_canon_equal.

(* Non-vacuity: 1.0 and 01.002 are release-only and go round. *)
Example C10_gem_release_examples :
  gem_roundtrip s_1_0 = Some (s_1_0_0, Some (0, s_1_0_0)) /\
  gem_roundtrip s_01_002 = Some (s_1_2_0, Some (0, s_1_2_0)) /\
  match gem_parse s_1_0 with Ok v => gem_release_only v = true | _ => False end.
Proof. exact gem_release_examples. Qed.
