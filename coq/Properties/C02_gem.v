(* C02_gem -- statements are being written. *)
From DepsDev Require Import Lib.Base.
