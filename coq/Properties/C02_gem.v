(* C02, RubyGems part: ordering agrees with Gem::Version (Spec/GemSpec.v).  Statements only. *)
From DepsDev Require Import Lib.Base Semver.Version Semver.Compare Semver.Gem Semver.GemDomain Semver.GemSegments
  Semver.GemParse Semver.Gem_proofs Semver.GemSpec_proofs Spec.GemSpec.
Local Open Scope Z_scope.

(* The full statement: every two strings that this library and Gem::Version both accept are
   ordered by Compare as by Gem::Version. *)
Definition C02_gem_full : Prop := forall sa sb a b z,
  gem_parse sa = Ok a -> gem_parse sb = Ok b -> gspec_compare sa sb = Some z -> compare a b = Ok z.

(* It is false on the code as it stands.  F-C02-12: letters are lower-cased here and keep
   their case in Gem::Version: 1.0.A and 1.0.a compare equal here, Gem::Version orders them.
   (F-C02-1, the zero-trimming loop that truncated the prerelease at every element "0", is
   repaired in the tree: switch gem_fix_zero_trim = true; the witness list below keeps both
   variants of that pair.) *)
Theorem C02_gem_refuted : ~ C02_gem_full.
Proof.
  intros F. destruct gem_case_witness as [W1 W2]. unfold cmp_strings in W1.
  change (gem_parse_with true) with gem_parse in W1.
  destruct (gem_parse s_10A) as [a| | |] eqn:Pa; try discriminate.
  destruct (gem_parse s_10a) as [b| | |] eqn:Pb; try discriminate.
  rewrite (F _ _ a b (-1) Pa Pb W2) in W1. discriminate.
Qed.
Print Assumptions C02_gem_refuted.

Theorem C02_gem_refuted_witnesses :
  (cmp_strings false s_123a0b s_123a = Some 0 /\ gspec_compare s_123a0b s_123a = Some (-1) /\
   cmp_strings true s_123a0b s_123a = Some (-1)) /\
  (* F-C02-12: letters are lower-cased here and keep their case in Gem::Version *)
  (cmp_strings true s_10A s_10a = Some 0 /\ gspec_compare s_10A s_10a = Some (-1)) /\
  (* F-C02-13: 1-a.-b yields an extra element 0 *)
  (cmp_strings true s_1a0a s_1a_b = Some (-1) /\ cmp_strings false s_1a0a s_1a_b = Some 0 /\
   gspec_compare s_1a0a s_1a_b = Some 1) /\
  (* the pair of F-C01-3 (final length test, repaired by c398aba) now agrees *)
  (cmp_strings true s_1a s_1a00 = Some 0 /\ gspec_compare s_1a s_1a00 = Some 0).
Proof. exact (conj gem_trim_witness (conj gem_case_witness (conj gem_dotdash_witness gem_tail_witness))). Qed.

(* What holds, for ALL version structures of the shape the parser builds (numbers not
   negative; elements numerals or words, the first a word;
   boolean c02_wf_b, shared with the harness): compare is Gem::Version's comparison of the
   canonical segments of the version's numbers followed by its prerelease elements.
   Missing for the full statement: that the repaired parser maps a lower-case string without
   a dot-dash to the segments Gem::Version scans from it; the harness checks this on every
   generated string (kind svm_gem_tie). *)
Theorem C02_gem_partial : forall a b, gem_c02_dom a -> gem_c02_dom b ->
  compare a b = Ok (g_cmp (g_canonical (gem_segments a)) (g_canonical (gem_segments b))).
Proof. exact gem_compare_spec_v. Qed.
Print Assumptions C02_gem_partial.

Theorem C02_gem_domain_boolean : forall v,
  v_sys v = SRubyGems -> (exists l, v_ext v = GemExt l) -> c02_wf_b v = true -> gem_c02_dom v.
Proof. exact c02_wf_b_sound. Qed.
Print Assumptions C02_gem_domain_boolean.

(* Non-vacuity: 1.2.3.a.1 and 1.2.3 parse into the domain, their segments are the ones
   Gem::Version scans, and both sides say -1. *)
Example C02_gem_nonvacuous :
  match gem_parse s_123a1, gem_parse s_123 with
  | Ok a, Ok b => c02_wf_b a = true /\ c02_wf_b b = true /\ compare a b = Ok (-1) /\
                  gspec_compare s_123a1 s_123 = Some (-1) /\
                  g_canonical (gem_segments a) = gspec_canonical s_123a1
  | _, _ => False
  end.
Proof. exact gem_c02_nonvacuous. Qed.
