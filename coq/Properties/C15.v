(* C15 — the effective POM computed from a project lineage equals Maven's; interpolation
   terminates for every property table and leaves unresolved placeholders in place.
   Statements only; each is closed by [exact] of a lemma proved in Maven/*_proofs.v.

   Model: Maven/Interp.v, Maven/Project.v (the Go code).  Specification: Spec/MavenModelSpec.v
   (Maven's rules R1-R9, independent of the model).  XML decoding is outside the model; the real
   Maven binary is tied only through the transcribed specification. *)
From DepsDev Require Import Lib.Base Gen.PomTables Maven.Pom Maven.Interp Maven.Project Maven.Witnesses.
From DepsDev Require Maven.Interp_proofs Maven.Project_proofs Maven.Imports_proofs Maven.Pipeline_proofs Maven.Total_proofs Maven.Fragment_proofs.
From DepsDev Require Spec.MavenModelSpec.

(* ================= termination clause: ALL property tables, ALL strings ================= *)

(* interpolating never runs out of the explicit bound: one level per table entry plus one *)
Theorem C15_interp_terminates : forall (dict : dict) (s : bytes),
  interp (interp_bound dict) dict [] s <> OutOfFuel.
Proof. exact Interp_proofs.interp_terminates. Qed.
Print Assumptions C15_interp_terminates.

(* ... for any set of keys already being resolved, as long as the fuel covers what is left *)
Theorem C15_interp_fuel_suffices : forall fuel (dict : dict) (resolving : list bytes) (s : bytes),
  NoDup resolving -> incl resolving (map fst dict) -> (length dict < fuel + length resolving)%nat ->
  interp fuel dict resolving s <> OutOfFuel.
Proof. exact Interp_proofs.interp_fuel. Qed.
Print Assumptions C15_interp_fuel_suffices.

(* no panic and no error, whatever the fuel, table, resolving set and string *)
Theorem C15_interp_no_panic : forall fuel (dict : dict) resolving s p, interp fuel dict resolving s <> Panic p.
Proof. exact Interp_proofs.interp_no_panic_lemma. Qed.
Print Assumptions C15_interp_no_panic.

Theorem C15_interp_no_error : forall fuel (dict : dict) resolving s e, interp fuel dict resolving s <> Err e.
Proof. exact Interp_proofs.interp_no_err_lemma. Qed.
Print Assumptions C15_interp_no_error.

(* hence String.interpolate always yields a text and a flag *)
Theorem C15_interp_total : forall (dict : dict) (s : bytes), exists r ok, interpolate_string dict s = Ok (r, ok).
Proof. exact Interp_proofs.interp_total. Qed.
Print Assumptions C15_interp_total.

(* what the scanner finds is a decomposition of the string: s = before ++ placeholder ++ after *)
Theorem C15_scan_decomposes : forall s pre key rest,
  find_placeholder s = Some (pre, key, rest) -> s = pre ++ whole key ++ rest.
Proof. exact Interp_proofs.find_placeholder_spec. Qed.
Print Assumptions C15_scan_decomposes.

(* a placeholder whose key is absent is left verbatim and the flag is false *)
Theorem C15_interp_leaves_unresolved : forall fuel (dict : dict) resolving s pre key rest out ok,
  find_placeholder s = Some (pre, key, rest) ->
  lookup key dict = None ->
  interp (S fuel) dict resolving s = Ok (out, ok) ->
  ok = false /\ exists t, out = pre ++ whole key ++ t.
Proof. exact Interp_proofs.interp_absent. Qed.
Print Assumptions C15_interp_leaves_unresolved.

(* a placeholder whose key is being resolved (a cycle) stops the scan: the text comes back
   unchanged and the flag is false *)
Theorem C15_interp_leaves_cyclic : forall fuel (dict : dict) resolving s pre key rest,
  find_placeholder s = Some (pre, key, rest) ->
  mem_bytes key resolving = true ->
  interp (S fuel) dict resolving s = Ok (s, false).
Proof. exact Interp_proofs.interp_cycle. Qed.
Print Assumptions C15_interp_leaves_cyclic.

(* self reference: a key whose value mentions the key first resolves to that value verbatim *)
Theorem C15_interp_self_reference : forall fuel (dict : dict) k v pre rest,
  find_placeholder (whole k) = Some ([], k, []) ->
  lookup k dict = Some v ->
  find_placeholder v = Some (pre, k, rest) ->
  interp (S (S fuel)) dict [] (whole k) = Ok (v, false).
Proof. exact Interp_proofs.interp_self_reference. Qed.
Print Assumptions C15_interp_self_reference.

(* a cyclic table a -> b -> a, evaluated: p, the placeholder of a, q  gives  p x (placeholder of a) y q, unresolved *)
Example C15_interp_cyclic_example :
  interpolate_string Pipeline_proofs.cyc_table [112;36;123;97;125;113] = Ok ([112;120;36;123;97;125;121;113], false).
Proof. exact Pipeline_proofs.cyclic_example. Qed.

(* R10: a property defined with the empty value IS defined - its placeholder is replaced by nothing and
   the flag stays true, in the model and in the specification alike; an undefined one stays put *)
Example C15_empty_value_is_defined :
  interpolate_string [([99;108], [])] [50;36;123;99;108;125;45] = Ok ([50;45], true) /\
  MavenModelSpec.resolve [([99;108], [])] [50;36;123;99;108;125;45] = ([50;45], true) /\
  interpolate_string [] [50;36;123;99;108;125;45] = Ok ([50;36;123;99;108;125;45], false).
Proof. exact Pipeline_proofs.empty_value_is_defined. Qed.

(* ================= totality of the whole pipeline (the POM part of C04) ================= *)
(* Every stage of the model returns a value or an error: no panic, and no fuel to run out of.
   There is no fuel for a caller to choose: interpolation supplies its own bound S(size dict)
   (C15_interp_terminates: the resolving set holds pairwise different keys of the dictionary);
   the import loop recurses on the rounds left of MaxImports and the parent loop on the rounds
   left of MaxParent / MaxMavenParent, both read from the sources by gotables
   (Gen/PomTables.v); the stage theorems hold for EVERY value of those limits.
   The one assumption: the JDK clause of Profile.activated (the Maven version-constraint code, a
   parameter of the model) itself returns a value or an error - the version-constraint part of C04. *)

(* the documented pipeline, for all settings, repositories (parent and BOM lookups) and projects *)
Theorem C15_pipeline_total : forall (jdk_matches : bytes -> bytes -> res bool) jdk os (repo : list project) (root : project),
  (forall spec v, match jdk_matches spec v with Panic _ => False | OutOfFuel => False | _ => True end) ->
  match effective jdk_matches jdk os repo root with Panic _ => False | OutOfFuel => False | _ => True end.
Proof. exact Total_proofs.pipeline_total. Qed.
Print Assumptions C15_pipeline_total.

(* when no profile of the lineage states a jdk condition the constraint code is never consulted:
   total with no assumption at all, whatever that code does *)
Theorem C15_pipeline_total_no_jdk : forall (jdk_matches : bytes -> bytes -> res bool) jdk os repo root,
  Total_proofs.no_jdk_clause (p_profiles root) ->
  (forall p, In p repo -> Total_proofs.no_jdk_clause (p_profiles p)) ->
  match effective jdk_matches jdk os repo root with Panic _ => False | OutOfFuel => False | _ => True end.
Proof. exact Total_proofs.pipeline_total_no_jdk. Qed.
Print Assumptions C15_pipeline_total_no_jdk.

(* Profile.activated: total on every JDK string, OS setting and profile (a malformed version range
   is the constraint code's error, passed on as an error) ... *)
Theorem C15_activated_total : forall (jdk_matches : bytes -> bytes -> res bool),
  (forall spec v, Total_proofs.settled (jdk_matches spec v)) ->
  forall jdk os pf, Total_proofs.settled (activated jdk_matches jdk os pf).
Proof. exact Total_proofs.activated_settled. Qed.
Print Assumptions C15_activated_total.

(* ... and always a boolean when the profile has no jdk clause *)
Theorem C15_activated_without_jdk : forall (jdk_matches : bytes -> bytes -> res bool) jdk os pf,
  act_jdk (pf_act pf) = [] -> exists b, activated jdk_matches jdk os pf = Ok b.
Proof. exact Total_proofs.activated_without_jdk. Qed.
Print Assumptions C15_activated_without_jdk.

(* MergeProfiles: the merged project or the activation error *)
Theorem C15_merge_profiles_total : forall (jdk_matches : bytes -> bytes -> res bool),
  (forall spec v, Total_proofs.settled (jdk_matches spec v)) ->
  forall jdk os p, Total_proofs.settled (merge_profiles jdk_matches jdk os p).
Proof. exact Total_proofs.merge_profiles_settled. Qed.
Print Assumptions C15_merge_profiles_total.

(* Project.Interpolate always returns a project (its error result is never used) *)
Theorem C15_interpolate_total : forall p : project, exists q, interpolate p = Ok q.
Proof. exact Total_proofs.interpolate_returns. Qed.
Print Assumptions C15_interpolate_total.

(* mergeParents: for every repository, start key, visited set and EVERY number of rounds *)
Theorem C15_merge_parents_total : forall (jdk_matches : bytes -> bytes -> res bool),
  (forall spec v, Total_proofs.settled (jdk_matches spec v)) ->
  forall jdk os repo rounds chk current visited result,
    Total_proofs.settled (merge_parents jdk_matches jdk os repo rounds chk current visited result).
Proof. exact Total_proofs.merge_parents_settled. Qed.
Print Assumptions C15_merge_parents_total.

(* ProcessDependencies: for EVERY lookup of dependency management that returns a value or an error
   - cyclic imports, a BOM importing itself, failing imports - the two lists, always *)
Theorem C15_process_dependencies_total : forall (get : bytes -> bytes -> bytes -> res (list dependency)),
  (forall g a v, Total_proofs.settled (get g a v)) ->
  forall p : project, exists r, process_dependencies get p = Ok r.
Proof. exact Total_proofs.process_dependencies_returns. Qed.
Print Assumptions C15_process_dependencies_total.

(* ... because the loop ends after at most cap rounds, for every cap: it never looks up more
   than cap projects (cap = MaxImports in ProcessDependencies) *)
Theorem C15_import_loop_total : forall (get : bytes -> bytes -> bytes -> res (list dependency)),
  (forall g a v, Total_proofs.settled (get g a v)) ->
  forall cap queue imported m, exists m', import_loop get cap queue imported m = Ok m'.
Proof. exact Total_proofs.import_loop_returns. Qed.
Print Assumptions C15_import_loop_total.

Theorem C15_import_lookups_bounded : forall get cap queue imported m,
  (Total_proofs.import_lookups get cap queue imported m <= cap)%nat.
Proof. exact Total_proofs.import_lookups_bounded. Qed.
Print Assumptions C15_import_lookups_bounded.

(* ================= refinement of Maven's rules, piece by piece ================= *)

(* R5 (with R2, R3): looking a name up in the map the Go code builds after merging the
   ancestors one by one is looking it up by Maven's priority: project.* / pom.* built-ins,
   then nearest POM first and inside a POM the last declaration (profiles after the project),
   then the unprefixed built-ins.  [levels]: the property lists of the POMs, nearest first. *)
Theorem C15_props_priority : forall (levels : list (list (bytes * bytes))) group version pgroup pversion k,
  lookup k (property_map (fold_left (fun acc lv => lv ++ acc) levels []) group version pgroup pversion)
  = MavenModelSpec.value_of k (MavenModelSpec.property_table group version pgroup pversion levels).
Proof. exact Project_proofs.props_priority. Qed.
Print Assumptions C15_props_priority.

(* ProcessDependencies keeps, in order, the first declaration of every identity
   (group, artifact, type or jar, classifier): no identity twice, none lost *)
Theorem C15_first_declaration_wins : forall l,
  dedupe_into [] l = map with_jar (Project_proofs.firsts [] l) /\
  NoDup (map dep_key (Project_proofs.firsts [] l)) /\
  (forall d, In d l -> In (dep_key d) (map dep_key (Project_proofs.firsts [] l))).
Proof. exact Project_proofs.first_declaration_wins. Qed.
Print Assumptions C15_first_declaration_wins.

(* R1-R4, PARTIAL: for a lineage given by the document-order lists of its POMs, nearest first,
   NONE OF WHICH DECLARES AN IDENTITY TWICE (project and its active profiles together), the
   entries the Go code keeps are Maven's selection, in Maven's order.  Missing for the full
   statement: POMs that repeat an identity (refuted below), and the interpolation that the Go
   code performs between concatenation and dedupe while Maven selects on the written text
   (decided by the oracle on generated lineages). *)
Theorem C15_refines_selection_partial : forall ls : list (list dependency),
  Forall (fun lv => NoDup (map MavenModelSpec.ident_of lv)) ls ->
  dedupe_into [] (concat ls)
  = map MavenModelSpec.with_type (MavenModelSpec.select (concat ls) (flat_map (fun lv => rev lv) ls)).
Proof. exact Project_proofs.selection_refines. Qed.
Print Assumptions C15_refines_selection_partial.

(* ... and the hypothesis cannot be dropped: one POM declaring g:a twice (versions 1 and 2) - the Go
   dedupe keeps 1, Maven's selection 2.  The same lineage run through the whole pipeline on the Go
   code is the witness of F-C15-1 (known/C15.jsonl, replayed on every run). *)
Theorem C15_refines_selection_refuted :
  let ls := [[Project_proofs.dep_ga [49]; Project_proofs.dep_ga [50]]] in
  dedupe_into [] (concat ls)
  <> map MavenModelSpec.with_type (MavenModelSpec.select (concat ls) (flat_map (fun lv => rev lv) ls)).
Proof. exact Project_proofs.selection_differs. Qed.
Print Assumptions C15_refines_selection_refuted.

(* Dependency-management injection, for EVERY project and EVERY lookup of imported management:
   ProcessDependencies yields the first declaration of every dependency, each changed exactly by
   the rule - own version / scope / exclusions win, the managed entry's value fills an empty one,
   the optional flag, group, artifact, type and classifier are never managed, no managed entry no
   change - against the managed list it also returns, which has one entry per identity. *)
Theorem C15_injection_rule : forall get (p : project) deps m,
  process_dependencies get p = Ok (deps, m) ->
  NoDup (map dep_key m) /\
  Forall2 (Imports_proofs.injection_rule m) (dedupe_into [] (p_deps p)) deps.
Proof. exact Imports_proofs.process_dependencies_injection. Qed.
Print Assumptions C15_injection_rule.

(* the rule at work: own exclusions survive a managed entry, empty ones are filled; version and
   scope likewise; optional stays *)
Example C15_injection_rule_example :
  let dm := mkDep [103] [97] [50] s_jar [] [116] [116;114;117;101] [([120], [121])] in
  let own := mkDep [103] [97] [] [] [] [] [] [([104], [42])] in
  let bare := mkDep [103] [97] [49] [] [] [114] [] [] in
  fill_in [dm] own = mkDep [103] [97] [50] [] [] [116] [] [([104], [42])] /\
  fill_in [dm] bare = mkDep [103] [97] [49] [] [] [114] [] [([120], [121])].
Proof. exact Imports_proofs.injection_rule_inhabited. Qed.

(* R8: the fill-in of ProcessDependencies is Maven's injection; only empty fields change *)
Theorem C15_management_fill_in : forall m d, fill_in m d = MavenModelSpec.inject m d.
Proof. exact Project_proofs.fill_in_is_inject. Qed.
Print Assumptions C15_management_fill_in.

Theorem C15_fill_in_only_when_empty : forall m d,
  let d' := fill_in m d in
  d_group d' = d_group d /\ d_artifact d' = d_artifact d /\ d_type d' = d_type d /\
  d_classifier d' = d_classifier d /\ d_optional d' = d_optional d /\
  (d_version d <> [] -> d_version d' = d_version d) /\
  (d_scope d <> [] -> d_scope d' = d_scope d) /\
  (d_excl d <> [] -> d_excl d' = d_excl d).
Proof. exact Project_proofs.fill_in_only_when_empty. Qed.
Print Assumptions C15_fill_in_only_when_empty.

(* the import loop: when the queue empties within n rounds, every larger cap (MaxImports
   included) gives the same managed list *)
Theorem C15_import_cap_suffices : forall get n queue imported m k,
  Project_proofs.import_rounds get n queue imported m = Some k ->
  forall n', (n <= n')%nat -> import_loop get n' queue imported m = import_loop get n queue imported m.
Proof. exact Project_proofs.import_loop_cap. Qed.
Print Assumptions C15_import_cap_suffices.

(* R7, PARTIAL: the imports of a project as a forest (a node: an import-scoped entry, what
   fetching it returns, the nodes of the import-scoped entries among that).  When no two imports
   have the same (group, artifact, type, classifier), every import has type pom and can be
   fetched, and there are at most MaxImports of them, the managed list ProcessDependencies
   returns is Maven's: own entries, then the effective management of every import in order,
   depth first, the first entry of an identity winning; and the dependencies are the deduped
   ones with Maven's injection from that list.  Missing for the full statement: imports that
   repeat coordinates (refuted below, F-C15-3), imports that fail (Maven: error, Go: skipped). *)
Theorem C15_import_order_partial : forall get (p : project) (F : list Imports_proofs.itree),
  map Imports_proofs.root F = Imports_proofs.imps_of (p_mgmt p) ->
  (Imports_proofs.fsize F <= max_imports)%nat -> Imports_proofs.wf_all get F ->
  NoDup (flat_map Imports_proofs.keys F) ->
  let managed := map MavenModelSpec.with_type
                     (MavenModelSpec.first_wins (Imports_proofs.own_of (p_mgmt p)
                                                 ++ flat_map Imports_proofs.managed_of F)) in
  process_dependencies get p = Ok (map (fill_in managed) (dedupe_into [] (p_deps p)), managed).
Proof. exact Imports_proofs.process_dependencies_managed. Qed.
Print Assumptions C15_import_order_partial.

(* the order of the pipeline steps read from the sources on this run (mergeParents of the
   example program, fetchMavenParents of util/resolve) is the order the model implements *)
Theorem C15_documented_order :
  order_example_mergeParents = model_order_mergeParents /\
  order_resolve_fetchMavenParents = model_order_mergeParents.
Proof. exact Pipeline_proofs.documented_order. Qed.

(* ================= a whole-pipeline fragment ================= *)
(* A self-contained POM - no parent, no profiles, no import-scoped entry - whose texts hold no
   dollar sign (hence no placeholder), every entry with group and artifact, no identity declared
   twice (Fragment_proofs.simple_pom).  For EVERY such POM, every JDK oracle, setting and
   repository the whole model pipeline (MergeProfiles, mergeParents, Interpolate,
   ProcessDependencies) has this closed form: the managed list is the declared one with the
   default type made explicit, the dependencies are the declared ones injected from it. *)
Theorem C15_pipeline_on_simple_pom : forall (J : bytes -> bytes -> res bool) jdk os repo (p : project),
  Fragment_proofs.simple_pom p ->
  effective J jdk os repo p = Ok (Fragment_proofs.result_of p).
Proof. exact Fragment_proofs.model_on_simple. Qed.
Print Assumptions C15_pipeline_on_simple_pom.

(* On text without a dollar sign both interpolations - the Go scanner with its resolving set and
   the specification's substitution rounds - are the identity and report success, whatever the
   property tables. *)
Theorem C15_interpolation_agrees_plain : forall (dc : dict) (t : MavenModelSpec.table) (d : dependency),
  Fragment_proofs.plain_dep d ->
  interp_dep dc d = Ok (d, true) /\ MavenModelSpec.resolve_dep t d = (d, true).
Proof. exact Fragment_proofs.interpolation_agrees_plain. Qed.
Print Assumptions C15_interpolation_agrees_plain.

(* PARTIAL towards "model pipeline = specification" on this fragment: the model side is the theorem
   above; for the specification the interpolation step is proved (previous theorem) and selection,
   injection and the import rule are the piece theorems further up; NOT yet composed on the
   specification side: its cycle test of the property table, its validation step (finish) and the
   concluding step (conclude) on such a POM.  The example is an inhabitant of the fragment on which the
   specification is evaluated and gives exactly the closed form. *)
Example C15_simple_pom_example :
  Fragment_proofs.simple_pom Fragment_proofs.ex_simple /\
  forall J, MavenModelSpec.effective J [49;49] (mkOS [108] [] [] []) [] Fragment_proofs.ex_simple
            = MavenModelSpec.SOk (Fragment_proofs.result_of Fragment_proofs.ex_simple).
Proof. exact (conj Fragment_proofs.ex_simple_ok (fun J => proj1 (Fragment_proofs.ex_simple_spec J))). Qed.

(* ================= the full statement, and why it does not hold ================= *)

(* "the pipeline yields what Maven's rules yield", wherever the specification gives lists *)
Definition C15_full : Prop :=
  forall (J : bytes -> bytes -> res bool) jdk os repo root r,
    MavenModelSpec.effective J jdk os repo root = MavenModelSpec.SOk r ->
    effective J jdk os repo root = Ok r.

(* F-C15-1: one POM declares the same dependency twice (Maven: last wins; Go: first wins) *)
Theorem C15_refines_refuted_dup : Pipeline_proofs.disagree w_dup_jdk_table w_dup_repo w_dup_root.
Proof. exact Pipeline_proofs.w_dup_disagree. Qed.

(* F-C15-2: an active profile redeclares an entry of its project (Maven: profile wins) *)
Theorem C15_refines_refuted_profile : Pipeline_proofs.disagree w_profile_jdk_table w_profile_repo w_profile_root.
Proof. exact Pipeline_proofs.w_profile_disagree. Qed.

(* F-C15-3: a BOM imported at two versions (Maven: both; Go: the second is skipped) *)
Theorem C15_refines_refuted_bom2 : Pipeline_proofs.disagree w_bom2_jdk_table w_bom2_repo w_bom2_root.
Proof. exact Pipeline_proofs.w_bom2_disagree. Qed.

(* F-C15-4: project.parent.version inside an imported BOM (Go: unresolved, entry dropped) *)
Theorem C15_refines_refuted_bomparent : Pipeline_proofs.disagree w_bomparent_jdk_table w_bomparent_repo w_bomparent_root.
Proof. exact Pipeline_proofs.w_bomparent_disagree. Qed.

(* F-C15-5: a placeholder inside an exclusion (Go: not interpolated) *)
Theorem C15_refines_refuted_excl : Pipeline_proofs.disagree w_excl_jdk_table w_excl_repo w_excl_root.
Proof. exact Pipeline_proofs.w_excl_disagree. Qed.

(* F-C15-6: a plain JDK value (Maven: prefix of the JDK version; Go: same major and minor) *)
Theorem C15_refines_refuted_jdk : Pipeline_proofs.disagree w_jdk_jdk_table w_jdk_repo w_jdk_root.
Proof. exact Pipeline_proofs.w_jdk_disagree. Qed.

(* F-C15-9: a negated JDK value (Maven: negated prefix; Go: the constraint parser rejects it and the
   whole pipeline fails) *)
Theorem C15_refines_refuted_jdk_negated : exists e (r : list dependency * list dependency),
  effective w_jdkneg_jdk_table w_jdk w_os w_jdkneg_repo w_jdkneg_root = Err e /\
  MavenModelSpec.effective w_jdkneg_jdk_table w_jdk w_os w_jdkneg_repo w_jdkneg_root = MavenModelSpec.SOk r /\
  length (fst r) = 2%nat.
Proof. exact Pipeline_proofs.w_jdkneg_rejected. Qed.

(* the jdk condition as the specification itself evaluates it (JdkVersionProfileActivator): prefix,
   negated prefix, ranges by comparison of number triples, no claim beyond three numbers *)
Example C15_jdk_condition_examples :
  MavenModelSpec.jdk_expect [49;49] [49;49;46;48;46;56] = Some true /\                       (* 11 under 11.0.8 *)
  MavenModelSpec.jdk_expect [49;49;46;48;46;55] [49;49;46;48;46;56] = Some false /\          (* 11.0.7 *)
  MavenModelSpec.jdk_expect [33;49;46;56] [49;49;46;48;46;56] = Some true /\                 (* !1.8 *)
  MavenModelSpec.jdk_expect [91;49;49;44;49;55;41] [49;55;46;48;46;50] = Some false /\       (* [11,17) under 17.0.2 *)
  MavenModelSpec.jdk_expect [40;44;49;49;46;48;46;56;93] [49;49;46;48;46;56] = Some true /\  (* (,11.0.8] *)
  MavenModelSpec.jdk_expect [40;44;49;46;56;93] [49;46;56;46;48;95;50;57;50] = None.           (* (,1.8] under 1.8.0_292 *)
Proof. exact Pipeline_proofs.jdk_condition_examples. Qed.

Theorem C15_full_refuted : ~ C15_full.
Proof. exact Pipeline_proofs.full_refuted. Qed.
Print Assumptions C15_full_refuted.

(* Non-vacuity: lineages without those constructions on which model and specification give the
   same non-empty lists (inheritance with chained and overridden properties, built-ins, an
   OS-activated profile; a BOM with a parent, a nested import and a property-valued version). *)
Example C15_refines_example_inherit : Pipeline_proofs.agree w_ex_inherit_jdk_table w_ex_inherit_repo w_ex_inherit_root.
Proof. exact Pipeline_proofs.w_ex_inherit_agree. Qed.

(* a child overrides the classifier property of its parent with an empty element: the dependency
   loses the classifier and is managed by the parent's entry written with the same placeholder *)
Example C15_refines_example_empty_property : Pipeline_proofs.agree w_ex_empty_jdk_table w_ex_empty_repo w_ex_empty_root.
Proof. exact Pipeline_proofs.w_ex_empty_agree. Qed.

Example C15_refines_example_import : Pipeline_proofs.agree w_ex_import_jdk_table w_ex_import_repo w_ex_import_root.
Proof. exact Pipeline_proofs.w_ex_import_agree. Qed.
