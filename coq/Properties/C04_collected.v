(* C04 — totality obligations discharged in the models of the other properties, collected
   here so that the list of modelled entry points of C04 is in one place.  Each line only
   re-exports a theorem (same statement, same proof term) from the property file that owns
   the model; see those files for the statements and for Print Assumptions.

   semver.Parse (SemVer family), the operators table .......... Properties/C04.v
   Maven compare: the explicit panic(bCategory) is unreachable ... C01_maven_no_panic, C01_maven_compare_total
   PEP 508 markers: parser and Eval (incl. Eval's default panic) . C16_parse_no_panic, C16_eval_no_panic, C16_fuel_bound
   POM interpolation: terminates, no panic, no error ............ C15_interp_terminates, C15_interp_no_panic, C15_interp_total
   the whole POM pipeline (profiles, parents, imports, limits) ... C15_pipeline_total, C15_process_dependencies_total
   Graph.Canon: no panic (root kept), BFS fuel suffices .......... C13_total
   npm.Resolve: the three nil dereferences are unreachable ....... C06_no_panic
   pypi buildGraph on a returned state ........................... C08_graph_total
   semver.PyPI.Parse: a value or an error for every byte string .. C01_pypi_parse_total
   pypi.ParseDependency: total on every byte string ............... C16_parse_dependency_total
   pypi Resolve: no panic, terminates within the round limit ...... C08_resolve_total (every client and oracle)
   maven Resolve: no panic, one pass bounded by 1+|keys answered| . C07_resolve_total, C07_absorbed_unreachable
   semver.Maven.Parse / RubyGems.Parse and their compare .......... Properties/C04_mvngem.v
   ParseConstraint / parseSet / Union / Intersect / Match ......... Properties/C04_constraints.v
   semver.NuGet/.. comparison of parsed versions never fails ..... C01_family (compare = Ok)
   pypi.SdistVersion / pypi.ParseWheelName ........................ Properties/C04_pypifiles.v
   System.Difference / Version.Difference .......................... Properties/C04_difference.v *)
From DepsDev Require Properties.C07 Properties.C01_pypi Properties.C01_maven Properties.C13 Properties.C15 Properties.C16 Properties.C06 Properties.C08.

Definition C04_maven_compare_total := Properties.C01_maven.C01_maven_compare_total.
Definition C04_maven_no_panic := Properties.C01_maven.C01_maven_no_panic.
Definition C04_marker_eval_no_panic := Properties.C16.C16_eval_no_panic.
Definition C04_marker_parse_no_panic := Properties.C16.C16_parse_no_panic.
Definition C04_marker_fuel_bound := Properties.C16.C16_fuel_bound.
Definition C04_interp_terminates := Properties.C15.C15_interp_terminates.
Definition C04_interp_no_panic := Properties.C15.C15_interp_no_panic.
Definition C04_interp_total := Properties.C15.C15_interp_total.
Definition C04_pom_pipeline_total := Properties.C15.C15_pipeline_total.
Definition C04_canon_total := Properties.C13.C13_total.
Definition C04_pypi_parse_total := Properties.C01_pypi.C01_pypi_parse_total.
Definition C04_parse_dependency_total := Properties.C16.C16_parse_dependency_total.
Definition C04_pypi_resolve_total := @Properties.C08.C08_resolve_total.
Definition C04_maven_resolve_total := @Properties.C07.C07_resolve_total.
Check C04_maven_compare_total. Check C04_marker_eval_no_panic. Check C04_interp_total. Check C04_canon_total.
Print Assumptions C04_maven_compare_total.
Print Assumptions C04_marker_eval_no_panic.
Print Assumptions C04_interp_total.
Print Assumptions C04_pom_pipeline_total.
Print Assumptions C04_canon_total.
Print Assumptions C04_pypi_parse_total.
Print Assumptions C04_parse_dependency_total.
Print Assumptions C04_pypi_resolve_total.
Print Assumptions C04_maven_resolve_total.
