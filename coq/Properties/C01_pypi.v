(* C01, PyPI part: comparison of versions accepted by semver.PyPI.Parse is a total
   preorder.  Statements only; proofs in Semver/Pep440_proofs.v (comparator) and
   Semver/Pep440Parse_proofs.v (parser).

   The comparator laws hold on ALL parsed structures (any list of numbers, wildcard
   and infinity included, any extension record): no well-formedness of the parser
   output is needed, so the domain predicate of the comparator laws is True and the
   parser only has to deliver a PyPI version with a PEP 440 extension. *)
From Coq Require Import List ZArith.
From DepsDev Require Import Lib.Base Lib.Order Semver.Version Semver.Pep440 Semver.Pep440Parse Semver.Compare
  Semver.Pep440_proofs Semver.Pep440Parse_proofs.
Import ListNotations.
Local Open Scope Z_scope.

(* pep440Extension.compare on (numbers, extension) pairs is a total preorder. *)
Theorem C01_pypi_laws : cmp_laws (fun _ : list Z * option pep440 => True) pypi_cmp.
Proof. exact pypi_cmp_laws. Qed.
Print Assumptions C01_pypi_laws.

(* Parse delivers a PyPI version with a PEP 440 extension and no build metadata. *)
Theorem C01_pypi_parsed s v : parse_pypi s = Ok v -> is_pypi v /\ v_build v = [].
Proof. exact (parse_pypi_is_pypi s v). Qed.
Print Assumptions C01_pypi_parsed.

(* Parse neither panics nor diverges. *)
Theorem C01_pypi_parse_total s : exists r, parse_pypi s = Ok r \/ exists e, parse_pypi s = Err e.
Proof. exact (parse_pypi_total s). Qed.
Print Assumptions C01_pypi_parse_total.

(* compare() of version.go on two PyPI versions never panics and is pypi_cmp. *)
Theorem C01_pypi_compare a b : is_pypi a -> is_pypi b ->
  compare a b = Ok (pypi_cmp (v_num a, ext_of a) (v_num b, ext_of b)).
Proof. exact (compare_pypi a b). Qed.
Print Assumptions C01_pypi_compare.

(* The four laws for compare() of Compare.v on PyPI versions. *)
Theorem C01_pypi_version_laws : cmp_laws is_pypi vcmp.
Proof. exact vcmp_laws. Qed.
Print Assumptions C01_pypi_version_laws.

(* The property as stated: any three strings accepted by Parse. *)
Theorem C01_pypi_strings s1 s2 s3 v1 v2 v3 :
  parse_pypi s1 = Ok v1 -> parse_pypi s2 = Ok v2 -> parse_pypi s3 = Ok v3 ->
  vcmp v1 v1 = 0 /\
  Z.sgn (vcmp v1 v2) = - Z.sgn (vcmp v2 v1) /\
  (vcmp v1 v2 <= 0 -> vcmp v2 v3 <= 0 -> vcmp v1 v3 <= 0) /\
  (vcmp v1 v2 = 0 -> Z.sgn (vcmp v1 v3) = Z.sgn (vcmp v2 v3)).
Proof. exact (vcmp_strings s1 s2 s3 v1 v2 v3). Qed.
Print Assumptions C01_pypi_strings.

(* Build metadata: PEP 440 has none (the local segment is significant).  The parser
   leaves v.build empty (C01_pypi_parsed) and the comparator does not read it. *)
Theorem C01_pypi_build_ignored a b x y : is_pypi a -> is_pypi b ->
  vcmp (with_build a x) (with_build b y) = vcmp a b.
Proof. exact (vcmp_build a b x y). Qed.
Print Assumptions C01_pypi_build_ignored.

Example C01_pypi_inhabited :
  exists v, parse_pypi [49; 46; 48; 97; 49]%N = Ok v /\ is_pypi v.
Proof. eexists. split; [vm_compute; reflexivity|]. split; [reflexivity | eexists; reflexivity]. Qed.
