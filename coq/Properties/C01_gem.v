(* C01, RubyGems part: version comparison is a total preorder.  Statements only. *)
From DepsDev Require Import Lib.Base Lib.Order Semver.Version Semver.Compare Semver.Gem Semver.GemDomain
  Semver.GemParse Semver.Gem_proofs.
Local Open Scope Z_scope.

(* The full statement: over all versions the parser produces. *)
Definition C01_gem_full : Prop := exists c : version -> version -> Z,
  (forall a b sa sb, gem_parse sa = Ok a -> gem_parse sb = Ok b -> compare a b = Ok (c a b)) /\
  cmp_laws (fun v => exists s, gem_parse s = Ok v) c.

(* It is false on the code as it stands (F-C01-3): Compare(1.a, 1.a.00) = -1 and
   Compare(1.a.00, 1.a) = 0.  The comparator ends with: if len(bs) > len(as) return -1;
   since equal numerals continue (da56cb5) that line is reached when the extra elements are
   numerals of value 0 spelled 00. *)
Theorem C01_gem_refuted : ~ C01_gem_full.
Proof.
  intros [c [Hc L]]. destruct gem_antisym_witness as [va [vb [Pa [Pb [C1 C2]]]]].
  pose proof (Hc va vb _ _ Pa Pb) as E1. pose proof (Hc vb va _ _ Pb Pa) as E2.
  rewrite C1 in E1. rewrite C2 in E2. inversion E1 as [E1']. inversion E2 as [E2'].
  pose proof (cl_antisym _ _ L va vb (ex_intro _ _ Pa) (ex_intro _ _ Pb)) as A.
  rewrite <- E1', <- E2' in A. discriminate.
Qed.
Print Assumptions C01_gem_refuted.

(* What holds: on every RubyGems version structure (any numbers, any elements) whose element
   list does not end in a numeral of value 0, compare never fails and is reflexive,
   sign-antisymmetric, transitive and congruent: it orders by the zero-padded numbers, then
   release above prerelease, then the elements padded with ("0",0), numerals above words. *)
Theorem C01_gem_partial : exists c : version -> version -> Z,
  (forall a b, gem_dom a -> gem_dom b -> compare a b = Ok (c a b)) /\ cmp_laws gem_dom c.
Proof. exact gem_laws. Qed.
Print Assumptions C01_gem_partial.

(* Every accepted string yields a structure of that kind, up to the condition on the last
   element, which is the boolean gem_c01_dom shared with the harness. *)
Theorem C01_gem_parser_outputs : forall s v, gem_parse s = Ok v -> gem_c01_dom v = true -> gem_dom v.
Proof. exact gem_parse_dom. Qed.
Print Assumptions C01_gem_parser_outputs.

(* The comparison is the stated key order. *)
Theorem C01_gem_key : forall na nb xs ys, gem_last_ok xs = true -> gem_last_ok ys = true ->
  gem_compare na nb xs ys = gem_key_cmp (na, xs) (nb, ys).
Proof. exact gem_compare_key. Qed.
Print Assumptions C01_gem_key.

(* Non-vacuity: 1.a and 1.a.01 are accepted, in the domain, and ordered. *)
Example C01_gem_nonvacuous : exists va vb,
  gem_parse s_1a = Ok va /\ gem_parse s_1a01 = Ok vb /\ gem_dom va /\ gem_dom vb /\ compare va vb = Ok (-1).
Proof. exact gem_domain_nonvacuous. Qed.
