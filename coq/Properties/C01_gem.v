(* C01, RubyGems part: version comparison is a total preorder.  Statements only. *)
From DepsDev Require Import Lib.Base Lib.Order Semver.Version Semver.Compare Semver.Gem Semver.GemDomain
  Semver.GemParse Semver.Gem_proofs.
Local Open Scope Z_scope.

(* On every RubyGems version structure (any numbers, any elements: no well-formedness is
   needed) compare never fails and is reflexive, sign-antisymmetric, transitive and
   congruent. *)
Theorem C01_gem : exists c : version -> version -> Z,
  (forall a b, gem_dom a -> gem_dom b -> compare a b = Ok (c a b)) /\ cmp_laws gem_dom c.
Proof. exact gem_laws. Qed.
Print Assumptions C01_gem.

(* Every string accepted by Parse yields such a structure, so the laws hold over all triples
   of accepted strings. *)
Theorem C01_gem_parser_outputs : forall s v, gem_parse s = Ok v -> gem_dom v.
Proof. exact gem_parse_dom. Qed.
Print Assumptions C01_gem_parser_outputs.

(* The order is that of an explicit key: the numbers zero-padded, then a release above every
   prerelease, then the elements compared one by one, the shorter list padded with ("0",0),
   numerals above words, numerals by value, words by their bytes. *)
Theorem C01_gem_key : forall na nb xs ys, gem_compare na nb xs ys = gem_key_cmp (na, xs) (nb, ys).
Proof. exact gem_compare_key. Qed.
Print Assumptions C01_gem_key.

(* Non-vacuity, with the pair of the repaired finding F-C01-3 (the final length test, removed
   by c398aba): 1.a = 1.a.00 in both directions, both below 1.a.01. *)
Example C01_gem_nonvacuous :
  match gem_parse s_1a, gem_parse s_1a00, gem_parse s_1a01 with
  | Ok a, Ok b, Ok c => compare a b = Ok 0 /\ compare b a = Ok 0 /\ compare a c = Ok (-1) /\ compare b c = Ok (-1)
  | _, _, _ => False
  end.
Proof. exact gem_examples. Qed.
