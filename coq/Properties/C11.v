(* C11 - statements are added below as the proofs are completed. *)
From DepsDev Require Import Lib.Base Semver.Version Semver.Constraint.
