(* C11 - the textual form of a constraint set parses back to the same set.

   Statements only; proofs are in Semver/C11_proofs.v and Semver/C11_witness.v.
   The version parser is a parameter pv of the model.  That a BOUND is read back from its
   canonical text (by System.parse, with allowInfinity for an upper bound, by System.Parse for a
   single version) as a version that prints alike and compares alike is property C10 applied to
   the bound; it is the hypothesis span_ok below and is exercised on every generated bound by the
   correspondence run.  Everything the set and span syntax adds is proved.
   Two recorded counterexamples show that the hypothesis is not always met by the real parser. *)
From Coq Require Import String.
From DepsDev Require Import Lib.Base Semver.Version Semver.Compare Semver.Span Semver.Interval Semver.Set Semver.Constraint
     Semver.C11_proofs Semver.Witness Semver.C11_witness Semver.C11_region.
Local Open Scope Z_scope.

(* printing a span and parsing the text gives back the span (with re-read bounds), which prints
   identically and contains the same versions *)
Theorem C11_span_round_trip : forall pv S s s', span_ok pv S s s' ->
  exists str simple, span_string s = Ok str /\ parse_span pv S str = Ok (s', simple) /\ span_string s' = Ok str /\
    ~ In 44%N str /\ str <> [] /\
    forall v, span_contains s' v true = span_contains s v true.
Proof. exact span_round_trip. Qed.
Print Assumptions C11_span_round_trip.

(* the property: the printed set is accepted by ParseSetConstraint, prints identically, and under
   prerelease-inclusive matching matches exactly the same versions (of every system but PyPI,
   whose matching looks at more than the order of the bounds and which C11 does not cover).
   Partial: the bounds must be read back (span_ok), which is C10 on the bounds; the set must have
   at least one span (always true of a parsed constraint). *)
Theorem C11_reparse_partial : forall pv S (c : constraint) (l' : list span),
  set_span (c_set c) <> [] -> Forall2 (span_ok pv S) (set_span (c_set c)) l' ->
  exists str c', set_string (c_set c) = Ok str /\ parse_set_constraint pv S str = Ok c' /\
    set_string (c_set c') = Ok str /\
    forall v, sys_eqb (v_sys v) SPyPI = false -> match_version_prerelease c' v = match_version_prerelease c v.
Proof. exact set_round_trip. Qed.
Print Assumptions C11_reparse_partial.

(* the same with a hypothesis that can be COMPUTED: set_ok_b checks, bound by bound, that the
   parser answers the canonical text of the bound with a version that has the same system,
   numbers, prerelease elements and canonical text and no extension object.  The harness
   evaluates c11_region on every generated set, reports the share inside, and treats a failed
   round trip inside the region as a contradiction between model and theorem. *)
Theorem C11_reparse_checked : forall pv S (c : constraint) (l' : list span),
  set_span (c_set c) <> [] -> set_ok_b pv S (set_span (c_set c)) = Some l' ->
  exists str c', set_string (c_set c) = Ok str /\ parse_set_constraint pv S str = Ok c' /\
    set_string (c_set c') = Ok str /\
    forall v, sys_eqb (v_sys v) SPyPI = false -> match_version_prerelease c' v = match_version_prerelease c v.
Proof. exact set_round_trip_checked. Qed.
Print Assumptions C11_reparse_checked.

Theorem C11_region_sound : forall pv S l l', set_ok_b pv S l = Some l' -> Forall2 (span_ok pv S) l l'.
Proof. exact set_ok_b_sound. Qed.
Print Assumptions C11_region_sound.

(* the hypothesis is met, for instance, by ^1.2.0 = {[1.2.0:1.inf.inf]} *)
Example C11_hypothesis_inhabited :
  exists c l', parse_constraint pv_w SNPM (b "^1.2.0") = Ok c /\ set_span (c_set c) <> [] /\
               Forall2 (span_ok pv_w SNPM) (set_span (c_set c)) l'.
Proof. exact span_ok_inhabited. Qed.

(* strings.Split on a joined list gives the list back *)
Theorem C11_split_join : forall sep l, l <> [] -> Forall (fun x => ~ In sep x) l -> split_on sep (join sep l) [] = l.
Proof. exact split_on_join. Qed.
Print Assumptions C11_split_join.

(* ------------------------------------------------------------------ the two counterexamples *)
(* with the parser answers recorded from Go (Semver/Witness.v): NuGet `1.2.3.*` prints
   {[1.2.3.0:inf.inf.inf.inf)}; the bound 1.2.3.0 is read back as 1.2.3 and the text changes *)
Theorem C11_nuget_text_refuted : ~ C11_full_for pv_w.
Proof. exact nuget_text_refuted. Qed.
Print Assumptions C11_nuget_text_refuted.

(* Cargo `>10.10.9223372036854775806` prints {[10.10.inf:inf.inf.inf]}: inc reaches infinity in
   a LOWER bound, which is parsed without allowInfinity, and the printed set is rejected *)
Theorem C11_inf_lower_refuted : ~ C11_full_for pv_w.
Proof. exact inf_lower_refuted. Qed.
Print Assumptions C11_inf_lower_refuted.
