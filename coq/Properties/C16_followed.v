(* C16, "a dependency guarded by a marker is followed during resolution exactly when packaging
   evaluates the marker to true ... with the requested extras", at the level of the PyPI resolver
   model of C08 (Resolve/Pypi.v) instantiated with the marker model of C16.
   For EVERY client, every root, every bound on the rounds; the PEP 440 oracles are tied by the
   C03 interface hypothesis of C16_marker_partial.  A requirement is [guarded_by d E m] when its
   Environment attribute is the printed text of a well-formed marker tree m that lies in the
   proved domain for the extras E.  Statements only. *)
From DepsDev Require Import Lib.Base Gen.PypiEnvTables Gen.PypiTables Pypi.PyStr Resolve.Markers Resolve.Markers_spec_proofs
  Resolve.Pypi Resolve.Pypi_inv_proofs Resolve.Pypi_proofs Resolve.Pypi_markers_proofs Spec.Pep508Spec Spec.Pep508Domain.

Definition C03_interface (valid : bytes -> bool) (sat : N -> bytes -> bytes -> res bool)
    (spec_sat : N -> bytes -> bytes -> option bool) : Prop :=
  forall o rhs lhs b, is_word_op o = false -> valid lhs = true -> valid rhs = true ->
    spec_sat (cop_num o) rhs lhs = Some b -> sat (cop_num o) rhs lhs = Ok b.

(* getDependencies (the one place of resolve.go where a marker decides anything): of the
   requirements the client reports for v it keeps exactly those without a marker and those whose
   marker packaging evaluates to true for the extras E with which v's package is asked for *)
Theorem C16_get_dependencies_exact :
  forall c_requirements valid sat spec_sat, C03_interface valid sat spec_sat -> (forall o a b, sat o a b <> OutOfFuel) ->
  forall v E deps,
  get_dependencies c_requirements (marker_result valid sat) v E = Ok deps ->
  exists l, client_err (c_requirements v) = Ok l /\
    forall d, (In d deps <-> In d l /\ keep (marker_result valid sat) E d = Ok true) /\
              (dt_get (rq_type d) dep_key_environment = None -> (In d deps <-> In d l)) /\
              (forall m, guarded_by valid spec_sat d E m ->
                 (In d deps <-> In d l /\ Pep508Spec.eval target_env spec_sat E m = Some true)).
Proof. intros cr valid sat spec_sat SA NF. exact (get_dependencies_exact cr valid sat spec_sat SA NF). Qed.
Print Assumptions C16_get_dependencies_exact.

(* ONLY IF on the resolved graph: every edge carries a requirement d of (a version of) its source
   whose marker, when guarded_by d E m, packaging evaluates to true for a set E of extras each of
   which some requirement on the source's package requests.
   PARTIAL with respect to the property text: E is the union of extras in force when the source
   was pinned; it may contain extras requested only by versions that are no longer in the graph
   (C08's finding F-C08-3), so "the requested extras" is "extras requested by some known
   requirement on that package". *)
Theorem C16_followed_only_if_partial :
  forall c_versions c_requirements c_matching has_pre constraint_ok match_pre ver_lt root valid sat spec_sat,
  C03_interface valid sat spec_sat -> (forall o a b, sat o a b <> OutOfFuel) ->
  forall fuel g f t rqv ty,
  client_wf c_versions c_requirements c_matching ->
  resolve_fuel c_versions c_requirements c_matching (marker_result valid sat) has_pre constraint_ok match_pre ver_lt root fuel = Ok g ->
  In (f, t, rqv, ty) (g_edges g) ->
  exists fv tv par d E l,
    nth_error (g_nodes g) f = Some fv /\ nth_error (g_nodes g) t = Some tv /\
    (vk_name par = vk_name fv \/ (par = vkey_zero /\ fv = root)) /\
    c_requirements par = Ok l /\ In d l /\
    rq_ver d = rqv /\ rq_type d = ty /\ rq_name d = vk_name tv /\
    (forall m, guarded_by valid spec_sat d E m -> Pep508Spec.eval target_env spec_sat E m = Some true) /\
    (forall e, In e E -> exists par' d' l', c_requirements par' = Ok l' /\ In d' l' /\
                          rq_name d' = vk_name par /\ In e (extras_of_type (rq_type d'))).
Proof.
  intros cv cr cm hp co mp vl root valid sat spec_sat SA NF.
  exact (edge_only_if_marker_true cv cr cm hp co mp vl root valid sat spec_sat SA NF).
Qed.
Print Assumptions C16_followed_only_if_partial.

(* IF on the resolved graph: for every node other than the root there is a set E of extras such
   that the requirements of that node kept by packaging's evaluation for E (and the unguarded
   ones) are exactly a list deps for which the graph is complete (complete_for: every member of
   deps that is the last one for its package has its edge to the selected version of it).
   PARTIAL: E exists but may be smaller than the extras finally requested of the node (C08's
   finding F-C08-2). *)
Theorem C16_followed_if_partial :
  forall c_versions c_requirements c_matching has_pre constraint_ok match_pre ver_lt root valid sat spec_sat,
  C03_interface valid sat spec_sat -> (forall o a b, sat o a b <> OutOfFuel) ->
  forall fuel g,
  client_wf c_versions c_requirements c_matching ->
  resolve_fuel c_versions c_requirements c_matching (marker_result valid sat) has_pre constraint_ok match_pre ver_lt root fuel = Ok g ->
  forall i v, nth_error (g_nodes g) i = Some v -> v <> root -> v <> vkey_zero ->
  exists E deps l,
    client_err (c_requirements v) = Ok l /\
    (forall d m, guarded_by valid spec_sat d E m ->
       (In d deps <-> In d l /\ Pep508Spec.eval target_env spec_sat E m = Some true)) /\
    (forall d, dt_get (rq_type d) dep_key_environment = None -> (In d deps <-> In d l)) /\
    complete_for c_versions c_matching has_pre constraint_ok match_pre ver_lt root g i deps.
Proof.
  intros cv cr cm hp co mp vl root valid sat spec_sat SA NF.
  exact (edges_if_marker_true cv cr cm hp co mp vl root valid sat spec_sat SA NF).
Qed.
Print Assumptions C16_followed_if_partial.

(* the hypotheses are inhabited: a requirement guarded by  extra == "test" and python_version >= "3.8",
   asked for with extras test and dev, is guarded_by a tree of the domain and is kept;
   asked for without extras it is dropped *)
Example C16_followed_nonvacuous :
  let valid := fun _ : bytes => true in
  let sat := fun (o : N) (rhs lhs : bytes) => Ok true in
  let spec := fun (o : N) (rhs lhs : bytes) => Some true in
  let m := TAnd (atom1 (AVarLit VExtra CEq (dq [116;101;115;116]))) [false]
                (atom1 (AVarLit VPythonVersion CGe (dq [51;46;56]))) in
  let d := {| rq_key := {| vk_name := [103]; vk_type := 0%N; vk_ver := [] |};
              rq_type := [(dep_key_environment, print_marker m [])] |} in
  let E := [[116;101;115;116]; [100;101;118]] in
  C03_interface valid sat spec /\
  guarded_by valid spec d E m /\ guarded_by valid spec d [] m /\
  keep (marker_result valid sat) E d = Ok true /\ Pep508Spec.eval target_env spec E m = Some true /\
  keep (marker_result valid sat) [] d = Ok false /\ Pep508Spec.eval target_env spec [] m = Some false.
Proof.
  cbv zeta. split; [intros o rhs lhs b _ _ _ H; inversion H; reflexivity|].
  split; [exists []; vm_compute; repeat split; reflexivity|].
  split; [exists []; vm_compute; repeat split; reflexivity|].
  vm_compute. repeat split; reflexivity.
Qed.
