(* C13 -- Graph canonicalisation yields one representative per isomorphism class.
   Statements only; each is closed by [exact] of a lemma proved elsewhere.

   canon scan g  is the model of Graph.Canon (Resolve/Graph.v):
     scan = false : the duplicate flag is the side effect of orderedNodes.Less under
                    Go's insertion sort (the code as it is, finding F-C13-1);
     scan = true  : the duplicate flag is computed from the sorted nodes (proposed repair).
   iso pi g g'    : g' is g with the nodes renumbered by pi (pi keeps the root) and the
                    edges and the per-node errors reordered (Resolve/Graph_spec.v).
   graph_wf g     : edge ends are node ids of g (what AddEdge guarantees) and dependency
                    types are values (Compare = 0 only between identical types).
   All statements quantify over all graphs and all renumberings; no size bound. *)
From DepsDev Require Import Lib.Base Lib.Order Lib.SortZ Lib.SortSpec Gen.GraphTables
  Resolve.Attr Resolve.Attr_proofs Resolve.Graph Resolve.Graph_spec Resolve.Graph_cmp_proofs Resolve.Graph_wf_proofs Resolve.Graph_proofs.

(* The full statement, for either way of computing the duplicate flag. *)
Definition C13_invariance (scan : bool) : Prop :=
  forall pi g g', graph_wf g -> iso pi g g' -> canon scan g = canon scan g'.

(* Renumbering the non-root nodes and reordering edges and per-node errors does not change
   the result of Canon: both calls return the same graph, or both fail (with the same
   error).  This includes graphs in which a version occurs as several nodes. *)
Theorem C13_invariant : C13_invariance true.
Proof. exact canon_invariant. Qed.
Print Assumptions C13_invariant.

(* Canon preserves the graph up to such a renumbering: the root stays at index 0, the nodes
   keep their versions and (as multisets) their errors, every edge is kept with its
   requirement and type between the renumbered ends, the graph error is kept. *)
Theorem C13_preserves : forall g h, graph_wf g -> canon true g = Ok h -> exists pi, iso pi g h.
Proof. exact canon_preserves. Qed.
Print Assumptions C13_preserves.

(* Canon is idempotent. *)
Theorem C13_idem : forall g h, graph_wf g -> canon true g = Ok h -> canon true h = Ok h.
Proof. exact canon_idem. Qed.
Print Assumptions C13_idem.

(* Canon does not panic on a well-formed graph, and the fuel of the model's BFS loop
   (number of edges + 2) is never exhausted: the outcome is a graph or an error. *)
Theorem C13_total : forall g, graph_wf g -> exists r, canon true g = r /\
  match r with Ok _ | Err _ => True | _ => False end.
Proof. exact canon_total. Qed.
Print Assumptions C13_total.

(* The comparisons the sorts rely on are total preorders whose equivalence is equality,
   so "the sorted list" does not depend on the sorting algorithm (Lib/SortSpec). *)
Theorem C13_node_order : cmp_laws (fun _ => True) node_compare /\ forall a b, node_compare a b = 0%Z <-> a = b.
Proof. exact (conj node_laws node_compare_eq). Qed.
Print Assumptions C13_node_order.

Theorem C13_edge_order : cmp_laws (fun _ => True) edge_compare.
Proof. exact edge_laws. Qed.

Theorem C13_sorted_perm_unique : forall (A : Type) (c : A -> A -> Z) (P : A -> Prop), cmp_laws P c ->
  forall l1 l2, Forall P l1 -> Permutation.Permutation l1 l2 -> sorted c l1 -> sorted c l2 -> eq_on c l1 -> l1 = l2.
Proof. exact @sorted_perm_unique. Qed.
Print Assumptions C13_sorted_perm_unique.

(* Dependency types built by AddAttr from the empty type are values in canonical form, and
   canonical values compare equal only when identical: graph_wf holds of every graph the
   harness (or AddEdge) can build. *)
Theorem C13_types_canonical : forall ts, Forall dtype_wf ts -> types_canonical ts.
Proof. exact types_canonical_of_wf. Qed.
Print Assumptions C13_types_canonical.

(* The comparison of dependency types used for the edge order is the Compare of the
   attribute-set model of C19, on every state its operations can reach. *)
Theorem C13_type_compare_is_C19 : forall ops v w, Forall Attr_proofs.no_assign ops ->
  let s := run ops in
  set_compare s (vars s v) (vars s w) =
  dtype_compare (mask (vars s v), map_of s (vars s v)) (mask (vars s w), map_of s (vars s w)).
Proof. intros ops v w H. exact (set_compare_is_dtype_compare (run ops) v w (Attr_proofs.run_inv ops H)). Qed.
Print Assumptions C13_type_compare_is_C19.

(* The model of the tree is the variant the translator read from the sources. *)
Theorem C13_current_variant : canon_current = canon canon_dupe_by_scan.
Proof. reflexivity. Qed.

(* With the duplicate flag set inside Less (the code as it is) invariance is false:
   b@1(root) a@1 b@1 c@1, edges 0->3 3->2 3->1, and the same graph with nodes 1 and 2
   exchanged get different canonical forms (known finding F-C13-1). *)
Theorem C13_invariant_refuted : ~ C13_invariance false.
Proof. intros H. exact (canon_less_witness (H w_pi w_g w_g' w_wf w_iso)). Qed.
Print Assumptions C13_invariant_refuted.

(* ... and with parallel edges one numbering succeeds while the other fails. *)
Theorem C13_invariant_refuted_parallel :
  graph_wf w2_g /\ iso w2_pi w2_g w2_g' /\
  (exists h, canon false w2_g = Ok h) /\ canon false w2_g' = Err EDupDirect.
Proof. exact (conj w2_wf (conj w2_iso canon_less_witness_parallel)). Qed.

(* ... and idempotence fails too (the breadth-first order it produces is not a fixed point). *)
Theorem C13_idem_refuted : exists g h, graph_wf g /\ canon false g = Ok h /\ canon false h <> Ok h.
Proof.
  destruct canon_less_not_idem as (h & E & N). exists w_g', h. split; [|auto].
  split; [unfold w_g', in_range; cbn [g_nodes g_edges length]; repeat constructor; simpl; auto with arith
         | apply w_types_canonical; repeat constructor].
Qed.
Print Assumptions C13_idem_refuted.

(* Non-vacuity: the hypotheses are met by a graph with a duplicated version, a renumbering
   that is not the identity, and a run that takes the breadth-first path and succeeds. *)
Example C13_nonvacuous :
  graph_wf w_g /\ iso w_pi w_g w_g' /\ w_pi <> seq 0 4 /\
  scan_dupe_nodes (nodes2 w_g) = true /\ exists h, canon true w_g = Ok h /\ g_nodes h <> g_nodes w_g.
Proof.
  split; [exact w_wf|]. split; [exact w_iso|]. split; [discriminate|]. exact canon_scan_nontrivial.
Qed.
