(* C19 — Dependency types and version attributes are values with a faithful text form.
   Statements only; each is closed by [exact] of a lemma proved elsewhere. *)
From DepsDev Require Import Lib.Base Lib.Order Gen.AttrTables Resolve.Attr Resolve.Attr_proofs Resolve.Attr_text.

(* Every state reachable by set/add/clone operations (the quantifier of C19) satisfies
   the no-sharing invariant. *)
Theorem C19_inv_reachable : forall ops, Forall no_assign ops -> Inv (run ops).
Proof. exact run_inv. Qed.
Print Assumptions C19_inv_reachable.

(* Compare is a total preorder (reflexive, sign-antisymmetric, transitive, congruent)
   on all sets of any state. *)
Theorem C19_total_order : forall s, cmp_laws (fun _ => True) (set_compare s).
Proof. exact set_compare_laws. Qed.
Print Assumptions C19_total_order.

(* ... in which two sets are equal exactly when they hold the same flags and the same
   key/value pairs. *)
Theorem C19_eq : forall ops v w, Forall no_assign ops ->
  let s := run ops in
  set_compare s (vars s v) (vars s w) = 0%Z <->
  (flags s v = flags s w /\ forall k, content s v k = content s w k).
Proof. intros ops v w H. exact (compare_eq_iff (run ops) v w (run_inv ops H)). Qed.
Print Assumptions C19_eq.

(* A clone is equal to its original ... *)
Theorem C19_clone_eq : forall ops dst src, Forall no_assign ops ->
  let s := fst (step (run ops) (OClone dst src)) in
  set_compare s (vars s dst) (vars s src) = 0%Z.
Proof. exact clone_equal. Qed.
Print Assumptions C19_clone_eq.

(* ... and stays so whatever is later done to the other one: operations that do not
   assign to w leave every observation of w (flags, key/value pairs) unchanged. *)
Theorem C19_clone_independent : forall ops later w, Forall no_assign ops -> Forall no_assign later ->
  Forall (fun o => w <> target o) later ->
  same_value (fold_left (fun s o => fst (step s o)) later (run ops)) w (run ops) w.
Proof. intros ops later w H1 H2 H3. exact (run_frame (run ops) later w (run_inv ops H1) H2 H3). Qed.
Print Assumptions C19_clone_independent.

(* Outside the quantifier: a plain Go assignment followed by an add on the copy makes the
   original answer GetAttr for a key its Compare ignores (DESIGN F-C19-1). *)
Theorem C19_assign_breaks_value_semantics : exists ops v,
  let s := run ops in
  fst (get_attr s (vars s v) 3) <> [] /\ N.testbit (abits (vars s v)) 3 = false.
Proof. exact assign_witness. Qed.

(* Text form, versiontest: String then ParseString returns exactly the present (key, value)
   pairs of the set, in schema order, for every set of every state whose valued keys carry
   non-empty, space-free ASCII values (the space-separated syntax cannot carry others:
   the two C19_ver_roundtrip_refuted theorems).  For dependency types (quoted values, deptest.ParseString)
   the composition is decided by the correspondence check and the direct oracle; the
   ingredients proved are below. *)
Theorem C19_ver_roundtrip : forall s a,
  forallb ver_pair_ok (present s a vertest_all_keys) = true ->
  ver_parse (ver_write s a) = PVal (present s a vertest_all_keys).
Proof. exact ver_roundtrip. Qed.
Print Assumptions C19_ver_roundtrip.

Example C19_ver_roundtrip_nonvacuous :
  let s := build [(1, [110; 97; 109; 101]%N); ((-1), []); (10, [108; 97; 116; 101; 115; 116]%N)]%Z in
  forallb ver_pair_ok (present s (vars s 0%nat) vertest_all_keys) = true /\
  present s (vars s 0%nat) vertest_all_keys =
    [((-1), []); (1, [110; 97; 109; 101]%N); (10, [108; 97; 116; 101; 115; 116]%N)]%Z.
Proof. vm_compute. split; reflexivity. Qed.

Theorem C19_fields_join_partial : forall items,
  forallb token_ok items = true -> fields (join [32%N] items) = items.
Proof. exact fields_join. Qed.
Print Assumptions C19_fields_join_partial.

Theorem C19_dictionaries_ok :
  dict_ok dep_keys deptest_all_keys = true /\ dict_ok ver_keys vertest_all_keys = true.
Proof. exact (conj dep_dict_ok ver_dict_ok). Qed.
Print Assumptions C19_dictionaries_ok.

(* The unrestricted round trip of versiontest.String is false (F-C19-3). *)
Theorem C19_ver_roundtrip_refuted_empty : exists ps,
  let s := build ps in ver_parse (ver_write s (vars s 0%nat)) = PErr.
Proof. exact ver_roundtrip_empty_witness. Qed.

Theorem C19_ver_roundtrip_refuted_space : exists (ps ps' : pairs),
  let s := build ps in ver_parse (ver_write s (vars s 0%nat)) = PVal ps' /\
  built_compare ps ps' <> 0%Z.
Proof. exact ver_roundtrip_space_witness. Qed.

(* Non-vacuity: a non-trivial history meets the hypotheses and distinguishes sets. *)
Example C19_nonvacuous :
  let ops := [OSet 0 3 [112%N]; OClone 1 0; OSet 1 (-1) []; OSet 2 3 [113%N]] in
  Forall no_assign ops /\
  let s := run ops in
  set_compare s (vars s 0%nat) (vars s 1%nat) <> 0%Z /\ set_compare s (vars s 0%nat) (vars s 2%nat) <> 0%Z.
Proof. split; [repeat constructor | vm_compute; split; discriminate]. Qed.
