(* C18, "race-free": the bundle map is only written under the exclusive lock, and only read under
   a lock.  The lock modes are those of the Go source (regenerated table api_map_functions: for
   every function of api.go touching a.bundledVersions, whether it writes the map and which
   methods of bundledVersionsMu it calls); the critical sections are those of the state-machine
   model.  This is what justifies running each call as one atomic step in C18_interleaving.
   What stays outside: that the Go runtime implements sync.(RW)Mutex, and data reachable through
   the stored values after the lock is released (the race detector runs cover that part). *)
From DepsDev Require Import Lib.Base Resolve.ApiClient Resolve.ApiLock Resolve.ApiLock_proofs.

(* the modes read from the working tree *)
Theorem C18_lock_modes : writer_mode = LExclusive /\ reader_mode <> LNone.
Proof. exact source_modes. Qed.
Print Assumptions C18_lock_modes.

(* with them, for every service and any two calls, two critical sections of which one writes the
   map never overlap *)
Theorem C18_lock_race_free : race_free reader_mode writer_mode.
Proof. exact source_race_free. Qed.
Print Assumptions C18_lock_race_free.

(* every call that changes the map does so inside a write section (the sections are not vacuous) *)
Theorem C18_lock_writes_in_sections : forall rm wm svc mr st o,
  snd (step svc mr st o) <> st -> In (CS wm AccWrite) (sections_of rm wm svc o).
Proof. exact write_section_when_state_changes. Qed.
Print Assumptions C18_lock_writes_in_sections.

(* refuted variants: the writer under the shared lock (RLock on the store path), or a reader
   without a lock, admit two conflicting sections at once *)
Theorem C18_lock_shared_writer_refuted : ~ race_free LShared LShared.
Proof. exact shared_writer_races. Qed.
Theorem C18_lock_unlocked_reader_refuted : ~ race_free LNone LExclusive.
Proof. exact unlocked_reader_races. Qed.

(* inhabited: a call with a write section, a call with a read section *)
Example C18_lock_example :
  let svc := Service (fun _ => Err ENotFound) (fun _ _ => Err ENotFound)
                     (fun _ _ => Ok (NpmReqs (Deps [] [] [] [] []) [])) in
  sections_of reader_mode writer_mode svc (ORequirements (VK [97] Concrete [49])) = [CS LExclusive AccWrite] /\
  sections_of reader_mode writer_mode svc (OVersions [97;62;49;62;98]) = [CS reader_mode AccRead].
Proof. vm_compute. split; reflexivity. Qed.
