(* C04 — System.Difference / Version.Difference (util/semver/diff.go, with mavenDifference and
   mavenExtension.num of maven.go).  Model: Semver/Diff.v over the parsed structures and the model of
   Compare.  Statements only; proofs in Semver/Diff_proofs.v.
   Tie: case kind sv_difference (Go: System.Difference on two strings, with the dumps of both parsed
   versions) against svm_diff (the model on those dumps), harness/props/C04.py. *)
From Coq Require Import List ZArith.
From DepsDev Require Import Lib.Base Semver.Version Semver.Compare Semver.MavenParse Semver.Diff Semver.Diff_proofs.
Import ListNotations.
Local Open Scope Z_scope.

(* Difference returns a value whenever Compare does and, for Maven, both versions carry Maven's extension:
   the only panicking expressions are the two type assertions of mavenDifference ([returns r]: neither Panic
   nor OutOfFuel).  Versions of two different systems do not meet that hypothesis: note N-C04-8. *)
Theorem C04_difference_total : forall v u,
  (exists c, compare v u = Ok c) ->
  (is_maven (v_sys v) = true -> is_mvn_ext v /\ is_mvn_ext u) ->
  returns (difference v u).
Proof. exact difference_total. Qed.
Print Assumptions C04_difference_total.

(* for any two strings the Maven parser accepts, and for any two versions of one system of the SemVer family,
   no hypothesis is left *)
Theorem C04_difference_total_maven : forall sa sb a b,
  mvn_parse sa = Some (Ok a) -> mvn_parse sb = Some (Ok b) -> returns (difference a b).
Proof. exact difference_total_maven. Qed.
Print Assumptions C04_difference_total_maven.

Theorem C04_difference_total_family : forall v u,
  v_sys v = v_sys u -> v_ext v = NoExt -> v_sys v <> SMaven -> returns (difference v u).
Proof. exact difference_total_family. Qed.
Print Assumptions C04_difference_total_family.

(* what it returns: Compare's answer; Same exactly for equal versions with the same build tag; outside Maven
   the first differing number among major, minor, patch, and Prerelease/Build only between three-number
   versions whose numbers agree *)
Theorem C04_difference_compare : forall v u c d, difference v u = Ok (c, d) -> compare v u = Ok c.
Proof. exact difference_fst. Qed.
Print Assumptions C04_difference_compare.

Theorem C04_difference_same : forall v u c d,
  difference v u = Ok (c, d) -> (d = d_same <-> c = 0 /\ v_build v = v_build u).
Proof. exact difference_same_iff. Qed.
Print Assumptions C04_difference_same.

Theorem C04_difference_numbers : forall v u c d,
  is_maven (v_sys v) = false -> difference v u = Ok (c, d) -> d <> d_same ->
  (get_num (v_num v) 0 <> get_num (v_num u) 0 -> d = d_major) /\
  (get_num (v_num v) 0 = get_num (v_num u) 0 -> get_num (v_num v) 1 <> get_num (v_num u) 1 -> d = d_minor) /\
  (get_num (v_num v) 0 = get_num (v_num u) 0 -> get_num (v_num v) 1 = get_num (v_num u) 1 ->
     get_num (v_num v) 2 <> get_num (v_num u) 2 -> d = d_patch) /\
  (d = d_prerelease \/ d = d_build ->
     get_num (v_num v) 0 = get_num (v_num u) 0 /\ get_num (v_num v) 1 = get_num (v_num u) 1 /\
     get_num (v_num v) 2 = get_num (v_num u) 2 /\ length (v_num v) = 3%nat /\ length (v_num u) = 3%nat).
Proof. exact difference_family_numbers. Qed.
Print Assumptions C04_difference_numbers.

(* the statements speak of something: 1.2.3 against 1.3.0-rc, 1.2.3+a against 1.2.3+b, 1.2.3-a against 1.2.3-b *)
Definition mkv (nums : list Z) (pre : list bytes) (build : bytes) : version :=
  {| v_sys := SNPM; v_user_num_count := 3; v_is_prerelease := match pre with [] => false | _ => true end;
     v_str := []; v_num := nums; v_pre := pre; v_build := build; v_ext := NoExt |}.
Example C04_difference_examples :
  difference (mkv [1;2;3] [] []) (mkv [1;3;0] [[114;99]%N] []) = Ok (-1, d_minor) /\
  difference (mkv [1;2;3] [] [43;97]%N) (mkv [1;2;3] [] [43;98]%N) = Ok (0, d_build) /\
  difference (mkv [1;2;3] [[97]%N] []) (mkv [1;2;3] [[98]%N] []) = Ok (-1, d_prerelease) /\
  difference (mkv [1;2;3] [] []) (mkv [1;2;3] [] []) = Ok (0, d_same).
Proof. vm_compute. auto. Qed.
