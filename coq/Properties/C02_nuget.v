(* C02, NuGet part: semver.NuGet orders versions as NuGet's own comparer does
   (Spec/NuGetSpec.v: four Int32 components, release labels compared case-insensitively,
   numeric when int.TryParse accepts them).  Statements only; proofs in
   Semver/NuGetSpec_proofs.v. *)
From DepsDev Require Import Lib.Base Semver.Version Semver.Compare Semver.Parse
  Spec.SemverSpec Spec.NuGetSpec Semver.SemverSpec_proofs Semver.NuGetSpec_proofs.

(* On every pair of parsed structures that are NuGet versions (three or four numbers, release
   labels of the SemVer grammar) the library's comparison IS NuGet's.  No range hypothesis:
   a label beyond Int32 is text on both sides. *)
Theorem C02_nuget : forall a b na nb,
  abs_nuget a = Some na -> abs_nuget b = Some nb ->
  generic_compare SNuGet a b = nuget_precedence na nb.
Proof. exact generic_compare_nuget. Qed.
Print Assumptions C02_nuget.

(* Non-vacuity through the model's own parser, with the deviations from SemVer visible:
   1.0.0-ALPHA = 1.0.0-alpha;  1.0 = 1.0.0.0 < 1.0.0.1;  1.0.0-2147483648 is text, so above
   1.0.0-3; 1.0.0-9999999999 and 1.0.0-10000000000 are both text, so the first is above. *)
Example C02_nuget_example :
  let p s := match parse SNuGet s with Ok v => Some v | _ => None end in
  let chk a b c :=
    match p a, p b with
    | Some va, Some vb =>
        match abs_nuget va, abs_nuget vb with
        | Some _, Some _ => Z.eqb (generic_compare SNuGet va vb) c &&
                            match nuget_compare_strings a b with Some c' => Z.eqb c c' | None => false end
        | _, _ => false
        end
    | _, _ => false
    end in
  chk [49;46;48;46;48;45;65;76;80;72;65]%N [49;46;48;46;48;45;97;108;112;104;97]%N 0%Z = true /\
  chk [49;46;48]%N [49;46;48;46;48;46;48]%N 0%Z = true /\
  chk [49;46;48]%N [49;46;48;46;48;46;49]%N (-1)%Z = true /\
  chk [49;46;48;46;48;45;50;49;52;55;52;56;51;54;52;56]%N [49;46;48;46;48;45;51]%N 1%Z = true /\
  chk [49;46;48;46;48;45;57;57;57;57;57;57;57;57;57;57]%N [49;46;48;46;48;45;49;48;48;48;48;48;48;48;48;48;48]%N 1%Z = true.
Proof. vm_compute. repeat split. Qed.
