(* C10 — a version's canonical string denotes the same version (SemVer family part; PyPI,
   Maven and RubyGems are in C10_*.v).  Statements only.

   For the six systems without extension (Default, Cargo, Go, NPM, NuGet, Composer) the model
   parser (Semver/Parse.v) and the canonical printer (Semver/Version.v) are inverted on ALL byte
   strings, no length bound (Semver/ParseSound_proofs.v: what a parse returns; ParseRender_proofs.v:
   rendered text is accepted; ParseRoundtrip_proofs.v: the combination):
   - the canonical string of every parsed version parses again in the same system, and
     canonicalising the result returns the identical string (C10_family_reparse_fixed);
   - the re-parsed version compares equal to the original exactly on c10_family_dom: all versions
     without a wildcard, and wildcard versions without prerelease whose numbers after the first
     wildcard are zero (C10_family_reparse_partial, C10_family_reparse_exact);
   - for Go and Composer (no wildcards) the full statement holds (C10_family_reparse_go_composer);
   - the full statement is refuted for Default, Cargo, NPM (1.*.3, 1.*-a) and NuGet (1.*-a):
     Canon stops at the first wildcard and drops the metadata of a wildcard version
     (C10_family_reparse_refuted).
   The structural facts and the derivation of clause 4 from clauses 1-2 and the order laws of C01
   come first.  The same clauses are decided on every generated string by the correspondence
   check and the direct oracle. *)
From DepsDev Require Import Lib.Base Semver.Version Semver.Compare Semver.Compare_proofs Semver.Canon_proofs
  Semver.Parse Semver.ParseRender_proofs Semver.ParseSound_proofs Semver.CanonNums_proofs Semver.ParseRoundtrip_proofs.

Theorem C10_family_canon_fields_partial : forall sb a b,
  v_sys a = v_sys b -> v_num a = v_num b -> v_pre a = v_pre b -> v_build a = v_build b ->
  generic_canon sb a = generic_canon sb b.
Proof. exact generic_canon_fields. Qed.
Print Assumptions C10_family_canon_fields_partial.

Theorem C10_family_same_canon_equal : forall S v1 v2 v',
  fam_version S v1 -> fam_version S v2 -> fam_version S v' ->
  compare v1 v' = Ok 0%Z -> compare v2 v' = Ok 0%Z -> compare v1 v2 = Ok 0%Z.
Proof. exact same_canon_equal. Qed.
Print Assumptions C10_family_same_canon_equal.

Theorem C10_family_nuget_no_build : forall v, v_sys v = SNuGet -> generic_canon true v = generic_canon false v.
Proof. exact generic_canon_nuget. Qed.

Theorem C10_family_wildcard : forall sb v, is_wildcard (v_num v) = true ->
  generic_canon sb v = (if sys_eqb (v_sys v) SGo then [118%N] else []) ++ print_nums (v_num v).
Proof. exact generic_canon_wildcard. Qed.

(* ---------------------------------------------------------------- print/parse inversion *)
(* Clauses 1 and 3 for every accepted string of the six systems, in both showBuild modes. *)
Theorem C10_family_reparse_fixed : forall sb S s v, family S -> parse S s = Ok v ->
  exists v', parse S (generic_canon sb v) = Ok v' /\ generic_canon sb v' = generic_canon sb v /\
             (c10_family_dom S v = true -> generic_compare S v v' = 0%Z).
Proof. exact family_reparse_all. Qed.
Print Assumptions C10_family_reparse_fixed.

(* All three clauses on the domain. *)
Theorem C10_family_reparse_partial : forall sb S s v, family S -> parse S s = Ok v -> c10_family_dom S v = true ->
  exists v', parse S (generic_canon sb v) = Ok v' /\ generic_compare S v v' = 0%Z /\
             generic_canon sb v' = generic_canon sb v.
Proof. exact family_reparse_dom. Qed.
Print Assumptions C10_family_reparse_partial.

(* The domain is exact: for an accepted string, clause 2 holds if and only if the version is in it. *)
Theorem C10_family_reparse_exact : forall sb S s v, family S -> parse S s = Ok v ->
  ((exists v', parse S (generic_canon sb v) = Ok v' /\ generic_compare S v v' = 0%Z) <-> c10_family_dom S v = true).
Proof. exact family_reparse_exact. Qed.
Print Assumptions C10_family_reparse_exact.

(* Go and Composer have no wildcards: the full statement. *)
Theorem C10_family_reparse_go_composer : forall sb S s v, S = SGo \/ S = SComposer -> parse S s = Ok v ->
  exists v', parse S (generic_canon sb v) = Ok v' /\ generic_compare S v v' = 0%Z /\
             generic_canon sb v' = generic_canon sb v.
Proof. exact family_reparse_go_composer. Qed.
Print Assumptions C10_family_reparse_go_composer.

(* What every parsed version of the family looks like. *)
Theorem C10_family_parsed_shape : forall S s v, family S -> parse S s = Ok v -> wf_parsed S v.
Proof. exact parse_wf. Qed.
Print Assumptions C10_family_parsed_shape.

(* Clause 4 at string level: two accepted versions of the domain with the same canonical string
   compare equal.  (Outside the domain it fails: 1.* and 1.*.3 share the canonical string 1.*.) *)
Theorem C10_family_inj_partial : forall sb S s1 s2 v1 v2, family S ->
  parse S s1 = Ok v1 -> parse S s2 = Ok v2 ->
  c10_family_dom S v1 = true -> c10_family_dom S v2 = true ->
  generic_canon sb v1 = generic_canon sb v2 -> generic_compare S v1 v2 = 0%Z.
Proof.
  intros sb S s1 s2 v1 v2 F P1 P2 D1 D2 E.
  destruct (C10_family_reparse_partial sb S s1 v1 F P1 D1) as (w1 & Q1 & C1 & _).
  destruct (C10_family_reparse_partial sb S s2 v2 F P2 D2) as (w2 & Q2 & C2 & _).
  rewrite E in Q1. rewrite Q1 in Q2. inversion Q2; subst w2.
  pose proof (C10_family_parsed_shape S s1 v1 F P1) as (S1 & X1 & _).
  pose proof (C10_family_parsed_shape S s2 v2 F P2) as (S2 & X2 & _).
  pose proof (C10_family_parsed_shape S _ w1 F Q1) as (S3 & X3 & _).
  assert (F1 : fam_version S v1) by (split; auto).
  assert (F2 : fam_version S v2) by (split; auto).
  assert (F3 : fam_version S w1) by (split; auto).
  pose proof (C10_family_same_canon_equal S v1 v2 w1 F1 F2 F3) as H.
  rewrite !(compare_family S) in H by auto.
  assert (Ok (generic_compare S v1 v2) = Ok 0%Z) as R by (apply H; f_equal; auto).
  inversion R; auto.
Qed.
Print Assumptions C10_family_inj_partial.

(* The full statement is false.  Witnesses: 1.*.3 (a number after the wildcard) and 1.*-a (a
   wildcard version with a prerelease) in Default, Cargo and NPM; 1.*-a in NuGet.  The canonical
   string is 1.* in each case; it parses, but to a version that compares 1 resp. -1. *)
Definition w_1s3 : bytes := [49; 46; 42; 46; 51]%N.
Definition w_1sa : bytes := [49; 46; 42; 45; 97]%N.
Definition c10_fails (S : system) (s : bytes) : bool :=
  match parse S s with
  | Ok v => match parse S (generic_canon true v) with
            | Ok v' => negb (Z.eqb (generic_compare S v v') 0)
            | _ => false
            end
  | _ => false
  end.

Lemma C10_family_witnesses :
  forallb (fun S => c10_fails S w_1s3 && c10_fails S w_1sa) [SDefault; SCargo; SNPM] && c10_fails SNuGet w_1sa = true.
Proof. vm_compute. reflexivity. Qed.

Theorem C10_family_reparse_refuted :
  ~ (forall S s v, family S -> parse S s = Ok v ->
       exists v', parse S (generic_canon true v) = Ok v' /\ generic_compare S v v' = 0%Z /\
                  generic_canon true v' = generic_canon true v).
Proof.
  intros H.
  destruct (parse SDefault w_1s3) as [v| | |] eqn:P; try (vm_compute in P; discriminate P).
  destruct (H SDefault w_1s3 v (or_introl eq_refl) P) as (v' & P' & C & _).
  revert P' C. vm_compute in P. inversion P; subst v. vm_compute. intros P'. inversion P'; subst v'. discriminate.
Qed.
Print Assumptions C10_family_reparse_refuted.

(* The domain is inhabited by non-trivial versions: prerelease and build, a trailing wildcard,
   NuGet with upper case, a floating prerelease and a fourth number, v-prefixes, leading zeros. *)
Example C10_family_dom_inhabited :
  forallb (fun p => match parse (fst p) (snd p) with Ok v => c10_family_dom (fst p) v | _ => false end)
    [ (SNPM, [118; 49; 46; 50; 46; 51; 45; 97; 108; 112; 104; 97; 46; 49; 43; 98; 46; 50]%N);   (* v1.2.3-alpha.1+b.2 *)
      (SDefault, [49; 46; 42]%N);                                                               (* 1.*  *)
      (SCargo, [49; 46; 50; 46; 120]%N);                                                        (* 1.2.x *)
      (SNuGet, [49; 46; 48; 46; 48; 46; 52; 45; 66; 101; 116; 97; 42]%N);                        (* 1.0.0.4-Beta* *)
      (SNuGet, [48; 49; 46; 42]%N);                                                             (* 01.* *)
      (SGo, [118; 49; 46; 50]%N);                                                               (* v1.2 *)
      (SComposer, [86; 49; 46; 50; 46; 51; 46; 52; 46; 53; 45; 45]%N) ] = true.                  (* V1.2.3.4.5-- *)
Proof. vm_compute. reflexivity. Qed.
