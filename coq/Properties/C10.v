(* C10 — a version's canonical string denotes the same version (SemVer family part; PyPI,
   Maven and RubyGems are in C10_*.v).  Statements only.

   The re-parse clauses (the canonical string parses, compares equal, is a fixed point of
   canonicalisation) are decided on every generated string by the correspondence check and
   the direct oracle; at model level this file proves what does not need a print/parse
   inversion, and that clause 4 follows from clauses 1-2 and the order laws of C01. *)
From DepsDev Require Import Lib.Base Semver.Version Semver.Compare Semver.Compare_proofs Semver.Canon_proofs.

Theorem C10_family_canon_fields_partial : forall sb a b,
  v_sys a = v_sys b -> v_num a = v_num b -> v_pre a = v_pre b -> v_build a = v_build b ->
  generic_canon sb a = generic_canon sb b.
Proof. exact generic_canon_fields. Qed.
Print Assumptions C10_family_canon_fields_partial.

Theorem C10_family_same_canon_equal : forall S v1 v2 v',
  fam_version S v1 -> fam_version S v2 -> fam_version S v' ->
  compare v1 v' = Ok 0%Z -> compare v2 v' = Ok 0%Z -> compare v1 v2 = Ok 0%Z.
Proof. exact same_canon_equal. Qed.
Print Assumptions C10_family_same_canon_equal.

Theorem C10_family_nuget_no_build : forall v, v_sys v = SNuGet -> generic_canon true v = generic_canon false v.
Proof. exact generic_canon_nuget. Qed.

Theorem C10_family_wildcard : forall sb v, is_wildcard (v_num v) = true ->
  generic_canon sb v = (if sys_eqb (v_sys v) SGo then [118%N] else []) ++ print_nums (v_num v).
Proof. exact generic_canon_wildcard. Qed.
