(* C04 for the graph-text parser schema.ParseResolve (util/resolve/schema/resolve.go: ParseResolve,
   parseResolve, replaceArt): it returns a graph or an error for EVERY text, it never panics.

   Statements only; proofs in Resolve/SchemaResolve_proofs.v.  The theorems are about the executable
   model Resolve/SchemaResolve.v, in which every slicing of a line (tl[i+8:], tl[:i], tl[i+2:],
   requirement[1:], requirement[1:i], requirement[:i], requirement[i+1:], s[len(p):]) and every
   indexing of the slices nodes and sources (sources[r.depth] = nodes[i], sources[r.depth-1],
   nodes[s.labels[r.label]]), of s.rows[i-1] in the validation loop and of the node slice inside
   AddError is a checked access with a Panic
   outcome, the results of strings.Index are integers that can be -1, and the recursion of
   replaceArt has explicit fuel.

   External, and universally quantified in every statement below:
     trim           strings.TrimSpace (any function on byte strings),
     parse_deptype  deptest.ParseString (any function; None is an error return).
   AddNode/AddEdge/AddError are the models of Resolve/Graph.v; Graph.Canon, which ParseResolve calls
   last, is not part of these statements (its model is the subject of C13).  The model is tied to
   the Go code by the correspondence kind parseresolve_model (Extract/CasesSchema.v). *)
From DepsDev Require Import Lib.Base Resolve.Graph Resolve.SchemaResolve Resolve.SchemaResolve_proofs
  Semver.Pep440Parse.

(* For all texts: a graph or an error, never a panic, and the fuel S (length line) given to
   replaceArt is never exhausted. *)
Theorem C04_parse_resolve_total :
  forall (trim : bytes -> bytes) (parse_deptype : bytes -> option dtype) (sys : N) (text : bytes),
  match parse_resolve_graph trim parse_deptype sys text with
  | Ok _ | Err _ => True
  | Panic _ | OutOfFuel => False
  end.
Proof. exact parse_resolve_graph_total. Qed.
Print Assumptions C04_parse_resolve_total.

(* What keeps the scratch slice sources := make([]NodeID, len(rows)+1) indexed in range: in a
   schema that passed the validation loop the depth of row i is at most i (so r.depth is below
   len(rows)+1, whether or not the row creates a node), and every value of the labels map is the
   number of an existing row (so nodes[s.labels[r.label]] is in range). *)
Theorem C04_parse_resolve_sources_bound :
  forall (trim : bytes -> bytes) (parse_deptype : bytes -> option dtype) (text : bytes) (s : schema),
  parse_resolve trim parse_deptype text = Ok s ->
  (forall i r, nth_error (s_rows s) i = Some r ->
     (r_depth r <= i)%nat /\ (r_depth r < S (length (s_rows s)))%nat) /\
  (forall k v, lfind (s_labels s) k = Some v -> (v < length (s_rows s))%nat).
Proof. exact parse_resolve_sources_bound. Qed.
Print Assumptions C04_parse_resolve_sources_bound.

(* the parser alone (parseResolve) *)
Theorem C04_parse_resolve_schema_total :
  forall (trim : bytes -> bytes) (parse_deptype : bytes -> option dtype) (text : bytes),
  match parse_resolve trim parse_deptype text with
  | Ok _ | Err _ => True
  | Panic _ | OutOfFuel => False
  end.
Proof. exact parse_resolve_safe. Qed.
Print Assumptions C04_parse_resolve_schema_total.

(* projection used by the examples: (name, version, errors as (name, requirement, text)) and
   (from, to, requirement) *)
Definition show (r : res graph) :=
  match r with
  | Ok g => Some (map (fun n => (vk_name (n_ver n), vk_ver (n_ver n),
                                 map (fun e => (vk_name (ne_req e), vk_ver (ne_req e), ne_text e)) (n_errs n)))
                      (g_nodes g),
                  map (fun e => (e_from e, e_to e, e_req e)) (g_edges g))
  | _ => None
  end.

(* a 1 / tab x: b@1 1 / tab tab $x@1 / tab tab tab $x@2
   References to a label nested below each other: the last row sits at depth 3 although only two
   rows create a node; its source is the zero NodeID left by the reference above it. *)
Example C04_parse_resolve_nested_labels :
  show (parse_resolve_graph trim_space (fun _ => Some (0, [])) 1
          [97;32;49;10; 9;120;58;32;98;64;49;32;49;10; 9;9;36;120;64;49;10; 9;9;9;36;120;64;50])
  = Some ([([97], [49], []); ([98], [49], [])],
          [(0%nat, 1%nat, [49]); (1%nat, 1%nat, [49]); (0%nat, 1%nat, [50])]).
Proof. vm_compute. reflexivity. Qed.

(* a 1 / tab b@1 ERROR: e / tab tab c@1 ERROR: f / tab tab tab $r@2 with the root labelled r
   Error rows nested below each other (they create no node), then a reference. *)
Example C04_parse_resolve_nested_errors :
  show (parse_resolve_graph trim_space (fun _ => Some (0, [])) 1
          [114;58;32;97;32;49;10; 9;98;64;49;32;69;82;82;79;82;58;32;101;10;
           9;9;99;64;49;32;69;82;82;79;82;58;32;102;10; 9;9;9;36;114;64;50])
  = Some ([([97], [49], [([98], [49], [101]); ([99], [49], [102])])],
          [(0%nat, 0%nat, [50])]).
Proof. vm_compute. reflexivity. Qed.

(* a reference to a label nobody defines is refused (validation), as is a skipped level *)
Example C04_parse_resolve_rejects :
  parse_resolve_graph trim_space (fun _ => Some (0, [])) 1 [97;32;49;10; 9;36;120;64;49] = Err EUndefinedLabel
  /\ parse_resolve_graph trim_space (fun _ => Some (0, [])) 1 [97;32;49;10; 9;9;98;64;49;32;49] = Err ESkippedLevel.
Proof. split; vm_compute; reflexivity. Qed.
