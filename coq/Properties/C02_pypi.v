(* C02, PyPI part: semver.PyPI orders versions as PEP 440 (pip's packaging) does.
   Statements only; proofs in Semver/Pep440C02_proofs.v.

   The full statement is false for the code as it is (known findings F-C02-2, F-C02-22):
   C02_pypi_refuted and one lemma per witness, each also replayed on the Go code by the
   check.  C02_pypi_partial is the statement on the sub-domain c02_pypi_dom (exported to
   the generator by extraction).  Acceptance of normalised forms: C02_pypi_accepts_*. *)
From Coq Require Import List ZArith Lia.
From DepsDev Require Import Lib.Base Lib.Order Semver.Version Semver.Pep440 Semver.Pep440Parse Semver.Compare
  Spec.Pep440Spec Semver.Pep440Abs Semver.Pep440_proofs Semver.Pep440Parse_proofs Semver.Pep440C02_proofs
  Semver.Pep440Link_proofs Semver.Pep440Print_proofs Semver.Pep440Accept_proofs.
Import ListNotations.
Local Open Scope Z_scope.

(* the sign of Go's Compare on two accepted strings, and the reference comparison *)
Definition go_cmp (a b : bytes) : option Z :=
  match parse_pypi a, parse_pypi b with
  | Ok va, Ok vb => Some (Z.sgn (vcmp va vb))
  | _, _ => None
  end.
Definition ref_cmp (a b : bytes) : option Z :=
  match spec_parse a, spec_parse b with
  | Some pa, Some pb => Some (spec_compare pa pb)
  | _, _ => None
  end.

(* For any two versions that both the library and the reference accept, the library
   orders them exactly as the reference does. *)
Definition C02_pypi_full : Prop :=
  forall a b x y, go_cmp a b = Some x -> ref_cmp a b = Some y -> x = y.

(* 1.0a1.post0 vs 1.0a1: Go 0, PEP 440 1 *)
Lemma C02_pypi_witness_post0 :
  go_cmp [49;46;48;97;49;46;112;111;115;116;48]%N [49;46;48;97;49]%N = Some (0) /\
  ref_cmp [49;46;48;97;49;46;112;111;115;116;48]%N [49;46;48;97;49]%N = Some (1).
Proof. split; vm_compute; reflexivity. Qed.

(* 1.0.post1+a vs 1.0.post1+b: Go 0, PEP 440 -1 *)
Lemma C02_pypi_witness_post_local :
  go_cmp [49;46;48;46;112;111;115;116;49;43;97]%N [49;46;48;46;112;111;115;116;49;43;98]%N = Some (0) /\
  ref_cmp [49;46;48;46;112;111;115;116;49;43;97]%N [49;46;48;46;112;111;115;116;49;43;98]%N = Some ((-1)).
Proof. split; vm_compute; reflexivity. Qed.

(* 1.0.dev0+x vs 1.0.dev0: Go 0, PEP 440 1 *)
Lemma C02_pypi_witness_dev_local :
  go_cmp [49;46;48;46;100;101;118;48;43;120]%N [49;46;48;46;100;101;118;48]%N = Some (0) /\
  ref_cmp [49;46;48;46;100;101;118;48;43;120]%N [49;46;48;46;100;101;118;48]%N = Some (1).
Proof. split; vm_compute; reflexivity. Qed.

(* 3.10rc2 vs 3.10rc2.dev0+a: Go -1, PEP 440 1 *)
Lemma C02_pypi_witness_pre_dev_local :
  go_cmp [51;46;49;48;114;99;50]%N [51;46;49;48;114;99;50;46;100;101;118;48;43;97]%N = Some ((-1)) /\
  ref_cmp [51;46;49;48;114;99;50]%N [51;46;49;48;114;99;50;46;100;101;118;48;43;97]%N = Some (1).
Proof. split; vm_compute; reflexivity. Qed.

(* 1.0+ABC vs 1.0+abc: Go -1, PEP 440 0 *)
Lemma C02_pypi_witness_local_case :
  go_cmp [49;46;48;43;65;66;67]%N [49;46;48;43;97;98;99]%N = Some ((-1)) /\
  ref_cmp [49;46;48;43;65;66;67]%N [49;46;48;43;97;98;99]%N = Some (0).
Proof. split; vm_compute; reflexivity. Qed.

(* 1.0a18446744073709551615 vs 1.0a2: Go -1, PEP 440 1 *)
Lemma C02_pypi_witness_wrap :
  go_cmp [49;46;48;97;49;56;52;52;54;55;52;52;48;55;51;55;48;57;53;53;49;54;49;53]%N [49;46;48;97;50]%N = Some ((-1)) /\
  ref_cmp [49;46;48;97;49;56;52;52;54;55;52;52;48;55;51;55;48;57;53;53;49;54;49;53]%N [49;46;48;97;50]%N = Some (1).
Proof. split; vm_compute; reflexivity. Qed.

(* 1.0+18446744073709551616 vs 1.0+18446744073709551615: Go 0, PEP 440 1 *)
Lemma C02_pypi_witness_local_sat :
  go_cmp [49;46;48;43;49;56;52;52;54;55;52;52;48;55;51;55;48;57;53;53;49;54;49;54]%N [49;46;48;43;49;56;52;52;54;55;52;52;48;55;51;55;48;57;53;53;49;54;49;53]%N = Some (0) /\
  ref_cmp [49;46;48;43;49;56;52;52;54;55;52;52;48;55;51;55;48;57;53;53;49;54;49;54]%N [49;46;48;43;49;56;52;52;54;55;52;52;48;55;51;55;48;57;53;53;49;54;49;53]%N = Some (1).
Proof. split; vm_compute; reflexivity. Qed.

Theorem C02_pypi_refuted : ~ C02_pypi_full.
Proof.
  intros H. destruct C02_pypi_witness_post0 as [G R]. specialize (H _ _ _ _ G R). discriminate.
Qed.
Print Assumptions C02_pypi_refuted.

(* The statement on the sub-domain c02_pypi_dom of PEP 440 (all alternative spellings,
   epochs, pre/post/dev in any combination; excluded: a local segment attached to a
   pre-, post- or dev-release, upper-case letters in a local segment, post0 attached to a
   pre-release, and numbers beyond the machine width), for ALL strings a, b:
   whenever both Parse and the reference accept both strings and the reference versions
   are in the domain, the sign of Go's Compare is the reference comparison. *)
Theorem C02_pypi_partial a b va vb pa pb :
  parse_pypi a = Ok va -> parse_pypi b = Ok vb ->
  spec_parse a = Some pa -> spec_parse b = Some pb ->
  c02_pypi_dom pa = true -> c02_pypi_dom pb = true ->
  Z.sgn (vcmp va vb) = spec_compare pa pb.
Proof. exact (c02_strings a b va vb pa pb). Qed.
Print Assumptions C02_pypi_partial.

(* the same at the level of the comparators, for any stored structures that represent
   reference versions of the domain *)
Theorem C02_pypi_partial_compare va vb pa pb :
  pv_wf pa -> pv_wf pb -> c02_pypi_dom pa = true -> c02_pypi_dom pb = true ->
  abs_rel va pa -> abs_rel vb pb ->
  Z.sgn (pypi_cmp va vb) = spec_compare pa pb.
Proof. exact (c02_compare_abs va vb pa pb). Qed.
Print Assumptions C02_pypi_partial_compare.

(* What Parse stores for a string of the grammar is the reference version (when the
   pre/post/dev numbers fit 63 bits). *)
Theorem C02_pypi_parse_link s v p :
  parse_pypi s = Ok v -> spec_parse s = Some p -> c02_dom_width p = true ->
  abs_rel (v_num v, ext_of v) p /\ pv_wf p.
Proof. exact (parse_link s v p). Qed.
Print Assumptions C02_pypi_parse_link.

(* the domain is inhabited by non-trivial versions: 1!2.0rc1.post2.dev3 and 1.0+ubuntu.1 *)
Example C02_pypi_dom_inhabited :
  (exists p, spec_parse [49;33;50;46;48;114;99;49;46;112;111;115;116;50;46;100;101;118;51]%N = Some p /\ c02_pypi_dom p = true) /\
  (exists p, spec_parse [49;46;48;43;117;98;117;110;116;117;46;49]%N = Some p /\ c02_pypi_dom p = true) /\
  go_cmp [49;33;50;46;48;114;99;49;46;112;111;115;116;50;46;100;101;118;51]%N [49;46;48;43;117;98;117;110;116;117;46;49]%N = Some 1 /\ ref_cmp [49;33;50;46;48;114;99;49;46;112;111;115;116;50;46;100;101;118;51]%N [49;46;48;43;117;98;117;110;116;117;46;49]%N = Some 1.
Proof.
  split; [eexists; split; [vm_compute; reflexivity | vm_compute; reflexivity]|].
  split; [eexists; split; [vm_compute; reflexivity | vm_compute; reflexivity]|].
  split; vm_compute; reflexivity.
Qed.

(* A version written in the reference's normalised form is always accepted. *)
Definition C02_pypi_accepts_full : Prop :=
  forall p, pv_wfb p = true -> exists v, parse_pypi (spec_normal p) = Ok v.

Definition pv_of_release (ep : Z) (rel : list Z) : pv :=
  {| s_epoch := ep; s_release := rel; s_pre := None; s_post := None; s_dev := None; s_local := None |}.

(* 256!1 and 9223372036854775807 are normalised forms that Parse rejects *)
Lemma C02_pypi_accepts_witness_epoch :
  spec_normal (pv_of_release 256 [1]) = [50;53;54;33;49]%N /\
  spec_parse [50;53;54;33;49]%N = Some (pv_of_release 256 [1]) /\
  parse_pypi [50;53;54;33;49]%N = Err E_syntax.
Proof. repeat split; vm_compute; reflexivity. Qed.

Lemma C02_pypi_accepts_witness_release :
  spec_normal (pv_of_release 0 [9223372036854775807]) = [57;50;50;51;51;55;50;48;51;54;56;53;52;55;55;53;56;48;55]%N /\
  parse_pypi [57;50;50;51;51;55;50;48;51;54;56;53;52;55;55;53;56;48;55]%N = Err E_syntax.
Proof. repeat split; vm_compute; reflexivity. Qed.

Theorem C02_pypi_accepts_refuted : ~ C02_pypi_accepts_full.
Proof.
  intros H. destruct (H (pv_of_release 256 [1]) eq_refl) as [v Hv].
  destruct C02_pypi_accepts_witness_epoch as (E & _ & P). rewrite E, P in Hv. discriminate.
Qed.
Print Assumptions C02_pypi_accepts_refuted.

(* Every normalised form whose epoch is at most 255 and whose release numbers are below
   2^63-1 is accepted (pre, post and dev numbers and local segments of any size). *)
Theorem C02_pypi_accepts_partial p : pv_wf p -> s_release p <> [] -> s_epoch p <= 255 ->
  Forall (fun n => n < infinity) (s_release p) ->
  exists v, parse_pypi (spec_normal p) = Ok v.
Proof. exact (c02_accepts p). Qed.
Print Assumptions C02_pypi_accepts_partial.

(* ... in particular the normalised form of every string of the grammar within those bounds *)
Theorem C02_pypi_accepts_strings s p : spec_parse s = Some p -> s_epoch p <= 255 ->
  Forall (fun n => n < infinity) (s_release p) ->
  exists v, parse_pypi (spec_normal p) = Ok v.
Proof.
  intros S. destruct (spec_parse_wf s p S) as [W Ne]. exact (c02_accepts p W Ne).
Qed.
Print Assumptions C02_pypi_accepts_strings.

(* Spellings that the reference accepts and Parse rejects, but which are not normalised
   forms (the property does not demand them): 10A1-dev1 (normal form 10a1.dev1, accepted)
   and 2_A.1 (normal form 2a1, accepted). *)
Lemma C02_pypi_nonnormal_rejected :
  (exists p, spec_parse [49;48;65;49;45;100;101;118;49]%N = Some p /\ spec_normal p = [49;48;97;49;46;100;101;118;49]%N) /\
  parse_pypi [49;48;65;49;45;100;101;118;49]%N = Err E_syntax /\ (exists v, parse_pypi [49;48;97;49;46;100;101;118;49]%N = Ok v) /\
  (exists p, spec_parse [50;95;65;46;49]%N = Some p /\ spec_normal p = [50;97;49]%N) /\
  parse_pypi [50;95;65;46;49]%N = Err E_syntax /\ (exists v, parse_pypi [50;97;49]%N = Ok v).
Proof. repeat split; try (eexists; split; vm_compute; reflexivity); try (vm_compute; reflexivity); eexists; vm_compute; reflexivity. Qed.
