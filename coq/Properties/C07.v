(* C07 — a Maven resolution graph obeys Maven's mediation rules.
   Statements only; each is closed by [exact] of a lemma proved in Resolve/MavenRes_proofs.v or
   Resolve/MavenRes_examples.v.  The model (Resolve/MavenRes.v) is parametric in the client
   (c_version, c_versions, c_requirements) and in the semver oracles (is_simple, cmatch, vless):
   every theorem below holds for EVERY behaviour of these functions, every root and every fuel
   for which the resolution returns a graph.

   Ghost fields of the model graph: [e_mk] is the artifact key (package, classifier, type) of the
   declaration an edge comes from, [e_dvk] the declared requirement (after management), [e_kind]
   how the edge was made (EExisting: the key was already resolved; ECreated: the edge created its
   target node, it carries the Selector attribute; EShared: the target node existed for a different
   artifact key), [g_nexcl] the exclusion set of each node.  [C07_ghost_consistent] ties them to
   the observable fields. *)
From DepsDev Require Import Lib.Base Gen.MavenResTables Resolve.MavenRes Resolve.MavenRes_proofs
  Resolve.MavenRes_witness Resolve.MavenRes_examples.

Section C07.
  Variable c_version : vkey -> res version.
  Variable c_versions : pkey -> res (list version).
  Variable c_requirements : vkey -> res (list reqver).
  Variable is_simple : bytes -> res bool.
  Variable cmatch : bytes -> bytes -> bool.
  Variable vless : vkey -> vkey -> bool.
  Notation resolve := (resolve c_version c_versions c_requirements is_simple cmatch vless).
  Notation resolve_full := (resolve_full c_version c_versions c_requirements is_simple cmatch vless).
  Notation pass := (pass c_version c_versions c_requirements is_simple cmatch vless).
  Notation find_match := (find_match c_version c_versions is_simple cmatch vless).

  (* ---- at most one version of each artifact.
     PARTIAL: holds for the edges that are not made through the shared-node shortcut (the branch
     `if id, ok := nodes[match.VersionKey]` of resolve.go, which neither records the artifact key
     as resolved nor checks it); what is missing is exactly those EShared edges, for which the
     clause is false (C07_one_version_refuted, finding F-C07-1).  Also: nodes are unique per
     version key and every non-root node has exactly one creating edge. *)
  Theorem C07_one_version_partial : forall fuel root g,
    resolve fuel root = Ok g ->
    (forall e1 e2, In e1 (g_edges g) -> In e2 (g_edges g) -> e_mk e1 = e_mk e2 ->
                   e_kind e1 <> EShared -> e_kind e2 <> EShared -> e_to e1 = e_to e2)
    /\ (forall e, In e (g_edges g) -> e_mk e = root_mkey root -> e_kind e <> EShared -> e_to e = root)
    /\ NoDup (g_nodes g)
    /\ (forall v, In v (g_nodes g) -> v <> root ->
                  exists s, In s (g_edges g) /\ e_kind s = ECreated /\ e_to s = v /\
                            forall s', In s' (g_edges g) -> e_kind s' = ECreated -> e_to s' = v -> s' = s).
  Proof. exact (thm_one_version c_version c_versions c_requirements is_simple cmatch vless). Qed.

  (* ---- the ghost fields against what the Go edge shows: the artifact key is the key of the
     declared package and the edge's type, the requirement is the declared (managed) version, and
     for a client that answers with the package it was asked about the target is a version of the
     declared package, so the key can be read off (target package, classifier, type). *)
  Theorem C07_ghost_consistent : forall fuel root g,
    resolve fuel root = Ok g ->
    forall e, In e (g_edges g) ->
      e_mk e = mkey_for (vk_pk (e_dvk e)) (e_ty e) /\ e_req e = vk_ver (e_dvk e) /\
      (version_faithful c_version -> versions_faithful c_versions -> vk_pk (e_to e) = vk_pk (e_dvk e)).
  Proof. exact (thm_ghost c_version c_versions c_requirements is_simple cmatch vless). Qed.

  (* PARTIAL (same restriction as above), on the observable fields only *)
  Theorem C07_one_version_observable_partial : forall fuel root g,
    version_faithful c_version -> versions_faithful c_versions -> resolve fuel root = Ok g ->
    forall e1 e2, In e1 (g_edges g) -> In e2 (g_edges g) ->
      mkey_for (vk_pk (e_to e1)) (e_ty e1) = mkey_for (vk_pk (e_to e2)) (e_ty e2) ->
      e_kind e1 <> EShared -> e_kind e2 <> EShared -> e_to e1 = e_to e2.
  Proof. exact (thm_one_version_observable c_version c_versions c_requirements is_simple cmatch vless). Qed.

  (* ---- what the exception above consists of: an edge made through the shared-node shortcut points to a node
     that was created for ANOTHER artifact key (or to the root, for a key that is not the root's).  For every
     client; this is the exact shape of finding F-C07-1. *)
  Theorem C07_shared_edges : forall fuel root g,
    resolve fuel root = Ok g ->
    forall e, In e (g_edges g) -> e_kind e = EShared ->
      (e_to e = root /\ e_mk e <> root_mkey root) \/
      (exists s, In s (g_edges g) /\ e_kind s = ECreated /\ e_to s = e_to e /\ e_mk s <> e_mk e).
  Proof. exact (thm_shared_target c_version c_versions c_requirements is_simple cmatch vless). Qed.

  (* ---- at most one version of each artifact, FULL (no exception for shared-node edges), for the graphs in which
     no package occurs with two (classifier, type) variants: the hypothesis is read off the returned graph
     (single_variant; with C07_ghost_consistent the key of an edge is its target package and its type), and it is
     exactly the complement of the class of F-C07-1.  Such a graph has no shared-node edge at all. *)
  Theorem C07_one_version_single_variant : forall fuel root g,
    version_faithful c_version -> versions_faithful c_versions -> resolve fuel root = Ok g ->
    single_variant root g ->
    (forall e, In e (g_edges g) -> e_kind e <> EShared) /\
    (forall e1 e2, In e1 (g_edges g) -> In e2 (g_edges g) -> e_mk e1 = e_mk e2 -> e_to e1 = e_to e2) /\
    (forall e, In e (g_edges g) -> e_mk e = root_mkey root -> e_to e = root).
  Proof. exact (thm_one_version_single_variant c_version c_versions c_requirements is_simple cmatch vless). Qed.

  (* ---- every edge whose requirement is a range points to a version inside that range *)
  Theorem C07_range_edges : forall fuel root g,
    version_faithful c_version -> resolve fuel root = Ok g ->
    forall e, In e (g_edges g) -> is_simple (e_req e) = Ok false -> cmatch (e_req e) (vk_ver (e_to e)) = true.
  Proof. exact (thm_range_edges c_version c_versions c_requirements is_simple cmatch vless). Qed.

  (* ---- test, optional and provided dependencies are followed only from the root *)
  Theorem C07_root_only_scopes : forall fuel root g,
    resolve fuel root = Ok g ->
    forall ver imps, c_version root = Ok ver -> c_requirements (v_vk ver) = Ok imps ->
    forall e, In e (g_edges g) -> e_from e <> root ->
      ty_flag (e_ty e) depkey_Test_mask = false /\ ty_flag (e_ty e) depkey_Opt_mask = false /\
      ty_get (e_ty e) depkey_Scope <> Some b_provided.
  Proof.
    intros fuel root g H ver imps Hv Hr e He Hn.
    exact (proj1 (thm_nonroot_edges c_version c_versions c_requirements is_simple cmatch vless fuel root g H ver imps Hv Hr e He Hn)).
  Qed.

  (* ---- artifacts of type war, ear or rar are not traversed *)
  Theorem C07_no_traverse_war : forall fuel root g,
    resolve fuel root = Ok g ->
    forall s, In s (g_edges g) -> e_kind s = ECreated -> warish (e_ty s) = true ->
              forall e, In e (g_edges g) -> e_from e <> e_to s.
  Proof. exact (thm_no_traverse_war c_version c_versions c_requirements is_simple cmatch vless). Qed.

  (* ---- an artifact excluded on a path is not reached through that path: the exclusion set of the
     root is nil, that of any other node is the set declared on its creating edge merged with the
     set of the node the edge leaves, and no edge leaves a node towards a name its set excludes *)
  Theorem C07_exclusions : forall fuel root g,
    resolve fuel root = Ok g ->
    aget vkey_dec (g_nexcl g) root = Some None
    /\ (forall s, In s (g_edges g) -> e_kind s = ECreated ->
                  exists exf, aget vkey_dec (g_nexcl g) (e_from s) = Some exf /\
                              aget vkey_dec (g_nexcl g) (e_to s) = Some (merge_excl (excl_of_type (e_ty s)) exf))
    /\ (forall e, In e (g_edges g) ->
                  exists ex, aget vkey_dec (g_nexcl g) (e_from e) = Some ex /\
                             is_excluded ex (pk_name (vk_pk (e_dvk e))) = Ok false).
  Proof. exact (thm_exclusions c_version c_versions c_requirements is_simple cmatch vless). Qed.

  (* ---- the root's dependencyManagement overrides the version of every transitive declaration *)
  Theorem C07_management : forall fuel root g,
    resolve fuel root = Ok g ->
    forall ver imps, c_version root = Ok ver -> c_requirements (v_vk ver) = Ok imps ->
    forall e, In e (g_edges g) -> e_from e <> root ->
    forall mv, aget mkey_dec (mgt_of imps) (e_mk e) = Some mv -> e_req e = vk_ver mv.
  Proof.
    intros fuel root g H ver imps Hv Hr e He Hn.
    exact (proj2 (thm_nonroot_edges c_version c_versions c_requirements is_simple cmatch vless fuel root g H ver imps Hv Hr e He Hn)).
  Qed.

  (* ---- nearest wins.
     In terms of the requirement lists (all passes): when every requirement accumulated for an
     artifact key is soft, every edge for that key points to the version named by the FIRST
     requirement of the list. *)
  Theorem C07_nearest_requirements : forall fuel root R g,
    resolve_full fuel root = (R, Ok g) ->
    forall k, all_soft is_simple (reqs_of R k) ->
    forall e, In e (g_edges g) -> e_mk e = k ->
    exists r0 v, hd_error (reqs_of R k) = Some r0 /\ c_version (set_vt r0 vtype_Concrete) = Ok v /\ e_to e = v_vk v.
  Proof. exact (thm_nearest_reqs c_version c_versions c_requirements is_simple cmatch vless). Qed.

  (* PARTIAL: on the final graph, when the first pass succeeds (no retry): the first declaration
     of the artifact key in creation order, which is the breadth-first order, decides.  What is
     missing is the case of a retry: the requirement lists then start with the requirements met
     in abandoned passes, and the clause is false (C07_nearest_refuted, finding F-C07-2). *)
  Theorem C07_nearest_partial : forall fuel root R g,
    version_errs_sane c_version ->
    pass fuel root [] = (R, Ok g) ->
    resolve fuel root = Ok g /\
    forall k, all_soft is_simple (reqs_of R k) ->
    forall e0 rest, filter (on_k k) (g_edges g) = e0 :: rest ->
    exists v, c_version (set_vt (e_dvk e0) vtype_Concrete) = Ok v /\
              forall e, In e (e0 :: rest) -> e_to e = v_vk v.
  Proof. exact (thm_nearest_single_pass c_version c_versions c_requirements is_simple cmatch vless). Qed.

  (* ---- nearest wins with ranges in play, when the first pass succeeds (no retry): the FIRST declaration of an
     artifact key, in creation = breadth-first order, decides alone, whatever is declared later and whether it is
     a soft version or a range: its edge points to what findMatch answers on that ONE requirement (soft: that
     version; range: the first listed version inside it), and every further edge of the key follows it (edges
     made through the shared-node shortcut excepted, see C07_shared_edges).  This is "the declaration nearest to
     the root, first in breadth-first order" of the property text without the all-soft restriction of
     C07_nearest_partial; after a retry it is false (C07_nearest_refuted). *)
  Theorem C07_first_declaration_decides : forall fuel root R g,
    pass fuel root [] = (R, Ok g) ->
    resolve fuel root = Ok g /\
    forall k, (forall ne, In ne (g_errs g) -> ne_mk ne <> k) ->
    forall e0 rest, filter (on_k k) (g_edges g) = e0 :: rest ->
      (exists m, find_match [e_dvk e0] = Ok m /\ e_to e0 = v_vk m) /\
      (e_kind e0 <> EShared -> forall e, In e rest -> e_kind e <> EShared -> e_to e = e_to e0).
  Proof. exact (thm_first_decides c_version c_versions c_requirements is_simple cmatch vless). Qed.

  (* ---- which version is selected, for EVERY number of passes: the last edge of an artifact key points to what
     findMatch answers on the FINAL requirement list of the key (soft versions in the order met, else the first
     listed version inside all ranges), and every other edge of the key that is not a shared-node edge points to
     the same version.  This is the rule the direct oracle evaluates with its own findMatch on the Go graphs
     (harness/props/C07.py, selection_hits); it explains F-C07-2: after a retry the final list still starts with
     the requirements of the abandoned passes. *)
  Theorem C07_final_list_decides : forall fuel root R g,
    resolve_full fuel root = (R, Ok g) ->
    forall k, (forall ne, In ne (g_errs g) -> ne_mk ne <> k) ->
    forall es el, filter (on_k k) (g_edges g) = es ++ [el] ->
      exists m, find_match (reqs_of R k) = Ok m /\ e_to el = v_vk m /\
                (e_kind el <> EShared -> forall e, In e es -> e_kind e <> EShared -> e_to e = v_vk m).
  Proof. exact (thm_final_list_decides c_version c_versions c_requirements is_simple cmatch vless). Qed.

  (* ---- when no version satisfies the requirements a node error is reported instead (the other
     outcome, the incompatible-requirements error, is a resolution that returns no graph).
     (a) one declaration: if findMatch answers errNoMatch the step records the node error and goes
         on; it never makes an edge;
     (b) in the returned graph every edge is an answer of findMatch on the requirement list
         accumulated when its declaration was processed (a prefix of the final list) and every node
         error is an errNoMatch answer;
     (c) nothing vanishes: every node of the graph was taken from the queue, and unless it was
         created through a war/ear/rar dependency its requirements were read and every kept
         declaration that the node's exclusion set does not exclude is represented by an edge or by a
         node error leaving that node, carrying that declaration's (managed) requirement and key. *)
  Theorem C07_no_match_reported :
    (forall mgt first cur st d,
        is_excluded (n_excl cur) (dep_name d) = Ok false ->
        find_match (dep_l mgt first st d) = Err ENoMatch ->
        process_dep c_version c_versions is_simple cmatch vless first cur mgt st d =
        (set_g (dep_st1 mgt first st d)
               (g_add_err (s_g st) (mkNErr (n_vk cur) (dep_dvk mgt first d) (dep_k d))), Go))
    /\ (forall fuel root R g,
           resolve_full fuel root = (R, Ok g) ->
           (forall e, In e (g_edges g) ->
                      exists l m, prefix l (reqs_of R (e_mk e)) /\ In (e_dvk e) l /\ find_match l = Ok m /\ e_to e = v_vk m)
           /\ (forall ne, In ne (g_errs g) ->
                          exists l, prefix l (reqs_of R (ne_mk ne)) /\ In (ne_req ne) l /\ find_match l = Err ENoMatch))
    /\ (forall fuel root g,
           resolve fuel root = Ok g ->
           forall ver imps0, c_version root = Ok ver -> c_requirements (v_vk ver) = Ok imps0 ->
           forall x, In x (g_nodes g) ->
           exists t, n_vk t = x /\ aget vkey_dec (g_nexcl g) x = Some (n_excl t) /\
                     ((x = root /\ n_incl t = false) \/
                      exists s, In s (g_edges g) /\ e_kind s = ECreated /\ e_to s = x /\ n_incl t = warish (e_ty s)) /\
                     (n_incl t = true \/
                      exists ds, imports c_requirements x (if is_first root x then all_imports else 0) = Ok ds /\
                                 forall d, In d ds -> is_excluded (n_excl t) (dep_name d) = Ok false ->
                                           represented (mgt_of imps0) (is_first root x) x d g)).
  Proof.
    exact (conj (thm_no_match_step c_version c_versions is_simple cmatch vless)
                (conj (thm_justified c_version c_versions c_requirements is_simple cmatch vless)
                      (thm_complete c_version c_versions c_requirements is_simple cmatch vless))).
  Qed.

  (* ---- the retry loop: a pass only appends to the requirement lists; an incompatible pass
     strictly lengthens one of them; the graph resolve returns is the graph of ONE pass, run from
     requirement lists accumulated by the earlier (incompatible) passes, so every invariant of a
     pass is an invariant of resolve. *)
  Theorem C07_retry_monotone :
    (forall fuel root R0 R r, reqs_wf R0 -> pass fuel root R0 = (R, r) -> reqs_extends R0 R)
    /\ (forall fuel root R0 R,
           client_sane c_version c_versions c_requirements is_simple ->
           pass fuel root R0 = (R, Err EIncompat) -> grows R0 R)
    /\ (forall fuel root g,
           resolve fuel root = Ok g ->
           exists Ra R, reqs_wf Ra /\ pass fuel root Ra = (R, Ok g) /\ resolve_full fuel root = (R, Ok g)).
  Proof.
    exact (conj (thm_pass_extends c_version c_versions c_requirements is_simple cmatch vless)
                (conj (thm_pass_incompat_grows c_version c_versions c_requirements is_simple cmatch vless)
                      (resolve_ok c_version c_versions c_requirements is_simple cmatch vless))).
  Qed.
End C07.

Print Assumptions C07_one_version_partial.
Print Assumptions C07_range_edges.
Print Assumptions C07_root_only_scopes.
Print Assumptions C07_no_traverse_war.
Print Assumptions C07_exclusions.
Print Assumptions C07_management.
Print Assumptions C07_nearest_requirements.
Print Assumptions C07_nearest_partial.
Print Assumptions C07_first_declaration_decides.
Print Assumptions C07_final_list_decides.
Print Assumptions C07_no_match_reported.
Print Assumptions C07_ghost_consistent.
Print Assumptions C07_shared_edges.
Print Assumptions C07_one_version_single_variant.
Print Assumptions C07_one_version_observable_partial.
Print Assumptions C07_retry_monotone.

(* ---- totality (property C04 for the Maven resolver): for every client that itself returns a value or an
   error (a client that panics makes Resolve panic: that panic is the client's) and whose answers mention only
   the version keys of a finite list U, every semver oracle and every root, the resolution returns a graph or an
   error as soon as the fuel reaches the EXPLICIT bound S (length U): never Panic, never OutOfFuel.
   Measure of a pass: queue length + number of distinct keys of U that are not yet nodes (a queue entry is added
   only together with a new node, whose key is a client answer); the retry loop runs the same pass at most
   maven_max_retries + 1 times with the same fuel, so the bound does not depend on maxRetries. *)
Theorem C07_resolve_total :
  forall (c_version : vkey -> res version) (c_versions : pkey -> res (list version))
         (c_requirements : vkey -> res (list reqver)) (is_simple : bytes -> res bool)
         (cmatch : bytes -> bytes -> bool) (vless : vkey -> vkey -> bool) (U : list vkey),
    answers_in c_version c_versions U -> client_total c_version c_versions c_requirements is_simple ->
    forall root, exists F, forall fuel, (F <= fuel)%nat ->
      match resolve c_version c_versions c_requirements is_simple cmatch vless fuel root with
      | Panic _ => False | OutOfFuel => False | _ => True end.
Proof.
  intros cv cvs cr isim cm vl U A T root. exists (S (length U)).
  exact (thm_resolve_total cv cvs cr isim cm vl U root A T).
Qed.
Print Assumptions C07_resolve_total.

(* the three `Panic _ | OutOfFuel => Stop EOther` branches of the model (after isExcluded, findMatch and imports)
   stand for a panic raised INSIDE a client call, which Go does not recover; for a client that does not panic they
   are unreachable, so the theorem above is not made true by them *)
Theorem C07_absorbed_unreachable :
  forall (c_version : vkey -> res version) (c_versions : pkey -> res (list version))
         (c_requirements : vkey -> res (list reqver)) (is_simple : bytes -> res bool)
         (cmatch : bytes -> bytes -> bool) (vless : vkey -> vkey -> bool),
    client_total c_version c_versions c_requirements is_simple ->
    (forall ex n, res_plain (is_excluded ex n)) /\
    (forall l, res_plain (find_match c_version c_versions is_simple cmatch vless l)) /\
    (forall vk opt, res_plain (imports c_requirements vk opt)).
Proof. exact absorbed_unreachable. Qed.
Print Assumptions C07_absorbed_unreachable.

(* for a client given by a finite table both hypotheses are decided on the table: answers_in holds by
   construction for U = tb_universe t, client_total is the boolean tb_plain t (checked by the harness on every
   recorded table); the bound is tb_fuel t = S (length (tb_universe t)) *)
Theorem C07_table_resolve_total : forall t root, tb_plain t = true ->
  forall fuel, (tb_fuel t <= fuel)%nat ->
    match table_resolve t fuel root with Panic _ => False | OutOfFuel => False | _ => True end.
Proof. exact table_resolve_total. Qed.
Print Assumptions C07_table_resolve_total.

Example C07_example_single_variant :
  version_faithful (tc_version ex_tables) /\ versions_faithful (tc_versions ex_tables) /\
  single_variant ex_root ex_graph /\ length (filter (on_k ex_c) (g_edges ex_graph)) = 2%nat.
Proof. exact (conj ex_faithful (conj ex_versions_faithful (conj ex_single_variant (proj1 (proj2 (proj2 (proj2 (proj2 (proj2 (proj2 ex_shape)))))))))). Qed.
Example C07_example_first_declaration_range :
  match filter (on_k ex_b) (g_edges ex_graph) with
  | e0 :: _ => bytes_eqb (e_req e0) [91;49;44;50;93] && bytes_eqb (vk_ver (e_to e0)) [50]
  | [] => false
  end = true
  /\ forallb (fun ne => if mkey_dec (ne_mk ne) ex_b then false else true) (g_errs ex_graph) = true.
Proof. exact ex_first_is_range. Qed.
Example C07_example_final_list :
  resolve_full (tc_version w2_tables) (tc_versions w2_tables) (tc_requirements w2_tables) (tc_simple w2_tables)
               (tc_match w2_tables) (tc_less w2_tables) 50 w2_root = (w2_reqs, Ok w2_graph)
  /\ map vk_ver (reqs_of w2_reqs w2_k) = [[49]; [50]]
  /\ length (filter (on_k w2_k) (g_edges w2_graph)) = 1%nat
  /\ forallb (fun ne => if mkey_dec (ne_mk ne) w2_k then false else true) (g_errs w2_graph) = true.
Proof. exact w2_full. Qed.
Example C07_example_shared_edge :
  existsb (fun e => match e_kind e with EShared => true | _ => false end) (g_edges w1_graph) = true
  /\ single_variantb w1_root w1_graph = false.
Proof. exact w1_has_shared_edge. Qed.

Example C07_example_total_hypotheses : tb_plain ex_tables = true.
Proof. exact ex_plain. Qed.

(* ---- the unrestricted clauses are false of the faithful model (and of the Go code: the witnesses
   are the recorded Go runs of known/C07.jsonl) *)
Theorem C07_one_version_refuted : ~ one_version_full.
Proof. exact one_version_full_refuted. Qed.
Print Assumptions C07_one_version_refuted.

Theorem C07_nearest_refuted : ~ nearest_full.
Proof. exact nearest_full_refuted. Qed.
Print Assumptions C07_nearest_refuted.

(* ---- the hypotheses are satisfiable: a concrete client (tables recorded from a Go run) that is
   faithful and sane, resolves in one pass to a graph with 8 nodes and 8 edges that has a range
   edge, transitive edges, a managed transitive declaration, a war node, a two-entry exclusion set
   and an all-soft artifact key declared twice. *)
Example C07_example_resolves : table_resolve ex_tables 100 ex_root = Ok ex_graph.
Proof. exact ex_resolves. Qed.
Example C07_example_client_ok :
  version_faithful (tc_version ex_tables) /\ version_errs_sane (tc_version ex_tables) /\
  client_sane (tc_version ex_tables) (tc_versions ex_tables) (tc_requirements ex_tables) (tc_simple ex_tables).
Proof. exact (conj ex_faithful (conj ex_version_sane ex_sane)). Qed.
Example C07_example_single_pass :
  pass (tc_version ex_tables) (tc_versions ex_tables) (tc_requirements ex_tables) (tc_simple ex_tables)
       (tc_match ex_tables) (tc_less ex_tables) 100 ex_root [] = (ex_reqs, Ok ex_graph).
Proof. exact ex_single_pass. Qed.
Example C07_example_incompatible_pass :
  snd (pass (tc_version w2_tables) (tc_versions w2_tables) (tc_requirements w2_tables) (tc_simple w2_tables)
            (tc_match w2_tables) (tc_less w2_tables) 50 w2_root []) = Err EIncompat.
Proof. exact w2_first_pass_incompatible. Qed.
