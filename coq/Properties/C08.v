(* C08 -- a PyPI resolution graph is a consistent pip solution.  Statements only. *)
From DepsDev Require Import Lib.Base Gen.PypiTables Resolve.Pypi.
