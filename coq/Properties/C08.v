(* C08 -- a PyPI resolution graph is a consistent pip solution.
   Statements only; each is closed by [exact] of a lemma proved in Resolve/Pypi_*_proofs.v.

   Every theorem quantifies over ALL clients (answers of Versions, Requirements,
   MatchingVersions) and ALL oracles (marker parse+eval, and what resolve.go asks of semver),
   over all roots and over every bound on the number of rounds (in particular maxRounds, read
   from the Go source).  The only hypothesis on the client is client_wf: it answers about the
   package it was asked about and hands out requirement keys of type Requirement.
   `Resolve returns a graph without a graph-level error` is [resolve_fuel ... = Ok g]. *)
From Coq Require Import String Sorted.
From DepsDev Require Import Lib.Base Gen.PypiTables Resolve.Pypi Resolve.Pypi_lists_proofs Resolve.Pypi_inv_proofs
     Resolve.Pypi_graph_proofs Resolve.Pypi_fuel_proofs Resolve.Pypi_total_proofs Resolve.Pypi_exact_proofs Resolve.Pypi_spec Resolve.Pypi_examples Resolve.Pypi_proofs.

Section C08.
  Variable c_versions : bytes -> res (list vkey).
  Variable c_requirements : vkey -> res (list req).
  Variable c_matching : vkey -> res (list vkey).
  Variable marker_true : bytes -> list bytes -> res bool.
  Variable has_pre constraint_ok : bytes -> bool.
  Variable match_pre ver_lt : bytes -> bytes -> bool.
  Variable root : vkey.

  Let Resolve := resolve_fuel c_versions c_requirements c_matching marker_true has_pre constraint_ok match_pre ver_lt root.
  Let ResolveState := resolve_state_fuel c_versions c_requirements c_matching marker_true has_pre constraint_ok match_pre ver_lt root.
  Let Invariant := Inv c_versions c_requirements c_matching marker_true has_pre constraint_ok match_pre ver_lt root.
  Let WF := client_wf c_versions c_requirements c_matching.
  Let MV := matching_versions c_matching root.
  Let MVP := matching_versions_pre c_versions c_matching has_pre constraint_ok match_pre ver_lt root.

  (* ---- the state invariant ----
     Inv st: for every criterion, each candidate is admitted by every requirement of the criterion
     (under the matching mode findMatches uses for that list) and is not an incompatibility; every
     information entry names the criterion's package and is a requirement its parent has and
     getDependencies kept for extras contained in those of the parent's criterion; the extras of a
     criterion come from its information entries; every pinned version had the requirements kept
     for the extras known at pin time (last one per package) merged into the criteria; the direct
     dependencies are there. *)
  Theorem C08_pin_preserves_Inv : forall st n crit cand upd,
    WF -> Invariant st -> crit_get (criteria_of st) n = Some crit -> In cand (c_cands crit) ->
    get_criteria_to_update c_versions c_requirements c_matching marker_true has_pre constraint_ok match_pre ver_lt root
      st cand (c_extras crit) = Ok upd ->
    Invariant (apply_pin st n cand upd).
  Proof. intros st n crit cand upd W. exact (pin_preserves_Inv _ _ _ _ _ _ _ _ _ W st n crit cand upd). Qed.

  Theorem C08_backtrack_preserves_Inv : forall fuel states states',
    WF -> Forall Invariant states -> backtrack fuel states = Ok (Some states') -> Forall Invariant states'.
  Proof. intros fuel states states' W. exact (backtrack_preserves_Inv _ _ _ _ _ _ _ _ _ fuel states states'). Qed.

  Theorem C08_resolve_returns_satisfied : forall fuel st,
    WF -> ResolveState fuel = Ok st ->
    Invariant st /\ forall n c, crit_get (criteria_of st) n = Some c -> is_satisfying st n c = true.
  Proof. intros fuel st W. exact (resolve_returns_satisfied _ _ _ _ _ _ _ _ _ W fuel st). Qed.

  (* buildGraph never fails on a state the resolution returns (the bound on hasRouteToRoot's
     recursion suffices; the unexpected-package error is unreachable) *)
  Theorem C08_graph_total : forall fuel st,
    WF -> ResolveState fuel = Ok st -> exists g, Resolve fuel = Ok g.
  Proof. intros fuel st W. exact (graph_total _ _ _ _ _ _ _ _ _ W fuel st). Qed.

  (* ---- totality of the resolution (the PyPI part of C04) ----
     For EVERY client, every marker/semver oracle, every root and every round limit, Resolve returns
     a graph, a graph-level error or a hard error: never a panic, never out of fuel.  No hypothesis
     on the client: its answers are finite lists or errors, the oracles answer a value or an error
     (that markers.go and semver do so is C16/C04), and nothing in resolve.go indexes, dereferences
     or recurses without a bound.  The fuel of the main loop IS the round limit (at zero the model
     answers errTooDeep), so there is no hidden fuel to choose; the inner loops carry their own,
     explicit bounds, proved sufficient below. *)
  Theorem C08_resolve_total : forall maxRounds,
    match Resolve maxRounds with Panic _ => False | OutOfFuel => False | _ => True end.
  Proof. exact (resolve_fine c_versions c_requirements c_matching marker_true has_pre constraint_ok match_pre ver_lt root). Qed.

  (* the backtracking loop pops at least one state per iteration: the height of the stack bounds it *)
  Theorem C08_backtrack_terminates : forall fuel states,
    (0 < fuel)%nat -> (length states <= fuel)%nat ->
    match backtrack fuel states with Panic _ => False | OutOfFuel => False | _ => True end.
  Proof. exact backtrack_fine. Qed.

  (* filterSlice examines every element once: the length of the slice bounds it *)
  Theorem C08_filter_slice_terminates : forall (A : Type) (pred : A -> res bool) fuel l,
    (forall x, match pred x with Panic _ => False | OutOfFuel => False | _ => True end) ->
    (length l <= fuel)%nat ->
    match filter_slice fuel pred l with Panic _ => False | OutOfFuel => False | _ => True end.
  Proof. intros A pred fuel l H. exact (filter_slice_fine pred H fuel l). Qed.

  (* hasRouteToRoot marks one more pinned version at every level of its recursion: the number of
     pinned versions not yet visited bounds its depth (no stack overflow), for any state *)
  Theorem C08_has_route_terminates : forall st fuel v c,
    (exists p, In (p, v) (mapping st)) -> (unvisited st c < fuel)%nat ->
    exists r, has_route fuel st v c = Ok r.
  Proof.
    intros st fuel v c P H. destruct (has_route_total st fuel v c P H) as (r & R & _). exists r. exact R.
  Qed.

  (* ---- the candidates of a criterion are exactly what all its requirements admit ----
     In the state the resolution returns (and in every state on the way), a version is a candidate of
     a criterion IF AND ONLY IF every requirement of the criterion admits it -- in the matching mode
     findMatches decides from the WHOLE list (pre-release matching iff the list has more than one
     element and one of them names a pre-release) -- and it is not an incompatibility.  So no
     requirement is lost, none is matched in another mode, and no candidate of an earlier, shorter
     list is reused.
     MISSING for the unconditional statement: the provider's answers must come in one consistent
     strict order lt (intersect walks both lists once); LocalClient answers in ascending version
     order.  Without it the statement is false (C08_candidates_exact_refuted below). *)
  Theorem C08_candidates_exact_partial : forall (lt : vkey -> vkey -> Prop) fuel st,
    (forall a, ~ lt a a) -> (forall a b c, lt a b -> lt b c -> lt a c) ->
    (forall pre rq l, gm c_versions c_matching has_pre constraint_ok match_pre ver_lt root pre rq = Ok l ->
                      StronglySorted lt l) ->
    ResolveState fuel = Ok st ->
    forall n c, crit_get (criteria_of st) n = Some c ->
    forall v, In v (c_cands c) <->
              allowed c_versions c_matching has_pre constraint_ok match_pre ver_lt root (reqs_of c) v /\
              ~ In v (c_incompat c).
  Proof.
    intros lt fuel st I T S H.
    exact (resolve_state_exact c_versions c_requirements c_matching marker_true has_pre constraint_ok match_pre ver_lt root lt I T S fuel st H).
  Qed.

  (* the same with the hypothesis moved to the client and the version comparator: MatchingVersions
     answers strictly ascending in lt; Versions answers without repetition, on which the comparator
     used by matchingVersionsWithPrereleases decides lt and any two versions are comparable.  (The
     share of recorded tables that meet this is measured on every run.) *)
  Theorem C08_candidates_exact_client_partial : forall (lt : vkey -> vkey -> Prop) fuel st,
    (forall a, ~ lt a a) -> (forall a b c, lt a b -> lt b c -> lt a c) ->
    (forall k l, c_matching k = Ok l -> StronglySorted lt l) ->
    (forall p l, c_versions p = Ok l ->
       NoDup l /\ forall a b, In a l -> In b l ->
         (ver_lt (vk_ver a) (vk_ver b) = true <-> lt a b) /\ (a = b \/ lt a b \/ lt b a)) ->
    ResolveState fuel = Ok st ->
    forall n c, crit_get (criteria_of st) n = Some c ->
    forall v, In v (c_cands c) <->
              allowed c_versions c_matching has_pre constraint_ok match_pre ver_lt root (reqs_of c) v /\
              ~ In v (c_incompat c).
  Proof.
    intros lt fuel st I T Hm Hv H.
    exact (resolve_state_exact c_versions c_requirements c_matching marker_true has_pre constraint_ok match_pre ver_lt root lt I T
             (gm_sorted_client c_versions c_matching has_pre constraint_ok match_pre ver_lt root lt T Hm Hv) fuel st H).
  Qed.

  (* ---- a reported conflict is a real one (part of: failure only when no assignment exists) ----
     When mergeIntoCriterion answers with the requirements-conflict error (the error that makes a
     candidate be rejected, and, for a direct dependency, the whole resolution fail), no version is
     admitted by the criterion's requirements together with the new one and is not an
     incompatibility.  Same order hypothesis as above.
     MISSING for the clause of the property: that backtracking explores every assignment before
     `resolution impossible` is reported after rounds of pinning (completeness of the search). *)
  Theorem C08_conflict_sound_partial : forall (lt : vkey -> vkey -> Prop) st rq par,
    (forall a, ~ lt a a) -> (forall a b c, lt a b -> lt b c -> lt a c) ->
    (forall pre r l, gm c_versions c_matching has_pre constraint_ok match_pre ver_lt root pre r = Ok l ->
                     StronglySorted lt l) ->
    exact_state c_versions c_matching has_pre constraint_ok match_pre ver_lt root st ->
    merge_into_criterion c_versions c_matching has_pre constraint_ok match_pre ver_lt root st rq par = Err EConflict ->
    let c := crit_get_or_empty (criteria_of st) (rq_name rq) in
    forall v, ~ (allowed c_versions c_matching has_pre constraint_ok match_pre ver_lt root (reqs_of c ++ [rq]) v /\
                 ~ In v (c_incompat c)).
  Proof.
    intros lt st rq par I T S.
    exact (merge_conflict_sound c_versions c_requirements c_matching has_pre constraint_ok match_pre ver_lt root lt I T S st rq par).
  Qed.

  (* the graph-level error raised while the direct dependencies are merged: at the requirement d where
     it stops, no version of d's package is admitted by d together with the direct requirements
     merged before it *)
  Theorem C08_initial_error_sound_partial : forall (lt : vkey -> vkey -> Prop) deps,
    (forall a, ~ lt a a) -> (forall a b c, lt a b -> lt b c -> lt a c) ->
    (forall pre r l, gm c_versions c_matching has_pre constraint_ok match_pre ver_lt root pre r = Ok l ->
                     StronglySorted lt l) ->
    init_criteria c_versions c_matching has_pre constraint_ok match_pre ver_lt root empty_state deps = Err EImpossible ->
    exists pre d post st1,
      deps = pre ++ d :: post /\
      init_criteria c_versions c_matching has_pre constraint_ok match_pre ver_lt root empty_state pre = Ok st1 /\
      let c := crit_get_or_empty (criteria_of st1) (rq_name d) in
      forall v, ~ (allowed c_versions c_matching has_pre constraint_ok match_pre ver_lt root (reqs_of c ++ [d]) v /\
                   ~ In v (c_incompat c)).
  Proof.
    intros lt deps I T S.
    apply (init_impossible_sound c_versions c_requirements c_matching has_pre constraint_ok match_pre ver_lt root lt I T S deps empty_state).
    intros n c G. discriminate.
  Qed.

  (* ---- the clauses of the property ---- *)

  (* exactly one version per package *)
  Theorem C08_one_version : forall fuel g,
    WF -> Resolve fuel = Ok g -> NoDup (map vk_name (g_nodes g)).
  Proof. intros fuel g W. exact (one_version _ _ _ _ _ _ _ _ _ W fuel g). Qed.

  (* the root is node 0, no other node is a version of its package, and inside the resolution the
     root package is never pinned to another version *)
  Theorem C08_root_fixed : forall fuel g,
    WF -> Resolve fuel = Ok g ->
    (exists tl, g_nodes g = root :: tl) /\
    (forall w, In w (g_nodes g) -> vk_name w = vk_name root -> w = root).
  Proof. intros fuel g W. exact (root_fixed _ _ _ _ _ _ _ _ _ W fuel g). Qed.

  Theorem C08_root_pin_fixed : forall fuel st v,
    WF -> ResolveState fuel = Ok st -> vm_get (mapping st) (vk_name root) = Some v -> v = root.
  Proof. intros fuel st v W. exact (root_pin_fixed _ _ _ _ _ _ _ _ _ W fuel st v). Qed.

  (* requirements whose marker is false contribute nothing, as far as it holds: every edge carries a
     requirement d that some version par of the source's package has (par is the source itself
     unless that package was pinned again later), that names the target's package, and whose marker
     is absent or evaluated true for some set E of extras; in particular a requirement whose marker
     is false whatever the extras never yields an edge.
     E only holds extras that some requirement on the source's package requests.
     MISSING with respect to the property: E is the set of extras in force when par was pinned
     (the union over all information of the criterion), which may contain extras requested only by
     versions that are no longer in the graph (F-C08-3, refuted below). *)
  Theorem C08_false_marker_nothing_partial : forall fuel g f t rqv ty,
    WF -> Resolve fuel = Ok g -> In (f, t, rqv, ty) (g_edges g) ->
    exists fv tv par d E l,
      nth_error (g_nodes g) f = Some fv /\ nth_error (g_nodes g) t = Some tv /\
      (vk_name par = vk_name fv \/ (par = vkey_zero /\ fv = root)) /\
      c_requirements par = Ok l /\ In d l /\
      rq_ver d = rqv /\ rq_type d = ty /\ rq_name d = vk_name tv /\
      keep marker_true E d = Ok true /\
      (forall e, In e E -> exists par' d' l', c_requirements par' = Ok l' /\ In d' l' /\
                            rq_name d' = vk_name par /\ In e (extras_of_type (rq_type d'))).
  Proof. intros fuel g f t rqv ty W. exact (false_marker_nothing _ _ _ _ _ _ _ _ _ W fuel g f t rqv ty). Qed.

  (* every edge leads to a selected version that satisfies its specifier under pip's prerelease rule
     as the provider implements it: it is in matchingVersions or matchingVersionsWithPrereleases
     computed from the client's answers (the specifier semantics itself is property C03) *)
  Theorem C08_edges_sat : forall fuel g f t rqv ty,
    WF -> Resolve fuel = Ok g -> In (f, t, rqv, ty) (g_edges g) ->
    exists tv d l,
      nth_error (g_nodes g) t = Some tv /\ rq_ver d = rqv /\ rq_type d = ty /\ rq_name d = vk_name tv /\
      (MV (rq_key d) = Ok l \/ MVP (rq_key d) = Ok l) /\ In tv l.
  Proof. intros fuel g f t rqv ty W. exact (edges_sat _ _ _ _ _ _ _ _ _ W fuel g f t rqv ty). Qed.

  (* pip's prerelease rule pinned down: the target is admitted by the edge's requirement d in the mode
     findMatches uses for a list reqs of requirements that versions known to the client place on the
     target's package: plain matchingVersions unless reqs has more than one element and one of them
     names a prerelease itself (any_pre).  In particular, if no requirement on that package names a
     prerelease, the target is in matchingVersions d. *)
  Theorem C08_edges_sat_rule : forall fuel g f t rqv ty,
    WF -> Resolve fuel = Ok g -> In (f, t, rqv, ty) (g_edges g) ->
    exists tv d reqs l,
      nth_error (g_nodes g) t = Some tv /\ In d reqs /\ rq_ver d = rqv /\ rq_type d = ty /\
      (forall r, In r reqs -> rq_name r = vk_name tv /\ exists par lr, c_requirements par = Ok lr /\ In r lr) /\
      gm c_versions c_matching has_pre constraint_ok match_pre ver_lt root (any_pre has_pre reqs) (rq_key d) = Ok l /\
      In tv l.
  Proof. intros fuel g f t rqv ty W. exact (edges_sat_rule _ _ _ _ _ _ _ _ _ W fuel g f t rqv ty). Qed.

  (* every node is reachable from the root along edges that ARE requirements of their source version
     (edges drawn from a replaced version's requirement, F-C08-4, are not used), for clients whose
     MatchingVersions answers are Concrete versions (checked on every recorded table) *)
  Theorem C08_reachable_req : forall fuel g i w,
    WF -> (forall k l v, c_matching k = Ok l -> In v l -> vk_type v = version_type_concrete) ->
    Resolve fuel = Ok g -> nth_error (g_nodes g) i = Some w ->
    reach_req c_requirements (g_nodes g) (g_edges g) i.
  Proof. intros fuel g i w W. exact (reachable_req _ _ _ _ _ _ _ _ _ W fuel g i w). Qed.

  (* every node is reachable from the root (hasRouteToRoot is sound) *)
  Theorem C08_reachable : forall fuel g i w,
    WF -> Resolve fuel = Ok g -> nth_error (g_nodes g) i = Some w -> reach_idx (g_edges g) i.
  Proof. intros fuel g i w W. exact (reachable _ _ _ _ _ _ _ _ _ W fuel g i w). Qed.

  (* completeness of the edges, as far as it holds (see Pypi_proofs.edges_complete_partial).
     MISSING with respect to the property: the set E of extras for which a node's requirements were
     decided may be smaller than the extras finally requested of it (F-C08-2), and a pinned package
     may have been left out of the graph by hasRouteToRoot (F-C08-1); both are refuted below. *)
  Theorem C08_edges_complete_sat_partial : forall fuel g,
    WF -> Resolve fuel = Ok g ->
    (root <> vkey_zero ->
       exists deps, get_dependencies c_requirements marker_true root [] = Ok deps /\
                    complete_for c_versions c_matching has_pre constraint_ok match_pre ver_lt root g O deps) /\
    (forall i v, nth_error (g_nodes g) i = Some v -> v <> root -> v <> vkey_zero ->
       exists E deps, get_dependencies c_requirements marker_true v E = Ok deps /\
                      complete_for c_versions c_matching has_pre constraint_ok match_pre ver_lt root g i deps).
  Proof. intros fuel g W. exact (edges_complete_partial _ _ _ _ _ _ _ _ _ W fuel g). Qed.
End C08.

Print Assumptions C08_pin_preserves_Inv.
Print Assumptions C08_backtrack_preserves_Inv.
Print Assumptions C08_resolve_returns_satisfied.
Print Assumptions C08_resolve_total.
Print Assumptions C08_backtrack_terminates.
Print Assumptions C08_filter_slice_terminates.
Print Assumptions C08_has_route_terminates.
Print Assumptions C08_candidates_exact_partial.
Print Assumptions C08_candidates_exact_client_partial.
Print Assumptions C08_conflict_sound_partial.
Print Assumptions C08_initial_error_sound_partial.
Print Assumptions C08_graph_total.
Print Assumptions C08_one_version.
Print Assumptions C08_root_fixed.
Print Assumptions C08_root_pin_fixed.
Print Assumptions C08_false_marker_nothing_partial.
Print Assumptions C08_edges_sat.
Print Assumptions C08_edges_sat_rule.
Print Assumptions C08_reachable_req.
Print Assumptions C08_reachable.
Print Assumptions C08_edges_complete_sat_partial.

(* The completeness clause at full strength, as the property states it: for every client, every
   node v and every requirement d of v whose marker is true for the extras requested of v by its
   incoming edges, an edge labelled d leaves v.  It is FALSE of the resolver as written. *)
Definition C08_edges_complete_full : Prop :=
  forall c_versions c_requirements c_matching marker_true has_pre constraint_ok match_pre ver_lt root g,
    client_wf c_versions c_requirements c_matching ->
    (forall v l, c_requirements v = Ok l -> NoDup (map rq_name l)) ->
    resolve c_versions c_requirements c_matching marker_true has_pre constraint_ok match_pre ver_lt root = Ok g ->
    edges_complete c_requirements marker_true g.

(* F-C08-1: root 1.0 -> q; q 1.0, q 2.0 -> x; x 1.0 -> p; p 1.0 -> x, q<2.  x 1.0 is selected and
   requires p, p 1.0 is pinned, but the graph has neither p nor the edge. *)
Theorem C08_edges_complete_refuted_route : ~ C08_edges_complete_full.
Proof. exact edges_complete_refuted_route. Qed.
Print Assumptions C08_edges_complete_refuted_route.

(* F-C08-2: b -> d[e1], z -> d[e2], d -> e ; extra == e1, f ; extra == e2.  d is pinned before z:
   the graph has the edge z -> d requesting e2 but no edge d -> f. *)
Theorem C08_edges_complete_refuted_extras : ~ C08_edges_complete_full.
Proof. exact edges_complete_refuted_extras. Qed.
Print Assumptions C08_edges_complete_refuted_extras.

(* The false-marker clause at full strength: an edge labelled with a requirement d of its source
   exists only if d's marker is true for the extras requested of the source by its incoming edges.
   It is FALSE of the resolver as written. *)
Definition C08_false_marker_full : Prop :=
  forall c_versions c_requirements c_matching marker_true has_pre constraint_ok match_pre ver_lt root g,
    client_wf c_versions c_requirements c_matching ->
    (forall v l, c_requirements v = Ok l -> NoDup (map rq_name l)) ->
    resolve c_versions c_requirements c_matching marker_true has_pre constraint_ok match_pre ver_lt root = Ok g ->
    false_marker_clause c_requirements marker_true g.

(* F-C08-3: root -> w, k; w 2.0 -> x, y; w 1.0 -> y; x -> z[e2]; y -> w<2; k -> z; z -> m ; extra == e2.
   x requests z[e2] and is then cut off (w 2.0 is replaced by w 1.0); the graph keeps z -> m. *)
Theorem C08_false_marker_refuted_stale : ~ C08_false_marker_full.
Proof. exact false_marker_refuted_stale. Qed.
Print Assumptions C08_false_marker_refuted_stale.

(* Every edge stands for a requirement of its source version.  FALSE of the resolver as written; what
   holds is C08_false_marker_nothing_partial: the requirement belongs to some version of the source's
   package that was pinned at some point. *)
Definition C08_edges_sound_full : Prop :=
  forall c_versions c_requirements c_matching marker_true has_pre constraint_ok match_pre ver_lt root g,
    client_wf c_versions c_requirements c_matching ->
    (forall v l, c_requirements v = Ok l -> NoDup (map rq_name l)) ->
    resolve c_versions c_requirements c_matching marker_true has_pre constraint_ok match_pre ver_lt root = Ok g ->
    edges_sound_clause c_requirements g.

(* F-C08-4: root -> q; q 2.0 -> x>=1.0, y; q 1.0 -> x, y; y -> q<2.  q 2.0 is pinned and replaced by
   q 1.0; the graph has an edge q 1.0 -> x labelled >=1.0, which q 1.0 does not require. *)
Theorem C08_edges_sound_refuted_stale : ~ C08_edges_sound_full.
Proof. exact edges_sound_refuted_stale. Qed.
Print Assumptions C08_edges_sound_refuted_stale.

(* Exactness of candidates for every client, without the order hypothesis: FALSE.
   r -> a, b; a -> x>=1; b -> x<3; a (well-formed) client answers MatchingVersions(x>=1) = [1.0; 2.0]
   and MatchingVersions(x<3) = [2.0; 1.0]: intersect finds 1.0 at the end of the second list and has
   nothing left to find 2.0 in, so x 2.0, admitted by both requirements, is not a candidate and the
   resolver selects x 1.0.  Replayed on the Go resolver through the table client on every run. *)
Definition C08_candidates_exact_full : Prop :=
  forall c_versions c_requirements c_matching marker_true has_pre constraint_ok match_pre ver_lt root fuel st,
    client_wf c_versions c_requirements c_matching ->
    resolve_state_fuel c_versions c_requirements c_matching marker_true has_pre constraint_ok match_pre ver_lt root fuel = Ok st ->
    exact_state c_versions c_matching has_pre constraint_ok match_pre ver_lt root st.

Theorem C08_candidates_exact_refuted : ~ C08_candidates_exact_full.
Proof. exact candidates_exact_refuted. Qed.
Print Assumptions C08_candidates_exact_refuted.

(* the hypotheses of C08_candidates_exact_partial are satisfiable *)
Example C08_candidates_exact_inhabited :
  let cm := fun _ : vkey => Ok [mkvk (bs "a") 1 (bs "1"); mkvk (bs "a") 1 (bs "10")] in
  let root := mkvk (bs "r") 1 (bs "1") in
  (forall a, ~ ex_lt a a) /\ (forall a b c, ex_lt a b -> ex_lt b c -> ex_lt a c) /\
  (forall pre rq l, gm (fun _ => Err 0) cm (fun _ => true) (fun _ => true) (fun _ _ => false) (fun _ _ => false) root pre rq = Ok l ->
                    StronglySorted ex_lt l) /\
  exists st, resolve_state_fuel (fun _ => Err 0) (fun _ => Ok []) cm (fun _ _ => Ok true) (fun _ => true) (fun _ => true)
               (fun _ _ => false) (fun _ _ => false) root 10 = Ok st.
Proof. exact example_order_hypotheses. Qed.

(* the hypotheses of the two conflict-soundness statements are satisfiable, with the error occurring *)
Example C08_initial_error_inhabited :
  let cm := fun _ : vkey => Ok ([] : list vkey) in
  let cr := fun _ : vkey => Ok [mkrq (bs "a") 2 (bs "") []] in
  let root := mkvk (bs "r") 1 (bs "1") in
  (forall pre rq l, gm (fun _ => Err 0) cm (fun _ => true) (fun _ => true) (fun _ _ => false) (fun _ _ => false) root pre rq = Ok l ->
                    StronglySorted ex_lt l) /\
  init_criteria (fun _ => Err 0) cm (fun _ => true) (fun _ => true) (fun _ _ => false) (fun _ _ => false) root
                empty_state [mkrq (bs "a") 2 (bs "") []] = Err EImpossible.
Proof. exact example_initial_conflict. Qed.

(* Non-vacuity: a well-formed client (answers of the Go LocalClient for a seven-package universe
   with a false marker, an extra and a conflict) on which the resolution backtracks once and
   returns a graph of six nodes; so the hypotheses of all theorems above are satisfiable. *)
Local Open Scope string_scope.
Example C08_nonvacuous :
  table_ok_b ex_backtrack_table = true /\
  tab_backtracks ex_backtrack_table ex_backtrack_root max_rounds_fuel = Ok 1%nat /\
  exists g, tab_resolve ex_backtrack_table ex_backtrack_root = Ok g /\
    map (fun v => (vk_name v, vk_ver v)) (g_nodes g) =
      [(bs "root", bs "1.0"); (bs "a", bs "1.0"); (bs "b", bs "1.0"); (bs "c", bs "1.0"); (bs "d", bs "1.0"); (bs "e", bs "1.0")] /\
    length (g_edges g) = 6%nat.
Proof. exact example_backtrack. Qed.

Example C08_nonvacuous_wf :
  client_wf (tab_versions ex_backtrack_table) (tab_requirements ex_backtrack_table) (tab_matching ex_backtrack_table).
Proof. exact (proj1 (table_ok _ (proj1 example_backtrack))). Qed.
