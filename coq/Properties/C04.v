(* C04 — parsing entry points are total (part modelled by the lead: the version parser of
   Default, Cargo, Go, NPM, NuGet, Composer).  Further entry points are in C04_*.v.
   Statements only. *)
From DepsDev Require Import Lib.Base Semver.Version Gen.SemverTables Semver.Parse Semver.Parse_proofs.

(* System.Parse: for EVERY byte string the result is a value or an error — never a
   panic, and the model's loops never stop for lack of fuel. *)
Theorem C04_parse_total : forall sys str,
  (exists v, parse sys str = Ok v) \/ (exists e, parse sys str = Err e).
Proof. exact parse_total. Qed.
Print Assumptions C04_parse_total.

(* The internal parser used for span bounds (infinity sign allowed or not). *)
Theorem C04_parse_internal_total : forall sys inf str,
  (exists v, parse_internal sys inf str = Ok v) \/ (exists e, parse_internal sys inf str = Err e).
Proof. exact parse_internal_total. Qed.
Print Assumptions C04_parse_internal_total.

(* The operators table of token.go, regenerated from the source on every run, has an entry
   for every System constant: operators[sys] cannot index out of range (this obligation
   failed for Composer before fix 13b96a4). *)
Theorem C04_operators_cover_systems :
  forallb (fun nv => Z.ltb (snd nv) (Z.of_nat (length operators))) system_consts = true.
Proof. exact operators_cover_systems. Qed.
Print Assumptions C04_operators_cover_systems.

(* Non-vacuity: an accepted, a rejected and a formerly panicking input. *)
Example C04_examples :
  (exists v, parse SNPM [49; 46; 50; 46; 51]%N = Ok v) /\
  (exists e, parse SNuGet [56; 42; 56]%N = Err e) /\
  (exists e, parse SGo [49]%N = Err e).
Proof. vm_compute. repeat split; eexists; reflexivity. Qed.
