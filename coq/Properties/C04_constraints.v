(* C04 for the constraint / span / set code: parsing and matching entry points are total.

   Statements only; proofs in Semver/Total_base.v, Total_span.v, Total_set.v, Total_constraint.v.
   The theorems are about the executable model of token.go, constraint.go, interval.go, span.go,
   set.go and match.go (Semver/Token.v ... Constraint.v), in which every Go operation that can
   panic is an explicit Panic outcome (nil dereference of a span bound, index into an empty
   string or slice, failed type assertion, operators[sys], byteType[r], the explicit panic of the
   Maven comparator) and every loop has explicit fuel.  `total r` says: r is a value or an error,
   never Panic and never OutOfFuel.

   The version parser is a parameter pv of the model.  oracle_wf pv states what the constraint
   code relies on from it; each clause is checked by the harness on EVERY parser answer it feeds
   to the model (harness/gen/ctable.py, check_dump), and the first clause (the parser returns)
   is C04 for the version parsers (Properties/C04.v and the per-system files):
     1. pv returns, for every system, flag and string;
     2. a returned Version has the system asked for, the extension kind of that system (or none),
        Maven elements that are non-empty and do not start with a separator, and no empty
        prerelease element -- also when it comes together with an error (Maven, PyPI);
     3. without an error there is a Version; a Go version has at least one number; a PyPI
        version has its extension object;
     4. Maven and NuGet return a Version for the text 0.
   No input with a reachable Panic was found: the proofs go through for all nine systems.     *)
From DepsDev Require Import Lib.Base Semver.Version Semver.Compare Semver.Span Semver.Interval Semver.Set
     Semver.Token Semver.Constraint Semver.Total_base Semver.Total_span Semver.Total_set Semver.Total_constraint.

(* the tokenizer: total for every system and string (byte_type and operators are the
   regenerated tables), consumes at least one byte unless it reports EOF *)
Theorem C04_token_total : forall sys str, exists typ tok n,
  token sys str = Ok (typ, tok, n) /\ (n <= length str)%nat /\ (typ <> Gen.SemverTables.go_tokEOF -> (1 <= n)%nat).
Proof. exact token_total. Qed.
Print Assumptions C04_token_total.

(* compare on two versions that satisfy the invariant (any two systems) *)
Theorem C04_compare_total : forall a b, ver_ok a = true -> ver_ok b = true -> exists z, compare a b = Ok z.
Proof. exact compare_total. Qed.
Print Assumptions C04_compare_total.

(* opVersionToSpan for every token type and every version; the span has both bounds or is the
   empty span with nil bounds *)
Theorem C04_op_version_to_span_total : forall pv, oracle_wf pv -> forall typ lo, ver_ok lo = true ->
  good wf_span (op_version_to_span pv typ lo).
Proof. exact op_version_to_span_good. Qed.
Print Assumptions C04_op_version_to_span_total.

(* ParseConstraint: every system, every string, within the model's fuel (length of the input + 1
   for each of the two list loops, number of spans + 1 for canon) *)
Theorem C04_constraint_total : forall pv, oracle_wf pv -> forall sys str,
  good wf_constraint (parse_constraint pv sys str).
Proof. exact parse_constraint_good. Qed.
Print Assumptions C04_constraint_total.

(* ParseSetConstraint (parseSet, parseSpan) *)
Theorem C04_set_constraint_total : forall pv, oracle_wf pv -> forall sys str,
  good wf_constraint (parse_set_constraint pv sys str).
Proof. exact parse_set_constraint_good. Qed.
Print Assumptions C04_set_constraint_total.

(* canon, Union, Intersect on well-formed sets: total, and the result is well formed again.
   The invariant behind it: an empty span has nil bounds and every consumer skips it; the sort
   of canon puts such spans first, so the merge loop never reads a nil bound. *)
Theorem C04_canon_total : forall l, Forall wf_span l -> good (Forall wf_span) (canon_spans l).
Proof. exact canon_spans_good. Qed.
Print Assumptions C04_canon_total.

Theorem C04_set_total : forall s t, wf_set s -> wf_set t ->
  good wf_set (set_union s t) /\ good wf_set (set_intersect s t).
Proof. intros s t Hs Ht. split; [apply set_union_good | apply set_intersect_good]; auto. Qed.
Print Assumptions C04_set_total.

(* matching: Set.matchVersion, MatchVersion, MatchVersionPrerelease on a version of the
   constraint's system, and Match on ANY version string *)
Theorem C04_match_total : forall pv, oracle_wf pv -> forall c, wf_constraint c ->
  (forall v incl, ver_ok v = true -> total (set_match_version (c_set c) v incl)) /\
  (forall v, probe_ok (c_sys c) v -> total (match_version c v)) /\
  (forall v, ver_ok v = true -> total (match_version_prerelease c v)) /\
  (forall s, total (match_string pv c s)).
Proof.
  intros pv H c Hc. repeat split; intros.
  - apply set_match_version_good; auto.
  - apply match_version_good; auto.
  - apply match_version_prerelease_good; auto.
  - apply match_string_good; auto.
Qed.
Print Assumptions C04_match_total.

(* end to end: parse any requirement of any system, then ask about any version string *)
Theorem C04_parse_then_match_total : forall pv, oracle_wf pv -> forall sys str vstr,
  total (bind (parse_constraint pv sys str) (fun c => match_string pv c vstr)).
Proof.
  intros pv H sys str vstr. eapply good_bind; [apply parse_constraint_good; auto|].
  intros c Hc. apply match_string_good; auto.
Qed.
Print Assumptions C04_parse_then_match_total.
