(* C18, dependency types.  "A requirement reported through the API client has the same dependency
   type, in every observable respect the resolvers use (IsRegular, HasAttr, GetAttr for every key,
   Equal, Compare), as the same requirement in a LocalClient built from the same data."

   Stated at the level of representation: the heap model of attr.Set (Resolve/Attr.v, tied to Go by
   the C19 correspondence) distinguishes a nil attribute map from an allocated empty one, which is
   exactly what separates the two sides: flattenNPMDeps builds every type by Clone() of the section
   type (Clone always allocates), a LocalClient-side type is built by dep.NewType/AddAttr from the
   zero value.  [both_types t d] runs both constructions in one heap: variable 1 is the API-side
   type of entry d of a section of type t, variable 2 the LocalClient-side type built from the value
   [rv_type (add_dep t d)] the model of flattenNPMDeps assigns to that requirement (the value
   C18_alias and C18_flatten_complete speak about).  Statements only. *)
From DepsDev Require Import Lib.Base Resolve.ApiClient.
From DepsDev Require Import Resolve.Attr Resolve.ApiDepType Resolve.ApiDepType_proofs.

(* For every entry (alias or not, any name, any requirement string) of each of the four
   sections of any response: no observation tells the API-side type from the LocalClient-side one. *)
Theorem C18_dep_type_equal : forall t d, In t section_types -> obs_equal (both_types t d) 1 2.
Proof. exact dep_type_obs_equal. Qed.
Print Assumptions C18_dep_type_equal.

(* In particular a cloned empty attribute set is regular: a plain entry of the dependencies
   section is a regular dependency although its map is allocated. *)
Theorem C18_cloned_empty_is_regular : forall d, has_prefix s_npm_colon (d_req d) = false ->
  is_regular (both_types dt_regular d) (vars (both_types dt_regular d) 1) = true.
Proof. exact plain_dependency_regular. Qed.
Print Assumptions C18_cloned_empty_is_regular.

(* bundleDependencies entries carry the bundle type itself *)
Theorem C18_bundle_type_equal :
  let s := run (build_ops 1 dt_bundle ++ build_ops 2 dt_bundle) in obs_equal s 1 2.
Proof. exact bundle_type_obs_equal. Qed.
Print Assumptions C18_bundle_type_equal.

(* the regenerated key numbers the statements depend on *)
Theorem C18_dep_keys_ok :
  (kd_dev < 0)%Z /\ (kd_opt < 0)%Z /\ (0 <= kd_scope < 64)%Z /\ (0 <= kd_known_as < 64)%Z /\ kd_scope <> kd_known_as.
Proof. exact dep_keys_ok. Qed.

(* Examples: the hypotheses are inhabited and the statement is not vacuous: a peer alias
   al : npm:@s/n@^1 has, on both sides, Scope = peer and KnownAs = al, is not regular, and its
   API-side map is a different heap cell from the section type it was cloned from. *)
Example C18_dep_type_example :
  let d := Dep [97;108] (s_npm_colon ++ [64;115;47;110;64;94;49]) in
  let s := both_types dt_peer d in
  In dt_peer section_types /\
  get_attr s (vars s 1) kd_known_as = ([97;108], true) /\ get_attr s (vars s 2) kd_known_as = ([97;108], true) /\
  get_attr s (vars s 1) kd_scope = (s_peer, true) /\ is_regular s (vars s 1) = false /\
  attrs (vars s 1) <> attrs (vars s 0) /\ get_attr s (vars s 0) kd_known_as = ([], false).
Proof. vm_compute. repeat split; auto; discriminate. Qed.

Example C18_cloned_empty_example :
  let d := Dep [98] [94;49] in
  let s := both_types dt_regular d in
  has_prefix s_npm_colon (d_req d) = false /\
  attrs (vars s 1) = Some 0%nat /\ attrs (vars s 2) = None /\      (* allocated map vs nil map *)
  is_regular s (vars s 1) = true /\ is_regular s (vars s 2) = true.
Proof. vm_compute. repeat split; auto. Qed.
