(* Declarative reference specification of Cargo version requirement matching: a transcription of
   the Rust crate semver 1.0.28, src/eval.rs (matching) with the syntax tree of src/parse.rs.
   Independent of the deps.dev sources.  Definitions only.

   parse.rs: a requirement is a comma separated list of at most 32 comparators; a comparator
   written without operator has Op::Caret; 1.* and 1.2.* (also x and X) written without operator
   have Op::Wildcard, with an explicit operator they keep that operator and only lose the
   components; a bare * (or x, X) is the requirement with no comparator at all.  A prerelease tag
   can only follow a patch number.  Numbers are u64.  Build metadata of a comparator is parsed and
   dropped; build metadata of a version plays no role in eval.rs. *)
From DepsDev Require Import Lib.Base Spec.NodeRange.
Local Open Scope Z_scope.

Inductive cop := CExact | CGreater | CGreaterEq | CLess | CLessEq | CTilde | CCaret | CWildcard.

Record comparator := { c_op : cop; c_major : Z; c_minor : option Z; c_patch : option Z; c_pre : list ident }.

(* impl Ord for Prerelease (src/impls.rs): the empty prerelease is greater than any other; otherwise
   identifier by identifier, digits-only identifiers numerically and below the others, the others by
   ASCII order, a proper prefix is smaller.  This is NodeRange.pre_compare. *)
Definition pre_eq (a b : list ident) : bool := pre_compare a b =? 0.
Definition pre_gt (a b : list ident) : bool := 0 <? pre_compare a b.
Definition pre_lt (a b : list ident) : bool := pre_compare a b <? 0.
Definition pre_ge (a b : list ident) : bool := 0 <=? pre_compare a b.

Definition matches_exact (c : comparator) (v : sv) : bool :=
  if negb (sv_major v =? c_major c) then false else
  if match c_minor c with Some m => negb (sv_minor v =? m) | None => false end then false else
  if match c_patch c with Some p => negb (sv_patch v =? p) | None => false end then false else
  pre_eq (sv_pre v) (c_pre c).

Definition matches_greater (c : comparator) (v : sv) : bool :=
  if negb (sv_major v =? c_major c) then c_major c <? sv_major v else
  match c_minor c with
  | None => false
  | Some m =>
      if negb (sv_minor v =? m) then m <? sv_minor v else
      match c_patch c with
      | None => false
      | Some p =>
          if negb (sv_patch v =? p) then p <? sv_patch v else
          pre_gt (sv_pre v) (c_pre c)
      end
  end.

Definition matches_less (c : comparator) (v : sv) : bool :=
  if negb (sv_major v =? c_major c) then sv_major v <? c_major c else
  match c_minor c with
  | None => false
  | Some m =>
      if negb (sv_minor v =? m) then sv_minor v <? m else
      match c_patch c with
      | None => false
      | Some p =>
          if negb (sv_patch v =? p) then sv_patch v <? p else
          pre_lt (sv_pre v) (c_pre c)
      end
  end.

Definition matches_tilde (c : comparator) (v : sv) : bool :=
  if negb (sv_major v =? c_major c) then false else
  if match c_minor c with Some m => negb (sv_minor v =? m) | None => false end then false else
  match c_patch c with
  | Some p => if negb (sv_patch v =? p) then p <? sv_patch v else pre_ge (sv_pre v) (c_pre c)
  | None => pre_ge (sv_pre v) (c_pre c)
  end.

Definition matches_caret (c : comparator) (v : sv) : bool :=
  if negb (sv_major v =? c_major c) then false else
  match c_minor c with
  | None => true
  | Some m =>
      match c_patch c with
      | None => if 0 <? c_major c then m <=? sv_minor v else sv_minor v =? m
      | Some p =>
          if 0 <? c_major c then
            if negb (sv_minor v =? m) then m <? sv_minor v
            else if negb (sv_patch v =? p) then p <? sv_patch v
            else pre_ge (sv_pre v) (c_pre c)
          else if 0 <? m then
            if negb (sv_minor v =? m) then false
            else if negb (sv_patch v =? p) then p <? sv_patch v
            else pre_ge (sv_pre v) (c_pre c)
          else if negb (sv_minor v =? m) || negb (sv_patch v =? p) then false
          else pre_ge (sv_pre v) (c_pre c)
      end
  end.

Definition matches_impl (c : comparator) (v : sv) : bool :=
  match c_op c with
  | CExact | CWildcard => matches_exact c v
  | CGreater => matches_greater c v
  | CGreaterEq => matches_exact c v || matches_greater c v
  | CLess => matches_less c v
  | CLessEq => matches_exact c v || matches_less c v
  | CTilde => matches_tilde c v
  | CCaret => matches_caret c v
  end.

Definition is_nil {A} (l : list A) : bool := match l with [] => true | _ => false end.

Definition pre_is_compatible (c : comparator) (v : sv) : bool :=
  (c_major c =? sv_major v)
  && match c_minor c with Some m => m =? sv_minor v | None => false end
  && match c_patch c with Some p => p =? sv_patch v | None => false end
  && negb (is_nil (c_pre c)).

(* Comparator::matches *)
Definition matches_comparator (c : comparator) (v : sv) : bool :=
  matches_impl c v && (is_nil (sv_pre v) || pre_is_compatible c v).

(* VersionReq::matches; the empty list is the requirement * *)
Definition matches_req (r : list comparator) (v : sv) : bool :=
  forallb (fun c => matches_impl c v) r
  && (is_nil (sv_pre v) || existsb (fun c => pre_is_compatible c v) r).

(* ---------------------------------------------------------------- a witness of non-emptiness *)
Definition c_near (c : comparator) : list sv :=
  let m := match c_minor c with Some x => x | None => 0 end in
  let p := match c_patch c with Some x => x | None => 0 end in
  [ mk_sv (c_major c) m p (c_pre c);
    mk_sv (c_major c) m p [];
    mk_sv (c_major c) m (p + 1) [];
    mk_sv (c_major c) (m + 1) 0 [];
    mk_sv (c_major c + 1) 0 0 [];
    mk_sv (c_major c) m p (c_pre c ++ [INum 0]);
    mk_sv (c_major c) m p [INum 0] ].

Definition req_candidates (r : list comparator) : list sv := mk_sv 0 0 0 [] :: flat_map c_near r.

Definition req_witness (r : list comparator) : option sv := find (fun v => matches_req r v) (req_candidates r).
