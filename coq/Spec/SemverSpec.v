(* SemVer 2.0.0 (semver.org), written independently of the model: the strict grammar
   MAJOR.MINOR.PATCH[-pre][+build] and the precedence rules of section 11.  This is what
   node-semver (non-loose), the Rust semver crate and golang.org/x/mod/semver implement
   for strict strings.  Definitions only. *)
From DepsDev Require Import Lib.Base.
Local Open Scope Z_scope.

Inductive ident := INum (n : Z) | IAlpha (s : bytes).

Record sv := { sv_nums : list Z;          (* exactly three *)
               sv_pre : list ident;
               sv_build : list bytes }.

(* ---- grammar ---- *)
Definition is_ident_char (c : N) : bool :=
  is_digit c || ((65 <=? c) && (c <=? 90))%N || ((97 <=? c) && (c <=? 122))%N || N.eqb c 45.

Fixpoint split_on (sep : N) (s : bytes) (cur : bytes) : list bytes :=
  match s with
  | [] => [rev cur]
  | c :: t => if N.eqb c sep then rev cur :: split_on sep t [] else split_on sep t (c :: cur)
  end.

Fixpoint dec_val (s : bytes) (acc : Z) : Z :=
  match s with
  | [] => acc
  | c :: t => dec_val t (10 * acc + Z.of_N (c - 48)%N)
  end.

(* numeric identifier: digits, no leading zero unless it is "0" *)
Definition numeric_ident (s : bytes) : option Z :=
  match s with
  | [] => None
  | c :: t =>
      if forallb is_digit s then
        if N.eqb c 48 && negb (Nat.eqb (length t) 0) then None else Some (dec_val s 0)
      else None
  end.

Definition pre_ident (s : bytes) : option ident :=
  match s with
  | [] => None
  | _ =>
      if negb (forallb is_ident_char s) then None
      else if forallb is_digit s then
        match numeric_ident s with Some n => Some (INum n) | None => None end
      else Some (IAlpha s)
  end.

Definition build_ident (s : bytes) : option bytes :=
  match s with
  | [] => None
  | _ => if forallb is_ident_char s then Some s else None
  end.

Fixpoint sequence {A} (l : list (option A)) : option (list A) :=
  match l with
  | [] => Some []
  | None :: _ => None
  | Some x :: t => match sequence t with Some r => Some (x :: r) | None => None end
  end.

(* split at the first occurrence of sep: (before, Some after) *)
Fixpoint cut (sep : N) (s : bytes) (acc : bytes) : bytes * option bytes :=
  match s with
  | [] => (rev acc, None)
  | c :: t => if N.eqb c sep then (rev acc, Some t) else cut sep t (c :: acc)
  end.

Definition parse_strict (s : bytes) : option sv :=
  let '(main, build) := cut 43 s [] in
  let '(core, pre) := cut 45 main [] in
  match sequence (map numeric_ident (split_on 46 core [])) with
  | Some [a; b; c] =>
      let pre_r := match pre with
                   | None => Some []
                   | Some p => sequence (map pre_ident (split_on 46 p []))
                   end in
      let build_r := match build with
                     | None => Some []
                     | Some b => sequence (map build_ident (split_on 46 b []))
                     end in
      match pre_r, build_r with
      | Some p, Some bl => Some {| sv_nums := [a; b; c]; sv_pre := p; sv_build := bl |}
      | _, _ => None
      end
  | _ => None
  end.

(* ---- precedence (section 11) ---- *)
Definition zcmp (a b : Z) : Z := match Z.compare a b with Lt => -1 | Eq => 0 | Gt => 1 end.

Fixpoint nums_cmp (a b : list Z) : Z :=
  match a, b with
  | x :: a', y :: b' => if zcmp x y =? 0 then nums_cmp a' b' else zcmp x y
  | _, _ => 0
  end.

Definition ident_cmp (a b : ident) : Z :=
  match a, b with
  | INum x, INum y => zcmp x y
  | INum _, IAlpha _ => -1            (* numeric identifiers have lower precedence *)
  | IAlpha _, INum _ => 1
  | IAlpha x, IAlpha y => bytes_compare x y   (* ASCII sort order *)
  end.

Fixpoint pre_cmp (a b : list ident) : Z :=
  match a, b with
  | [], [] => 0
  | [], _ :: _ => -1                  (* a larger set of fields has higher precedence *)
  | _ :: _, [] => 1
  | x :: a', y :: b' => if ident_cmp x y =? 0 then pre_cmp a' b' else ident_cmp x y
  end.

Definition precedence (a b : sv) : Z :=
  let c := nums_cmp (sv_nums a) (sv_nums b) in
  if negb (c =? 0) then c
  else match sv_pre a, sv_pre b with
       | [], [] => 0
       | [], _ => 1                    (* a pre-release version has lower precedence *)
       | _, [] => -1
       | pa, pb => pre_cmp pa pb
       end.                            (* build metadata is ignored *)

Definition spec_compare_strings (a b : bytes) : option Z :=
  match parse_strict a, parse_strict b with
  | Some x, Some y => Some (precedence x y)
  | _, _ => None
  end.
