(* Reference specification: Gem::Version (rubygems/version.rb) -- correct?, the dash
   substitution, segments, canonical_segments and the comparison operator -- transcribed
   from the published source.  Independent of the model of deps.dev.  Definitions only.

   VERSION_PATTERN: one or more digits; then any number of groups made of a dot and one or
   more alphanumerics; then optionally a dash part: a dash, one or more alphanumerics or
   dashes, and any number of groups made of a dot and one or more alphanumerics or dashes.
   The pattern is anchored; surrounding white space (which Gem::Version strips) is not modelled, and the
   empty string stands for version 0. *)
From DepsDev Require Import Lib.Base.
Local Open Scope Z_scope.

Definition g_digit (c : N) : bool := is_digit c.
Definition g_alpha (c : N) : bool := ((97 <=? c) && (c <=? 122))%N || ((65 <=? c) && (c <=? 90))%N.
Definition g_alnum (c : N) : bool := g_digit c || g_alpha c.
Definition g_alnumh (c : N) : bool := g_alnum c || N.eqb c 45.

Fixpoint span_p (p : N -> bool) (s : bytes) : bytes * bytes :=
  match s with
  | [] => ([], [])
  | c :: t => if p c then let '(a, b) := span_p p t in (c :: a, b) else ([], s)
  end.

(* dot groups of the dash part, up to the end of the string *)
Fixpoint match_dash_tail (fuel : nat) (s : bytes) : bool :=
  match s with
  | [] => true
  | c :: t =>
      match fuel with
      | O => false
      | S f =>
          if N.eqb c 46 then
            let '(a, b) := span_p g_alnumh t in
            match a with [] => false | _ => match_dash_tail f b end
          else false
      end
  end.

(* dot groups of alphanumerics, then the optional dash part, up to the end of the string *)
Fixpoint match_dot_tail (fuel : nat) (s : bytes) : bool :=
  match s with
  | [] => true
  | c :: t =>
      match fuel with
      | O => false
      | S f =>
          if N.eqb c 46 then
            let '(a, b) := span_p g_alnum t in
            match a with [] => false | _ => match_dot_tail f b end
          else if N.eqb c 45 then
            let '(a, b) := span_p g_alnumh t in
            match a with [] => false | _ => match_dash_tail f b end
          else false
      end
  end.

(* Gem::Version.correct? *)
Definition g_correct (s : bytes) : bool :=
  match s with
  | [] => true
  | _ =>
      let '(a, b) := span_p g_digit s in
      match a with [] => false | _ => match_dot_tail (length s) b end
  end.

(* @version: empty becomes "0"; every "-" becomes ".pre." *)
Definition s_dot_pre_dot : bytes := [46; 112; 114; 101; 46]%N.
Definition g_version_string (s : bytes) : bytes :=
  match s with
  | [] => [48%N]
  | _ => flat_map (fun c => if N.eqb c 45 then s_dot_pre_dot else [c]) s
  end.

Inductive seg := GInt (n : N) | GStr (s : bytes).

Fixpoint g_digits_N (s : bytes) (acc : N) : N :=
  match s with
  | [] => acc
  | c :: t => g_digits_N t (10 * acc + (c - 48))%N
  end.

(* scan(/[0-9]+|[a-z]+/i) with digits read as integers; letters keep their case *)
Fixpoint g_scan (fuel : nat) (s : bytes) : list seg :=
  match s with
  | [] => []
  | c :: t =>
      match fuel with
      | O => []
      | S f =>
          if g_digit c then let '(a, b) := span_p g_digit s in GInt (g_digits_N a 0) :: g_scan f b
          else if g_alpha c then let '(a, b) := span_p g_alpha s in GStr a :: g_scan f b
          else g_scan f t
      end
  end.
Definition g_segments (s : bytes) : list seg := let v := g_version_string s in g_scan (length v) v.

Definition is_gstr (x : seg) : bool := match x with GStr _ => true | GInt _ => false end.
Definition is_zero (x : seg) : bool := match x with GInt n => N.eqb n 0 | GStr _ => false end.

(* _split_segments: the numeric segments before the first string, and the rest *)
Fixpoint g_split (l : list seg) : list seg * list seg :=
  match l with
  | [] => ([], [])
  | x :: t => if is_gstr x then ([], l) else let '(a, b) := g_split t in (x :: a, b)
  end.

(* reverse_each.drop_while zero .reverse *)
Fixpoint drop_trailing_zeros (l : list seg) : list seg :=
  match l with
  | [] => []
  | x :: t =>
      match drop_trailing_zeros t with
      | [] => if is_zero x then [] else [x]
      | t' => x :: t'
      end
  end.

Definition g_canonical (l : list seg) : list seg :=
  let '(a, b) := g_split l in drop_trailing_zeros a ++ drop_trailing_zeros b.

Definition seg_eqb (a b : seg) : bool :=
  match a, b with
  | GInt x, GInt y => N.eqb x y
  | GStr x, GStr y => bytes_eqb x y
  | _, _ => false
  end.

(* one round of the loop in the comparison operator: lhs and rhs default to 0 *)
Definition g_cmp_seg (a b : seg) : Z :=
  match a, b with
  | GStr _, GInt _ => -1
  | GInt _, GStr _ => 1
  | GInt x, GInt y => match N.compare x y with Lt => -1 | Eq => 0 | Gt => 1 end
  | GStr x, GStr y => bytes_compare x y
  end.

Fixpoint g_cmp_l (l : list seg) : Z :=
  match l with
  | [] => 0
  | x :: t => if seg_eqb x (GInt 0) then g_cmp_l t else g_cmp_seg x (GInt 0)
  end.
Fixpoint g_cmp_r (l : list seg) : Z :=
  match l with
  | [] => 0
  | y :: t => if seg_eqb (GInt 0) y then g_cmp_r t else g_cmp_seg (GInt 0) y
  end.
Fixpoint g_cmp (a b : list seg) : Z :=
  match a, b with
  | [], _ => g_cmp_r b
  | _, [] => g_cmp_l a
  | x :: a', y :: b' => if seg_eqb x y then g_cmp a' b' else g_cmp_seg x y
  end.

Definition gspec_canonical (s : bytes) : list seg := g_canonical (g_segments s).

(* Gem::Version.new(a) <=> Gem::Version.new(b); None when one of them raises *)
Definition gspec_compare (a b : bytes) : option Z :=
  if g_correct a && g_correct b then Some (g_cmp (gspec_canonical a) (gspec_canonical b)) else None.
