(* Reference specification: org.apache.maven.artifact.versioning.ComparableVersion as shipped
   in maven-artifact 3.8.x (checked against the bytecode of the installed 3.8.7 jar, and against
   its behaviour on every run).  It differs from the 3.6 source in two places, both marked
   below: a string qualifier that would be appended to a non-empty list (1.0.RC1, 1.0.Final)
   opens a sub-list first, as a '-' would; and a list compared with null looks at all its items.
   On the Maven-Central shape D_mvn (qualifier attached by '-' or directly) the two versions
   parse and order alike.  Independent of the model of deps.dev.  Definitions only.

   Items: IntItem / LongItem / BigIntegerItem (one constructor here: after stripping leading
   zeros the three Java classes order numerals by magnitude, the class rank being the
   length class), StringItem (value after alias and shortcut substitution), ListItem.
   Results are reduced to their sign.  Locale.ENGLISH lower-casing and Character.isDigit
   are the ASCII ones: the specification is used on ASCII input. *)
From DepsDev Require Import Lib.Base.
Local Open Scope Z_scope.

Inductive item :=
| IInt (n : N)
| IStr (s : bytes)
| IList (l : list item).

(* QUALIFIERS = alpha beta milestone rc snapshot "" sp *)
Definition q_alpha : bytes := [97; 108; 112; 104; 97]%N.
Definition q_beta : bytes := [98; 101; 116; 97]%N.
Definition q_milestone : bytes := [109; 105; 108; 101; 115; 116; 111; 110; 101]%N.
Definition q_rc : bytes := [114; 99]%N.
Definition q_snapshot : bytes := [115; 110; 97; 112; 115; 104; 111; 116]%N.
Definition q_sp : bytes := [115; 112]%N.
Definition qualifiers : list bytes := [q_alpha; q_beta; q_milestone; q_rc; q_snapshot; []; q_sp].

(* ALIASES: ga, final, release stand for the empty qualifier, cr for rc *)
Definition q_ga : bytes := [103; 97]%N.
Definition q_final : bytes := [102; 105; 110; 97; 108]%N.
Definition q_release : bytes := [114; 101; 108; 101; 97; 115; 101]%N.
Definition q_cr : bytes := [99; 114]%N.
Definition alias (s : bytes) : bytes :=
  if bytes_eqb s q_ga || bytes_eqb s q_final || bytes_eqb s q_release then []
  else if bytes_eqb s q_cr then q_rc else s.

(* new StringItem(value, followedByDigit) *)
Definition string_item (s : bytes) (followed_by_digit : bool) : item :=
  let s1 := if followed_by_digit then
              match s with
              | [97%N] => q_alpha | [98%N] => q_beta | [109%N] => q_milestone | _ => s
              end
            else s in
  IStr (alias s1).

Fixpoint index_of (s : bytes) (l : list bytes) (i : N) : option N :=
  match l with
  | [] => None
  | x :: t => if bytes_eqb x s then Some i else index_of s t (i + 1)%N
  end.

(* comparableQualifier: the index as a decimal string, or size-dash-qualifier *)
Definition comparable_qualifier (s : bytes) : bytes :=
  match index_of s qualifiers 0 with
  | Some i => [(48 + i)%N]
  | None => [55%N; 45%N] ++ s
  end.
Definition release_version_index : bytes := [53%N].

(* String.compareTo reduced to its sign (ASCII) *)
Definition str_cmp (a b : bytes) : Z := bytes_compare a b.

Definition cmpN3 (a b : N) : Z := match N.compare a b with Lt => -1 | Eq => 0 | Gt => 1 end.

Definition is_null (i : item) : bool :=
  match i with
  | IInt n => N.eqb n 0
  | IStr s => str_cmp (comparable_qualifier s) release_version_index =? 0
  | IList l => match l with [] => true | _ => false end
  end.

(* x.compareTo(null) *)
Fixpoint cmp_null (a : item) : Z :=
  match a with
  | IInt n => if N.eqb n 0 then 0 else 1
  | IStr s => str_cmp (comparable_qualifier s) release_version_index
  | IList l =>
      (* 3.8.x: every item of the list against null, the first non-zero result decides
         (3.6 looked at the first item only) *)
      (fix go (l : list item) : Z :=
         match l with
         | [] => 0
         | x :: t => let c := cmp_null x in if c =? 0 then go t else c
         end) l
  end.

Fixpoint nulls_l (la : list item) : Z :=
  match la with
  | [] => 0
  | l :: t => let c := cmp_null l in if c =? 0 then nulls_l t else c
  end.
Fixpoint nulls_r (lb : list item) : Z :=
  match lb with
  | [] => 0
  | r :: t => let c := - cmp_null r in if c =? 0 then nulls_r t else c
  end.

(* a.compareTo(b), b not null *)
Fixpoint item_cmp (a b : item) : Z :=
  match a with
  | IInt x => match b with IInt y => cmpN3 x y | IStr _ => 1 | IList _ => 1 end
  | IStr x => match b with
              | IInt _ => -1
              | IStr y => str_cmp (comparable_qualifier x) (comparable_qualifier y)
              | IList _ => -1
              end
  | IList la =>
      match b with
      | IInt _ => -1
      | IStr _ => 1
      | IList lb =>
          (fix go (la lb : list item) {struct la} : Z :=
             match la with
             | [] => nulls_r lb
             | l :: la' =>
                 match lb with
                 | [] => nulls_l la
                 | r :: lb' => let c := item_cmp l r in if c =? 0 then go la' lb' else c
                 end
             end) la lb
      end
  end.

(* ListItem.normalize on a list whose sub-lists are already normalised: going from the end,
   null items are removed, non-null sub-lists are stepped over, the first other item stops *)
Definition is_list (i : item) : bool := match i with IList _ => true | _ => false end.
Fixpoint norm_list (l : list item) : list item :=
  match l with
  | [] => []
  | x :: t =>
      let t' := norm_list t in
      if forallb is_list t' then (if is_null x then t' else x :: t') else x :: t'
  end.

(* the stack is popped innermost list first *)
Fixpoint normalize (i : item) : item :=
  match i with
  | IList l => IList (norm_list (map normalize l))
  | _ => i
  end.

(* stripLeadingZeroes + Integer/Long/BigInteger: the value *)
Fixpoint digits_N (s : bytes) (acc : N) : N :=
  match s with
  | [] => acc
  | c :: t => digits_N t (10 * acc + (c - 48))%N
  end.
Definition parse_item (is_digit : bool) (buf : bytes) : item :=
  if is_digit then IInt (digits_N buf 0) else string_item buf false.

(* parseVersion.  cur: characters since startIndex, last first; stack: the open lists,
   innermost first, each with its items last first. *)
Record pstate := { ps_digit : bool; ps_cur : bytes; ps_stack : list (list item) }.

Definition add_item (it : item) (st : list (list item)) : list (list item) :=
  match st with
  | [] => [[it]]
  | l :: r => (it :: l) :: r
  end.

(* 3.8.x, "treat .X as -X for any string qualifier X": a string item is never appended to a
   list that already has items; a new sub-list is opened for it first *)
Definition open_if_nonempty (st : list (list item)) : list (list item) :=
  match st with
  | (_ :: _) :: _ => [] :: st
  | _ => st
  end.

Definition flush (st : pstate) : list (list item) :=
  match ps_cur st with
  | [] => add_item (IInt 0) (ps_stack st)
  | _ => add_item (parse_item (ps_digit st) (rev (ps_cur st))) (ps_stack st)
  end.

Definition pstep (st : pstate) (c : N) : pstate :=
  if N.eqb c 46 then
    {| ps_digit := ps_digit st; ps_cur := []; ps_stack := flush st |}
  else if N.eqb c 45 then
    {| ps_digit := ps_digit st; ps_cur := []; ps_stack := [] :: flush st |}
  else if is_digit c then
    if negb (ps_digit st) && negb (match ps_cur st with [] => true | _ => false end) then
      {| ps_digit := true; ps_cur := [c];
         ps_stack := [] :: add_item (string_item (rev (ps_cur st)) true) (open_if_nonempty (ps_stack st)) |}
    else {| ps_digit := true; ps_cur := c :: ps_cur st; ps_stack := ps_stack st |}
  else
    if ps_digit st && negb (match ps_cur st with [] => true | _ => false end) then
      {| ps_digit := false; ps_cur := [c];
         ps_stack := [] :: add_item (parse_item true (rev (ps_cur st))) (ps_stack st) |}
    else {| ps_digit := false; ps_cur := c :: ps_cur st; ps_stack := ps_stack st |}.

(* each list was added to its parent when it was opened and the parent got nothing later *)
Fixpoint close_stack (inner : list item) (st : list (list item)) : list item :=
  match st with
  | [] => inner
  | parent :: r => close_stack (rev parent ++ [IList inner]) r
  end.

Definition parse_version (s : bytes) : item :=
  let st := fold_left pstep (to_lower s) {| ps_digit := false; ps_cur := []; ps_stack := [[]] |} in
  let stack := match ps_cur st with
               | [] => ps_stack st
               | _ => add_item (parse_item (ps_digit st) (rev (ps_cur st)))
                        (if ps_digit st then ps_stack st else open_if_nonempty (ps_stack st))
               end in
  match stack with
  | [] => IList []
  | l :: r => IList (close_stack (rev l) r)
  end.

Definition comparable_version (s : bytes) : item := normalize (parse_version s).

(* new ComparableVersion(a).compareTo(new ComparableVersion(b)), as a sign *)
Definition mspec_compare (a b : bytes) : Z := item_cmp (comparable_version a) (comparable_version b).
