(* Declarative reference specification of PEP 440 version specifier matching, following the
   section Version specifiers of PEP 440 and pypa/packaging (specifiers.py, version.py _cmpkey),
   restricted to the domain of the property: requirement versions carry no epoch and no local
   label; candidates are FINAL releases (a non-empty list of release numbers, not all zero).
   Independent of the deps.dev sources.  Definitions only.

   For a final candidate the exclusion clauses of the ordered comparisons are vacuous: < V excludes
   prereleases of V (the candidate is no prerelease), > V excludes post releases and local
   versions of V (the candidate is neither), so each ordered operator is the plain PEP 440 order. *)
From DepsDev Require Import Lib.Base.
Local Open Scope Z_scope.

Record pver := {
  pv_release : list Z;
  pv_pre : option (Z * Z);     (* phase 0=a 1=b 2=rc, number *)
  pv_post : option Z;
  pv_dev : option Z }.

Inductive pop := PEq | PNe | PLe | PGe | PLt | PGt | PCompat.

Record spec := {
  sp_op : pop;
  sp_ver : pver;
  sp_prefix : bool }.          (* the .* form, only with PEq and PNe; then pre, post, dev are absent *)

Definition zcmp (a b : Z) : Z :=
  match Z.compare a b with Lt => -1 | Eq => 0 | Gt => 1 end.

(* lexicographic order of integer tuples, a proper prefix is smaller (Python tuple comparison) *)
Fixpoint tuple_compare (a b : list Z) : Z :=
  match a, b with
  | [], [] => 0
  | [], _ :: _ => -1
  | _ :: _, [] => 1
  | x :: a', y :: b' => let c := zcmp x y in if c =? 0 then tuple_compare a' b' else c
  end.

(* strip trailing zeros: 1.0.0 compares equal to 1 *)
Fixpoint trim (r : list Z) : list Z :=
  match r with
  | [] => []
  | x :: t => match trim t with
              | [] => if x =? 0 then [] else [x]
              | t' => x :: t'
              end
  end.

(* _cmpkey: the suffix (pre_rank, pre_n, post_rank, post_n, dev_rank, dev_n).
   pre_rank: dev-only -1, a 0, b 1, rc 2, no prerelease 3. *)
Definition suffix (v : pver) : list Z :=
  let pre :=
    match pv_pre v, pv_post v, pv_dev v with
    | None, None, Some _ => (-1, 0)
    | None, _, _ => (3, 0)
    | Some (l, n), _, _ => (l, n)
    end in
  [fst pre; snd pre;
   match pv_post v with None => 0 | Some _ => 1 end;
   match pv_post v with None => 0 | Some n => n end;
   match pv_dev v with None => 1 | Some _ => 0 end;
   match pv_dev v with None => 0 | Some n => n end].

Definition final (r : list Z) : pver :=
  {| pv_release := r; pv_pre := None; pv_post := None; pv_dev := None |}.

(* PEP 440 order of two versions without epoch and local label *)
Definition pver_compare (a b : pver) : Z :=
  let c := tuple_compare (trim (pv_release a)) (trim (pv_release b)) in
  if c =? 0 then tuple_compare (suffix a) (suffix b) else c.

(* Prefix matching V.* : the candidate, padded with zeros to the length of V, starts with V. *)
Fixpoint prefix_match (pref cand : list Z) : bool :=
  match pref with
  | [] => true
  | x :: p' =>
      match cand with
      | [] => (x =? 0) && prefix_match p' []
      | y :: c' => (x =? y) && prefix_match p' c'
      end
  end.

Definition contains1 (s : spec) (c : list Z) : bool :=
  let v := sp_ver s in
  let d := pver_compare (final c) v in
  match sp_op s with
  | PEq => if sp_prefix s then prefix_match (pv_release v) c else d =? 0
  | PNe => negb (if sp_prefix s then prefix_match (pv_release v) c else d =? 0)
  | PLe => d <=? 0
  | PGe => 0 <=? d
  | PLt => d <? 0
  | PGt => 0 <? d
  | PCompat =>
      (* ~= V is >= V together with == V.* where the last release number of V is dropped;
         it needs at least two release numbers *)
      match pv_release v with
      | _ :: _ :: _ => (0 <=? d) && prefix_match (removelast (pv_release v)) c
      | _ => false
      end
  end.

(* comma = AND; the empty list accepts everything *)
Definition contains (l : list spec) (c : list Z) : bool :=
  forallb (fun s => contains1 s c) l.

(* ---------------------------------------------------------------- a witness of non-emptiness *)
Fixpoint bump_last (r : list Z) : list Z :=
  match r with [] => [1] | [x] => [x + 1] | x :: t => x :: bump_last t end.

Definition spec_near (s : spec) : list (list Z) :=
  let r := pv_release (sp_ver s) in
  [ r; r ++ [0]; r ++ [1]; bump_last r; bump_last (removelast r) ].

Definition nonzero (r : list Z) : bool := negb (forallb (fun x => x =? 0) r) && negb (match r with [] => true | _ => false end).

Definition spec_candidates (l : list spec) : list (list Z) :=
  filter nonzero ([1] :: [0; 0; 1] :: flat_map spec_near l).

Definition spec_witness (l : list spec) : option (list Z) := find (fun v => contains l v) (spec_candidates l).
