(* Declarative reference for PyPI versions: PEP 440 as implemented by pip's
   packaging.version.Version (the grammar of PEP 440 Appendix B, the normalisation and
   the comparison key _cmpkey).  Independent of the model of the Go code.

   The grammar is the regular expression
     \s* v? (N!)? N(.N)* ([._-]?(alpha|a|beta|b|preview|pre|c|rc)[._-]?N?)?
        (-N | [._-]?(post|rev|r)[._-]?N?)? ([._-]?dev[._-]?N?)? (\+ alnum+([._-]alnum+)* )? \s*
   matched case-insensitively against the whole string.  It is written here as the
   deterministic scanner that the (greedy, possessive) expression denotes; surrounding
   white space is removed first (no part of the expression inside matches white space).
   Strings are byte strings; the reference is defined on ASCII input (a byte >= 0x80 is
   in no character class below, so such strings are not in the grammar; \s is Python's
   ASCII white space 09-0D, 1C-20).  Integers are unbounded.  Definitions only. *)
From DepsDev Require Import Lib.Base Lib.Order.
Local Open Scope Z_scope.

(* ---------- scanning helpers ---------- *)
Definition sp_ws (c : N) : bool := (N.leb 9 c && N.leb c 13) || (N.leb 28 c && N.leb c 32).
Definition sp_sep (c : N) : bool := N.eqb c 46 || N.eqb c 45 || N.eqb c 95.
Definition sp_alpha (c : N) : bool := (N.leb 97 c && N.leb c 122) || (N.leb 65 c && N.leb c 90).
Definition sp_alnum (c : N) : bool := is_digit c || sp_alpha c.

Fixpoint drop_while (f : N -> bool) (s : bytes) : bytes :=
  match s with
  | c :: t => if f c then drop_while f t else s
  | [] => []
  end.

(* remove the longest suffix of characters satisfying f *)
Fixpoint drop_while_end (f : N -> bool) (s : bytes) : bytes :=
  match s with
  | [] => []
  | c :: t => match drop_while_end f t with
              | [] => if f c then [] else [c]
              | t' => c :: t'
              end
  end.

Definition sp_strip (s : bytes) : bytes := drop_while_end sp_ws (drop_while sp_ws s).

Fixpoint span_digits (s : bytes) : bytes * bytes :=
  match s with
  | c :: t => if is_digit c then let '(d, r) := span_digits t in (c :: d, r) else ([], s)
  | [] => ([], [])
  end.

Fixpoint span_alnum (s : bytes) : bytes * bytes :=
  match s with
  | c :: t => if sp_alnum c then let '(d, r) := span_alnum t in (c :: d, r) else ([], s)
  | [] => ([], [])
  end.

(* int(digits); int(number or 0) for the empty string *)
Fixpoint dec_val (s : bytes) (acc : Z) : Z :=
  match s with
  | c :: t => dec_val t (10 * acc + Z.of_N (c - 48)%N)
  | [] => acc
  end.
Definition sp_int (d : bytes) : Z := dec_val d 0.

Definition opt_sep (s : bytes) : bytes :=
  match s with
  | c :: t => if sp_sep c then t else s
  | [] => s
  end.

(* case-insensitive match of a lower-case word at the start of s *)
Fixpoint ci_prefix (w s : bytes) : option bytes :=
  match w, s with
  | [], _ => Some s
  | p :: w', c :: s' => if N.eqb (ascii_lower c) p then ci_prefix w' s' else None
  | _ :: _, [] => None
  end.

(* ordered alternation *)
Fixpoint first_word {X} (ws : list (bytes * X)) (s : bytes) : option (X * bytes) :=
  match ws with
  | [] => None
  | (w, x) :: ws' => match ci_prefix w s with
                     | Some r => Some (x, r)
                     | None => first_word ws' s
                     end
  end.

(* letters: a = 0, b = 1, rc = 2 *)
Definition pre_words : list (bytes * Z) :=
  [([97;108;112;104;97]%N, 0); ([97]%N, 0);                         (* alpha a *)
   ([98;101;116;97]%N, 1); ([98]%N, 1);                             (* beta b *)
   ([112;114;101;118;105;101;119]%N, 2); ([112;114;101]%N, 2);      (* preview pre *)
   ([99]%N, 2); ([114;99]%N, 2)].                                   (* c rc *)
Definition post_words : list (bytes * unit) :=
  [([112;111;115;116]%N, tt); ([114;101;118]%N, tt); ([114]%N, tt)]. (* post rev r *)
Definition dev_words : list (bytes * unit) := [([100;101;118]%N, tt)].

(* ---------- the parsed (not yet normalised) version ---------- *)
Record pv := {
  s_epoch : Z;
  s_release : list Z;
  s_pre : option (Z * Z);        (* letter, number *)
  s_post : option Z;
  s_dev : option Z;
  s_local : option (list bytes)  (* the segments as written *)
}.

(* (N!)? *)
Definition sp_epoch (s : bytes) : Z * bytes :=
  match span_digits s with
  | (c :: d, r) => match r with
                   | b :: r' => if N.eqb b 33 then (sp_int (c :: d), r') else (0, s)
                   | [] => (0, s)
                   end
  | ([], _) => (0, s)
  end.

(* N(.N)* *)
Fixpoint sp_release (fuel : nat) (s : bytes) : option (list Z * bytes) :=
  match fuel with
  | O => None
  | S f =>
      match span_digits s with
      | ([], _) => None
      | (d, r) =>
          match r with
          | c :: r' =>
              if N.eqb c 46 then
                match sp_release f r' with
                | Some (l, r'') => Some (sp_int d :: l, r'')
                | None => Some ([sp_int d], r)
                end
              else Some ([sp_int d], r)
          | [] => Some ([sp_int d], r)
          end
      end
  end.

(* [._-]? word [._-]? N? -- the whole group is optional: nothing is consumed when the word is absent *)
Definition sp_tagged {X} (ws : list (bytes * X)) (s : bytes) : option (X * Z) * bytes :=
  match first_word ws (opt_sep s) with
  | None => (None, s)
  | Some (x, s2) => let '(d, s4) := span_digits (opt_sep s2) in (Some (x, sp_int d), s4)
  end.

Definition sp_pre (s : bytes) : option (Z * Z) * bytes := sp_tagged pre_words s.

(* -N | [._-]? (post|rev|r) [._-]? N? *)
Definition sp_post (s : bytes) : option Z * bytes :=
  let explicit :=
    match sp_tagged post_words s with
    | (Some (_, n), r) => (Some n, r)
    | (None, r) => (None, r)
    end in
  match s with
  | c :: t => if N.eqb c 45 then
                match span_digits t with
                | (c0 :: d0, r) => (Some (sp_int (c0 :: d0)), r)
                | ([], _) => explicit
                end
              else explicit
  | [] => explicit
  end.

Definition sp_dev (s : bytes) : option Z * bytes :=
  match sp_tagged dev_words s with
  | (Some (_, n), r) => (Some n, r)
  | (None, r) => (None, r)
  end.

(* alnum+ ([._-] alnum+)* *)
Fixpoint sp_segs (fuel : nat) (s : bytes) : option (list bytes * bytes) :=
  match fuel with
  | O => None
  | S f =>
      match span_alnum s with
      | ([], _) => None
      | (a, r) =>
          match r with
          | c :: r' =>
              if sp_sep c then
                match sp_segs f r' with
                | Some (l, r'') => Some (a :: l, r'')
                | None => Some ([a], r)
                end
              else Some ([a], r)
          | [] => Some ([a], r)
          end
      end
  end.

(* (\+ local)? : None = the string is not in the grammar *)
Definition sp_local (s : bytes) : option (option (list bytes) * bytes) :=
  match s with
  | c :: t => if N.eqb c 43 then
                match sp_segs (S (length t)) t with
                | Some (l, r) => Some (Some l, r)
                | None => None
                end
              else Some (None, s)
  | [] => Some (None, s)
  end.

Definition sp_strip_v (s : bytes) : bytes :=
  match s with
  | c :: t => if N.eqb c 118 || N.eqb c 86 then t else s
  | [] => s
  end.

Definition spec_core (s : bytes) : option pv :=
  let s0 := sp_strip_v s in
  let '(ep, s1) := sp_epoch s0 in
  match sp_release (S (length s1)) s1 with
  | None => None
  | Some (rel, s2) =>
      let '(pre, s3) := sp_pre s2 in
      let '(post, s4) := sp_post s3 in
      let '(dev, s5) := sp_dev s4 in
      match sp_local s5 with
      | Some (loc, []) =>
          Some {| s_epoch := ep; s_release := rel; s_pre := pre; s_post := post; s_dev := dev; s_local := loc |}
      | _ => None
      end
  end.

(* packaging.version.Version(s) succeeds.  The reference is defined on ASCII input; the
   test below is redundant (no character class of the grammar contains a byte >= 0x80)
   and only makes that domain explicit. *)
Definition is_ascii (s : bytes) : bool := forallb (fun c => N.ltb c 128) s.

Definition spec_parse (s : bytes) : option pv :=
  if is_ascii s then spec_core (sp_strip s) else None.

(* ---------- normalisation and the comparison key ---------- *)
Fixpoint trim0 (l : list Z) : list Z :=
  match l with
  | [] => []
  | x :: t => match trim0 t with
              | [] => if x =? 0 then [] else [x]
              | t' => x :: t'
              end
  end.

Inductive lseg := LNum (n : Z) | LStr (s : bytes).

Definition all_digits_b (s : bytes) : bool := forallb is_digit s.

(* part.lower() if not part.isdigit() else int(part) *)
Definition norm_seg (t : bytes) : lseg :=
  if all_digits_b t then LNum (sp_int t) else LStr (to_lower t).

(* (n, "") for integers, (-1, s) for strings: strings first *)
Definition seg_cmp (a b : lseg) : Z :=
  match a, b with
  | LNum x, LNum y => cmpZ x y
  | LNum _, LStr _ => 1
  | LStr _, LNum _ => -1
  | LStr x, LStr y => bytes_compare x y
  end.

Definition pre_rank (p : pv) : Z :=
  match s_pre p, s_post p, s_dev p with
  | None, None, Some _ => -1
  | None, _, _ => 3
  | Some (k, _), _, _ => k
  end.
Definition pre_n (p : pv) : Z := match s_pre p with Some (_, n) => n | None => 0 end.
Definition post_rank (p : pv) : Z := match s_post p with Some _ => 1 | None => 0 end.
Definition post_n (p : pv) : Z := match s_post p with Some n => n | None => 0 end.
Definition dev_rank (p : pv) : Z := match s_dev p with Some _ => 0 | None => 1 end.
Definition dev_n (p : pv) : Z := match s_dev p with Some n => n | None => 0 end.
Definition local_key (p : pv) : option (list lseg) :=
  match s_local p with Some l => Some (map norm_seg l) | None => None end.

Definition on {A B} (f : A -> B) (c : B -> B -> Z) (a b : A) : Z := c (f a) (f b).

(* comparison of the keys (epoch, release without trailing zeros, suffix[, local]) as Python tuples *)
Definition spec_compare : pv -> pv -> Z :=
  lex (on s_epoch cmpZ)
 (lex (on (fun p => trim0 (s_release p)) (list_lex cmpZ (-1)))
 (lex (on pre_rank cmpZ)
 (lex (on pre_n cmpZ)
 (lex (on post_rank cmpZ)
 (lex (on post_n cmpZ)
 (lex (on dev_rank cmpZ)
 (lex (on dev_n cmpZ)
      (on local_key (opt_cmp (list_lex seg_cmp (-1)) (-1)))))))))).

(* str(Version) *)
Definition join_dots (l : list bytes) : bytes :=
  match l with
  | [] => []
  | x :: t => x ++ flat_map (fun y => 46%N :: y) t
  end.

Definition seg_text (t : bytes) : bytes :=
  match norm_seg t with LNum n => Z_to_dec n | LStr s => s end.

Definition pre_letter (k : Z) : bytes :=
  if k =? 0 then [97%N] else if k =? 1 then [98%N] else [114; 99]%N.

Definition spec_normal (p : pv) : bytes :=
  (if s_epoch p =? 0 then [] else Z_to_dec (s_epoch p) ++ [33%N]) ++
  join_dots (map Z_to_dec (s_release p)) ++
  (match s_pre p with Some (k, n) => pre_letter k ++ Z_to_dec n | None => [] end) ++
  (match s_post p with Some n => [46; 112; 111; 115; 116]%N ++ Z_to_dec n | None => [] end) ++
  (match s_dev p with Some n => [46; 100; 101; 118]%N ++ Z_to_dec n | None => [] end) ++
  (match s_local p with Some l => 43%N :: join_dots (map seg_text l) | None => [] end).
