(* The part of the marker language on which the Go evaluator and packaging 26.3 are proved
   to agree (Properties/C16.v, C16_marker_partial). A boolean predicate, shared by
   extraction with the direct oracle of the harness, which uses it to tell instances of
   the known divergence classes (outside) from new violations (inside). Definitions only. *)
From DepsDev Require Import Lib.Base Pypi.PyStr Spec.Pep508Spec.

Section Domain.
  Variable env : list (bytes * bytes).
  Variable go_valid : bytes -> bool.                       (* semver.PyPI.Parse succeeds *)
  Variable spec_sat : N -> bytes -> bytes -> option bool.  (* packaging Specifier *)

  Definition is_some {A} (o : option A) : bool := match o with Some _ => true | None => false end.

  (* a comparison with a variable other than extra *)
  Definition dom_env_atom (v : var) (o : cop) (lhs rhs : bytes) : bool :=
    let both := go_valid lhs && go_valid rhs in
    let sp := is_some (spec_sat (cop_num o) rhs lhs) in
    if version_typed v then
      match o with
      | CIn | CNotIn => negb both
      | CEq3 => false
      | CEq | CNe | CTilde => (both && sp) || (negb both && negb sp)
      | CLe | CLt | CGe | CGt => both && sp
      end
    else
      match o with
      | CEq | CNe | CIn | CNotIn | CTilde => negb both
      | _ => false
      end.

  Definition dom_atom (a : atom) : bool :=
    let v := atom_var a in
    let s := l_text (atom_lit a) in
    if is_extra v then
      match atom_op a with
      | CEq => negb (is_nil s) && bytes_eqb (canonicalize_name s) s
      | _ => false
      end
    else
      match env_lookup (var_name v) env with
      | None => false
      | Some x =>
          match a with
          | AVarLit _ o _ => dom_env_atom v o x s
          | ALitVar _ o _ => dom_env_atom v o s x
          end
      end.

  (* ---- why an atom is outside: the number n of the known divergence class F-C16-n, 0 inside.
     Pep508Domain_proofs.dom_atom_class: dom_atom a = (atom_class a =? 0). The harness takes
     the class of a disagreement from this function (extracted), not from a copy of it. *)
  Definition env_atom_class (v : var) (o : cop) (lhs rhs : bytes) : N :=
    let both := go_valid lhs && go_valid rhs in
    let sp := is_some (spec_sat (cop_num o) rhs lhs) in
    if version_typed v then
      match o with
      | CIn | CNotIn => if both then 1 else 0            (* word operator on two versions *)
      | CEq3 => 5                                        (* arbitrary equality *)
      | CEq | CNe | CTilde => if (both && sp) || (negb both && negb sp) then 0 else 6
      | CLe | CLt | CGe | CGt => if both && sp then 0 else if both then 6 else 4
      end
    else
      match o with
      | CEq | CNe | CIn | CNotIn | CTilde => if both then 6 else 0
      | CEq3 => 5
      | CLe | CLt | CGe | CGt => 4                       (* ordered comparison of plain strings *)
      end.

  Definition atom_class (a : atom) : N :=
    let v := atom_var a in
    let s := l_text (atom_lit a) in
    if is_extra v then
      match atom_op a with
      | CEq => if negb (is_nil s) && bytes_eqb (canonicalize_name s) s then 0 else 3   (* name not normalised *)
      | _ => 2                                                                         (* extra with another operator *)
      end
    else
      match env_lookup (var_name v) env with
      | None => 6
      | Some x =>
          match a with
          | AVarLit _ o _ => env_atom_class v o x s
          | ALitVar _ o _ => env_atom_class v o s x
          end
      end.

  Fixpoint first_class (l : list atom) : N :=
    match l with
    | [] => 0
    | a :: r => if atom_class a =? 0 then first_class r else atom_class a
    end.

  Definition extra_lits (m : mtree) : list bytes :=
    map (fun a => l_text (atom_lit a)) (filter (fun a => is_extra (atom_var a)) (atoms m)).

  Definition all_same (l : list bytes) : bool :=
    match l with [] => true | x :: r => forallb (bytes_eqb x) r end.

  (* the names the marker compares extra with that ARE requested *)
  Definition requested_lits (extras : list bytes) (m : mtree) : list bytes :=
    filter (fun l => existsb (bytes_eqb l) extras) (extra_lits m).

  (* requested extras are normalised names; at most one of the names the marker compares extra
     with is requested (Go looks every name up in the set of requested extras, pip evaluates
     the marker once per requested extra: the two differ only when two different names of the
     marker are both requested) *)
  Definition in_domain (extras : list bytes) (m : mtree) : bool :=
    forallb dom_atom (atoms m) &&
    all_same (requested_lits extras m) &&
    forallb (fun e => bytes_eqb (canonicalize_name e) e) extras.

  (* the class of the first atom outside, else 3 when a requested extra is not a normalised
     name, else 7 when two different names the marker compares extra with are both requested, else 0 *)
  Definition domain_class (extras : list bytes) (m : mtree) : N :=
    let c := first_class (atoms m) in
    if negb (c =? 0) then c
    else if negb (forallb (fun e => bytes_eqb (canonicalize_name e) e) extras) then 3
    else if negb (all_same (requested_lits extras m)) then 7
    else 0.
End Domain.
