(* The part of the marker language on which the Go evaluator and packaging 26.3 are proved
   to agree (Properties/C16.v, C16_marker_partial). A boolean predicate, shared by
   extraction with the direct oracle of the harness, which uses it to tell instances of
   the known divergence classes (outside) from new violations (inside). Definitions only. *)
From DepsDev Require Import Lib.Base Pypi.PyStr Spec.Pep508Spec.

Section Domain.
  Variable env : list (bytes * bytes).
  Variable go_valid : bytes -> bool.                       (* semver.PyPI.Parse succeeds *)
  Variable spec_sat : N -> bytes -> bytes -> option bool.  (* packaging Specifier *)

  Definition is_some {A} (o : option A) : bool := match o with Some _ => true | None => false end.

  (* a comparison with a variable other than extra *)
  Definition dom_env_atom (v : var) (o : cop) (lhs rhs : bytes) : bool :=
    let both := go_valid lhs && go_valid rhs in
    let sp := is_some (spec_sat (cop_num o) rhs lhs) in
    if version_typed v then
      match o with
      | CIn | CNotIn => negb both
      | CEq3 => false
      | CEq | CNe | CTilde => (both && sp) || (negb both && negb sp)
      | CLe | CLt | CGe | CGt => both && sp
      end
    else
      match o with
      | CEq | CNe | CIn | CNotIn | CTilde => negb both
      | _ => false
      end.

  Definition dom_atom (a : atom) : bool :=
    let v := atom_var a in
    let s := l_text (atom_lit a) in
    if is_extra v then
      match atom_op a with
      | CEq => negb (is_nil s) && bytes_eqb (canonicalize_name s) s
      | _ => false
      end
    else
      match env_lookup (var_name v) env with
      | None => false
      | Some x =>
          match a with
          | AVarLit _ o _ => dom_env_atom v o x s
          | ALitVar _ o _ => dom_env_atom v o s x
          end
      end.

  Definition extra_lits (m : mtree) : list bytes :=
    map (fun a => l_text (atom_lit a)) (filter (fun a => is_extra (atom_var a)) (atoms m)).

  Definition all_same (l : list bytes) : bool :=
    match l with [] => true | x :: r => forallb (bytes_eqb x) r end.

  (* requested extras are normalised names; every comparison with extra names the same extra *)
  Definition in_domain (extras : list bytes) (m : mtree) : bool :=
    forallb dom_atom (atoms m) &&
    all_same (extra_lits m) &&
    forallb (fun e => bytes_eqb (canonicalize_name e) e) extras.
End Domain.
