(* Declarative PEP 508: requirement and marker syntax trees, their printer over every legal
   white-space placement, and evaluation as pip's packaging library (26.3) defines it.
   Independent of the Go model (it shares only the byte-string helpers).

   PEP 440 specifier semantics are not part of this file: Specifier(op ++ rhs) enters as
   the oracle spec_sat. *)
From DepsDev Require Import Lib.Base Pypi.PyStr.

(* ------------------------------------------------------------------ names *)
(* packaging.utils.canonicalize_name: re.sub("[-_.]+", "-", name).lower() *)
Definition is_name_sep (c : N) : bool := (c =? 45) || (c =? 95) || (c =? 46).

(* a maximal run of - _ . becomes one '-' (emitted when the run ends) *)
Fixpoint collapse_runs (s : bytes) : bytes :=
  match s with
  | [] => []
  | c :: r =>
      if is_name_sep c then
        match r with
        | d :: _ => if is_name_sep d then collapse_runs r else 45 :: collapse_runs r
        | [] => [45]
        end
      else c :: collapse_runs r
  end.
Definition canonicalize_name (s : bytes) : bytes := to_lower (collapse_runs s).

Definition is_alnum (c : N) : bool :=
  ((97 <=? c) && (c <=? 122)) || ((65 <=? c) && (c <=? 90)) || ((48 <=? c) && (c <=? 57)).
Definition is_name_char (c : N) : bool := is_alnum c || is_name_sep c.
(* identifier of PEP 508: letterOrDigit ((letterOrDigit | - | _ | .)* letterOrDigit)? *)
Definition valid_name (s : bytes) : bool :=
  forallb is_name_char s &&
  match s with c :: _ => is_alnum c | [] => false end &&
  match rev s with c :: _ => is_alnum c | [] => false end.

(* ------------------------------------------------------------------ white space *)
(* a white-space string: false = space, true = tab. Legal by construction. *)
Definition wsp := list bool.
Definition ws_bytes (w : wsp) : bytes := map (fun b : bool => if b then 9 else 32) w.
(* at least one white-space character *)
Definition force (w : wsp) : wsp := match w with [] => [false] | _ => w end.

Definition is_ident_char (c : N) : bool := is_alnum c || (c =? 95) || (c =? 46).
Definition starts_ident (s : bytes) : bool := match s with c :: _ => is_ident_char c | [] => false end.
Definition ends_ident (s : bytes) : bool := starts_ident (rev s).
(* white space between a word-like token on the left and a keyword *)
Definition sep_after (left : bytes) (w : wsp) : bytes := ws_bytes (if ends_ident left then force w else w).
(* white space inserted between a keyword and a word-like token on the right *)
Definition sep_before (right : bytes) : bytes := if starts_ident right then [32] else [].

(* ------------------------------------------------------------------ markers *)
Inductive var : Type :=
| VPythonVersion | VPythonFullVersion | VOsName | VSysPlatform | VPlatformRelease
| VPlatformSystem | VPlatformVersion | VPlatformMachine | VPlatformPythonImplementation
| VImplementationName | VImplementationVersion | VExtra.

Definition all_vars : list var :=
  [VPythonVersion; VPythonFullVersion; VOsName; VSysPlatform; VPlatformRelease; VPlatformSystem;
   VPlatformVersion; VPlatformMachine; VPlatformPythonImplementation; VImplementationName;
   VImplementationVersion; VExtra].

Definition var_name (v : var) : bytes :=
  match v with
  | VPythonVersion => [112;121;116;104;111;110;95;118;101;114;115;105;111;110]
  | VPythonFullVersion => [112;121;116;104;111;110;95;102;117;108;108;95;118;101;114;115;105;111;110]
  | VOsName => [111;115;95;110;97;109;101]
  | VSysPlatform => [115;121;115;95;112;108;97;116;102;111;114;109]
  | VPlatformRelease => [112;108;97;116;102;111;114;109;95;114;101;108;101;97;115;101]
  | VPlatformSystem => [112;108;97;116;102;111;114;109;95;115;121;115;116;101;109]
  | VPlatformVersion => [112;108;97;116;102;111;114;109;95;118;101;114;115;105;111;110]
  | VPlatformMachine => [112;108;97;116;102;111;114;109;95;109;97;99;104;105;110;101]
  | VPlatformPythonImplementation =>
      [112;108;97;116;102;111;114;109;95;112;121;116;104;111;110;95;105;109;112;108;101;109;101;110;116;97;116;105;111;110]
  | VImplementationName => [105;109;112;108;101;109;101;110;116;97;116;105;111;110;95;110;97;109;101]
  | VImplementationVersion => [105;109;112;108;101;109;101;110;116;97;116;105;111;110;95;118;101;114;115;105;111;110]
  | VExtra => [101;120;116;114;97]
  end.

Definition is_extra (v : var) : bool := match v with VExtra => true | _ => false end.

(* packaging.markers.MARKERS_REQUIRING_VERSION *)
Definition version_typed (v : var) : bool :=
  match v with
  | VImplementationVersion | VPlatformRelease | VPythonFullVersion | VPythonVersion => true
  | _ => false
  end.

Inductive cop : Type := CLe | CLt | CNe | CEq | CGe | CGt | CTilde | CEq3 | CIn | CNotIn.
Definition all_cops : list cop := [CLe; CLt; CNe; CEq; CGe; CGt; CTilde; CEq3; CIn; CNotIn].

(* the operator's number in the oracle tables *)
Definition cop_num (o : cop) : N :=
  match o with
  | CLe => 1 | CLt => 2 | CNe => 3 | CEq => 4 | CGe => 5 | CGt => 6 | CTilde => 7 | CEq3 => 8
  | CIn => 9 | CNotIn => 10
  end.

Definition is_word_op (o : cop) : bool := match o with CIn | CNotIn => true | _ => false end.

(* the operator as written; wn is the white space inside not..in *)
Definition cop_text (o : cop) (wn : wsp) : bytes :=
  match o with
  | CLe => [60;61] | CLt => [60] | CNe => [33;61] | CEq => [61;61] | CGe => [62;61] | CGt => [62]
  | CTilde => [126;61] | CEq3 => [61;61;61]
  | CIn => [105;110]
  | CNotIn => [110;111;116] ++ ws_bytes (force wn) ++ [105;110]
  end.

(* a string literal: quote style and content (which must not contain its own quote) *)
Record lit : Type := mklit { l_dq : bool; l_text : bytes }.
Definition quote_of (l : lit) : N := if l_dq l then 34 else 39.
(* python_str_c of PEP 508: white space, letters, digits and every ASCII punctuation
   character except the two quotes and the backslash *)
Definition is_python_str_c (c : N) : bool :=
  (c =? 9) || ((32 <=? c) && (c <=? 126) && negb (c =? 34) && negb (c =? 39) && negb (c =? 92)).
Definition lit_ok (l : lit) : bool :=
  negb (mem_byte (quote_of l) (l_text l)) &&
  forallb (fun c => is_python_str_c c || (c =? 34) || (c =? 39)) (l_text l).
Definition print_lit (l : lit) : bytes := quote_of l :: l_text l ++ [quote_of l].

(* marker_expr = marker_var marker_op marker_var with exactly one variable *)
Inductive atom : Type :=
| AVarLit (v : var) (o : cop) (l : lit)
| ALitVar (l : lit) (o : cop) (v : var).

Definition atom_var (a : atom) : var := match a with AVarLit v _ _ => v | ALitVar _ _ v => v end.
Definition atom_op (a : atom) : cop := match a with AVarLit _ o _ => o | ALitVar _ o _ => o end.
Definition atom_lit (a : atom) : lit := match a with AVarLit _ _ l => l | ALitVar l _ _ => l end.

(* concrete syntax: the white space of every slot is part of the tree *)
Inductive mtree : Type :=
| TAtom (w1 w2 wn w3 : wsp) (a : atom)     (* w1 lhs w2 op(wn) w3 rhs *)
| TAnd (l : mtree) (w : wsp) (r : mtree)   (* l w and r *)
| TOr (l : mtree) (w : wsp) (r : mtree)    (* l w or r *)
| TParen (w1 : wsp) (m : mtree) (w2 : wsp) (* w1 ( m w2 ) *).

Definition print_atom (w1 w2 wn w3 : wsp) (a : atom) : bytes :=
  match a with
  | AVarLit v o l =>
      ws_bytes w1 ++ var_name v ++ ws_bytes (if is_word_op o then force w2 else w2) ++
      cop_text o wn ++ ws_bytes w3 ++ print_lit l
  | ALitVar l o v =>
      ws_bytes w1 ++ print_lit l ++ ws_bytes w2 ++
      cop_text o wn ++ ws_bytes (if is_word_op o then force w3 else w3) ++ var_name v
  end.

Definition kw_and : bytes := [97;110;100].
Definition kw_or : bytes := [111;114].

(* marker_or = marker_and ('or' marker_or)?; marker_and = marker_expr ('and' marker_and)?;
   marker_expr = atom | '(' marker_or ')'.  A subtree that is too loose for its position
   is parenthesised. *)
Fixpoint print_tree (m : mtree) : bytes :=
  let expr_level (m : mtree) :=
      match m with
      | TAnd _ _ _ | TOr _ _ _ => [40] ++ print_tree m ++ [41]
      | _ => print_tree m
      end in
  let and_level (m : mtree) :=
      match m with
      | TOr _ _ _ => [40] ++ print_tree m ++ [41]
      | _ => print_tree m
      end in
  match m with
  | TAtom w1 w2 wn w3 a => print_atom w1 w2 wn w3 a
  | TAnd l w r =>
      let L := expr_level l in
      let R := and_level r in
      L ++ sep_after L w ++ kw_and ++ sep_before R ++ R
  | TOr l w r =>
      let L := and_level l in
      let R := print_tree r in
      L ++ sep_after L w ++ kw_or ++ sep_before R ++ R
  | TParen w1 m w2 => ws_bytes w1 ++ [40] ++ print_tree m ++ ws_bytes w2 ++ [41]
  end.

Definition expr_level (m : mtree) : bytes :=
  match m with
  | TAnd _ _ _ | TOr _ _ _ => [40] ++ print_tree m ++ [41]
  | _ => print_tree m
  end.
Definition and_level (m : mtree) : bytes :=
  match m with
  | TOr _ _ _ => [40] ++ print_tree m ++ [41]
  | _ => print_tree m
  end.

(* a whole marker with trailing white space *)
Definition print_marker (m : mtree) (wt : wsp) : bytes := print_tree m ++ ws_bytes wt.

Fixpoint atoms (m : mtree) : list atom :=
  match m with
  | TAtom _ _ _ _ a => [a]
  | TAnd l _ r | TOr l _ r => atoms l ++ atoms r
  | TParen _ m _ => atoms m
  end.
Definition wf_tree (m : mtree) : bool := forallb (fun a => lit_ok (atom_lit a)) (atoms m).

(* ---------------------------------------------------------- evaluation (packaging 26.3) *)
Section Eval.
  Variable env : list (bytes * bytes).
  (* Specifier(op ++ rhs): None when that is not a valid specifier, otherwise
     Some (spec.contains(lhs, prereleases=True)) *)
  Variable spec_sat : N -> bytes -> bytes -> option bool.

  Fixpoint env_lookup (k : bytes) (l : list (bytes * bytes)) : option bytes :=
    match l with
    | [] => None
    | (k', v) :: r => if bytes_eqb k k' then Some v else env_lookup k r
    end.

  (* markers._operators: plain strings; None = UndefinedComparison *)
  Definition string_op (o : cop) (lhs rhs : bytes) : option bool :=
    match o with
    | CIn => Some (contains lhs rhs)
    | CNotIn => Some (negb (contains lhs rhs))
    | CLt | CGt => Some false
    | CLe | CGe | CEq => Some (bytes_eqb lhs rhs)
    | CNe => Some (negb (bytes_eqb lhs rhs))
    | CTilde | CEq3 => None
    end.

  (* markers._eval_op; "in" and "not in" never spell a valid specifier *)
  Definition eval_op (key : var) (o : cop) (lhs rhs : bytes) : option bool :=
    if version_typed key && negb (is_word_op o) then
      match spec_sat (cop_num o) rhs lhs with
      | Some b => Some b
      | None => string_op o lhs rhs
      end
    else string_op o lhs rhs.

  (* e: the value of the variable extra for this evaluation (already normalised) *)
  Definition var_value (e : bytes) (v : var) : option bytes :=
    if is_extra v then Some e else env_lookup (var_name v) env.
  (* _normalize_extras: the literal compared with extra is normalised at parse time *)
  Definition lit_value (v : var) (l : lit) : bytes :=
    if is_extra v then canonicalize_name (l_text l) else l_text l.

  Definition eval_atom (e : bytes) (a : atom) : option bool :=
    match a with
    | AVarLit v o l =>
        match var_value e v with
        | Some x => eval_op v o x (lit_value v l)
        | None => None
        end
    | ALitVar l o v =>
        match var_value e v with
        | Some x => eval_op v o (lit_value v l) x
        | None => None
        end
    end.

  (* _evaluate_markers computes every atom before combining them: an undefined
     comparison anywhere makes the whole evaluation fail *)
  Definition lift2 (f : bool -> bool -> bool) (a b : option bool) : option bool :=
    match a, b with Some x, Some y => Some (f x y) | _, _ => None end.

  Fixpoint eval_one (e : bytes) (m : mtree) : option bool :=
    match m with
    | TAtom _ _ _ _ a => eval_atom e a
    | TAnd l _ r => lift2 andb (eval_one e l) (eval_one e r)
    | TOr l _ r => lift2 orb (eval_one e l) (eval_one e r)
    | TParen _ m _ => eval_one e m
    end.

  (* Marker.evaluate: canonicalize_name(extra) if extra else "" *)
  Definition norm_extra (e : bytes) : bytes := canonicalize_name e.

  (* pip: a requirement is followed when its marker holds for one of the requested
     extras, or for extra = "" when none is requested *)
  Definition extra_contexts (extras : list bytes) : list bytes :=
    match extras with [] => [[]] | _ => map norm_extra extras end.

  Fixpoint any_defined (l : list (option bool)) : option bool :=
    match l with
    | [] => Some false
    | x :: r => lift2 orb x (any_defined r)
    end.

  Definition eval (extras : list bytes) (m : mtree) : option bool :=
    any_defined (map (fun e => eval_one e m) (extra_contexts extras)).
End Eval.

(* ------------------------------------------------------------------ requirements *)
(* version_cmp of a specifier clause *)
Inductive vop : Type := VLe | VLt | VNe | VEq | VGe | VGt | VTilde | VEq3.
Definition vop_text (o : vop) : bytes :=
  match o with
  | VLe => [60;61] | VLt => [60] | VNe => [33;61] | VEq => [61;61] | VGe => [62;61] | VGt => [62]
  | VTilde => [126;61] | VEq3 => [61;61;61]
  end.

(* version = (letterOrDigit | - | _ | . | * | + | !)+ *)
Definition is_version_char (c : N) : bool :=
  is_alnum c || (c =? 45) || (c =? 95) || (c =? 46) || (c =? 42) || (c =? 43) || (c =? 33).
Definition valid_version_text (s : bytes) : bool := negb (is_nil s) && forallb is_version_char s.

Record clause : Type := mkclause { c_w1 : wsp; c_op : vop; c_w2 : wsp; c_ver : bytes; c_w3 : wsp }.
Definition print_clause (c : clause) : bytes :=
  ws_bytes (c_w1 c) ++ vop_text (c_op c) ++ ws_bytes (c_w2 c) ++ c_ver c ++ ws_bytes (c_w3 c).
Definition clause_text (c : clause) : bytes := vop_text (c_op c) ++ c_ver c.

Record extra_item : Type := mkextra { e_w1 : wsp; e_name : bytes; e_w2 : wsp }.
Definition print_extra (e : extra_item) : bytes := ws_bytes (e_w1 e) ++ e_name e ++ ws_bytes (e_w2 e).

Inductive spec_part : Type :=
| SNone
| SBare (first : clause) (more : list clause)
| SParen (first : clause) (more : list clause).

Record req : Type := mkreq {
  r_w0 : wsp;                      (* leading white space *)
  r_name : bytes;
  r_w1 : wsp;                      (* after the name *)
  r_extras : option (wsp * list extra_item);   (* [ w e1 , e2 ... ] *)
  r_w2 : wsp;                      (* after the extras *)
  r_spec : spec_part;
  r_w3 : wsp;                      (* after the specifier *)
  r_marker : option (mtree * wsp); (* ; marker trailing-ws *)
}.

Definition print_extras (x : option (wsp * list extra_item)) : bytes :=
  match x with
  | None => []
  | Some (w, items) => [91] ++ ws_bytes w ++ join_with 44 (map print_extra items) ++ [93]
  end.
Definition print_spec (s : spec_part) : bytes :=
  match s with
  | SNone => []
  | SBare c cs => join_with 44 (map print_clause (c :: cs))
  | SParen c cs => [40] ++ join_with 44 (map print_clause (c :: cs)) ++ [41]
  end.
Definition print_req_marker (x : option (mtree * wsp)) : bytes :=
  match x with
  | None => []
  | Some (m, wt) => [59] ++ print_marker m wt
  end.

Definition print_req (r : req) : bytes :=
  ws_bytes (r_w0 r) ++ r_name r ++ ws_bytes (r_w1 r) ++ print_extras (r_extras r) ++
  ws_bytes (r_w2 r) ++ print_spec (r_spec r) ++ ws_bytes (r_w3 r) ++ print_req_marker (r_marker r).

Definition spec_clauses (s : spec_part) : list clause :=
  match s with SNone => [] | SBare c cs | SParen c cs => c :: cs end.
Definition extras_items (x : option (wsp * list extra_item)) : list extra_item :=
  match x with None => [] | Some (_, l) => l end.

Definition wf_req (r : req) : bool :=
  valid_name (r_name r) &&
  forallb (fun e => valid_name (e_name e)) (extras_items (r_extras r)) &&
  forallb (fun c => valid_version_text (c_ver c)) (spec_clauses (r_spec r)) &&
  match r_marker r with Some (m, _) => wf_tree m | None => true end.

(* ---- what packaging extracts, as the normalised observables of C16 *)
Definition req_name (r : req) : bytes := canonicalize_name (r_name r).
Definition req_extras (r : req) : list bytes := map e_name (extras_items (r_extras r)).
Definition req_clauses (r : req) : list bytes := map clause_text (spec_clauses (r_spec r)).
Definition req_marker_text (r : req) : bytes :=
  match r_marker r with None => [] | Some (m, wt) => trim (print_marker m wt) end.

(* normalisation applied to the fields a splitter returns: white space is dropped, the
   field is cut at the commas, empty items are dropped *)
Definition nonempty (s : bytes) : bool := negb (is_nil s).
Definition obs_list (field : bytes) : list bytes := filter nonempty (split_on 44 (remove_ws field)).
Definition obs_extras (field : bytes) : list bytes := obs_list field.
Definition obs_clauses (field : bytes) : list bytes := obs_list field.
