(* Maven's rules for the effective POM, stated independently of the model of the Go code.
   Only the data records of Maven/Pom.v are shared; no function of Maven/Interp.v or
   Maven/Project.v is used here.

   Sources transcribed (Maven 3.8.x, maven-model-builder): DefaultModelBuilder.build (order of
   the phases), DefaultModelNormalizer.mergeDuplicates, DefaultProfileSelector and the JDK / OS /
   property activators, DefaultProfileInjector, DefaultInheritanceAssembler (ModelMerger.merge of
   keyed lists), StringVisitorModelInterpolator (order of the value sources),
   DefaultDependencyManagementImporter, DefaultDependencyManagementInjector; and the guides
   Introduction to the POM, Introduction to Build Profiles, Introduction to the Dependency
   Mechanism.  The rules, in the form used below:

   R1 identity      a dependency is identified by (groupId, artifactId, type or jar, classifier),
                    compared as written (before interpolation).
   R2 one POM       within one POM - the project followed by its active profiles in document
                    order - a later declaration of the same identity replaces an earlier one;
                    the same holds for properties of the same name.
   R3 inheritance   across POMs the nearest wins (child before parent before grandparent).
   R4 position      an entry stands where its identity first appears in the sequence
                    root, root's active profiles, parent, parent's active profiles, ...
   R5 properties    a placeholder is looked up in: project.* / pom.* built-ins, then the
                    properties by R2+R3, then the unprefixed built-ins.  Built-ins come from the
                    assembled model (group and version inherited when absent, the parent element
                    of the root).
   R6 order         profiles are activated and injected per POM, then inheritance, then
                    interpolation, then import, then injection of managed values.
   R7 management    managed entries in priority order: own and inherited ones (R2-R4), then for
                    every import-scoped pom entry in order the effective management of that
                    project (built by these same rules, depth first); the first entry of an
                    identity wins.
   R8 injection     version, scope and exclusions of a dependency are taken from the managed
                    entry of the same identity only where the dependency leaves them empty;
                    the optional flag is never managed.
   R9 activation    a profile is active when every condition it states holds: jdk (a plain value
                    is a prefix of the JDK version, a value starting with an exclamation mark a
                    negated prefix, a bracketed value a version range), os (each stated field
                    equals the setting, case folded, negated by a leading exclamation mark),
                    property (with no property defined: only the negated forms hold).  When no
                    profile of a POM is active that way, its activeByDefault profiles are.
   R10 empty value  a property written with no text (empty element, self-closing element, white
                    space only) is DEFINED, with the empty string as its value: its placeholder is
                    replaced by nothing, and it overrides an inherited definition like any other.
                    Texts are trimmed when read; a CDATA section is text.  (Reading XML is outside
                    this file: its input is the decoded record, where such a property is a pair
                    with an empty second component.) *)
From DepsDev Require Import Lib.Base Maven.Pom.

Inductive sres (A : Type) : Type :=
| SOk (a : A)
| SErr                      (* Maven's model builder reports an error *)
| SUnsupported (why : N).   (* outside the subset the specification covers *)
Arguments SOk {A} a.
Arguments SErr {A}.
Arguments SUnsupported {A} why.

Definition sbind {A B} (r : sres A) (f : A -> sres B) : sres B :=
  match r with SOk a => f a | SErr => SErr | SUnsupported w => SUnsupported w end.
Notation "x <~ r ;; k" := (sbind r (fun x => k)) (at level 61, r at next level, right associativity).

Fixpoint smap {A B} (f : A -> sres B) (l : list A) : sres (list B) :=
  match l with
  | [] => SOk []
  | x :: l' => y <~ f x ;; ys <~ smap f l' ;; SOk (y :: ys)
  end.

(* reasons for SUnsupported *)
Definition U_unresolved : N := 1.   (* a placeholder in a dependency field has no value or is cyclic *)
Definition U_collision : N := 2.    (* interpolation makes two entries of different written identity equal *)
Definition U_mgmt_dup : N := 3.     (* one dependencyManagement list declares an identity twice *)
Definition U_import_type : N := 4.  (* import scope on an entry whose type is not pom *)
Definition U_blank_id : N := 5.     (* entry without groupId or artifactId, or a partial parent element *)
Definition U_no_version : N := 8.
Definition U_bad_range : N := 9.
Definition U_empty_field : N := 10.  (* a managed entry whose written type interpolates to the empty string *)
Definition U_null_vs_empty : N := 11. (* a written-but-empty classifier or scope would decide the outcome *)    (* the jdk condition is not a well-formed version range *)   (* a dependency has no version after injection (Maven: error) *)

(* ---- R1 identity *)
Definition ident := (bytes * bytes * bytes * bytes)%type.
Definition blank (s : bytes) : bool := match s with [] => true | _ => false end.
Definition type_or_jar (t : bytes) : bytes := if blank t then s_jar else t.
Definition ident_of (d : dependency) : ident := (d_group d, d_artifact d, type_or_jar (d_type d), d_classifier d).
Definition ident_eqb (x y : ident) : bool :=
  match x, y with
  | (g1, a1, t1, c1), (g2, a2, t2, c2) => bytes_eqb g1 g2 && bytes_eqb a1 a2 && bytes_eqb t1 t2 && bytes_eqb c1 c2
  end.

Definition declares (i : ident) (d : dependency) : bool := ident_eqb i (ident_of d).

Fixpoint seen (i : ident) (l : list ident) : bool :=
  match l with [] => false | x :: l' => ident_eqb i x || seen i l' end.

(* identities in order of first appearance *)
Fixpoint first_appearances (acc : list ident) (l : list dependency) : list ident :=
  match l with
  | [] => rev acc
  | d :: l' => if seen (ident_of d) acc then first_appearances acc l' else first_appearances (ident_of d :: acc) l'
  end.

Fixpoint has_dup (l : list ident) : bool :=
  match l with [] => false | x :: l' => seen x l' || has_dup l' end.

(* R2-R4: [position] lists the declarations in document order (root POM first), [priority] lists
   them strongest first.  The effective list has, at each first appearance, the strongest
   declaration of that identity. *)
Definition select (position priority : list dependency) : list dependency :=
  flat_map (fun i => match find (declares i) priority with Some d => [d] | None => [] end)
           (first_appearances [] position).

(* first entry of an identity wins, position of that entry (R7) *)
Definition first_wins (l : list dependency) : list dependency := select l l.

(* ---- R9 activation *)
Definition lower (c : N) : N := if (65 <=? c) && (c <=? 90) then c + 32 else c.
Fixpoint is_prefix (p s : bytes) : bool :=
  match p, s with
  | [], _ => true
  | _ :: _, [] => false
  | x :: p', y :: s' => (x =? y) && is_prefix p' s'
  end.
Definition negated (s : bytes) : bool := match s with 33 :: _ => true | _ => false end.
Definition is_range (s : bytes) : bool := match s with 91 :: _ => true | 40 :: _ => true | _ => false end.

Definition os_field_holds (stated setting : bytes) : bool :=
  if blank stated then true
  else if negated stated then negb (bytes_eqb (map lower (tl stated)) (map lower setting))
       else bytes_eqb (map lower stated) (map lower setting).

(* ---- R9, the jdk condition, evaluated here and not taken from the code under test.
   Transcribed from JdkVersionProfileActivator (maven-model-builder 3.8.x): a value starting with
   an exclamation mark is a negated prefix, a value starting with a bracket a range, anything else
   a prefix of the JDK version.  A range is two bounds; the JDK version and the bounds are read
   as up to three numbers (missing ones are 0) and compared as tuples; an empty bound is open.
   The activator truncates longer versions to three numbers, which contradicts the guide's
   remark on upper bounds; the evaluation below therefore only speaks where nothing is truncated:
   JDK versions and bounds of one to three numbers (of at most nine digits), separated by dots
   (for the JDK version also underscore and hyphen), and ranges of exactly the shape
   bracket bound comma bound bracket.  Everywhere else it says None: no claim. *)
Definition digit (c : N) : bool := (48 <=? c) && (c <=? 57).

Fixpoint split_by (sep : N -> bool) (cur : bytes) (s : bytes) : list bytes :=
  match s with
  | [] => [rev cur]
  | c :: s' => if sep c then rev cur :: split_by sep [] s' else split_by sep (c :: cur) s'
  end.

Fixpoint number (acc : N) (s : bytes) : option N :=
  match s with
  | [] => Some acc
  | c :: s' => if digit c then number (acc * 10 + (c - 48)) s' else None
  end.

Definition component (s : bytes) : option N :=
  match s with
  | [] => None
  | _ => if (length s <=? 9)%nat then number 0 s else None
  end.

Definition triple (tokens : list bytes) : option (N * N * N) :=
  match map component tokens with
  | [Some a] => Some (a, 0, 0)
  | [Some a; Some b] => Some (a, b, 0)
  | [Some a; Some b; Some c] => Some (a, b, c)
  | _ => None
  end.

Definition jdk_triple (v : bytes) : option (N * N * N) :=
  triple (split_by (fun c => (c =? 46) || (c =? 95) || (c =? 45)) [] v).
Definition bound_triple (v : bytes) : option (N * N * N) := triple (split_by (fun c => c =? 46) [] v).

Definition cmp3 (x y : N * N * N) : comparison :=
  match x, y with
  | (a1, b1, c1), (a2, b2, c2) =>
      match a1 ?= a2 with
      | Eq => match b1 ?= b2 with Eq => c1 ?= c2 | r => r end
      | r => r
      end
  end.

(* a bound: None = not understood, Some None = open, Some (Some t) *)
Definition bound (s : bytes) : option (option (N * N * N)) :=
  match s with
  | [] => Some None
  | _ => match bound_triple s with Some t => Some (Some t) | None => None end
  end.

Definition jdk_range_eval (stated jdk : bytes) : option bool :=
  match stated with
  | [] => None
  | open :: rest =>
      match split_by (fun c => c =? 44) [] rest with
      | [lo; hi_close] =>
          match rev hi_close with
          | close :: hi_rev =>
              if negb ((close =? 93) || (close =? 41)) then None
              else
                match jdk_triple jdk, bound lo, bound (rev hi_rev) with
                | Some v, Some l, Some h =>
                    (* getRelationOrder on the left, then on the right (isInRange) *)
                    let left : Z := match l with
                                    | None => 1%Z
                                    | Some t => match cmp3 v t with
                                                | Lt => (-1)%Z | Gt => 1%Z
                                                | Eq => if open =? 91 then 0%Z else (-1)%Z
                                                end
                                    end in
                    if (left =? 0)%Z then Some true
                    else if (left <? 0)%Z then Some false
                    else Some match h with
                              | None => true
                              | Some t => match cmp3 v t with
                                          | Lt => true | Gt => false
                                          | Eq => close =? 93
                                          end
                              end
                | _, _, _ => None
                end
          | [] => None
          end
      | _ => None
      end
  end.

Definition jdk_expect (stated jdk : bytes) : option bool :=
  if is_range stated then jdk_range_eval stated jdk
  else if negated stated then Some (negb (is_prefix (tl stated) jdk))
       else Some (is_prefix stated jdk).

Section Spec.
  (* Ranges the evaluation above does not speak about (jdk_range_eval = None: JDK versions of more
     than three numbers such as 1.8.0_292, malformed ranges) fall back on an oracle, the answer
     of the code under test (Ok true / Ok false / Err = no claim is made): there the jdk clause is
     judged by nobody, and only the rest of the pipeline is. *)
  Variable range_matches : bytes -> bytes -> res bool.
  Variable jdk : bytes.
  Variable os : os_t.
  Variable repo : list project.

  Definition jdk_holds (stated : bytes) : sres bool :=
    if is_range stated then
      match jdk_range_eval stated jdk with
      | Some b => SOk b
      | None => match range_matches stated jdk with Ok b => SOk b | _ => SUnsupported U_bad_range end
      end
    else if negated stated then SOk (negb (is_prefix (tl stated) jdk))
         else SOk (is_prefix stated jdk).

  Definition os_stated (o : os_t) : bool :=
    negb (blank (os_name o) && blank (os_family o) && blank (os_arch o) && blank (os_version o)).

  Definition property_holds (name value : bytes) : bool :=
    if blank value then negated name else negated value.

  (* None: the profile states no condition *)
  Definition conditions_hold (a : activation) : sres (option bool) :=
    j <~ (if blank (act_jdk a) then SOk None else b <~ jdk_holds (act_jdk a) ;; SOk (Some b)) ;;
    let o := if os_stated (act_os a)
             then Some (os_field_holds (os_family (act_os a)) (os_family os) && os_field_holds (os_name (act_os a)) (os_name os)
                        && os_field_holds (os_arch (act_os a)) (os_arch os) && os_field_holds (os_version (act_os a)) (os_version os))
             else None in
    let p := if blank (act_pname a) then None else Some (property_holds (act_pname a) (act_pvalue a)) in
    let all := [j; o; p] in
    if forallb (fun x => match x with None => true | Some _ => false end) all then SOk None
    else SOk (Some (forallb (fun x => match x with Some false => false | _ => true end) all)).

  Definition by_default (pf : profile) : bool := bytes_eqb (map lower (act_default (pf_act pf))) s_true.

  Definition active_profiles (l : list profile) : sres (list profile) :=
    flags <~ smap (fun pf => conditions_hold (pf_act pf)) l ;;
    let act := flat_map (fun xf => match snd xf with Some true => [fst xf] | _ => [] end) (combine l flags) in
    match act with
    | [] => SOk (filter by_default l)
    | _ => SOk act
    end.

  (* ---- the lineage: the project and its ancestors, nearest first *)
  Definition coords := (bytes * bytes * bytes)%type.
  Definition coords_eqb (x y : coords) : bool :=
    match x, y with (g1, a1, v1), (g2, a2, v2) => bytes_eqb g1 g2 && bytes_eqb a1 a2 && bytes_eqb v1 v2 end.
  Definition or_else (s t : bytes) : bytes := if blank s then t else s.
  (* a stored POM answers to the coordinates its file declares *)
  Definition coords_of (p : project) : coords :=
    (or_else (p_group p) (par_group p), p_artifact p, or_else (p_version p) (par_version p)).
  Definition locate (c : coords) : option project := find (fun p => coords_eqb c (coords_of p)) repo.

  Fixpoint ancestors (fuel : nat) (p : project) : sres (list project) :=
    match fuel with
    | O => SErr                                  (* longer than the repository: a cycle *)
    | S f =>
        if blank (par_group p) && blank (par_artifact p) && blank (par_version p) then SOk []
        else if blank (par_group p) || blank (par_artifact p) || blank (par_version p) then SUnsupported U_blank_id
        else match locate (par_group p, par_artifact p, par_version p) with
             | None => SErr
             | Some q =>
                 if negb (bytes_eqb (p_packaging q) s_pom) then SErr
                 else rest <~ ancestors f q ;; SOk (q :: rest)
             end
    end.

  (* one POM in document order: the project's list followed by its active profiles' lists *)
  Definition doc_order {A} (own : list A) (of_profile : profile -> list A) (act : list profile) : list A :=
    own ++ flat_map of_profile act.

  (* ---- R5 interpolation: substitute every placeholder whose name is defined, repeat.  A chain
     of definitions is at most as long as the table, so that many rounds reach the fixed point
     of every acyclic table; whatever is left then is undefined or cyclic. *)
  Definition table := list (bytes * bytes).
  Definition value_of (k : bytes) (t : table) : option bytes :=
    match find (fun kv => bytes_eqb k (fst kv)) t with Some kv => Some (snd kv) | None => None end.

  (* scanner: text before a placeholder / inside the braces *)
  Inductive scan_state := Outside | Dollar | Inside.
  (* one pass; [name] accumulates (reversed) the bytes after the opening marker *)
  Fixpoint pass (t : table) (st : scan_state) (name : bytes) (s : bytes) : bytes :=
    match s with
    | [] => match st with
            | Outside => []
            | Dollar => [36]
            | Inside => 36 :: 123 :: rev name          (* never closed: stays *)
            end
    | c :: s' =>
        match st with
        | Outside => if c =? 36 then pass t Dollar [] s' else c :: pass t Outside [] s'
        | Dollar => if c =? 123 then pass t Inside [] s'
                    else if c =? 36 then 36 :: pass t Dollar [] s'
                    else 36 :: c :: pass t Outside [] s'
        | Inside => if c =? 125 then
                      (match value_of (rev name) t with
                       | Some v => v
                       | None => 36 :: 123 :: rev name ++ [125]
                       end) ++ pass t Outside [] s'
                    else pass t Inside (c :: name) s'
        end
    end.

  Fixpoint rounds (n : nat) (t : table) (s : bytes) : bytes :=
    match n with O => s | S n' => rounds n' t (pass t Outside [] s) end.

  Fixpoint has_marker (s : bytes) : bool :=
    match s with
    | [] => false
    | c :: s' => (match s' with 123 :: _ => c =? 36 | _ => false end) || has_marker s'
    end.

  (* names of the placeholders that occur in a text *)
  Fixpoint names_in (st : scan_state) (name : bytes) (s : bytes) : list bytes :=
    match s with
    | [] => []
    | c :: s' =>
        match st with
        | Outside => if c =? 36 then names_in Dollar [] s' else names_in Outside [] s'
        | Dollar => if c =? 123 then names_in Inside [] s'
                    else if c =? 36 then names_in Dollar [] s' else names_in Outside [] s'
        | Inside => if c =? 125 then rev name :: names_in Outside [] s' else names_in Inside (c :: name) s'
        end
    end.

  (* A defined name that is still there after all rounds sits on a cycle of definitions; the
     model builder reports that as an error wherever it occurs, also in an unused property. *)
  Definition cyclic (t : table) : bool :=
    existsb (fun kv =>
               match value_of (fst kv) t with
               | Some v => existsb (fun k => match value_of k t with Some _ => true | None => false end)
                                   (names_in Outside [] (rounds (S (length t)) t v))
               | None => false
               end) t.

  (* the value and whether nothing is left unresolved *)
  Definition resolve (t : table) (s : bytes) : bytes * bool :=
    let r := rounds (S (length t)) t s in (r, negb (has_marker r)).

  Definition resolve_dep (t : table) (d : dependency) : dependency * bool :=
    let f := resolve t in
    let ex := map (fun e => (f (fst e), f (snd e))) (d_excl d) in
    (mkDep (fst (f (d_group d))) (fst (f (d_artifact d))) (fst (f (d_version d))) (fst (f (d_type d)))
           (fst (f (d_classifier d))) (fst (f (d_scope d))) (fst (f (d_optional d)))
           (map (fun e => (fst (fst e), fst (snd e))) ex),
     snd (f (d_group d)) && snd (f (d_artifact d)) && snd (f (d_version d)) && snd (f (d_type d))
     && snd (f (d_classifier d)) && snd (f (d_scope d)) && snd (f (d_optional d))
     && forallb (fun e => snd (fst e) && snd (snd e)) ex).

  Definition first_stated (l : list bytes) : bytes :=
    match find (fun s => negb (blank s)) l with Some s => s | None => [] end.

  Definition prefixed (k v : bytes) : table :=
    if blank v then [] else [([112;111;109;46] ++ k, v); ([112;114;111;106;101;99;116;46] ++ k, v)].
  Definition plain (k v : bytes) : table := if blank v then [] else [(k, v)].

  Definition k_groupId : bytes := [103;114;111;117;112;73;100].
  Definition k_version : bytes := [118;101;114;115;105;111;110].
  Definition k_parent_groupId : bytes := [112;97;114;101;110;116;46;103;114;111;117;112;73;100].
  Definition k_parent_version : bytes := [112;97;114;101;110;116;46;118;101;114;115;105;111;110].

  (* R5: [levels] are the property lists of the POMs of the lineage, nearest first, each in
     document order (project, then its active profiles) *)
  Definition property_table (group version pgroup pversion : bytes) (levels : list table) : table :=
    prefixed k_groupId group ++ prefixed k_version version
    ++ prefixed k_parent_groupId pgroup ++ prefixed k_parent_version pversion
    ++ flat_map (fun lv => rev lv) levels
    ++ plain k_groupId group ++ plain k_version version
    ++ plain k_parent_groupId pgroup ++ plain k_parent_version pversion.

  Definition with_type (d : dependency) : dependency :=
    mkDep (d_group d) (d_artifact d) (d_version d) (type_or_jar (d_type d)) (d_classifier d) (d_scope d)
          (d_optional d) (d_excl d).

  (* R8 *)
  Definition inject (mgmt : list dependency) (d : dependency) : dependency :=
    match find (declares (ident_of d)) mgmt with
    | None => d
    | Some m =>
        mkDep (d_group d) (d_artifact d) (or_else (d_version d) (d_version m)) (d_type d) (d_classifier d)
              (or_else (d_scope d) (d_scope m)) (d_optional d)
              (match d_excl d with [] => d_excl m | _ => d_excl d end)
    end.

  Definition is_import (d : dependency) : bool := bytes_eqb (d_scope d) s_import.

  (* An element that is WRITTEN but whose text interpolates to the empty string (a property defined
     with an empty value, R10) is not the same to the model builder as an element that is absent:
     a dependency whose groupId, artifactId, version or type ends up empty is an error; an empty
     classifier is an identity of its own, different from no classifier; an empty scope is not
     filled from the managed entry.  The first is specified below.  The last two are accidents of
     null versus empty in the implementation with no documented rule behind them: where they
     would decide the outcome the specification makes no claim (U_null_vs_empty). *)
  Definition written_empty (written resolved : bytes) : bool := negb (blank written) && blank resolved.

  (* an entry after interpolation, with: classifier written but empty, scope written but empty *)
  Definition entry := (dependency * (bool * bool))%type.
  Definition e_dep (e : entry) : dependency := fst e.
  Definition e_cl (e : entry) : bool := fst (snd e).
  Definition e_sc (e : entry) : bool := snd (snd e).

  (* two entries of one identity, one with the classifier written empty, one without classifier *)
  Fixpoint mixed_classifier (l : list entry) : bool :=
    match l with
    | [] => false
    | e :: l' => existsb (fun e' => declares (ident_of (e_dep e)) (e_dep e') && negb (Bool.eqb (e_cl e) (e_cl e'))) l'
                 || mixed_classifier l'
    end.

  Definition flags_in (all : list entry) (d : dependency) : entry :=
    (d, (existsb (fun e => declares (ident_of d) (e_dep e) && e_cl e) all, false)).

  (* interpolation and validation of a selected list.  strict: every placeholder must resolve and
     no two entries may become equal; an imported project's own dependencies are only looked at for
     what makes its model invalid.  is_deps: the dependencies proper (version and type are
     validated), not the managed ones *)
  Definition finish (t : table) (strict is_deps : bool) (l : list dependency) : sres (list entry) :=
    if existsb (fun d => blank (d_group d) || blank (d_artifact d)) l then SUnsupported U_blank_id
    else
      let r := map (fun d => (d, resolve_dep t d)) l in
      let res_of (x : dependency * (dependency * bool)) := fst (snd x) in
      if existsb (fun x => blank (d_group (res_of x)) || blank (d_artifact (res_of x))) r then SErr
      else if is_deps && existsb (fun x => written_empty (d_version (fst x)) (d_version (res_of x))
                                           || written_empty (d_type (fst x)) (d_type (res_of x))) r then SErr
      else if negb is_deps && existsb (fun x => written_empty (d_type (fst x)) (d_type (res_of x))) r
           then SUnsupported U_empty_field
      else if strict && negb (forallb (fun x => snd (snd x)) r) then SUnsupported U_unresolved
      else
        let l' := map (fun x => (with_type (res_of x),
                                 (written_empty (d_classifier (fst x)) (d_classifier (res_of x)),
                                  written_empty (d_scope (fst x)) (d_scope (res_of x))))) r in
        if strict && has_dup (map (fun e => ident_of (e_dep e)) l') then SUnsupported U_collision
        else SOk l'.

  (* R7 (first entry of an identity wins over own entries then imports) and R8 (injection) *)
  Definition conclude (is_root : bool) (deps own : list entry) (imported : list (list entry))
    : sres (list dependency * list entry) :=
    let candidates := own ++ concat imported in
    if mixed_classifier (deps ++ candidates) then SUnsupported U_null_vs_empty
    else
    let final := first_wins (map e_dep candidates) in
    (* Maven rejects a model in which a dependency is left without a version *)
    if existsb (fun e => e_sc e && match find (declares (ident_of (e_dep e))) final with
                                   | Some m => negb (blank (d_scope m))
                                   | None => false
                                   end) deps
    then SUnsupported U_null_vs_empty
    else
    let injected := map (fun e => inject final (e_dep e)) deps in
    if existsb (fun d => blank (d_version d)) injected
    then (if is_root then SUnsupported U_no_version else SErr)
    else SOk (injected, map (flags_in candidates) final).

  (* The effective dependencies and the effective management of a project;
     fuel bounds the nesting of imports (a nesting deeper than the repository is a cycle). *)
  Fixpoint build (fuel : nat) (is_root : bool) (root : project) : sres (list dependency * list entry) :=
    match fuel with
    | O => SErr
    | S f =>
        anc <~ ancestors (S (length repo)) root ;;
        let lineage := root :: anc in
        (* R6, R9: profiles per POM *)
        poms <~ smap (fun p => act <~ active_profiles (p_profiles p) ;; SOk (p, act)) lineage ;;
        let props_of (pa : project * list profile) := doc_order (p_props (fst pa)) pf_props (snd pa) in
        let deps_of (pa : project * list profile) := doc_order (p_deps (fst pa)) pf_deps (snd pa) in
        let mgmt_of (pa : project * list profile) := doc_order (p_mgmt (fst pa)) pf_mgmt (snd pa) in
        (* a management list that declares an identity twice has no defined outcome *)
        if existsb (fun pa => has_dup (map ident_of (p_mgmt (fst pa)))
                              || existsb (fun pf => has_dup (map ident_of (pf_mgmt pf))) (snd pa)) poms
        then SUnsupported U_mgmt_dup
        else
        (* R5 *)
        let group := first_stated (map p_group lineage) in
        let version := first_stated (map p_version lineage) in
        let t : table := property_table group version (par_group root) (par_version root) (map props_of poms) in
        if cyclic t then SErr else
        (* R2-R4 on the written entries, then interpolation *)
        let sel (of_ : project * list profile -> list dependency) :=
          select (flat_map of_ poms) (flat_map (fun pa => rev (of_ pa)) poms) in
        deps <~ finish t is_root true (sel deps_of) ;;
        mgmt <~ finish t true false (sel mgmt_of) ;;
        (* R7: imports *)
        if existsb (fun e => is_import (e_dep e) && negb (bytes_eqb (d_type (e_dep e)) s_pom)) mgmt
        then SUnsupported U_import_type
        else
          imported <~ smap (fun e => let d := e_dep e in
                                     match locate (d_group d, d_artifact d, d_version d) with
                                     | None => SErr
                                     | Some b => r <~ build f false b ;; SOk (snd r)
                                     end) (filter (fun e => is_import (e_dep e)) mgmt) ;;
          conclude is_root deps (filter (fun e => negb (is_import (e_dep e))) mgmt) imported
    end.

  Definition effective (root : project) : sres (list dependency * list dependency) :=
    r <~ build (S (length repo)) true root ;;
    SOk (fst r, map e_dep (snd r)).
End Spec.
