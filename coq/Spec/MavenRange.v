(* Declarative reference specification of Maven version range matching
   (org.apache.maven.artifact.versioning.VersionRange / Restriction), restricted to versions that
   are dotted non-negative integers.  On such strings ComparableVersion compares numerically,
   component by component, a missing component counting as 0 (1 = 1.0 = 1.0.0).
   Independent of the deps.dev sources.  Definitions only.

   Syntax (VersionRange.createFromVersionSpec): either a bare version, which is a SOFT requirement
   (the recommended version, with the single restriction EVERYTHING), or a comma separated union of
   bracketed restrictions; [1.0] is the restriction with lower = upper = 1.0, both inclusive. *)
From DepsDev Require Import Lib.Base.
From DepsDev Require Spec.MavenSpec.
Local Open Scope Z_scope.

Record mrestr := { lo : option (list Z); lo_incl : bool; hi : option (list Z); hi_incl : bool }.

Inductive mspec := MSoft (v : list Z) | MRanges (l : list mrestr).

Definition zcmp (a b : Z) : Z :=
  match Z.compare a b with Lt => -1 | Eq => 0 | Gt => 1 end.

(* ComparableVersion on dotted integers: zero padded lexicographic order *)
Fixpoint tail_compare (a : list Z) : Z :=      (* a against the empty rest, that is against zeros *)
  match a with
  | [] => 0
  | x :: a' => let c := zcmp x 0 in if c =? 0 then tail_compare a' else c
  end.

Fixpoint mv_compare (a b : list Z) : Z :=
  match a, b with
  | [], _ => - tail_compare b
  | _, [] => tail_compare a
  | x :: a', y :: b' => let c := zcmp x y in if c =? 0 then mv_compare a' b' else c
  end.

(* Restriction.containsVersion *)
Definition restr_contains (r : mrestr) (v : list Z) : bool :=
  match lo r with
  | Some l =>
      let c := mv_compare l v in
      negb ((c =? 0) && negb (lo_incl r)) && negb (0 <? c)
  | None => true
  end
  &&
  match hi r with
  | Some h =>
      let c := mv_compare h v in
      negb ((c =? 0) && negb (hi_incl r)) && negb (c <? 0)
  | None => true
  end.

(* VersionRange.containsVersion: some restriction contains the version; a soft requirement
   accepts everything *)
Definition contains (s : mspec) (v : list Z) : bool :=
  match s with
  | MSoft _ => true
  | MRanges l => existsb (fun r => restr_contains r v) l
  end.

(* ---------------------------------------------------------------- any Maven version string *)
(* The same range semantics with bounds and candidates that are arbitrary version strings
   (qualifiers, SNAPSHOT, ...), ordered by Spec/MavenSpec.v mspec_compare, the transcription of
   ComparableVersion that is validated against the maven-artifact jar. *)
Record mrestr_s := { slo : option bytes; slo_incl : bool; shi : option bytes; shi_incl : bool }.

Inductive mspec_s := MSoftS (v : bytes) | MRangesS (l : list mrestr_s).

Definition restr_contains_s (r : mrestr_s) (v : bytes) : bool :=
  match slo r with
  | Some l =>
      let c := MavenSpec.mspec_compare l v in
      negb ((c =? 0) && negb (slo_incl r)) && negb (0 <? c)
  | None => true
  end
  &&
  match shi r with
  | Some h =>
      let c := MavenSpec.mspec_compare h v in
      negb ((c =? 0) && negb (shi_incl r)) && negb (c <? 0)
  | None => true
  end.

Definition contains_s (s : mspec_s) (v : bytes) : bool :=
  match s with
  | MSoftS _ => true
  | MRangesS l => existsb (fun r => restr_contains_s r v) l
  end.

(* ---------------------------------------------------------------- a witness of non-emptiness *)
Fixpoint mv_bump (r : list Z) : list Z :=
  match r with [] => [1] | [x] => [x + 1] | x :: t => x :: mv_bump t end.

Definition restr_near (r : mrestr) : list (list Z) :=
  match lo r with Some l => [l; l ++ [1]; mv_bump l] | None => [[0]] end
  ++ match hi r with Some h => [h] | None => [] end.

Definition mv_candidates (s : mspec) : list (list Z) :=
  match s with MSoft v => [v] | MRanges l => [0] :: flat_map restr_near l end.

Definition mv_witness (s : mspec) : option (list Z) := find (fun v => contains s v) (mv_candidates s).

Definition plain_b (s : bytes) : bool := forallb (fun c => is_digit c || N.eqb c 46) s.

Definition restr_near_s (r : mrestr_s) : list bytes :=
  match slo r with Some l => l :: (if plain_b l then [l ++ [46; 49]%N] else []) | None => [[48%N]] end
  ++ match shi r with Some h => [h] | None => [] end.

Definition mv_candidates_s (s : mspec_s) : list bytes :=
  match s with MSoftS v => [v] | MRangesS l => [48%N] :: flat_map restr_near_s l end.

(* candidates of the property are versions >= 0 *)
Definition mv_witness_s (s : mspec_s) : option bytes :=
  find (fun v => contains_s s v && (0 <=? MavenSpec.mspec_compare v [48%N])) (mv_candidates_s s).
