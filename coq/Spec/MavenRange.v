(* Declarative reference specification of Maven version range matching
   (org.apache.maven.artifact.versioning.VersionRange / Restriction), restricted to versions that
   are dotted non-negative integers.  On such strings ComparableVersion compares numerically,
   component by component, a missing component counting as 0 (1 = 1.0 = 1.0.0).
   Independent of the deps.dev sources.  Definitions only.

   Syntax (VersionRange.createFromVersionSpec): either a bare version, which is a SOFT requirement
   (the recommended version, with the single restriction EVERYTHING), or a comma separated union of
   bracketed restrictions; [1.0] is the restriction with lower = upper = 1.0, both inclusive. *)
From DepsDev Require Import Lib.Base.
Local Open Scope Z_scope.

Record mrestr := { lo : option (list Z); lo_incl : bool; hi : option (list Z); hi_incl : bool }.

Inductive mspec := MSoft (v : list Z) | MRanges (l : list mrestr).

Definition zcmp (a b : Z) : Z :=
  match Z.compare a b with Lt => -1 | Eq => 0 | Gt => 1 end.

(* ComparableVersion on dotted integers: zero padded lexicographic order *)
Fixpoint tail_compare (a : list Z) : Z :=      (* a against the empty rest, that is against zeros *)
  match a with
  | [] => 0
  | x :: a' => let c := zcmp x 0 in if c =? 0 then tail_compare a' else c
  end.

Fixpoint mv_compare (a b : list Z) : Z :=
  match a, b with
  | [], _ => - tail_compare b
  | _, [] => tail_compare a
  | x :: a', y :: b' => let c := zcmp x y in if c =? 0 then mv_compare a' b' else c
  end.

(* Restriction.containsVersion *)
Definition restr_contains (r : mrestr) (v : list Z) : bool :=
  match lo r with
  | Some l =>
      let c := mv_compare l v in
      negb ((c =? 0) && negb (lo_incl r)) && negb (0 <? c)
  | None => true
  end
  &&
  match hi r with
  | Some h =>
      let c := mv_compare h v in
      negb ((c =? 0) && negb (hi_incl r)) && negb (c <? 0)
  | None => true
  end.

(* VersionRange.containsVersion: some restriction contains the version; a soft requirement
   accepts everything *)
Definition contains (s : mspec) (v : list Z) : bool :=
  match s with
  | MSoft _ => true
  | MRanges l => existsb (fun r => restr_contains r v) l
  end.
