(* Declarative reference specification of npm range matching: a transcription of node-semver 7.6.2
   (classes/range.js, classes/comparator.js, classes/semver.js, internal/re.js), options
   loose=false, includePrerelease=false.  Independent of the deps.dev sources.  Definitions only.

   Domain: all numbers are below 2^53-1 (JavaScript safe integers); an alphanumeric identifier
   IStr s is never all digits (such an identifier is INum).  The syntax tree is the one obtained
   after the textual splitting done by the Range constructor: alternatives separated by ||, each one
   either a hyphen range or a space separated list of simple comparators (operator + partial version).
   Build metadata is dropped by node before any comparison and is not represented. *)
From DepsDev Require Import Lib.Base.
Local Open Scope Z_scope.

(* ---------------------------------------------------------------- versions (classes/semver.js) *)

(* prerelease identifier; numeric < alphanumeric; strings by ASCII byte order *)
Inductive ident := INum (n : Z) | IStr (s : bytes).

Record sv := { sv_major : Z; sv_minor : Z; sv_patch : Z; sv_pre : list ident }.

Definition zcmp (a b : Z) : Z :=
  match Z.compare a b with Lt => -1 | Eq => 0 | Gt => 1 end.

(* internal/identifiers.js compareIdentifiers *)
Definition ident_compare (a b : ident) : Z :=
  match a, b with
  | INum x, INum y => zcmp x y
  | INum _, IStr _ => -1
  | IStr _, INum _ => 1
  | IStr x, IStr y => bytes_compare x y
  end.

(* the do-while loop of SemVer.comparePre: a proper prefix is smaller *)
Fixpoint pre_compare_loop (a b : list ident) : Z :=
  match a, b with
  | [], [] => 0
  | [], _ :: _ => -1
  | _ :: _, [] => 1
  | x :: a', y :: b' =>
      let c := ident_compare x y in
      if c =? 0 then pre_compare_loop a' b' else c
  end.

(* SemVer.comparePre: NOT having a prerelease is greater than having one *)
Definition pre_compare (a b : list ident) : Z :=
  match a, b with
  | [], [] => 0
  | _ :: _, [] => -1
  | [], _ :: _ => 1
  | _, _ => pre_compare_loop a b
  end.

(* SemVer.compare = compareMain || comparePre : SemVer 2.0.0 section 11 precedence *)
Definition sv_compare (a b : sv) : Z :=
  let c1 := zcmp (sv_major a) (sv_major b) in
  if negb (c1 =? 0) then c1 else
  let c2 := zcmp (sv_minor a) (sv_minor b) in
  if negb (c2 =? 0) then c2 else
  let c3 := zcmp (sv_patch a) (sv_patch b) in
  if negb (c3 =? 0) then c3 else
  pre_compare (sv_pre a) (sv_pre b).

Definition mk_sv (M m p : Z) (pre : list ident) : sv :=
  {| sv_major := M; sv_minor := m; sv_patch := p; sv_pre := pre |}.

(* ---------------------------------------------------------------- syntax *)

(* None = x / X / * / missing component *)
Record partial := { pa_major : option Z; pa_minor : option Z; pa_patch : option Z; pa_pre : list ident }.

Inductive nop := OpNone | OpEq | OpGt | OpGe | OpLt | OpLe | OpTilde | OpCaret.

(* A primitive comparator (classes/comparator.js) after desugaring.  Only OpEq OpGt OpGe OpLt OpLe
   occur as operators.  PAny is the empty comparator (semver === ANY) that matches everything. *)
Inductive pcmp := PAny | PCmp (op : nop) (v : sv).

Inductive nitem := NHyphen (a b : partial) | NSimples (l : list (nop * partial)).

(* the || alternatives; a range always has at least one item; an empty NSimples list is the empty
   string, that is the range * *)
Definition nrange := list nitem.

(* ---------------------------------------------------------------- desugaring (classes/range.js) *)

(* isX applied in sequence to M, m, p: once a component is an x every later one is ignored, and
   the prerelease tag is only looked at when all three components are numbers. *)
Inductive pview :=
| VAny
| VMajor (M : Z)
| VMinor (M m : Z)
| VFull (M m p : Z) (pre : list ident).

Definition view (pa : partial) : pview :=
  match pa_major pa with
  | None => VAny
  | Some M =>
      match pa_minor pa with
      | None => VMajor M
      | Some m =>
          match pa_patch pa with
          | None => VMinor M m
          | Some p => VFull M m p (pa_pre pa)
          end
      end
  end.

Definition pre_zero : list ident := [INum 0].          (* the -0 suffix *)
Definition c_ge (M m p : Z) (pre : list ident) : pcmp := PCmp OpGe (mk_sv M m p pre).
Definition c_lt0 (M m p : Z) : pcmp := PCmp OpLt (mk_sv M m p pre_zero).      (* <M.m.p-0 *)
Definition null_cmp : pcmp := c_lt0 0 0 0.                                       (* <0.0.0-0 *)

(* replaceGTE0: the comparator text >=0.0.0 is replaced by the empty comparator *)
Definition gte0 (c : pcmp) : pcmp :=
  match c with
  | PCmp OpGe v =>
      if (sv_major v =? 0) && (sv_minor v =? 0) && (sv_patch v =? 0)
         && match sv_pre v with [] => true | _ => false end
      then PAny else c
  | _ => c
  end.

(* replaceCaret, includePrerelease=false (z is empty) *)
Definition desugar_caret (pa : partial) : list pcmp :=
  match view pa with
  | VAny => [PAny]
  | VMajor M => [c_ge M 0 0 []; c_lt0 (M + 1) 0 0]
  | VMinor M m =>
      if M =? 0 then [c_ge M m 0 []; c_lt0 M (m + 1) 0]
      else [c_ge M m 0 []; c_lt0 (M + 1) 0 0]
  | VFull M m p pre =>
      if M =? 0 then
        if m =? 0 then [c_ge M m p pre; c_lt0 M m (p + 1)]
        else [c_ge M m p pre; c_lt0 M (m + 1) 0]
      else [c_ge M m p pre; c_lt0 (M + 1) 0 0]
  end.

(* replaceTilde *)
Definition desugar_tilde (pa : partial) : list pcmp :=
  match view pa with
  | VAny => [PAny]
  | VMajor M => [c_ge M 0 0 []; c_lt0 (M + 1) 0 0]
  | VMinor M m => [c_ge M m 0 []; c_lt0 M (m + 1) 0]
  | VFull M m p pre => [c_ge M m p pre; c_lt0 M (m + 1) 0]
  end.

(* replaceXRange followed by replaceStars; op is one of OpNone OpEq OpGt OpGe OpLt OpLe *)
Definition desugar_xrange (op : nop) (pa : partial) : list pcmp :=
  match view pa with
  | VAny =>
      match op with
      | OpGt | OpLt => [null_cmp]       (* nothing is allowed *)
      | _ => [PAny]                     (* nothing is forbidden *)
      end
  | VFull M m p pre =>
      (* no x at all: the text is left alone and parsed by the Comparator class *)
      [PCmp (match op with OpNone => OpEq | o => o end) (mk_sv M m p pre)]
  | VMajor M =>
      match op with
      | OpGt => [c_ge (M + 1) 0 0 []]
      | OpGe => [c_ge M 0 0 []]
      | OpLt => [c_lt0 M 0 0]
      | OpLe => [c_lt0 (M + 1) 0 0]
      | _ => [c_ge M 0 0 []; c_lt0 (M + 1) 0 0]
      end
  | VMinor M m =>
      match op with
      | OpGt => [c_ge M (m + 1) 0 []]
      | OpGe => [c_ge M m 0 []]
      | OpLt => [c_lt0 M m 0]
      | OpLe => [c_lt0 M (m + 1) 0]
      | _ => [c_ge M m 0 []; c_lt0 M (m + 1) 0]
      end
  end.

(* parseComparator followed by replaceGTE0 on every resulting comparator *)
Definition desugar_simple (op : nop) (pa : partial) : list pcmp :=
  map gte0
    match op with
    | OpCaret => desugar_caret pa
    | OpTilde => desugar_tilde pa
    | _ => desugar_xrange op pa
    end.

(* hyphenReplace, includePrerelease=false, then replaceGTE0 *)
Definition desugar_hyphen (a b : partial) : list pcmp :=
  let from :=
    match view a with
    | VAny => []
    | VMajor M => [c_ge M 0 0 []]
    | VMinor M m => [c_ge M m 0 []]
    | VFull M m p pre => [c_ge M m p pre]
    end in
  let to :=
    match view b with
    | VAny => []
    | VMajor M => [c_lt0 (M + 1) 0 0]
    | VMinor M m => [c_lt0 M (m + 1) 0]
    | VFull M m p pre => [PCmp OpLe (mk_sv M m p pre)]
    end in
  match from ++ to with
  | [] => [PAny]
  | l => map gte0 l
  end.

Definition desugar_item (i : nitem) : list pcmp :=
  match i with
  | NHyphen a b => desugar_hyphen a b
  | NSimples [] => [PAny]
  | NSimples l => flat_map (fun x => desugar_simple (fst x) (snd x)) l
  end.

(* ---------------------------------------------------------------- testing *)

(* Comparator.test via functions/cmp.js *)
Definition pcmp_test (c : pcmp) (v : sv) : bool :=
  match c with
  | PAny => true
  | PCmp op b =>
      let d := sv_compare v b in
      match op with
      | OpNone | OpEq => d =? 0
      | OpGt => 0 <? d
      | OpGe => 0 <=? d
      | OpLt => d <? 0
      | OpLe => d <=? 0
      | OpTilde | OpCaret => false      (* never produced by the desugaring *)
      end
  end.

(* The prerelease rule of testSet: a version with a prerelease tag satisfies only if some comparator
   (not ANY) that itself has a prerelease tag has the same major.minor.patch. *)
Definition prerelease_ok (set : list pcmp) (v : sv) : bool :=
  match sv_pre v with
  | [] => true
  | _ =>
      existsb (fun c =>
        match c with
        | PAny => false
        | PCmp _ b =>
            match sv_pre b with
            | [] => false
            | _ => (sv_major b =? sv_major v) && (sv_minor b =? sv_minor v) && (sv_patch b =? sv_patch v)
            end
        end) set
  end.

Definition set_test (set : list pcmp) (v : sv) : bool :=
  forallb (fun c => pcmp_test c v) set && prerelease_ok set v.

(* The simplifications of parseRange and of the Range constructor.  Inside one comparator set they
   do not change the outcome of set_test (a null comparator makes the set unsatisfiable anyway;
   removing duplicates and ANY changes nothing).  Between alternatives one of them DOES change the
   outcome: when more than one alternative is left after the null sets have been thrown out and one
   of them consists of ANY only, the whole range is replaced by that single alternative, so that
   alternatives which would have admitted a prerelease version are lost (>=1.2.3-beta || * does not
   match 1.2.3-rc). *)
Definition is_null (c : pcmp) : bool :=
  match c with
  | PCmp OpLt v =>
      (sv_major v =? 0) && (sv_minor v =? 0) && (sv_patch v =? 0)
      && match sv_pre v with [INum 0] => true | _ => false end
  | _ => false
  end.
Definition is_any (c : pcmp) : bool := match c with PAny => true | _ => false end.
Definition set_is_null (s : list pcmp) : bool := existsb is_null s.
Definition set_is_any (s : list pcmp) : bool := forallb is_any s.

Definition simplify (sets : list (list pcmp)) : list (list pcmp) :=
  match sets with
  | _ :: _ :: _ =>
      match filter (fun s => negb (set_is_null s)) sets with
      | [] => firstn 1 sets
      | [s] => [s]
      | live => if existsb set_is_any live then [[PAny]] else live
      end
  | _ => sets
  end.

(* Range.test *)
Definition satisfies (r : nrange) (v : sv) : bool :=
  existsb (fun s => set_test s v) (simplify (map desugar_item r)).

(* ---------------------------------------------------------------- a witness of non-emptiness *)
(* Candidates near the bounds of the desugared comparators: the least element of a non-empty
   comparator set is the global minimum, a >= bound, the successor of a > bound, or the first
   admissible prerelease of a tagged comparator's major.minor.patch.  witness r returns a version
   that satisfies r, if one of the candidates does; it answers the clause of the property about
   requirements the reference accepts as non-empty without depending on which versions a test
   happens to probe. *)
Definition near (b : sv) : list sv :=
  [ b;
    mk_sv (sv_major b) (sv_minor b) (sv_patch b) [];
    mk_sv (sv_major b) (sv_minor b) (sv_patch b + 1) [];
    mk_sv (sv_major b) (sv_minor b) (sv_patch b) (sv_pre b ++ [INum 0]);
    mk_sv (sv_major b) (sv_minor b) (sv_patch b) [INum 0] ].

Definition pcmp_candidates (c : pcmp) : list sv :=
  match c with PAny => [] | PCmp _ b => near b end.

Definition candidates (r : nrange) : list sv :=
  mk_sv 0 0 0 [] :: flat_map (fun i => flat_map pcmp_candidates (desugar_item i)) r.

Definition witness (r : nrange) : option sv := find (fun v => satisfies r v) (candidates r).
