(* Sanity examples for the reference specifications (every one checked by computation). *)
From DepsDev Require Import Lib.Base Spec.NodeRange Spec.CargoReq.
From DepsDev Require Spec.Pep440Specifier Spec.MavenRange.
Local Open Scope Z_scope.

(* ------------------------------------------------------------------ npm *)
Definition beta : list ident := [IStr [98;101;116;97]%N].
Definition alpha : list ident := [IStr [97;108;112;104;97]%N].
Definition rc : list ident := [IStr [114;99]%N].
Definition pa (M m p : option Z) (pre : list ident) : partial :=
  {| pa_major := M; pa_minor := m; pa_patch := p; pa_pre := pre |}.
Definition full (M m p : Z) (pre : list ident) : partial := pa (Some M) (Some m) (Some p) pre.
Definition star : partial := pa None None None [].
Definition ge v := PCmp OpGe v.
Definition lt v := PCmp OpLt v.

(* ^1.2.3 *)
Example caret_123 : desugar_simple OpCaret (full 1 2 3 []) = [ge (mk_sv 1 2 3 []); lt (mk_sv 2 0 0 [INum 0])].
Proof. vm_compute. reflexivity. Qed.
(* ^1.2.3-beta keeps the tag on the lower bound *)
Example caret_123_beta : desugar_simple OpCaret (full 1 2 3 beta) = [ge (mk_sv 1 2 3 beta); lt (mk_sv 2 0 0 [INum 0])].
Proof. vm_compute. reflexivity. Qed.
(* ^0.0.3 and ^0.2.3 *)
Example caret_003 : desugar_simple OpCaret (full 0 0 3 []) = [ge (mk_sv 0 0 3 []); lt (mk_sv 0 0 4 [INum 0])].
Proof. vm_compute. reflexivity. Qed.
Example caret_023 : desugar_simple OpCaret (full 0 2 3 []) = [ge (mk_sv 0 2 3 []); lt (mk_sv 0 3 0 [INum 0])].
Proof. vm_compute. reflexivity. Qed.
(* ^0.x : the lower bound >=0.0.0 is the empty comparator *)
Example caret_0x : desugar_simple OpCaret (pa (Some 0) None None []) = [PAny; lt (mk_sv 1 0 0 [INum 0])].
Proof. vm_compute. reflexivity. Qed.
(* ^0.0.x *)
Example caret_00x : desugar_simple OpCaret (pa (Some 0) (Some 0) None []) = [PAny; lt (mk_sv 0 1 0 [INum 0])].
Proof. vm_compute. reflexivity. Qed.
(* ~1.2 and ~0 *)
Example tilde_12 : desugar_simple OpTilde (pa (Some 1) (Some 2) None []) = [ge (mk_sv 1 2 0 []); lt (mk_sv 1 3 0 [INum 0])].
Proof. vm_compute. reflexivity. Qed.
Example tilde_0 : desugar_simple OpTilde (pa (Some 0) None None []) = [PAny; lt (mk_sv 1 0 0 [INum 0])].
Proof. vm_compute. reflexivity. Qed.
(* 1.x, >1.x, <=1.x, <1.x, >x, =1.x *)
Example x_1 : desugar_simple OpNone (pa (Some 1) None None []) = [ge (mk_sv 1 0 0 []); lt (mk_sv 2 0 0 [INum 0])].
Proof. vm_compute. reflexivity. Qed.
Example gt_1x : desugar_simple OpGt (pa (Some 1) None None []) = [ge (mk_sv 2 0 0 [])].
Proof. vm_compute. reflexivity. Qed.
Example le_1x : desugar_simple OpLe (pa (Some 1) None None []) = [lt (mk_sv 2 0 0 [INum 0])].
Proof. vm_compute. reflexivity. Qed.
Example lt_1x : desugar_simple OpLt (pa (Some 1) None None []) = [lt (mk_sv 1 0 0 [INum 0])].
Proof. vm_compute. reflexivity. Qed.
Example gt_x : desugar_simple OpGt star = [null_cmp].
Proof. vm_compute. reflexivity. Qed.
Example eq_1x : desugar_simple OpEq (pa (Some 1) None None []) = desugar_simple OpNone (pa (Some 1) None None []).
Proof. vm_compute. reflexivity. Qed.
(* hyphen ranges: 1 - 2.3, 1 - 2, 1.0 - 10.2.0-1 *)
Example hyphen_partial_upper : desugar_hyphen (pa (Some 1) None None []) (pa (Some 2) (Some 3) None [])
  = [ge (mk_sv 1 0 0 []); lt (mk_sv 2 4 0 [INum 0])].
Proof. vm_compute. reflexivity. Qed.
Example hyphen_major_upper : desugar_hyphen (pa (Some 1) None None []) (pa (Some 2) None None [])
  = [ge (mk_sv 1 0 0 []); lt (mk_sv 3 0 0 [INum 0])].
Proof. vm_compute. reflexivity. Qed.
Example hyphen_pre_upper : desugar_hyphen (pa (Some 1) (Some 0) None []) (full 10 2 0 [INum 1])
  = [ge (mk_sv 1 0 0 []); PCmp OpLe (mk_sv 10 2 0 [INum 1])].
Proof. vm_compute. reflexivity. Qed.

(* the prerelease rule *)
Example pre_rule_yes : satisfies [NSimples [(OpCaret, full 1 2 3 beta)]] (mk_sv 1 2 3 rc) = true.
Proof. vm_compute. reflexivity. Qed.
Example pre_rule_no : satisfies [NSimples [(OpCaret, full 1 2 3 beta)]] (mk_sv 1 2 4 rc) = false.
Proof. vm_compute. reflexivity. Qed.
Example star_no_prerelease : satisfies [NSimples []] (mk_sv 1 2 3 rc) = false.
Proof. vm_compute. reflexivity. Qed.
(* <0.2 ^0.2 is empty; >=1.2.0 <2.0.0 >=2.0.0 <3.0.0 is empty *)
Example conflict_02 : satisfies [NSimples [(OpLt, pa (Some 0) (Some 2) None []); (OpCaret, pa (Some 0) (Some 2) None [])]] (mk_sv 0 2 0 []) = false.
Proof. vm_compute. reflexivity. Qed.
Example chain_empty : satisfies [NSimples [(OpGe, full 1 2 0 []); (OpLt, full 2 0 0 []); (OpGe, full 2 0 0 []); (OpLt, full 3 0 0 [])]] (mk_sv 2 0 0 []) = false.
Proof. vm_compute. reflexivity. Qed.
(* Observable simplifications of node.
   >=1.2.3-beta || *  : the whole range becomes * and 1.2.3-rc is lost. *)
Example any_collapse : satisfies [NSimples [(OpGe, full 1 2 3 beta)]; NSimples [(OpNone, star)]] (mk_sv 1 2 3 rc) = false.
Proof. vm_compute. reflexivity. Qed.
Example any_collapse_alone : satisfies [NSimples [(OpGe, full 1 2 3 beta)]] (mk_sv 1 2 3 rc) = true.
Proof. vm_compute. reflexivity. Qed.
(* >=0.0.0 <0.0.0-beta : the lower bound is dropped, 0.0.0-alpha satisfies *)
Example gte0_dropped : satisfies [NSimples [(OpGe, full 0 0 0 []); (OpLt, full 0 0 0 beta)]] (mk_sv 0 0 0 alpha) = true.
Proof. vm_compute. reflexivity. Qed.
Example gte001_kept : satisfies [NSimples [(OpGe, full 0 0 1 []); (OpLt, full 0 0 1 beta)]] (mk_sv 0 0 1 alpha) = false.
Proof. vm_compute. reflexivity. Qed.

(* ------------------------------------------------------------------ cargo *)
Definition cmp (o : cop) (M : Z) (m p : option Z) (pre : list ident) : comparator :=
  {| c_op := o; c_major := M; c_minor := m; c_patch := p; c_pre := pre |}.
(* 1.2 (default caret) matches 1.9.0, not 2.0.0; ^0.2 matches 0.2.9 only within 0.2; ^0.0.3 only 0.0.3 *)
Example cargo_caret : map (matches_req [cmp CCaret 1 (Some 2) None []]) [mk_sv 1 2 0 []; mk_sv 1 9 0 []; mk_sv 1 1 9 []; mk_sv 2 0 0 []]
  = [true; true; false; false].
Proof. vm_compute. reflexivity. Qed.
Example cargo_caret_0 : map (matches_req [cmp CCaret 0 (Some 2) None []]) [mk_sv 0 2 9 []; mk_sv 0 3 0 []] = [true; false].
Proof. vm_compute. reflexivity. Qed.
Example cargo_caret_00 : map (matches_req [cmp CCaret 0 (Some 0) (Some 3) []]) [mk_sv 0 0 3 []; mk_sv 0 0 4 []] = [true; false].
Proof. vm_compute. reflexivity. Qed.
(* the empty requirement * rejects prereleases; >=1.2.3-beta admits 1.2.3-rc but not 1.2.4-rc *)
Example cargo_star_pre : matches_req [] (mk_sv 1 0 0 alpha) = false.
Proof. vm_compute. reflexivity. Qed.
Example cargo_pre : map (matches_req [cmp CGreaterEq 1 (Some 2) (Some 3) beta]) [mk_sv 1 2 3 rc; mk_sv 1 2 4 rc; mk_sv 1 2 4 []] = [true; false; true].
Proof. vm_compute. reflexivity. Qed.
(* >1.2 means >=1.3.0 *)
Example cargo_gt_partial : map (matches_req [cmp CGreater 1 (Some 2) None []]) [mk_sv 1 2 9 []; mk_sv 1 3 0 []] = [false; true].
Proof. vm_compute. reflexivity. Qed.

(* ------------------------------------------------------------------ pypi *)
Module P := Pep440Specifier.
Definition pv (r : list Z) pre post dev : P.pver := {| P.pv_release := r; P.pv_pre := pre; P.pv_post := post; P.pv_dev := dev |}.
Definition sp o v pf : P.spec := {| P.sp_op := o; P.sp_ver := v; P.sp_prefix := pf |}.
(* 1.0.dev0 < 1.0a1 < 1.0 < 1.0.post1.dev0 < 1.0.post1 *)
Example pep_order : map (fun v => P.pver_compare (P.final [1; 0]) v)
  [pv [1; 0] None None (Some 0); pv [1] (Some (0, 1)) None None; pv [1; 0; 0] None None None;
   pv [1; 0] None (Some 1) (Some 0); pv [1; 0] None (Some 1) None; pv [1; 0] (Some (0, 1)) (Some 1) None]
  = [1; 1; 0; -1; -1; 1].
Proof. vm_compute. reflexivity. Qed.
(* ==1.0 matches 1 and 1.0.0; ==1.* matches 1.5; !=1.0.* rejects 1.0.7; ~=1.4.2 is >=1.4.2, ==1.4.* *)
Example pep_eq_pad : map (P.contains [sp P.PEq (pv [1; 0] None None None) false]) [[1]; [1; 0; 0]; [1; 0; 1]] = [true; true; false].
Proof. vm_compute. reflexivity. Qed.
Example pep_prefix : map (P.contains [sp P.PEq (pv [1] None None None) true]) [[1; 5]; [1]; [2]] = [true; true; false].
Proof. vm_compute. reflexivity. Qed.
Example pep_ne_prefix : map (P.contains [sp P.PNe (pv [1; 0] None None None) true]) [[1; 0; 7]; [1]; [1; 1]] = [false; false; true].
Proof. vm_compute. reflexivity. Qed.
Example pep_compat : map (P.contains [sp P.PCompat (pv [1; 4; 2] None None None) false]) [[1; 4; 2]; [1; 4; 9]; [1; 4; 1]; [1; 5]] = [true; true; false; false].
Proof. vm_compute. reflexivity. Qed.
(* >1.0a1 contains 1.0; <1.0.post1 contains 1.0; <=1.0rc1 does not contain 1.0 *)
Example pep_ordered : (P.contains [sp P.PGt (pv [1; 0] (Some (0, 1)) None None) false] [1; 0],
                       P.contains [sp P.PLt (pv [1; 0] None (Some 1) None) false] [1; 0],
                       P.contains [sp P.PLe (pv [1; 0] (Some (2, 1)) None None) false] [1; 0]) = (true, true, false).
Proof. vm_compute. reflexivity. Qed.

(* ------------------------------------------------------------------ maven *)
Module M := MavenRange.
Definition restr l li h hi : M.mrestr := {| M.lo := l; M.lo_incl := li; M.hi := h; M.hi_incl := hi |}.
(* [1.0,2.0) *)
Example mvn_half_open : map (M.contains (M.MRanges [restr (Some [1; 0]) true (Some [2; 0]) false])) [[1]; [1; 0; 0]; [2]; [1; 9; 9]; [0; 9]]
  = [true; true; false; true; false].
Proof. vm_compute. reflexivity. Qed.
(* [1.2.0,2.0.0),[2.0.0,3.0.0) contains 2.0; (,1.0],[1.2,) does not contain 1.1; a bare version accepts all *)
Example mvn_union : map (M.contains (M.MRanges [restr (Some [1; 2; 0]) true (Some [2; 0; 0]) false; restr (Some [2; 0; 0]) true (Some [3; 0; 0]) false])) [[2; 0]; [3]]
  = [true; false].
Proof. vm_compute. reflexivity. Qed.
Example mvn_gap : M.contains (M.MRanges [restr None false (Some [1; 0]) true; restr (Some [1; 2]) true None false]) [1; 1] = false.
Proof. vm_compute. reflexivity. Qed.
Example mvn_soft : M.contains (M.MSoft [1; 0]) [7] = true.
Proof. vm_compute. reflexivity. Qed.
