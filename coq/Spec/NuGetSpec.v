(* NuGet versions (NuGet.Versioning: NuGetVersion.Parse, VersionComparer.Default,
   ToNormalizedString; docs.microsoft.com "Package versioning"), written independently of
   the model.  NuGet follows SemVer 2.0.0 with documented deviations:
     - one to four numeric components (Major[.Minor[.Patch[.Revision]]]), missing ones are 0,
       leading zeros are allowed and dropped, every component is a System.Int32;
     - release labels are compared case-insensitively (StringComparer.OrdinalIgnoreCase);
       a label is numeric when int.TryParse accepts it (so digits beyond Int32 are text);
     - the normalised string is Major.Minor.Patch, the Revision only when it is not 0,
       the release labels as written, no metadata.
   Definitions only. *)
From DepsDev Require Import Lib.Base Spec.SemverSpec.
Local Open Scope Z_scope.

Definition max_int32 : Z := 2147483647.

Record nv := { nv_nums : list Z;          (* exactly four *)
               nv_labels : list bytes }.  (* release labels as written *)

(* ---- grammar ---- *)
(* a numeric component: digits (leading zeros allowed), value within Int32 *)
Definition component (s : bytes) : option Z :=
  match s with
  | [] => None
  | _ => if forallb is_digit s then
           let v := dec_val s 0 in if v <=? max_int32 then Some v else None
         else None
  end.

(* a release label: SemVer prerelease identifier (numeric ones without leading zero) *)
Definition label (s : bytes) : option bytes :=
  match pre_ident s with Some _ => Some s | None => None end.

Definition pad4 (l : list Z) : option (list Z) :=
  match l with
  | [a] => Some [a; 0; 0; 0]
  | [a; b] => Some [a; b; 0; 0]
  | [a; b; c] => Some [a; b; c; 0]
  | [a; b; c; d] => Some [a; b; c; d]
  | _ => None
  end.

Definition parse_nuget (s : bytes) : option nv :=
  let '(main, build) := cut 43 s [] in
  let '(core, pre) := cut 45 main [] in
  match sequence (map component (split_on 46 core [])) with
  | Some ns =>
      match pad4 ns with
      | Some ns4 =>
          let pre_r := match pre with
                       | None => Some []
                       | Some p => sequence (map label (split_on 46 p []))
                       end in
          let build_r := match build with
                         | None => Some []
                         | Some b => sequence (map build_ident (split_on 46 b []))
                         end in
          match pre_r, build_r with
          | Some p, Some _ => Some {| nv_nums := ns4; nv_labels := p |}
          | _, _ => None
          end
      | None => None
      end
  | None => None
  end.

(* ---- comparison (VersionComparer.Default = VersionRelease) ---- *)
Definition ascii_upper (c : N) : N := if ((97 <=? c) && (c <=? 122))%N then (c - 32)%N else c.

(* StringComparer.OrdinalIgnoreCase on ASCII: ordinal comparison of the upper-cased strings *)
Fixpoint ordinal_ignore_case (a b : bytes) : Z :=
  match a, b with
  | [], [] => 0
  | [], _ :: _ => -1
  | _ :: _, [] => 1
  | x :: a', y :: b' =>
      let d := zcmp (Z.of_N (ascii_upper x)) (Z.of_N (ascii_upper y)) in
      if d =? 0 then ordinal_ignore_case a' b' else d
  end.

(* int.TryParse on a label of the grammar: digits whose value fits Int32 *)
Definition label_int (s : bytes) : option Z :=
  match s with
  | [] => None
  | _ => if forallb is_digit s then
           let v := dec_val s 0 in if v <=? max_int32 then Some v else None
         else None
  end.

Definition label_cmp (a b : bytes) : Z :=
  match label_int a, label_int b with
  | Some x, Some y => zcmp x y
  | Some _, None => -1                 (* numeric labels come before text labels *)
  | None, Some _ => 1
  | None, None => ordinal_ignore_case a b
  end.

Fixpoint labels_cmp (a b : list bytes) : Z :=
  match a, b with
  | [], [] => 0
  | [], _ :: _ => -1
  | _ :: _, [] => 1
  | x :: a', y :: b' => if label_cmp x y =? 0 then labels_cmp a' b' else label_cmp x y
  end.

Definition nuget_precedence (a b : nv) : Z :=
  let c := nums_cmp (nv_nums a) (nv_nums b) in
  if negb (c =? 0) then c
  else match nv_labels a, nv_labels b with
       | [], [] => 0
       | [], _ => 1                     (* a release is above its prereleases *)
       | _, [] => -1
       | la, lb => labels_cmp la lb
       end.                             (* metadata is ignored *)

Definition nuget_compare_strings (a b : bytes) : option Z :=
  match parse_nuget a, parse_nuget b with
  | Some x, Some y => Some (nuget_precedence x y)
  | _, _ => None
  end.

(* ---- ToNormalizedString ---- *)
Fixpoint join_dot (l : list bytes) : bytes :=
  match l with
  | [] => []
  | [x] => x
  | x :: t => x ++ 46%N :: join_dot t
  end.

Definition nuget_normalized (v : nv) : bytes :=
  let ns := match nv_nums v with
            | [a; b; c; d] => if d =? 0 then [a; b; c] else [a; b; c; d]
            | l => l
            end in
  join_dot (map Z_to_dec ns) ++
  match nv_labels v with
  | [] => []
  | ls => 45%N :: join_dot ls
  end.
