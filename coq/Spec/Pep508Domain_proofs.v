(* The classifier of Spec/Pep508Domain.v is the domain predicate: class 0 exactly inside. *)
From DepsDev Require Import Lib.Base Pypi.PyStr Spec.Pep508Spec Spec.Pep508Domain.

Local Open Scope N_scope.

Section Proofs.
  Variable env : list (bytes * bytes).
  Variable go_valid : bytes -> bool.
  Variable spec_sat : N -> bytes -> bytes -> option bool.

  Lemma dom_env_atom_class : forall v o lhs rhs,
    dom_env_atom go_valid spec_sat v o lhs rhs = (env_atom_class go_valid spec_sat v o lhs rhs =? 0).
  Proof.
    intros v o lhs rhs. unfold dom_env_atom, env_atom_class.
    destruct (version_typed v), (go_valid lhs), (go_valid rhs); destruct o; cbn [cop_num];
      try (match goal with |- context [spec_sat ?n rhs lhs] => destruct (spec_sat n rhs lhs) end); reflexivity.
  Qed.

  Lemma dom_atom_class : forall a,
    dom_atom env go_valid spec_sat a = (atom_class env go_valid spec_sat a =? 0).
  Proof.
    intros a. unfold dom_atom, atom_class.
    destruct (is_extra (atom_var a)).
    - destruct (atom_op a); try reflexivity.
      destruct (negb (is_nil (l_text (atom_lit a))) && bytes_eqb (canonicalize_name (l_text (atom_lit a))) (l_text (atom_lit a))); reflexivity.
    - destruct (env_lookup (var_name (atom_var a)) env); [|reflexivity].
      destruct a; apply dom_env_atom_class.
  Qed.

  Lemma first_class_forallb : forall l,
    forallb (dom_atom env go_valid spec_sat) l = (first_class env go_valid spec_sat l =? 0).
  Proof.
    induction l as [|a l IH]; [reflexivity|]. cbn [forallb first_class]. rewrite dom_atom_class.
    destruct (atom_class env go_valid spec_sat a =? 0) eqn:E; [exact IH|]. cbn [andb]. rewrite E. reflexivity.
  Qed.

  (* the class the harness reports is 0 exactly on the domain of C16_marker_partial *)
  Theorem in_domain_class : forall extras m,
    in_domain env go_valid spec_sat extras m = (domain_class env go_valid spec_sat extras m =? 0).
  Proof.
    intros extras m. unfold in_domain, domain_class. rewrite first_class_forallb.
    destruct (first_class env go_valid spec_sat (atoms m) =? 0) eqn:E; cbn [andb negb].
    - destruct (all_same (requested_lits extras m)), (forallb (fun e => bytes_eqb (canonicalize_name e) e) extras); reflexivity.
    - rewrite E. reflexivity.
  Qed.
End Proofs.
