(* C17: soundness of the Go-code checker of GoCode.v. *)
From DepsDev Require Import Lib.Base Api.Desc Api.Desc_proofs Api.GoCode.

Lemma go_enum_eqb_sound : forall x y, go_enum_eqb x y = true -> x = y.
Proof.
  intros x y H. apply (pair_eqb_sound bytes_eqb (list_eqb value_eqb)); auto using bytes_eqb_sound.
  intros u v E. apply (list_eqb_sound' value_eqb); auto using value_eqb_sound.
Qed.

Section Code.
  Variables (syntax pkg : bytes) (ges : list go_enum) (gss : list go_struct).

  Lemma enum_coded_b_sound : forall scope e, enum_coded_b ges scope e = true -> enum_coded ges scope e.
  Proof.
    intros scope e H. unfold enum_coded_b in H. cbv zeta in H.
    apply existsb_exists in H. destruct H as [g [Hg E]].
    apply go_enum_eqb_sound in E. unfold enum_coded. rewrite E. exact Hg.
  Qed.

  Lemma struct_coded_b_sound : forall scope m,
    struct_coded_b syntax pkg gss scope m = true -> struct_coded syntax pkg gss scope m.
  Proof.
    intros scope m H. unfold struct_coded_b in H. cbv zeta in H.
    apply existsb_exists in H. destruct H as [g [Hg E]].
    apply andb_true_iff in E. destruct E as [E1 E2].
    exists g. repeat split; auto.
    - apply bytes_eqb_sound; auto.
    - apply (list_eqb_sound' (pair_eqb bytes_eqb bytes_eqb)); auto.
      intros u v E. apply (pair_eqb_sound bytes_eqb bytes_eqb); auto using bytes_eqb_sound.
  Qed.

  Lemma msg_coded_b_sound : forall m scope,
    msg_coded_b syntax pkg ges gss scope m = true -> msg_coded syntax pkg ges gss scope m.
  Proof.
    induction m as [n fs os ns es me IH] using message_ind_nested.
    intros scope H. cbn [msg_coded_b] in H. destruct me.
    - constructor.
    - apply andb_true_iff in H. destruct H as [H H3]. apply andb_true_iff in H. destruct H as [H1 H2].
      constructor.
      + apply struct_coded_b_sound. exact H1.
      + intros e He. rewrite forallb_forall in H2. apply enum_coded_b_sound. auto.
      + intros x Hx. rewrite forallb_forall in H3. rewrite Forall_forall in IH. apply IH; auto.
  Qed.
End Code.

Theorem gocode_ok_sound : forall f ges gss, gocode_ok f ges gss = true -> gocode_spec f ges gss.
Proof.
  intros f ges gss H. unfold gocode_ok in H. apply andb_true_iff in H. destruct H as [H1 H2]. split.
  - intros e He. rewrite forallb_forall in H1. apply enum_coded_b_sound. auto.
  - intros m Hm. rewrite forallb_forall in H2. apply msg_coded_b_sound. auto.
Qed.
