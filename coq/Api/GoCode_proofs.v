(* C17: soundness of the Go-code checkers of GoCode.v. *)
From DepsDev Require Import Lib.Base Api.Desc Api.Desc_proofs Api.GoCode.

Lemma go_enum_eqb_sound : forall x y, go_enum_eqb x y = true -> x = y.
Proof.
  intros x y H. apply (pair_eqb_sound bytes_eqb (list_eqb value_eqb)); auto using bytes_eqb_sound.
  intros u v E. apply (list_eqb_sound' value_eqb); auto using value_eqb_sound.
Qed.

Lemma go_field_eqb_sound : forall x y, go_field_eqb x y = true -> x = y.
Proof.
  intros [a1 a2 a3 a4 a5 a6 a7] [b1 b2 b3 b4 b5 b6 b7] H. unfold go_field_eqb in H. cbn in H. split_andb.
  f_equal; auto using bytes_eqb_sound.
Qed.

Lemma forallb_Forall : forall {A} (p : A -> bool) (P : A -> Prop) l,
  (forall x, p x = true -> P x) -> forallb p l = true -> Forall P l.
Proof.
  intros A p P l Hp. induction l as [|x l IH]; cbn; intros H; constructor.
  - apply Hp. apply andb_true_iff in H. tauto.
  - apply IH. apply andb_true_iff in H. tauto.
Qed.

Lemma name_ok_b_sound : forall got want, name_ok_b got want = true -> name_ok got want.
Proof.
  intros got want H. unfold name_ok_b in H. destruct (strip_prefix want got) as [r|] eqn:E; try discriminate.
  exists r. split.
  - apply strip_prefix_spec. exact E.
  - apply (forallb_Forall (fun c => N.eqb c 95)); auto. intros x Hx. apply N.eqb_eq. exact Hx.
Qed.

Lemma gf_match_b_sound : forall want got, gf_match_b want got = true -> gf_match want got.
Proof.
  intros want got H. unfold gf_match_b in H. apply andb_true_iff in H. destruct H as [H1 H2]. split.
  - apply name_ok_b_sound. exact H1.
  - apply go_field_eqb_sound. exact H2.
Qed.

Lemma forall2b_sound : forall {A B} (p : A -> B -> bool) (P : A -> B -> Prop),
  (forall x y, p x y = true -> P x y) -> forall l l', forall2b p l l' = true -> Forall2 P l l'.
Proof.
  intros A B p P Hp. induction l as [|x l IH]; destruct l' as [|y l']; cbn; intros H; try discriminate; constructor.
  - apply Hp. apply andb_true_iff in H. tauto.
  - apply IH. apply andb_true_iff in H. tauto.
Qed.

Section Code.
  Variables (syntax pkg : bytes) (ext : ext_types) (ges : list go_enum) (gss : list go_struct).

  Lemma enum_coded_b_sound : forall scope e, enum_coded_b ges scope e = true -> enum_coded ges scope e.
  Proof.
    intros scope e H. unfold enum_coded_b in H. cbv zeta in H.
    apply existsb_exists in H. destruct H as [g [Hg E]].
    apply go_enum_eqb_sound in E. unfold enum_coded. rewrite E. exact Hg.
  Qed.

  Lemma struct_is_b_sound : forall name want, struct_is_b gss name want = true -> struct_is gss name want.
  Proof.
    intros name want H. unfold struct_is_b in H. apply existsb_exists in H. destruct H as [g [Hg E]].
    apply andb_true_iff in E. destruct E as [E1 E2].
    exists g. repeat split; auto.
    - apply bytes_eqb_sound. exact E1.
    - apply (forall2b_sound gf_match_b); auto using gf_match_b_sound.
  Qed.

  Lemma struct_coded_b_sound : forall scope m,
    struct_coded_b syntax pkg ext gss scope m = true -> struct_coded syntax pkg ext gss scope m.
  Proof.
    intros scope m H. unfold struct_coded_b in H. cbv zeta in H.
    apply andb_true_iff in H. destruct H as [H1 H2]. split.
    - apply struct_is_b_sound. exact H1.
    - intros f Hf. rewrite forallb_forall in H2. apply struct_is_b_sound. apply (H2 f Hf).
  Qed.

  Lemma msg_coded_b_sound : forall m scope,
    msg_coded_b syntax pkg ext ges gss scope m = true -> msg_coded syntax pkg ext ges gss scope m.
  Proof.
    induction m as [n fs os ns es me IH] using message_ind_nested.
    intros scope H. cbn [msg_coded_b] in H. destruct me.
    - constructor.
    - apply andb_true_iff in H. destruct H as [H H3]. apply andb_true_iff in H. destruct H as [H1 H2].
      constructor.
      + apply struct_coded_b_sound. exact H1.
      + intros e He. rewrite forallb_forall in H2. apply enum_coded_b_sound. auto.
      + intros x Hx. rewrite forallb_forall in H3. rewrite Forall_forall in IH. apply IH; auto.
  Qed.
End Code.

Theorem gocode_ok_sound : forall f ext ges gss, gocode_ok f ext ges gss = true -> gocode_spec f ext ges gss.
Proof.
  intros f ext ges gss H. unfold gocode_ok in H. apply andb_true_iff in H. destruct H as [H1 H2]. split.
  - intros e He. rewrite forallb_forall in H1. apply enum_coded_b_sound. auto.
  - intros m Hm. rewrite forallb_forall in H2. apply msg_coded_b_sound. auto.
Qed.

Lemma client_ok_b_sound : forall f ext s me c, client_ok_b f ext s me c = true -> client_ok f ext s me c.
Proof.
  intros f ext s me c H. unfold client_ok_b in H. split_andb. unfold client_ok.
  split; [apply bytes_eqb_sound; auto|]. split; [apply bytes_eqb_sound; auto|].
  intros U. rewrite U in H0. split_andb. split; apply bytes_eqb_sound; auto.
Qed.

Lemma handler_ok_b_sound : forall f ext g s me, handler_ok_b f ext g s me = true -> handler_ok f ext g s me.
Proof.
  intros f ext g s me H. unfold handler_ok_b in H. apply existsb_exists in H. destruct H as [h [Hh E]].
  split_andb. exists h. split; auto. split; [apply bytes_eqb_sound; auto|].
  split; [apply (list_eqb_sound' bytes_eqb); auto using bytes_eqb_sound|].
  intros U. rewrite U in H0. split_andb. split.
  - apply bytes_eqb_sound; auto.
  - apply (list_eqb_sound' bytes_eqb); auto using bytes_eqb_sound.
Qed.

Theorem grpc_code_ok_sound : forall f ext g, grpc_code_ok f ext g = true -> grpc_code_spec f ext g.
Proof.
  intros f ext g H. unfold grpc_code_ok in H. apply existsb_exists in H. destruct H as [s [Hs E]].
  split_andb. exists s. split; auto. split; [apply bytes_eqb_sound; auto|].
  split; [apply (forall2b_sound (client_ok_b f ext s)); auto using client_ok_b_sound|].
  split.
  - apply (list_eqb_sound' (pair_eqb bytes_eqb bytes_eqb)); auto.
    intros x y E'. apply (pair_eqb_sound bytes_eqb bytes_eqb); auto using bytes_eqb_sound.
  - intros me Hme. rewrite forallb_forall in H0. apply handler_ok_b_sound. auto.
Qed.
