(* C17: the Go declarations protoc-gen-go derives from a descriptor -- enum constants and
   the protobuf struct tags of the message structs -- as functions of the descriptor, and
   the checker that the declarations read (go/ast) from the committed api.pb.go are those.
   Definitions only; soundness in GoCode_proofs.v. *)
From Coq Require Import String Ascii.
From DepsDev Require Import Lib.Base Api.Desc.

Definition b (s : string) : bytes := List.map (fun a => N_of_ascii a) (list_ascii_of_string s).
Arguments b s%string.

(* ------------------------------------------------------------------ naming *)

Definition is_lower (c : N) : bool := (97 <=? c) && (c <=? 122).

(* google.golang.org/protobuf/internal/strs.GoCamelCase. start: first byte or just after
   a dot; inrun: inside the lower-case run that follows a capitalised letter. *)
Fixpoint go_camel (s : bytes) (start inrun : bool) : bytes :=
  match s with
  | [] => []
  | c :: t =>
      let next_lower := match t with d :: _ => is_lower d | [] => false end in
      if inrun && is_lower c then c :: go_camel t false true
      else if c =? 46 then (if next_lower then go_camel t true false else 95 :: go_camel t true false)
      else if (c =? 95) && start then 88 :: go_camel t false false
      else if (c =? 95) && next_lower then go_camel t false false
      else if is_digit c then c :: go_camel t false false
      else ascii_upper c :: go_camel t false true
  end.

(* Go identifier of a message or enum from its name relative to the package (Outer.Inner). *)
Definition go_ident (rel : bytes) : bytes := go_camel rel true false.

(* ------------------------------------------------------------------ struct tags *)

Definition mem (x : bytes) (l : list bytes) : bool := existsb (bytes_eqb x) l.

(* internal/encoding/tag.Marshal, for non-extension fields without default values. *)
Definition wire_name (kind : bytes) : bytes :=
  if mem kind [b "bool"; b "enum"; b "int32"; b "uint32"; b "int64"; b "uint64"] then b "varint"
  else if bytes_eqb kind (b "sint32") then b "zigzag32"
  else if bytes_eqb kind (b "sint64") then b "zigzag64"
  else if mem kind [b "sfixed32"; b "fixed32"; b "float"] then b "fixed32"
  else if mem kind [b "sfixed64"; b "fixed64"; b "double"] then b "fixed64"
  else if mem kind [b "string"; b "bytes"; b "message"] then b "bytes"
  else b "group".

Definition card_name (c : N) : bytes :=
  if c =? 3 then b "rep" else if c =? 2 then b "req" else b "opt".

Definition packable (kind : bytes) : bool :=
  negb (mem kind [b "string"; b "bytes"; b "message"; b "group"]).

(* impl.LegacyEnumName: package, then the camel-cased rest. *)
Definition legacy_enum_name (pkg full : bytes) : bytes :=
  match strip_prefix (pkg ++ [46]) full with
  | Some rel => pkg ++ [46] ++ go_ident rel
  | None => full
  end.

Definition go_tag (syntax pkg : bytes) (f : field) : bytes :=
  let proto3 := bytes_eqb syntax (b "proto3") in
  wire_name (f_kind f) ++ [44] ++ Z_to_dec (f_number f) ++ [44] ++ card_name (f_card f) ++
  (if (f_card f =? 3) && packable (f_kind f) && proto3 then b ",packed" else []) ++
  b ",name=" ++ f_name f ++
  (if negb (bytes_eqb (f_json f) []) && negb (bytes_eqb (f_json f) (f_name f)) then b ",json=" ++ f_json f else []) ++
  (if proto3 then b ",proto3" else []) ++
  (if bytes_eqb (f_kind f) (b "enum") then b ",enum=" ++ legacy_enum_name pkg (f_type f) else []) ++
  (match f_oneof f with Some _ => b ",oneof" | None => [] end).

(* The tagged fields of the struct of a message, in order, as (protobuf tag, protobuf_oneof
   tag): one entry per field outside a declared oneof, one entry per declared oneof at the
   place of its first member (members live in wrapper structs). *)
Fixpoint struct_fields (syntax pkg : bytes) (fs : list field) (seen : list bytes) : list (bytes * bytes) :=
  match fs with
  | [] => []
  | f :: t =>
      match f_oneof f with
      | Some o =>
          if f_optional f then (go_tag syntax pkg f, []) :: struct_fields syntax pkg t seen
          else if mem o seen then struct_fields syntax pkg t seen
          else ([], o) :: struct_fields syntax pkg t (o :: seen)
      | None => (go_tag syntax pkg f, []) :: struct_fields syntax pkg t seen
      end
  end.

(* ------------------------------------------------------------------ what was read from api.pb.go *)

Definition go_enum := (bytes * list (bytes * Z))%type.              (* Go type, constants *)
Definition go_struct := (bytes * list (bytes * bytes * bytes))%type. (* Go type, (field, tag, oneof tag) *)

Definition struct_tags (g : go_struct) : list (bytes * bytes) :=
  List.map (fun x => (snd (fst x), snd x)) (snd g).

(* Constants of an enum declared under the relative name prefix scope (empty at top level,
   Outer. inside message Outer): the type is the camel-cased relative name; the constants
   are prefixed by the enclosing message, or by the enum itself at top level. *)
Definition enum_consts (scope : bytes) (e : enum) : go_enum :=
  let ty := go_ident (scope ++ e_name e) in
  let pre := match scope with [] => ty | _ => go_ident (removelast scope) end in
  (ty, List.map (fun v => (pre ++ [95] ++ fst v, snd v)) (e_values e)).

Section Code.
  Variables (syntax pkg : bytes) (ges : list go_enum) (gss : list go_struct).

  Definition enum_coded (scope : bytes) (e : enum) : Prop := In (enum_consts scope e) ges.

  Definition struct_coded (scope : bytes) (m : message) : Prop :=
    exists g, In g gss /\ fst g = go_ident (scope ++ m_name m) /\
              struct_tags g = struct_fields syntax pkg (m_fields m) [].

  (* A message, its enums and its nested messages (map entries have no struct) are coded. *)
  Inductive msg_coded : bytes -> message -> Prop :=
  | MsgCodedEntry : forall scope n fs os ns es, msg_coded scope (Msg n fs os ns es true)
  | MsgCoded : forall scope n fs os ns es,
      struct_coded scope (Msg n fs os ns es false) ->
      (forall e, In e es -> enum_coded (scope ++ n ++ [46]) e) ->
      (forall x, In x ns -> msg_coded (scope ++ n ++ [46]) x) ->
      msg_coded scope (Msg n fs os ns es false).

  Definition go_enum_eqb (x y : go_enum) : bool :=
    pair_eqb bytes_eqb (list_eqb value_eqb) x y.

  Definition enum_coded_b (scope : bytes) (e : enum) : bool :=
    let want := enum_consts scope e in existsb (go_enum_eqb want) ges.

  Definition struct_coded_b (scope : bytes) (m : message) : bool :=
    let name := go_ident (scope ++ m_name m) in
    let tags := struct_fields syntax pkg (m_fields m) [] in
    existsb (fun g => bytes_eqb (fst g) name &&
                      list_eqb (pair_eqb bytes_eqb bytes_eqb) (struct_tags g) tags) gss.

  Fixpoint msg_coded_b (scope : bytes) (m : message) {struct m} : bool :=
    match m with
    | Msg n fs os ns es me =>
        if me then true else
        struct_coded_b scope (Msg n fs os ns es false) &&
        forallb (enum_coded_b (scope ++ n ++ [46])) es &&
        forallb (fun x => msg_coded_b (scope ++ n ++ [46]) x) ns
    end.
End Code.

(* The enum constants and message structs of api.pb.go are the ones the descriptor yields. *)
Definition gocode_spec (f : file) (ges : list go_enum) (gss : list go_struct) : Prop :=
  (forall e, In e (fd_enums f) -> enum_coded ges [] e) /\
  (forall m, In m (fd_messages f) -> msg_coded (fd_syntax f) (fd_package f) ges gss [] m).

Definition gocode_ok (f : file) (ges : list go_enum) (gss : list go_struct) : bool :=
  forallb (enum_coded_b ges []) (fd_enums f) &&
  forallb (msg_coded_b (fd_syntax f) (fd_package f) ges gss []) (fd_messages f).
