(* C17: the Go declarations protoc-gen-go derives from a descriptor -- enum constants and
   the protobuf struct tags of the message structs -- as functions of the descriptor, and
   the checker that the declarations read (go/ast) from the committed api.pb.go are those.
   Definitions only; soundness in GoCode_proofs.v. *)
From Coq Require Import String Ascii.
From DepsDev Require Import Lib.Base Api.Desc.

Definition b (s : string) : bytes := List.map (fun a => N_of_ascii a) (list_ascii_of_string s).
Arguments b s%string.

(* ------------------------------------------------------------------ naming *)

Definition is_lower (c : N) : bool := (97 <=? c) && (c <=? 122).

(* google.golang.org/protobuf/internal/strs.GoCamelCase. start: first byte or just after
   a dot; inrun: inside the lower-case run that follows a capitalised letter. *)
Fixpoint go_camel (s : bytes) (start inrun : bool) : bytes :=
  match s with
  | [] => []
  | c :: t =>
      let next_lower := match t with d :: _ => is_lower d | [] => false end in
      if inrun && is_lower c then c :: go_camel t false true
      else if c =? 46 then (if next_lower then go_camel t true false else 95 :: go_camel t true false)
      else if (c =? 95) && start then 88 :: go_camel t false false
      else if (c =? 95) && next_lower then go_camel t false false
      else if is_digit c then c :: go_camel t false false
      else ascii_upper c :: go_camel t false true
  end.

(* Go identifier of a message or enum from its name relative to the package (Outer.Inner). *)
Definition go_ident (rel : bytes) : bytes := go_camel rel true false.

(* ------------------------------------------------------------------ struct tags *)

Definition mem (x : bytes) (l : list bytes) : bool := existsb (bytes_eqb x) l.

(* internal/encoding/tag.Marshal, for non-extension fields without default values. *)
Definition wire_name (kind : bytes) : bytes :=
  if mem kind [b "bool"; b "enum"; b "int32"; b "uint32"; b "int64"; b "uint64"] then b "varint"
  else if bytes_eqb kind (b "sint32") then b "zigzag32"
  else if bytes_eqb kind (b "sint64") then b "zigzag64"
  else if mem kind [b "sfixed32"; b "fixed32"; b "float"] then b "fixed32"
  else if mem kind [b "sfixed64"; b "fixed64"; b "double"] then b "fixed64"
  else if mem kind [b "string"; b "bytes"; b "message"] then b "bytes"
  else b "group".

Definition card_name (c : N) : bytes :=
  if c =? 3 then b "rep" else if c =? 2 then b "req" else b "opt".

Definition packable (kind : bytes) : bool :=
  negb (mem kind [b "string"; b "bytes"; b "message"; b "group"]).

(* impl.LegacyEnumName: package, then the camel-cased rest. *)
Definition legacy_enum_name (pkg full : bytes) : bytes :=
  match strip_prefix (pkg ++ [46]) full with
  | Some rel => pkg ++ [46] ++ go_ident rel
  | None => full
  end.

(* proto3: whether the proto3 marker is written (it is not on protobuf_key / protobuf_val). *)
Definition go_tag_gen (proto3 : bool) (pkg : bytes) (f : field) : bytes :=
  wire_name (f_kind f) ++ [44] ++ Z_to_dec (f_number f) ++ [44] ++ card_name (f_card f) ++
  (if f_packed f then b ",packed" else []) ++
  b ",name=" ++ f_name f ++
  (if negb (bytes_eqb (f_json f) []) && negb (bytes_eqb (f_json f) (f_name f)) then b ",json=" ++ f_json f else []) ++
  (if proto3 then b ",proto3" else []) ++
  (if bytes_eqb (f_kind f) (b "enum") then b ",enum=" ++ legacy_enum_name pkg (f_type f) else []) ++
  (match f_oneof f with Some _ => b ",oneof" | None => [] end).

Definition go_tag (syntax pkg : bytes) (f : field) : bytes :=
  go_tag_gen (bytes_eqb syntax (b "proto3")) pkg f.

(* ------------------------------------------------------------------ Go types *)

(* Types of other files: full proto name -> (proto package, Go import path). *)
Definition ext_types := list (bytes * (bytes * bytes)).

Fixpoint ext_lookup (ext : ext_types) (full : bytes) : option (bytes * bytes) :=
  match ext with
  | [] => None
  | (n, v) :: t => if bytes_eqb n full then Some v else ext_lookup t full
  end.

(* protogen QualifiedGoIdent with the package qualifier written as the import path. *)
Definition go_qual (pkg : bytes) (ext : ext_types) (full : bytes) : bytes :=
  match strip_prefix (pkg ++ [46]) full with
  | Some rel => go_ident rel
  | None =>
      match ext_lookup ext full with
      | Some (tpkg, gopath) =>
          match strip_prefix (tpkg ++ [46]) full with
          | Some rel => gopath ++ [46] ++ go_ident rel
          | None => b "?" ++ full
          end
      | None => b "?" ++ full
      end
  end.

(* internal_gengo.fieldGoType before list / map / presence are applied. *)
Definition elem_type (pkg : bytes) (ext : ext_types) (f : field) : bytes :=
  let k := f_kind f in
  if bytes_eqb k (b "bool") then b "bool"
  else if bytes_eqb k (b "enum") then go_qual pkg ext (f_type f)
  else if mem k [b "int32"; b "sint32"; b "sfixed32"] then b "int32"
  else if mem k [b "uint32"; b "fixed32"] then b "uint32"
  else if mem k [b "int64"; b "sint64"; b "sfixed64"] then b "int64"
  else if mem k [b "uint64"; b "fixed64"] then b "uint64"
  else if bytes_eqb k (b "float") then b "float32"
  else if bytes_eqb k (b "double") then b "float64"
  else if bytes_eqb k (b "string") then b "string"
  else if bytes_eqb k (b "bytes") then b "[]byte"
  else b "*" ++ go_qual pkg ext (f_type f).

(* The key and value fields of the map entry a repeated field refers to, if it is a map:
   the entry is a nested message of the same message. full: full name of that message. *)
Definition map_entry_of (full : bytes) (nested : list message) (f : field) : option (field * field) :=
  match find (fun n => m_map_entry n && bytes_eqb (f_type f) (full ++ [46] ++ m_name n)) nested with
  | Some n => match m_fields n with k :: v :: _ => Some (k, v) | _ => None end
  | None => None
  end.

Definition has_presence_ptr (proto3 : bool) (f : field) : bool :=
  (f_optional f || negb proto3) && negb (mem (f_kind f) [b "message"; b "group"; b "bytes"]).

Definition go_field_type (proto3 : bool) (pkg : bytes) (ext : ext_types) (full : bytes) (nested : list message)
           (f : field) : bytes :=
  if f_card f =? 3 then
    match map_entry_of full nested f with
    | Some (k, v) => b "map[" ++ elem_type pkg ext k ++ b "]" ++ elem_type pkg ext v
    | None => b "[]" ++ elem_type pkg ext f
    end
  else if has_presence_ptr proto3 f then b "*" ++ elem_type pkg ext f
  else elem_type pkg ext f.

Definition go_field_name (f : field) : bytes := go_camel (f_name f) true false.

(* ------------------------------------------------------------------ what was read from api.pb.go *)

Definition go_enum := (bytes * list (bytes * Z))%type.     (* Go type, constants *)
Definition go_struct := (bytes * list go_field)%type.      (* Go type, tagged fields *)

(* Constants of an enum declared under the relative name prefix scope (empty at top level,
   Outer. inside message Outer): the type is the camel-cased relative name; the constants
   are prefixed by the enclosing message, or by the enum itself at top level. *)
Definition enum_consts (scope : bytes) (e : enum) : go_enum :=
  let ty := go_ident (scope ++ e_name e) in
  let pre := match scope with [] => ty | _ => go_ident (removelast scope) end in
  (ty, List.map (fun v => (pre ++ [95] ++ fst v, snd v)) (e_values e)).

Definition go_field_eqb (x y : go_field) : bool :=
  bytes_eqb (gf_name x) (gf_name y) && bytes_eqb (gf_type x) (gf_type y) && bytes_eqb (gf_tag x) (gf_tag y) &&
  bytes_eqb (gf_json x) (gf_json y) && bytes_eqb (gf_oneof x) (gf_oneof y) && bytes_eqb (gf_key x) (gf_key y) &&
  bytes_eqb (gf_val x) (gf_val y).

Definition with_name (n : bytes) (g : go_field) : go_field :=
  MkGoField n (gf_type g) (gf_tag g) (gf_json g) (gf_oneof g) (gf_key g) (gf_val g).

(* protoc-gen-go appends underscores to a field name that collides with a method name. *)
Definition name_ok (got want : bytes) : Prop := exists r, got = want ++ r /\ Forall (fun c => c = 95) r.
Definition name_ok_b (got want : bytes) : bool :=
  match strip_prefix want got with Some r => forallb (fun c => c =? 95) r | None => false end.

(* got is the wanted field: same type expression and struct tags, same name up to
   trailing underscores. *)
Definition gf_match (want got : go_field) : Prop :=
  name_ok (gf_name got) (gf_name want) /\ with_name (gf_name want) got = want.
Definition gf_match_b (want got : go_field) : bool :=
  name_ok_b (gf_name got) (gf_name want) && go_field_eqb (with_name (gf_name want) got) want.

Section Forall2b.
  Context {A B : Type} (p : A -> B -> bool).
  Fixpoint forall2b (l : list A) (l' : list B) : bool :=
    match l, l' with
    | [], [] => true
    | x :: t, y :: t' => p x y && forall2b t t'
    | _, _ => false
    end.
End Forall2b.

Section Code.
  Variables (syntax pkg : bytes) (ext : ext_types) (ges : list go_enum) (gss : list go_struct).

  Let proto3 := bytes_eqb syntax (b "proto3").

  (* The tagged fields wanted in the struct of the message with relative name rel: one per
     field outside a declared oneof -- Go name, Go type, protobuf tag, json tag, and for maps
     the key and value tags -- and one per declared oneof at the place of its first member
     (interface type isMsg_Oneof); the members live in wrapper structs. *)
  Fixpoint struct_fields (rel : bytes) (nested : list message) (fs : list field) (seen : list bytes) : list go_field :=
    match fs with
    | [] => []
    | f :: t =>
        let plain :=
          let kv := match (if f_card f =? 3 then map_entry_of (pkg ++ [46] ++ rel) nested f else None) with
                    | Some (k, v) => (go_tag_gen false pkg k, go_tag_gen false pkg v)
                    | None => ([], [])
                    end in
          MkGoField (go_field_name f) (go_field_type proto3 pkg ext (pkg ++ [46] ++ rel) nested f)
                    (go_tag syntax pkg f) (f_name f ++ b ",omitempty") [] (fst kv) (snd kv) in
        match f_oneof f with
        | Some o =>
            if f_optional f then plain :: struct_fields rel nested t seen
            else if mem o seen then struct_fields rel nested t seen
            else MkGoField (go_camel o true false) (b "is" ++ go_ident rel ++ [95] ++ go_camel o true false) [] [] o [] []
                 :: struct_fields rel nested t (o :: seen)
        | None => plain :: struct_fields rel nested t seen
        end
    end.

  (* The wrapper struct of a member of a declared oneof: Msg_Field { Field T `protobuf:...` }. *)
  Definition wrapper_of (rel : bytes) (f : field) : bytes * list go_field :=
    (go_ident rel ++ [95] ++ go_field_name f,
     [MkGoField (go_field_name f) (elem_type pkg ext f) (go_tag syntax pkg f) [] [] [] []]).

  Definition oneof_members (fs : list field) : list field :=
    filter (fun f => match f_oneof f with Some _ => negb (f_optional f) | None => false end) fs.

  Definition enum_coded (scope : bytes) (e : enum) : Prop := In (enum_consts scope e) ges.

  Definition struct_is (name : bytes) (want : list go_field) : Prop :=
    exists g, In g gss /\ fst g = name /\ Forall2 gf_match want (snd g).

  Definition struct_coded (scope : bytes) (m : message) : Prop :=
    let rel := scope ++ m_name m in
    struct_is (go_ident rel) (struct_fields rel (m_nested m) (m_fields m) []) /\
    forall f, In f (oneof_members (m_fields m)) -> struct_is (fst (wrapper_of rel f)) (snd (wrapper_of rel f)).

  (* A message, its enums and its nested messages (map entries have no struct) are coded. *)
  Inductive msg_coded : bytes -> message -> Prop :=
  | MsgCodedEntry : forall scope n fs os ns es, msg_coded scope (Msg n fs os ns es true)
  | MsgCoded : forall scope n fs os ns es,
      struct_coded scope (Msg n fs os ns es false) ->
      (forall e, In e es -> enum_coded (scope ++ n ++ [46]) e) ->
      (forall x, In x ns -> msg_coded (scope ++ n ++ [46]) x) ->
      msg_coded scope (Msg n fs os ns es false).

  Definition go_enum_eqb (x y : go_enum) : bool :=
    pair_eqb bytes_eqb (list_eqb value_eqb) x y.

  Definition enum_coded_b (scope : bytes) (e : enum) : bool :=
    let want := enum_consts scope e in existsb (go_enum_eqb want) ges.

  Definition struct_is_b (name : bytes) (want : list go_field) : bool :=
    existsb (fun g => bytes_eqb (fst g) name && forall2b gf_match_b want (snd g)) gss.

  Definition struct_coded_b (scope : bytes) (m : message) : bool :=
    let rel := scope ++ m_name m in
    let want := struct_fields rel (m_nested m) (m_fields m) [] in
    struct_is_b (go_ident rel) want &&
    forallb (fun f => let w := wrapper_of rel f in struct_is_b (fst w) (snd w)) (oneof_members (m_fields m)).

  Fixpoint msg_coded_b (scope : bytes) (m : message) {struct m} : bool :=
    match m with
    | Msg n fs os ns es me =>
        if me then true else
        struct_coded_b scope (Msg n fs os ns es false) &&
        forallb (enum_coded_b (scope ++ n ++ [46])) es &&
        forallb (fun x => msg_coded_b (scope ++ n ++ [46]) x) ns
    end.
End Code.

(* The enum constants and message structs of api.pb.go are the ones the descriptor yields. *)
Definition gocode_spec (f : file) (ext : ext_types) (ges : list go_enum) (gss : list go_struct) : Prop :=
  (forall e, In e (fd_enums f) -> enum_coded ges [] e) /\
  (forall m, In m (fd_messages f) -> msg_coded (fd_syntax f) (fd_package f) ext ges gss [] m).

Definition gocode_ok (f : file) (ext : ext_types) (ges : list go_enum) (gss : list go_struct) : bool :=
  forallb (enum_coded_b ges []) (fd_enums f) &&
  forallb (msg_coded_b (fd_syntax f) (fd_package f) ext ges gss []) (fd_messages f).

(* ------------------------------------------------------------------ the code of _grpc.pb.go *)

Section GrpcCode.
  Variables (f : file) (ext : ext_types) (g : grpc_desc) (s : service).

  Definition const_name (me : method) : bytes := fst (full_method_const f s me).
  Definition handler_name (me : method) : bytes := [95] ++ s_name s ++ [95] ++ me_name me ++ b "_Handler".
  Definition msg_go (full : bytes) : bytes := go_qual (fd_package f) ext full.

  (* The client method of an rpc passes on the FullMethodName constant of that rpc and, when
     unary, takes *Request and returns *Response. *)
  Definition client_ok (me : method) (c : client_method) : Prop :=
    cm_name c = me_name me /\ cm_const c = const_name me /\
    (is_unary me = true -> cm_in c = b "*" ++ msg_go (me_input me) /\ cm_out c = b "*" ++ msg_go (me_output me)).

  Definition client_ok_b (me : method) (c : client_method) : bool :=
    bytes_eqb (cm_name c) (me_name me) && bytes_eqb (cm_const c) (const_name me) &&
    (if is_unary me then bytes_eqb (cm_in c) (b "*" ++ msg_go (me_input me)) &&
                         bytes_eqb (cm_out c) (b "*" ++ msg_go (me_output me)) else true).

  (* The handler of an rpc exists, calls exactly that method of the server interface and,
     when unary, decodes into the request type and reports the rpc's FullMethodName constant. *)
  Definition handler_ok (me : method) : Prop :=
    exists h, In h (g_handlers g) /\ hf_name h = handler_name me /\ hf_calls h = [me_name me] /\
      (is_unary me = true -> hf_new h = msg_go (me_input me) /\ hf_consts h = [const_name me]).

  Definition handler_ok_b (me : method) : bool :=
    existsb (fun h => bytes_eqb (hf_name h) (handler_name me) && list_eqb bytes_eqb (hf_calls h) [me_name me] &&
                      (if is_unary me then bytes_eqb (hf_new h) (msg_go (me_input me)) &&
                                           list_eqb bytes_eqb (hf_consts h) [const_name me] else true)) (g_handlers g).

  (* ServiceDesc entries in the order of the literal: unary methods, then streams. *)
  Definition bindings_want : list (bytes * bytes) :=
    List.map (fun me => (me_name me, handler_name me))
             (filter is_unary (s_methods s) ++ filter (fun me => negb (is_unary me)) (s_methods s)).
End GrpcCode.

(* The client methods, the (method, handler) pairs of the ServiceDesc literal and the
   handler functions of _grpc.pb.go are the ones of the service of the descriptor. *)
Definition grpc_code_spec (f : file) (ext : ext_types) (g : grpc_desc) : Prop :=
  exists s, In s (fd_services f) /\ g_service g = full_service f s /\
    Forall2 (client_ok f ext s) (s_methods s) (g_client g) /\
    g_bindings g = bindings_want s /\
    forall me, In me (s_methods s) -> handler_ok f ext g s me.

Definition grpc_code_ok (f : file) (ext : ext_types) (g : grpc_desc) : bool :=
  existsb (fun s => bytes_eqb (g_service g) (full_service f s) &&
                    forall2b (client_ok_b f ext s) (s_methods s) (g_client g) &&
                    list_eqb (pair_eqb bytes_eqb bytes_eqb) (g_bindings g) (bindings_want s) &&
                    forallb (handler_ok_b f ext g s) (s_methods s)) (fd_services f).
