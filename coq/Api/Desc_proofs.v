(* C17: soundness of the boolean checkers of Desc.v.  Each lemma lifts a checker that
   evaluates to true to the quantified statement it decides. *)
From DepsDev Require Import Lib.Base Api.Desc.

(* ------------------------------------------------------------------ equalities *)

Lemma bytes_eqb_sound : forall a b, bytes_eqb a b = true -> a = b.
Proof.
  induction a as [|x a IH]; destruct b as [|y b]; cbn; intros H; try discriminate; auto.
  apply andb_true_iff in H. destruct H as [H1 H2].
  apply N.eqb_eq in H1. subst. f_equal. auto.
Qed.

Lemma bytes_eqb_refl : forall a, bytes_eqb a a = true.
Proof. induction a; cbn; auto. rewrite N.eqb_refl. auto. Qed.

Lemma list_eqb_sound : forall {A} (eqb : A -> A -> bool) (l l' : list A),
  (forall x, In x l -> forall y, eqb x y = true -> x = y) ->
  list_eqb eqb l l' = true -> l = l'.
Proof.
  intros A eqb. induction l as [|x l IH]; destruct l' as [|y l']; cbn; intros Hs H; try discriminate; auto.
  apply andb_true_iff in H. destruct H as [H1 H2].
  f_equal.
  - apply Hs; auto.
  - apply IH; auto.
Qed.

Lemma list_eqb_sound' : forall {A} (eqb : A -> A -> bool) (l l' : list A),
  (forall x y, eqb x y = true -> x = y) -> list_eqb eqb l l' = true -> l = l'.
Proof. intros. eapply list_eqb_sound; eauto. Qed.

Lemma option_eqb_sound : forall {A} (eqb : A -> A -> bool) (a b : option A),
  (forall x y, eqb x y = true -> x = y) -> option_eqb eqb a b = true -> a = b.
Proof. intros A eqb [x|] [y|] Hs H; cbn in H; try discriminate; auto. f_equal; auto. Qed.

Lemma pair_eqb_sound : forall {A B} (ea : A -> A -> bool) (eb : B -> B -> bool) p q,
  (forall x y, ea x y = true -> x = y) -> (forall x y, eb x y = true -> x = y) ->
  pair_eqb ea eb p q = true -> p = q.
Proof.
  intros A B ea eb [a b] [c d] Ha Hb H. unfold pair_eqb in H. cbn in H.
  apply andb_true_iff in H. destruct H. f_equal; auto.
Qed.

Lemma bool_eqb_sound : forall a b, Bool.eqb a b = true -> a = b.
Proof. intros. apply eqb_prop. auto. Qed.

Lemma Z_eqb_sound : forall a b, Z.eqb a b = true -> a = b.
Proof. intros. apply Z.eqb_eq. auto. Qed.

Lemma N_eqb_sound : forall a b, N.eqb a b = true -> a = b.
Proof. intros. apply N.eqb_eq. auto. Qed.

Ltac split_andb :=
  repeat match goal with
         | H : andb _ _ = true |- _ => apply andb_true_iff in H; destruct H
         end.

Lemma binding_eqb_sound : forall a b, binding_eqb a b = true -> a = b.
Proof.
  intros [a1 a2 a3 a4] [b1 b2 b3 b4] H. unfold binding_eqb in H. cbn in H. split_andb.
  f_equal; apply bytes_eqb_sound; auto.
Qed.

Lemma http_eqb_sound : forall a b, http_eqb a b = true -> a = b.
Proof.
  intros [a1 a2] [b1 b2] H. unfold http_eqb in H. cbn in H. split_andb.
  f_equal; [apply binding_eqb_sound | apply (list_eqb_sound' binding_eqb); [exact binding_eqb_sound|]]; auto.
Qed.

Lemma field_eqb_sound : forall a b, field_eqb a b = true -> a = b.
Proof.
  intros [a1 a2 a3 a4 a5 a6 a7 a8 a9] [b1 b2 b3 b4 b5 b6 b7 b8 b9] H. unfold field_eqb in H. cbn in H. split_andb.
  f_equal; auto using bytes_eqb_sound, Z_eqb_sound, N_eqb_sound, bool_eqb_sound.
  apply (option_eqb_sound bytes_eqb); auto using bytes_eqb_sound.
Qed.

Lemma value_eqb_sound : forall a b, value_eqb a b = true -> a = b.
Proof. intros. apply (pair_eqb_sound bytes_eqb Z.eqb); auto using bytes_eqb_sound, Z_eqb_sound. Qed.

Lemma enum_eqb_sound : forall a b, enum_eqb a b = true -> a = b.
Proof.
  intros [a1 a2] [b1 b2] H. unfold enum_eqb in H. cbn in H. split_andb.
  f_equal; [apply bytes_eqb_sound | apply (list_eqb_sound' value_eqb); [exact value_eqb_sound|]]; auto.
Qed.

(* Induction over messages that reaches the nested ones. *)
Section MessageInd.
  Variable P : message -> Prop.
  Hypothesis step : forall n fs os ns es me, Forall P ns -> P (Msg n fs os ns es me).
  Fixpoint message_ind_nested (m : message) : P m :=
    match m with
    | Msg n fs os ns es me =>
        step n fs os ns es me
          ((fix go (l : list message) : Forall P l :=
              match l with
              | [] => Forall_nil P
              | x :: t => Forall_cons x (message_ind_nested x) (go t)
              end) ns)
    end.
End MessageInd.

Lemma message_eqb_sound : forall a b, message_eqb a b = true -> a = b.
Proof.
  induction a as [n fs os ns es me IH] using message_ind_nested.
  intros [n' fs' os' ns' es' me'] H. cbn in H. split_andb.
  f_equal; auto using bytes_eqb_sound, bool_eqb_sound.
  - apply (list_eqb_sound' field_eqb); auto using field_eqb_sound.
  - apply (list_eqb_sound' bytes_eqb); auto using bytes_eqb_sound.
  - apply (list_eqb_sound message_eqb); auto.
    intros x Hx y Hxy. rewrite Forall_forall in IH. apply IH; auto.
  - apply (list_eqb_sound' enum_eqb); auto using enum_eqb_sound.
Qed.

Lemma method_eqb_sound : forall a b, method_eqb a b = true -> a = b.
Proof.
  intros [a1 a2 a3 a4 a5 a6 a7] [b1 b2 b3 b4 b5 b6 b7] H. unfold method_eqb in H. cbn in H. split_andb.
  f_equal; auto using bytes_eqb_sound, bool_eqb_sound.
  apply (option_eqb_sound http_eqb); auto using http_eqb_sound.
Qed.

Lemma service_eqb_sound : forall a b, service_eqb a b = true -> a = b.
Proof.
  intros [a1 a2] [b1 b2] H. unfold service_eqb in H. cbn in H. split_andb.
  f_equal; [apply bytes_eqb_sound | apply (list_eqb_sound' method_eqb); [exact method_eqb_sound|]]; auto.
Qed.

(* desc_eq decides equality of the two descriptors. *)
Theorem file_eqb_sound : forall a b, file_eqb a b = true -> a = b.
Proof.
  intros [a1 a2 a3 a4 a5 a6 a7 a8] [b1 b2 b3 b4 b5 b6 b7 b8] H. unfold file_eqb in H. cbn in H. split_andb.
  f_equal; auto using bytes_eqb_sound.
  - apply (list_eqb_sound' bytes_eqb); auto using bytes_eqb_sound.
  - apply (list_eqb_sound' message_eqb); auto using message_eqb_sound.
  - apply (list_eqb_sound' enum_eqb); auto using enum_eqb_sound.
  - apply (list_eqb_sound' service_eqb); auto using service_eqb_sound.
Qed.

Theorem desc_eq_sound : forall a b, desc_eq a b = true -> a = b.
Proof. exact file_eqb_sound. Qed.

(* ------------------------------------------------------------------ inclusion *)

Lemma forallb_existsb : forall {A B} (p : A -> B -> bool) (l : list A) (l' : list B),
  forallb (fun x => existsb (p x) l') l = true ->
  forall x, In x l -> exists y, In y l' /\ p x y = true.
Proof.
  intros A B p l l' H x Hx. rewrite forallb_forall in H. specialize (H x Hx).
  apply existsb_exists in H. exact H.
Qed.

Section Versions.
  Variables pa pb va vb : bytes.

  Lemma enum_sub_sound : forall e e', enum_sub e e' = true -> enum_incl e e'.
  Proof.
    intros e e' H. unfold enum_sub in H. split_andb. split.
    - apply bytes_eqb_sound; auto.
    - intros v Hv. destruct (forallb_existsb value_eqb _ _ H0 v Hv) as [w [Hw E]].
      apply value_eqb_sound in E. subst. auto.
  Qed.

  Lemma msg_sub_sound : forall m m', msg_sub pa pb m m' = true -> msg_incl pa pb m m'.
  Proof.
    induction m as [n fs os ns es me IH] using message_ind_nested.
    intros [n' fs' os' ns' es' me'] H. cbn in H. split_andb.
    apply bytes_eqb_sound in H. apply bool_eqb_sound in H4. subst n' me'.
    constructor.
    - intros f Hf. destruct (forallb_existsb (fun f => field_eqb (ren_field pa pb f)) _ _ H3 f Hf) as [g [Hg E]].
      apply field_eqb_sound in E. rewrite E. auto.
    - intros o Ho. destruct (forallb_existsb bytes_eqb _ _ H2 o Ho) as [g [Hg E]].
      apply bytes_eqb_sound in E. subst. auto.
    - intros e He. destruct (forallb_existsb enum_sub _ _ H1 e He) as [g [Hg E]].
      exists g. split; auto. apply enum_sub_sound; auto.
    - intros x Hx. destruct (forallb_existsb (fun x y => msg_sub pa pb x y) _ _ H0 x Hx) as [g [Hg E]].
      exists g. split; auto. rewrite Forall_forall in IH. apply IH; auto.
  Qed.

  Lemma method_sub_sound : forall me me', method_sub pa pb va vb me me' = true -> method_incl pa pb va vb me me'.
  Proof.
    intros me me' H. unfold method_sub in H. split_andb. unfold method_incl.
    repeat split; auto using bytes_eqb_sound, bool_eqb_sound.
    destruct (me_http me) as [h|]; auto.
    destruct (me_http me') as [h'|]; try discriminate.
    exists h'. split; auto. intros bd Hbd.
    destruct (forallb_existsb (fun bd => binding_eqb (ren_binding va vb bd)) _ _ H0 bd Hbd) as [g [Hg E]].
    apply binding_eqb_sound in E. rewrite E. auto.
  Qed.

  Lemma svc_sub_sound : forall s s', svc_sub pa pb va vb s s' = true -> svc_incl pa pb va vb s s'.
  Proof.
    intros s s' H. unfold svc_sub in H. split_andb. split.
    - apply bytes_eqb_sound; auto.
    - intros me Hme.
      destruct (forallb_existsb (method_sub pa pb va vb) _ _ H0 me Hme) as [g [Hg E]].
      exists g. split; auto. apply method_sub_sound. auto.
  Qed.

  Lemma file_sub_sound : forall a b, file_sub pa pb va vb a b = true -> file_incl pa pb va vb a b.
  Proof.
    intros a b H. unfold file_sub in H. split_andb. repeat split.
    - apply bytes_eqb_sound; auto.
    - intros m Hm. destruct (forallb_existsb (msg_sub pa pb) _ _ H2 m Hm) as [g [Hg E]].
      exists g. split; auto. apply msg_sub_sound; auto.
    - intros e He. destruct (forallb_existsb enum_sub _ _ H1 e He) as [g [Hg E]].
      exists g. split; auto. apply enum_sub_sound; auto.
    - intros s Hs. destruct (forallb_existsb (svc_sub pa pb va vb) _ _ H0 s Hs) as [g [Hg E]].
      exists g. split; auto. apply svc_sub_sound; auto.
  Qed.

  (* What msg_incl says, component by component. *)
  Lemma msg_incl_inv : forall m m', msg_incl pa pb m m' ->
    m_name m' = m_name m /\ m_map_entry m' = m_map_entry m /\
    (forall f, In f (m_fields m) -> In (ren_field pa pb f) (m_fields m')) /\
    (forall o, In o (m_oneofs m) -> In o (m_oneofs m')) /\
    (forall e, In e (m_enums m) -> exists e', In e' (m_enums m') /\ enum_incl e e') /\
    (forall n, In n (m_nested m) -> exists n', In n' (m_nested m') /\ msg_incl pa pb n n').
  Proof. intros m m' H. destruct H. cbn. repeat split; auto. Qed.

  (* Inclusion reaches every nested message, at the same path of names. *)
  Lemma msg_at_incl : forall ms path m, msg_at ms path m ->
    forall ms', (forall x, In x ms -> exists x', In x' ms' /\ msg_incl pa pb x x') ->
    exists m', msg_at ms' path m' /\ msg_incl pa pb m m'.
  Proof.
    induction 1 as [ms m Hin | ms p rest m Hin Hat IH]; intros ms' Hall.
    - destruct (Hall m Hin) as [m' [Hin' Hi]]. exists m'. split; auto.
      destruct (msg_incl_inv _ _ Hi) as [Hn _]. rewrite <- Hn. constructor. auto.
    - destruct (Hall p Hin) as [p' [Hin' Hi]].
      destruct (msg_incl_inv _ _ Hi) as [Hn [_ [_ [_ [_ Hnest]]]]].
      destruct (IH (m_nested p') Hnest) as [m' [Hat' Hi']].
      exists m'. split; auto. rewrite <- Hn. econstructor; eauto.
  Qed.
End Versions.

Theorem superset_sound : forall a b, superset a b = true -> is_superset a b.
Proof. intros a b H. apply file_sub_sound. exact H. Qed.

(* The flat reading of is_superset: every message of a, however deeply nested, has a
   message of the same path in b that carries each of its fields (same name, number, kind,
   cardinality, oneof, optional keyword, JSON name; type name moved to the package of b),
   its oneofs, and each of its enums with each of their values. *)
Theorem superset_messages : forall a b, is_superset a b ->
  forall path m, msg_at (fd_messages a) path m ->
  exists m', msg_at (fd_messages b) path m' /\
    m_map_entry m' = m_map_entry m /\
    (forall f, In f (m_fields m) -> In (ren_field (fd_package a) (fd_package b) f) (m_fields m')) /\
    (forall o, In o (m_oneofs m) -> In o (m_oneofs m')) /\
    (forall e, In e (m_enums m) -> exists e', In e' (m_enums m') /\ e_name e' = e_name e /\
                                              forall v, In v (e_values e) -> In v (e_values e')).
Proof.
  intros a b [_ [Hm _]] path m Hat.
  destruct (msg_at_incl _ _ _ _ _ Hat _ Hm) as [m' [Hat' Hi]].
  exists m'. split; auto.
  destruct (msg_incl_inv _ _ _ _ Hi) as [_ [H1 [H2 [H3 [H4 _]]]]].
  repeat split; auto.
Qed.

(* ... every top-level enum value, and every method with its types, streaming flags and
   HTTP rule (path moved to the version prefix of b). *)
Theorem superset_enums : forall a b, is_superset a b ->
  forall e, In e (fd_enums a) -> exists e', In e' (fd_enums b) /\ e_name e' = e_name e /\
    forall v, In v (e_values e) -> In v (e_values e').
Proof. intros a b [_ [_ [He _]]] e Hin. destruct (He e Hin) as [e' [H1 [H2 H3]]]. exists e'. auto. Qed.

Theorem superset_methods : forall a b, is_superset a b ->
  forall s, In s (fd_services a) -> exists s', In s' (fd_services b) /\ s_name s' = s_name s /\
    forall me, In me (s_methods s) -> exists me', In me' (s_methods s') /\
      method_incl (fd_package a) (fd_package b) (api_prefix (fd_package a)) (api_prefix (fd_package b)) me me'.
Proof. intros a b [_ [_ [_ Hs]]] s Hin. destruct (Hs s Hin) as [s' [H1 [H2 H3]]]. exists s'. auto. Qed.

(* ------------------------------------------------------------------ gRPC and system numbers *)

Theorem grpc_ok_sound : forall f g, grpc_ok f g = true -> grpc_spec f g.
Proof.
  intros f g H. unfold grpc_ok in H. apply existsb_exists in H. destruct H as [s [Hs H]].
  split_andb. exists s. repeat split; auto.
  - apply bytes_eqb_sound; auto.
  - apply (list_eqb_sound' bytes_eqb); auto using bytes_eqb_sound.
  - apply (list_eqb_sound' stream_eqb); auto.
    intros x y E. apply (pair_eqb_sound (pair_eqb bytes_eqb Bool.eqb) Bool.eqb); auto using bool_eqb_sound.
    intros u v E'. apply (pair_eqb_sound bytes_eqb Bool.eqb); auto using bytes_eqb_sound, bool_eqb_sound.
  - apply bytes_eqb_sound; auto.
  - apply (list_eqb_sound' (pair_eqb bytes_eqb bytes_eqb)); auto.
    intros x y E. apply (pair_eqb_sound bytes_eqb bytes_eqb); auto using bytes_eqb_sound.
  - apply (list_eqb_sound' bytes_eqb); auto using bytes_eqb_sound.
  - apply (list_eqb_sound' bytes_eqb); auto using bytes_eqb_sound.
Qed.

Theorem system_ok_sound : forall f rs, system_ok f rs = true -> system_spec f rs.
Proof.
  intros f rs H n v Hin. unfold system_ok in H. rewrite forallb_forall in H. specialize (H _ Hin).
  apply existsb_exists in H. destruct H as [e [He H]]. split_andb.
  apply existsb_exists in H0. destruct H0 as [[a z] [Haz H0]]. split_andb. cbn in *.
  exists e, z. repeat split; auto.
  - apply bytes_eqb_sound; auto.
  - apply bytes_eqb_sound in H0. rewrite <- H0. auto.
  - apply (option_eqb_sound Z.eqb); auto using Z_eqb_sound.
Qed.

Theorem runtime_ok_sound : forall rs rt, runtime_ok rs rt = true -> runtime_spec rs rt.
Proof.
  intros rs rt H n v Hin. unfold runtime_ok in H. rewrite forallb_forall in H. specialize (H _ Hin).
  apply existsb_exists in H. destruct H as [x [Hx E]].
  apply (pair_eqb_sound bytes_eqb (option_eqb Z.eqb)) in E; auto using bytes_eqb_sound.
  - cbn in E. rewrite E. exact Hx.
  - intros u w E'. apply (option_eqb_sound Z.eqb); auto using Z_eqb_sound.
Qed.

(* ------------------------------------------------------------------ sanity of the helpers *)

Lemma strip_prefix_spec : forall p s r, strip_prefix p s = Some r -> s = p ++ r.
Proof.
  induction p as [|x p IH]; intros s r H; cbn in H.
  - inversion H. auto.
  - destruct s as [|y s]; try discriminate. destruct (N.eqb x y) eqn:E; try discriminate.
    apply N.eqb_eq in E. subst. cbn. f_equal. auto.
Qed.

Lemma strip_prefix_app : forall p r, strip_prefix p (p ++ r) = Some r.
Proof. induction p; cbn; intros; auto. rewrite N.eqb_refl. auto. Qed.

(* rename moves exactly the strings that carry the prefix and leaves the others alone. *)
Lemma rename_prefixed : forall p q r, rename p q (p ++ r) = q ++ r.
Proof. intros. unfold rename. rewrite strip_prefix_app. auto. Qed.

Lemma rename_other : forall p q s, strip_prefix p s = None -> rename p q s = s.
Proof. intros. unfold rename. rewrite H. auto. Qed.
