(* C17: protobuf descriptors of the deps.dev API as data, the boolean checkers that are
   evaluated on the regenerated Gen/ApiDesc.v, and the propositions they decide.
   Definitions only; the soundness lemmas are in Desc_proofs.v. *)
From DepsDev Require Import Lib.Base.

(* ------------------------------------------------------------------ descriptors *)

(* One google.api.http binding: verb is get put post delete patch or custom:kind. *)
Record binding := MkBinding { b_verb : bytes; b_path : bytes; b_body : bytes; b_resp : bytes }.
Record http_rule := MkHttp { h_main : binding; h_extra : list binding }.

Record field := MkField {
  f_name : bytes;
  f_number : Z;
  f_kind : bytes;            (* proto scalar keyword, or message / enum / group *)
  f_card : N;                (* 1 optional, 2 required, 3 repeated *)
  f_oneof : option bytes;    (* name of the containing oneof, synthetic ones included *)
  f_optional : bool;         (* written with the optional keyword *)
  f_type : bytes;            (* full name of the message or enum type, empty for scalars *)
  f_json : bytes;
  f_packed : bool            (* repeated scalar encoded packed *)
}.

Record enum := MkEnum { e_name : bytes; e_values : list (bytes * Z) }.

Inductive message :=
  Msg (name : bytes) (fields : list field) (oneofs : list bytes) (nested : list message)
      (enums : list enum) (map_entry : bool).

Definition m_name (m : message) := let (n, _, _, _, _, _) := m in n.
Definition m_fields (m : message) := let (_, x, _, _, _, _) := m in x.
Definition m_oneofs (m : message) := let (_, _, x, _, _, _) := m in x.
Definition m_nested (m : message) := let (_, _, _, x, _, _) := m in x.
Definition m_enums (m : message) := let (_, _, _, _, x, _) := m in x.
Definition m_map_entry (m : message) := let (_, _, _, _, _, x) := m in x.

Record method := MkMethod {
  me_name : bytes; me_input : bytes; me_output : bytes;
  me_cstream : bool; me_sstream : bool; me_http : option http_rule;
  me_idem : bytes            (* idempotency_level: IDEMPOTENCY_UNKNOWN, NO_SIDE_EFFECTS, IDEMPOTENT *)
}.

Record service := MkService { s_name : bytes; s_methods : list method }.

Record file := MkFile {
  fd_path : bytes; fd_package : bytes; fd_syntax : bytes; fd_deps : list bytes; fd_go_package : bytes;
  fd_messages : list message; fd_enums : list enum; fd_services : list service
}.

(* A method of the client type of _grpc.pb.go: name, type of the parameter in, first result
   type, and the FullMethodName constant(s) its body passes on (space separated). *)
Record client_method := MkClientMethod { cm_name : bytes; cm_in : bytes; cm_out : bytes; cm_const : bytes }.

(* A _Service_Method_Handler function: the type it decodes into (new T), the methods of the
   server interface it calls, the FullMethodName constants it mentions. *)
Record handler_func := MkHandlerFunc { hf_name : bytes; hf_new : bytes; hf_calls : list bytes; hf_consts : list bytes }.

(* What the _grpc.pb.go file says: the ServiceDesc value, the FullMethodName constants
   (constant name, value), the exported methods of the client and server interfaces, the
   client methods, the (method, handler) pairs of the ServiceDesc literal and the handlers. *)
Record grpc_desc := MkGrpc {
  g_service : bytes; g_methods : list bytes; g_streams : list (bytes * bool * bool) (* name, server, client *);
  g_metadata : bytes; g_full_names : list (bytes * bytes); g_client_iface : list bytes; g_server_iface : list bytes;
  g_client : list client_method; g_bindings : list (bytes * bytes); g_handlers : list handler_func
}.

(* A struct field of api.pb.go carrying protobuf tags: Go name, type expression (package
   qualifiers replaced by import paths), and the protobuf, json, protobuf_oneof,
   protobuf_key, protobuf_val struct tags. *)
Record go_field := MkGoField {
  gf_name : bytes; gf_type : bytes; gf_tag : bytes; gf_json : bytes; gf_oneof : bytes; gf_key : bytes; gf_val : bytes
}.

(* ------------------------------------------------------------------ boolean equalities *)

Section ListEqb.
  Context {A : Type} (eqb : A -> A -> bool).
  Fixpoint list_eqb (l l' : list A) : bool :=
    match l, l' with
    | [], [] => true
    | x :: t, y :: t' => eqb x y && list_eqb t t'
    | _, _ => false
    end.
  Definition option_eqb (a b : option A) : bool :=
    match a, b with
    | None, None => true
    | Some x, Some y => eqb x y
    | _, _ => false
    end.
End ListEqb.

Definition pair_eqb {A B} (ea : A -> A -> bool) (eb : B -> B -> bool) (p q : A * B) : bool :=
  ea (fst p) (fst q) && eb (snd p) (snd q).

Definition binding_eqb (a b : binding) : bool :=
  bytes_eqb (b_verb a) (b_verb b) && bytes_eqb (b_path a) (b_path b) &&
  bytes_eqb (b_body a) (b_body b) && bytes_eqb (b_resp a) (b_resp b).

Definition http_eqb (a b : http_rule) : bool :=
  binding_eqb (h_main a) (h_main b) && list_eqb binding_eqb (h_extra a) (h_extra b).

Definition field_eqb (a b : field) : bool :=
  bytes_eqb (f_name a) (f_name b) && Z.eqb (f_number a) (f_number b) && bytes_eqb (f_kind a) (f_kind b) &&
  N.eqb (f_card a) (f_card b) && option_eqb bytes_eqb (f_oneof a) (f_oneof b) &&
  Bool.eqb (f_optional a) (f_optional b) && bytes_eqb (f_type a) (f_type b) && bytes_eqb (f_json a) (f_json b) &&
  Bool.eqb (f_packed a) (f_packed b).

Definition value_eqb : (bytes * Z) -> (bytes * Z) -> bool := pair_eqb bytes_eqb Z.eqb.

Definition enum_eqb (a b : enum) : bool :=
  bytes_eqb (e_name a) (e_name b) && list_eqb value_eqb (e_values a) (e_values b).

Fixpoint message_eqb (m m' : message) {struct m} : bool :=
  match m, m' with
  | Msg n fs os ns es me, Msg n' fs' os' ns' es' me' =>
      bytes_eqb n n' && list_eqb field_eqb fs fs' && list_eqb bytes_eqb os os' &&
      list_eqb message_eqb ns ns' && list_eqb enum_eqb es es' && Bool.eqb me me'
  end.

Definition method_eqb (a b : method) : bool :=
  bytes_eqb (me_name a) (me_name b) && bytes_eqb (me_input a) (me_input b) &&
  bytes_eqb (me_output a) (me_output b) && Bool.eqb (me_cstream a) (me_cstream b) &&
  Bool.eqb (me_sstream a) (me_sstream b) && option_eqb http_eqb (me_http a) (me_http b) &&
  bytes_eqb (me_idem a) (me_idem b).

Definition service_eqb (a b : service) : bool :=
  bytes_eqb (s_name a) (s_name b) && list_eqb method_eqb (s_methods a) (s_methods b).

(* desc_eq: the descriptor embedded in the generated Go code and the one parsed from the
   .proto text are the same value (declaration order included). *)
Definition file_eqb (a b : file) : bool :=
  bytes_eqb (fd_path a) (fd_path b) && bytes_eqb (fd_package a) (fd_package b) &&
  bytes_eqb (fd_syntax a) (fd_syntax b) && list_eqb bytes_eqb (fd_deps a) (fd_deps b) &&
  bytes_eqb (fd_go_package a) (fd_go_package b) && list_eqb message_eqb (fd_messages a) (fd_messages b) &&
  list_eqb enum_eqb (fd_enums a) (fd_enums b) && list_eqb service_eqb (fd_services a) (fd_services b).

Definition desc_eq := file_eqb.

(* ------------------------------------------------------------------ renaming between versions *)

(* strip_prefix p s = Some r  iff  s = p ++ r *)
Fixpoint strip_prefix (p s : bytes) : option bytes :=
  match p, s with
  | [], _ => Some s
  | x :: p', y :: s' => if N.eqb x y then strip_prefix p' s' else None
  | _ :: _, [] => None
  end.

(* Replace the prefix p by q when present; identity otherwise. *)
Definition rename (p q s : bytes) : bytes :=
  match strip_prefix p s with Some r => q ++ r | None => s end.

(* Last dot-separated component of a package name: deps_dev.v3 gives v3. *)
Fixpoint last_seg (s acc : bytes) : bytes :=
  match s with
  | [] => acc
  | c :: t => if N.eqb c 46 then last_seg t [] else last_seg t (acc ++ [c])
  end.

(* The HTTP path prefix of an API version: package deps_dev.v3 serves under /v3/. *)
Definition api_prefix (pkg : bytes) : bytes := 47 :: last_seg pkg [] ++ [47].

Section Versions.
  (* pa, pb: the two package names; va, vb: the two HTTP path prefixes. *)
  Variables pa pb va vb : bytes.

  Definition ren_type (t : bytes) : bytes := rename (pa ++ [46]) (pb ++ [46]) t.
  Definition ren_path (p : bytes) : bytes := rename va vb p.

  (* The image of a v3 declaration in the other version: identical except that type names
     move to the other package and HTTP paths to the other version prefix. *)
  Definition ren_field (f : field) : field :=
    MkField (f_name f) (f_number f) (f_kind f) (f_card f) (f_oneof f) (f_optional f) (ren_type (f_type f)) (f_json f)
            (f_packed f).
  Definition ren_binding (b : binding) : binding :=
    MkBinding (b_verb b) (ren_path (b_path b)) (b_body b) (b_resp b).

  (* All the bindings of a rule: the pattern itself and the additional ones. *)
  Definition bindings (h : http_rule) : list binding := h_main h :: h_extra h.

  (* A method of the other version serves a method of this one: same name, request and
     response type (moved to the other package), streaming flags and idempotency level; and
     every HTTP binding of this one (moved to the other version prefix) is among its
     bindings.  Additional bindings that only the other version has are allowed. *)
  Definition method_incl (me me' : method) : Prop :=
    me_name me' = me_name me /\ me_input me' = ren_type (me_input me) /\ me_output me' = ren_type (me_output me) /\
    me_cstream me' = me_cstream me /\ me_sstream me' = me_sstream me /\ me_idem me' = me_idem me /\
    match me_http me with
    | None => True
    | Some h => exists h', me_http me' = Some h' /\ forall bd, In bd (bindings h) -> In (ren_binding bd) (bindings h')
    end.

  Definition method_sub (me me' : method) : bool :=
    bytes_eqb (me_name me') (me_name me) && bytes_eqb (me_input me') (ren_type (me_input me)) &&
    bytes_eqb (me_output me') (ren_type (me_output me)) && Bool.eqb (me_cstream me') (me_cstream me) &&
    Bool.eqb (me_sstream me') (me_sstream me) && bytes_eqb (me_idem me') (me_idem me) &&
    match me_http me with
    | None => true
    | Some h => match me_http me' with
                | None => false
                | Some h' => forallb (fun bd => existsb (binding_eqb (ren_binding bd)) (bindings h')) (bindings h)
                end
    end.

  (* -------- the propositions: b contains everything a declares *)

  Definition enum_incl (e e' : enum) : Prop :=
    e_name e' = e_name e /\ forall v, In v (e_values e) -> In v (e_values e').

  Inductive msg_incl : message -> message -> Prop :=
  | MsgIncl : forall name fs os ns es me fs' os' ns' es',
      (forall f, In f fs -> In (ren_field f) fs') ->
      (forall o, In o os -> In o os') ->
      (forall e, In e es -> exists e', In e' es' /\ enum_incl e e') ->
      (forall n, In n ns -> exists n', In n' ns' /\ msg_incl n n') ->
      msg_incl (Msg name fs os ns es me) (Msg name fs' os' ns' es' me).

  Definition svc_incl (s s' : service) : Prop :=
    s_name s' = s_name s /\ forall me, In me (s_methods s) -> exists me', In me' (s_methods s') /\ method_incl me me'.

  Definition file_incl (a b : file) : Prop :=
    fd_syntax b = fd_syntax a /\
    (forall m, In m (fd_messages a) -> exists m', In m' (fd_messages b) /\ msg_incl m m') /\
    (forall e, In e (fd_enums a) -> exists e', In e' (fd_enums b) /\ enum_incl e e') /\
    (forall s, In s (fd_services a) -> exists s', In s' (fd_services b) /\ svc_incl s s').

  (* -------- the checkers *)

  Definition enum_sub (e e' : enum) : bool :=
    bytes_eqb (e_name e') (e_name e) &&
    forallb (fun v => existsb (value_eqb v) (e_values e')) (e_values e).

  Fixpoint msg_sub (m m' : message) {struct m} : bool :=
    match m, m' with
    | Msg n fs os ns es me, Msg n' fs' os' ns' es' me' =>
        bytes_eqb n n' && Bool.eqb me me' &&
        forallb (fun f => existsb (field_eqb (ren_field f)) fs') fs &&
        forallb (fun o => existsb (bytes_eqb o) os') os &&
        forallb (fun e => existsb (enum_sub e) es') es &&
        forallb (fun x => existsb (fun y => msg_sub x y) ns') ns
    end.

  Definition svc_sub (s s' : service) : bool :=
    bytes_eqb (s_name s') (s_name s) &&
    forallb (fun me => existsb (method_sub me) (s_methods s')) (s_methods s).

  Definition file_sub (a b : file) : bool :=
    bytes_eqb (fd_syntax b) (fd_syntax a) &&
    forallb (fun m => existsb (msg_sub m) (fd_messages b)) (fd_messages a) &&
    forallb (fun e => existsb (enum_sub e) (fd_enums b)) (fd_enums a) &&
    forallb (fun s => existsb (svc_sub s) (fd_services b)) (fd_services a).
End Versions.

(* superset a b: every declaration of a exists identically in b, up to the package name in
   type names and the version prefix in HTTP paths, both derived from the two package names. *)
Definition superset (a b : file) : bool :=
  file_sub (fd_package a) (fd_package b) (api_prefix (fd_package a)) (api_prefix (fd_package b)) a b.

Definition is_superset (a b : file) : Prop :=
  file_incl (fd_package a) (fd_package b) (api_prefix (fd_package a)) (api_prefix (fd_package b)) a b.

(* A message reached from a list of top-level messages by a path of names. *)
Inductive msg_at : list message -> list bytes -> message -> Prop :=
| MsgHere : forall ms m, In m ms -> msg_at ms [m_name m] m
| MsgDeeper : forall ms p rest m, In p ms -> msg_at (m_nested p) rest m -> msg_at ms (m_name p :: rest) m.

(* ------------------------------------------------------------------ gRPC service description *)

Definition full_service (f : file) (s : service) : bytes := fd_package f ++ [46] ++ s_name s.
Definition is_unary (me : method) : bool := negb (me_cstream me) && negb (me_sstream me).
Definition full_method_const (f : file) (s : service) (me : method) : bytes * bytes :=
  (s_name s ++ [95] ++ me_name me ++ [95;70;117;108;108;77;101;116;104;111;100;78;97;109;101] (* _FullMethodName *),
   [47] ++ full_service f s ++ [47] ++ me_name me).
Definition stream_entry (me : method) : bytes * bool * bool := (me_name me, me_sstream me, me_cstream me).

(* The ServiceDesc, the method-name constants and both Go interfaces list exactly the
   methods of one service of the descriptor, in order. *)
Definition grpc_spec (f : file) (g : grpc_desc) : Prop :=
  exists s, In s (fd_services f) /\
    g_service g = full_service f s /\
    g_methods g = map me_name (filter is_unary (s_methods s)) /\
    g_streams g = map stream_entry (filter (fun me => negb (is_unary me)) (s_methods s)) /\
    g_metadata g = fd_path f /\
    g_full_names g = map (full_method_const f s) (s_methods s) /\
    g_client_iface g = map me_name (s_methods s) /\
    g_server_iface g = map me_name (s_methods s).

Definition stream_eqb : (bytes * bool * bool) -> (bytes * bool * bool) -> bool :=
  pair_eqb (pair_eqb bytes_eqb Bool.eqb) Bool.eqb.

Definition grpc_ok (f : file) (g : grpc_desc) : bool :=
  existsb (fun s =>
    bytes_eqb (g_service g) (full_service f s) &&
    list_eqb bytes_eqb (g_methods g) (map me_name (filter is_unary (s_methods s))) &&
    list_eqb stream_eqb (g_streams g) (map stream_entry (filter (fun me => negb (is_unary me)) (s_methods s))) &&
    bytes_eqb (g_metadata g) (fd_path f) &&
    list_eqb (pair_eqb bytes_eqb bytes_eqb) (g_full_names g) (map (full_method_const f s) (s_methods s)) &&
    list_eqb bytes_eqb (g_client_iface g) (map me_name (s_methods s)) &&
    list_eqb bytes_eqb (g_server_iface g) (map me_name (s_methods s))) (fd_services f).

(* ------------------------------------------------------------------ resolver system identifiers *)

Definition ascii_upper (c : N) : N := if (97 <=? c) && (c <=? 122) then c - 32 else c.
Definition to_upper (s : bytes) : bytes := map ascii_upper s.

Definition name_System : bytes := [83;121;115;116;101;109].
Definition name_UnknownSystem : bytes := [85;110;107;110;111;119;110;83;121;115;116;101;109].
Definition name_SYSTEM_UNSPECIFIED : bytes := [83;89;83;84;69;77;95;85;78;83;80;69;67;73;70;73;69;68].

(* The API enum value a resolve.System constant stands for: UnknownSystem is
   SYSTEM_UNSPECIFIED, every other constant is its own name in upper case
   (NPM, Maven -> MAVEN, PyPI -> PYPI). *)
Definition api_system_name (go_name : bytes) : bytes :=
  if bytes_eqb go_name name_UnknownSystem then name_SYSTEM_UNSPECIFIED else to_upper go_name.

(* Every constant of type resolve.System has the number of its value of the API enum System. *)
Definition system_spec (f : file) (rs : list (bytes * option Z)) : Prop :=
  forall n v, In (n, v) rs ->
    exists e z, In e (fd_enums f) /\ e_name e = name_System /\
                In (api_system_name n, z) (e_values e) /\ v = Some z.

Definition system_ok (f : file) (rs : list (bytes * option Z)) : bool :=
  forallb (fun nv =>
    existsb (fun e => bytes_eqb (e_name e) name_System &&
      existsb (fun az => bytes_eqb (fst az) (api_system_name (fst nv)) &&
                         option_eqb Z.eqb (snd nv) (Some (snd az))) (e_values e)) (fd_enums f)) rs.

(* The values the compiled package gives its constants (int(resolve.X), printed by
   cmd/resolvesys) are the ones read from the source. *)
Definition runtime_spec (rs : list (bytes * option Z)) (rt : list (bytes * Z)) : Prop :=
  forall n v, In (n, v) rt -> In (n, Some v) rs.

Definition runtime_ok (rs : list (bytes * option Z)) (rt : list (bytes * Z)) : bool :=
  forallb (fun nv => existsb (pair_eqb bytes_eqb (option_eqb Z.eqb) (fst nv, Some (snd nv))) rs) rt.
