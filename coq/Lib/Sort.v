(* Sorting as the models use it (DESIGN 3.5).  Definitions only; lemmas are in Lib/SortUniq.v.

   Go's sort.Slice (pdqsort, unstable) is not modelled.  [isort] is the insertion sort that
   sort.Slice itself runs on slices of at most 12 elements (insertionSortLessFunc: every
   element, left to right, is swapped backwards while it is less than its predecessor), so
   for short slices the model is the Go algorithm whatever the comparator does.  For longer
   slices Lib/SortUniq.v shows that every sorted permutation is this one, provided the
   comparator is a strict total order on the elements; each use site carries that
   obligation. *)
From Coq Require Import List Bool.
Import ListNotations.

Section Sort.
  Context {A : Type} (less : A -> A -> bool).

  (* [rp] is the sorted prefix, reversed (its last element first). *)
  Fixpoint ins_back (x : A) (rp : list A) : list A :=
    match rp with
    | [] => [x]
    | y :: t => if less x y then y :: ins_back x t else x :: rp
    end.

  Definition isort (l : list A) : list A :=
    rev (fold_left (fun rp x => ins_back x rp) l []).

  (* no two different positions hold elements that the comparator cannot separate:
     computable form of the side condition under which the result is unique *)
  Fixpoint tie_free (l : list A) : bool :=
    match l with
    | [] => true
    | x :: t => forallb (fun y => less x y || less y x) t && tie_free t
    end.
End Sort.

(* the slice length up to which sort.Slice uses insertion sort *)
Definition max_insertion : nat := 12.
