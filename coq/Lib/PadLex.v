(* Lexicographic comparison of lists where the shorter list is continued with a padding
   value (the loop shape of gemExtension.compare, mavenExtension.compare, getNum): it
   preserves the comparator laws whenever the element comparator has them on a domain
   that contains the padding value. *)
From Coq Require Import List ZArith Lia Bool.
From DepsDev Require Import Lib.Order.
Import ListNotations.
Local Open Scope Z_scope.

Section PadLex.
  Context {A : Type} (c : A -> A -> Z) (pad : A).

  Fixpoint pad_l (l : list A) : Z :=
    match l with
    | [] => 0
    | x :: t => if c x pad =? 0 then pad_l t else c x pad
    end.
  Fixpoint pad_r (l : list A) : Z :=
    match l with
    | [] => 0
    | y :: t => if c pad y =? 0 then pad_r t else c pad y
    end.
  Fixpoint pad_lex (l1 l2 : list A) : Z :=
    match l1, l2 with
    | [], _ => pad_r l2
    | _, [] => pad_l l1
    | x :: t1, y :: t2 => if c x y =? 0 then pad_lex t1 t2 else c x y
    end.

  Definition padto (n : nat) (l : list A) : list A := l ++ repeat pad (n - length l).

  Context (P : A -> Prop) (Hc : cmp_core P c) (Hp : P pad).

  Lemma lex_repeat short n : list_lex c short (repeat pad n) (repeat pad n) = 0.
  Proof. induction n; simpl; auto. rewrite (cc_refl _ _ Hc) by auto. simpl. auto. Qed.

  Lemma padto_nil n : padto n [] = repeat pad n.
  Proof. unfold padto. simpl. rewrite Nat.sub_0_r. reflexivity. Qed.

  Lemma padto_cons n x l : padto (S n) (x :: l) = x :: padto n l.
  Proof. reflexivity. Qed.

  Lemma pad_l_ext short l : forall n, (length l <= n)%nat ->
    pad_l l = list_lex c short (padto n l) (repeat pad n).
  Proof.
    induction l as [|x t IH]; intros n Hn.
    - rewrite padto_nil, lex_repeat. reflexivity.
    - destruct n as [|n]; [simpl in Hn; lia|]. rewrite padto_cons. simpl in *.
      rewrite (IH n) by lia. reflexivity.
  Qed.

  Lemma pad_r_ext short l : forall n, (length l <= n)%nat ->
    pad_r l = list_lex c short (repeat pad n) (padto n l).
  Proof.
    induction l as [|x t IH]; intros n Hn.
    - rewrite padto_nil, lex_repeat. reflexivity.
    - destruct n as [|n]; [simpl in Hn; lia|]. rewrite padto_cons. simpl in *.
      rewrite (IH n) by lia. reflexivity.
  Qed.

  Lemma pad_lex_ext short l1 : forall l2 n, (length l1 <= n)%nat -> (length l2 <= n)%nat ->
    pad_lex l1 l2 = list_lex c short (padto n l1) (padto n l2).
  Proof.
    induction l1 as [|x t1 IH]; intros l2 n H1 H2.
    - assert (E : pad_lex [] l2 = pad_r l2) by (destruct l2; reflexivity).
      rewrite E, (padto_nil n). apply pad_r_ext; auto.
    - destruct l2 as [|y t2].
      + change (pad_lex (x :: t1) []) with (pad_l (x :: t1)). rewrite (padto_nil n).
        apply (pad_l_ext short (x :: t1)); auto.
      + destruct n as [|n]; [simpl in H1; lia|]. rewrite !padto_cons. simpl in *.
        rewrite (IH t2 n) by lia. reflexivity.
  Qed.

  Lemma padto_Forall n l : Forall P l -> Forall P (padto n l).
  Proof.
    intros H. unfold padto. apply Forall_app; split; auto.
    apply Forall_forall. intros x Hx. apply repeat_spec in Hx. subst; auto.
  Qed.

  Lemma core_pad_lex : cmp_core (Forall P) pad_lex.
  Proof.
    pose proof (core_list_lex c 1 P Hc ltac:(lia)) as [R S T C].
    split.
    - intros a Pa. rewrite (pad_lex_ext 1 a a (length a)) by lia. apply R, padto_Forall; auto.
    - intros a b Pa Pb. set (n := Nat.max (length a) (length b)).
      rewrite (pad_lex_ext 1 a b n), (pad_lex_ext 1 b a n) by lia.
      apply S; apply padto_Forall; auto.
    - intros a b x Pa Pb Px. set (n := Nat.max (length a) (Nat.max (length b) (length x))).
      rewrite (pad_lex_ext 1 a b n), (pad_lex_ext 1 b x n), (pad_lex_ext 1 a x n) by lia.
      apply T; apply padto_Forall; auto.
    - intros a b x Pa Pb Px. set (n := Nat.max (length a) (Nat.max (length b) (length x))).
      rewrite (pad_lex_ext 1 a b n), (pad_lex_ext 1 b x n), (pad_lex_ext 1 a x n) by lia.
      apply C; apply padto_Forall; auto.
  Qed.

  (* a zero result with a longer first list: the extra elements are equivalent to the padding *)
  Lemma pad_l_zero l : pad_l l = 0 -> Forall (fun x => c x pad = 0) l.
  Proof.
    induction l as [|x t IH]; simpl; intros H; constructor.
    - destruct (Z.eqb_spec (c x pad) 0); auto.
    - apply IH. destruct (Z.eqb_spec (c x pad) 0); auto. contradiction.
  Qed.
  Lemma pad_r_zero l : pad_r l = 0 -> Forall (fun y => c pad y = 0) l.
  Proof.
    induction l as [|x t IH]; simpl; intros H; constructor.
    - destruct (Z.eqb_spec (c pad x) 0); auto.
    - apply IH. destruct (Z.eqb_spec (c pad x) 0); auto. contradiction.
  Qed.

  Lemma pad_lex_zero_tail l1 : forall l2, pad_lex l1 l2 = 0 ->
    Forall (fun x => c x pad = 0) (skipn (length l2) l1) /\
    Forall (fun y => c pad y = 0) (skipn (length l1) l2).
  Proof.
    induction l1 as [|x t1 IH]; intros l2 H.
    - simpl in H. split; [destruct (length l2); constructor | simpl; apply pad_r_zero; auto].
    - destruct l2 as [|y t2].
      + split; [apply pad_l_zero; auto | constructor].
      + simpl in H. destruct (Z.eqb_spec (c x y) 0); [|contradiction]. simpl. apply IH; auto.
  Qed.
End PadLex.
