(* Programs that interact with a store only through queries (a free monad over client
   calls), and the interleaving theorem used by C05 and C18: when answering a query never
   changes the store, any interleaving of the queries of several programs returns to each
   program exactly what it returns when run alone. *)
From Coq Require Import List Arith Lia.
Import ListNotations.

Section Interleave.
  Context {Q Ans St A : Type}.
  (* the handler: answering a query; the store it returns *)
  Context (answer : St -> Q -> Ans) (after : St -> Q -> St).

  Inductive prog : Type :=
  | Ret (a : A)
  | Call (q : Q) (k : Ans -> prog).

  (* running one program alone against the store, threading the store *)
  Fixpoint run_alone (p : prog) (s : St) : A * St :=
    match p with
    | Ret a => (a, s)
    | Call q k => run_alone (k (answer s q)) (after s q)
    end.

  (* one scheduling step: program number i, if it is at a call, performs it *)
  Definition step (i : nat) (cfg : list prog * St) : list prog * St :=
    let '(ps, s) := cfg in
    match nth_error ps i with
    | Some (Call q k) =>
        (firstn i ps ++ k (answer s q) :: skipn (S i) ps, after s q)
    | _ => cfg
    end.

  Definition run_schedule (sched : list nat) (cfg : list prog * St) : list prog * St :=
    fold_left (fun c i => step i c) sched cfg.

  (* Hypothesis of the theorem: queries are reads. *)
  Definition read_only : Prop := forall s q, after s q = s.

  Lemma run_alone_store (H : read_only) p s : snd (run_alone p s) = s.
  Proof.
    revert s. induction p as [a|q k IH]; intros s; simpl; auto.
    rewrite H. apply IH.
  Qed.

  Lemma nth_firstn_lt {B} (l : list B) : forall i j, j < i -> nth_error (firstn i l) j = nth_error l j.
  Proof.
    induction l as [|b l IH]; intros [|i] [|j] Hlt; simpl; auto; try lia.
    apply IH. lia.
  Qed.

  Lemma nth_skipn_add {B} (l : list B) : forall i j, nth_error (skipn i l) j = nth_error l (i + j).
  Proof.
    induction l as [|b l IH]; intros [|i] j; simpl; auto.
    destruct j; reflexivity.
  Qed.

  Lemma nth_error_replace {B} (l : list B) i x y j :
    nth_error l i = Some x ->
    nth_error (firstn i l ++ y :: skipn (S i) l) j = if Nat.eqb j i then Some y else nth_error l j.
  Proof.
    intros Hi.
    assert (Hlen : i < length l) by (apply nth_error_Some; congruence).
    destruct (Nat.eqb_spec j i) as [->|Hne].
    - rewrite nth_error_app2; rewrite firstn_length_le by lia; [|lia].
      rewrite Nat.sub_diag. reflexivity.
    - destruct (Nat.lt_ge_cases j i) as [Hlt|Hge].
      + rewrite nth_error_app1 by (rewrite firstn_length_le; lia).
        apply nth_firstn_lt; auto.
      + rewrite nth_error_app2; rewrite firstn_length_le by lia; [|lia].
        destruct (j - i) as [|d] eqn:E; [lia|]. cbn [nth_error].
        rewrite nth_skipn_add. f_equal. lia.
  Qed.

  (* Invariant: what each program would return alone never changes along the schedule,
     and the store never changes. *)
  Theorem interleaving (H : read_only) sched ps s :
    let '(ps', s') := run_schedule sched (ps, s) in
    s' = s /\ length ps' = length ps /\
    forall j p p', nth_error ps j = Some p -> nth_error ps' j = Some p' ->
                   fst (run_alone p' s) = fst (run_alone p s).
  Proof.
    revert ps. induction sched as [|i sched IH]; intros ps.
    - simpl. split; auto. split; auto. intros j p p' H1 H2. congruence.
    - change (run_schedule (i :: sched) (ps, s)) with (run_schedule sched (step i (ps, s))).
      unfold step.
      destruct (nth_error ps i) as [[a|q k]|] eqn:E; try apply IH.
      rewrite H.
      specialize (IH (firstn i ps ++ k (answer s q) :: skipn (S i) ps)).
      destruct (run_schedule sched (firstn i ps ++ k (answer s q) :: skipn (S i) ps, s)) as [ps' s'].
      destruct IH as (Hs & Hl & Hr).
      assert (Hlen : i < length ps) by (apply nth_error_Some; congruence).
      split; auto. split.
      + rewrite Hl, app_length, firstn_length_le by lia. cbn [length]. rewrite skipn_length. lia.
      + intros j p p' H1 H2.
        pose proof (nth_error_replace ps i (Call q k) (k (answer s q)) j E) as Hn.
        destruct (Nat.eqb_spec j i) as [->|Hne].
        * rewrite (Hr i (k (answer s q)) p' Hn H2).
          rewrite E in H1. inversion H1; subst. cbn [run_alone]. rewrite H. reflexivity.
        * rewrite H1 in Hn. apply (Hr j p p' Hn H2).
  Qed.

  Lemma interleaving_store (H : read_only) sched : forall ps s, snd (run_schedule sched (ps, s)) = s.
  Proof.
    induction sched as [|i sched IH]; intros ps s; [reflexivity|].
    change (run_schedule (i :: sched) (ps, s)) with (run_schedule sched (step i (ps, s))).
    unfold step. destruct (nth_error ps i) as [[a|q k]|]; try apply IH.
    rewrite H. apply IH.
  Qed.

  (* Corollary: whenever program j has finished under some interleaving, its result is its
     sequential result. *)
  Corollary interleaved_result (H : read_only) sched ps s j p a :
    nth_error ps j = Some p ->
    nth_error (fst (run_schedule sched (ps, s))) j = Some (Ret a) ->
    a = fst (run_alone p s).
  Proof.
    intros H1 H2. pose proof (interleaving H sched ps s) as I.
    destruct (run_schedule sched (ps, s)) as [ps' s']. destruct I as (_ & _ & Hr).
    simpl in H2. specialize (Hr j p (Ret a) H1 H2). simpl in Hr. auto.
  Qed.
End Interleave.
