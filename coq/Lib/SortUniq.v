(* Lemmas about Lib/Sort.v: insertion sort yields a sorted permutation, and for a comparator
   that separates distinct elements the sorted permutation is unique (DESIGN 3.5). *)
From Coq Require Import List ZArith Lia Bool Sorting.Sorted Sorting.Permutation.
From DepsDev Require Import Lib.Order Lib.Sort.
Import ListNotations.
Local Open Scope Z_scope.

Section Generic.
  Context {A : Type}.

  Lemma SS_app (R : A -> A -> Prop) l1 : forall l2,
    StronglySorted R l1 -> StronglySorted R l2 ->
    (forall a b, In a l1 -> In b l2 -> R a b) -> StronglySorted R (l1 ++ l2).
  Proof.
    induction l1 as [|x t IH]; intros l2 H1 H2 H; simpl; auto.
    inversion H1; subst. constructor.
    - apply IH; auto. intros; apply H; simpl; auto.
    - apply Forall_app; split; auto.
      apply Forall_forall. intros b Hb. apply H; simpl; auto.
  Qed.

  Lemma SS_rev (R : A -> A -> Prop) l :
    StronglySorted R l -> StronglySorted (fun a b => R b a) (rev l).
  Proof.
    induction 1 as [|x t Ht IH Hx]; simpl; [constructor|].
    apply SS_app; auto.
    - repeat constructor.
    - intros a b Ha [<-|[]]. apply in_rev in Ha.
      rewrite Forall_forall in Hx. auto.
  Qed.

  Lemma SS_in (R : A -> A -> Prop) x l :
    StronglySorted R (x :: l) -> forall y, In y l -> R x y.
  Proof. intros H; inversion H; subst. rewrite <- Forall_forall; auto. Qed.

  Lemma ins_back_perm (less : A -> A -> bool) x rp : Permutation (ins_back less x rp) (x :: rp).
  Proof.
    induction rp as [|y t IH]; simpl; auto.
    destruct (less x y); auto.
    rewrite IH. apply perm_swap.
  Qed.

  Lemma isort_fold_perm (less : A -> A -> bool) l : forall acc,
    Permutation (fold_left (fun rp x => ins_back less x rp) l acc) (l ++ acc).
  Proof.
    induction l as [|x t IH]; intros acc; simpl; auto.
    rewrite IH. rewrite ins_back_perm. symmetry. apply Permutation_middle.
  Qed.

  Lemma isort_perm (less : A -> A -> bool) l : Permutation (isort less l) l.
  Proof.
    unfold isort. rewrite <- Permutation_rev. rewrite isort_fold_perm. rewrite app_nil_r. auto.
  Qed.

  Lemma isort_nil (less : A -> A -> bool) : isort less [] = [].
  Proof. reflexivity. Qed.

  Lemma isort_length (less : A -> A -> bool) l : length (isort less l) = length l.
  Proof. apply Permutation_length, isort_perm. Qed.

  Lemma isort_in (less : A -> A -> bool) l x : In x (isort less l) <-> In x l.
  Proof.
    split; apply Permutation_in; [apply isort_perm | symmetry; apply isort_perm].
  Qed.
End Generic.

(* ---- comparators given as a three-way function with the laws of Lib/Order.v ---- *)
Section Laws.
  Context {A : Type} (P : A -> Prop) (c : A -> A -> Z) (less : A -> A -> bool).
  Hypothesis HL : cmp_laws P c.
  Hypothesis Hless : forall a b, P a -> P b -> less a b = (c a b <? 0).

  Definition cle (a b : A) : Prop := c a b <= 0.

  Lemma ins_back_sorted x rp :
    P x -> Forall P rp ->
    StronglySorted (fun a b => cle b a) rp ->
    StronglySorted (fun a b => cle b a) (ins_back less x rp).
  Proof.
    intros Px. induction rp as [|y t IH]; intros HP HS; simpl.
    - repeat constructor.
    - inversion HP as [|? ? Py Pt]; subst. inversion HS as [|? ? HSt Hy]; subst.
      rewrite Hless by auto.
      destruct (Z.ltb_spec (c x y) 0) as [Hlt|Hge].
      + constructor; [apply IH; auto|].
        apply Forall_forall. intros z Hz.
        apply (Permutation_in _ (ins_back_perm less x t)) in Hz.
        destruct Hz as [<-|Hz]; [unfold cle; lia|].
        rewrite Forall_forall in Hy; auto.
      + assert (Hyx : cle y x).
        { unfold cle. pose proof (cl_antisym _ _ HL x y Px Py). lia. }
        constructor; auto.
        constructor; auto.
        apply Forall_forall. intros z Hz.
        rewrite Forall_forall in Hy, Pt.
        unfold cle in *. apply (cl_trans _ _ HL z y x); auto.
  Qed.

  Lemma isort_fold_sorted l : forall acc,
    Forall P l -> Forall P acc ->
    StronglySorted (fun a b => cle b a) acc ->
    StronglySorted (fun a b => cle b a) (fold_left (fun rp x => ins_back less x rp) l acc).
  Proof.
    induction l as [|x t IH]; intros acc Hl Hacc HS; simpl; auto.
    inversion Hl; subst.
    apply IH; auto.
    - eapply Permutation_Forall; [symmetry; apply ins_back_perm|]. constructor; auto.
    - apply ins_back_sorted; auto.
  Qed.

  (* insertion sort returns an ascending list *)
  Lemma isort_sorted l : Forall P l -> StronglySorted cle (isort less l).
  Proof.
    intros Hl. unfold isort.
    pose proof (isort_fold_sorted l [] Hl (Forall_nil _) (SSorted_nil _)) as H.
    apply SS_rev in H. exact H.
  Qed.

  (* DESIGN 3.5: when the comparator separates the elements of the list (equivalence is
     equality), any two ascending permutations of it are the same list. *)
  Lemma sorted_perm_unique l1 : forall l2,
    Forall P l1 ->
    (forall a b, In a l1 -> In b l1 -> c a b = 0 -> a = b) ->
    StronglySorted cle l1 -> StronglySorted cle l2 -> Permutation l1 l2 -> l1 = l2.
  Proof.
    induction l1 as [|a t1 IH]; intros l2 HP Hsep H1 H2 Hp.
    - apply Permutation_nil in Hp. auto.
    - destruct l2 as [|b t2]; [symmetry in Hp; apply Permutation_nil in Hp; discriminate|].
      assert (Eab : a = b).
      { assert (Ia : In a (b :: t2)) by (eapply Permutation_in; [exact Hp|simpl; auto]).
        assert (Ib : In b (a :: t1)) by (eapply Permutation_in; [symmetry; exact Hp|simpl; auto]).
        destruct Ia as [->|Ia]; auto. destruct Ib as [->|Ib]; auto.
        pose proof (SS_in _ _ _ H2 a Ia) as Hba. pose proof (SS_in _ _ _ H1 b Ib) as Hab.
        unfold cle in *.
        assert (Pa : P a) by (inversion HP; auto).
        assert (Pb : P b) by (rewrite Forall_forall in HP; apply HP; simpl; auto).
        pose proof (cl_antisym _ _ HL a b Pa Pb).
        apply Hsep; simpl; auto. lia. }
      subst b. f_equal.
      apply Permutation_cons_inv in Hp.
      inversion HP; inversion H1; inversion H2; subst.
      apply IH; auto. intros; apply Hsep; simpl; auto.
  Qed.

  (* hence insertion sort does not depend on the order of its input *)
  Lemma isort_perm_unique l l' :
    Forall P l ->
    (forall a b, In a l -> In b l -> c a b = 0 -> a = b) ->
    Permutation l l' -> isort less l = isort less l'.
  Proof.
    intros HP Hsep Hp.
    assert (HP' : Forall P l') by (eapply Permutation_Forall; eauto).
    apply sorted_perm_unique.
    - eapply Permutation_Forall; [symmetry; apply isort_perm|]; auto.
    - intros a b Ha Hb. apply isort_in in Ha. apply isort_in in Hb. auto.
    - apply isort_sorted; auto.
    - apply isort_sorted; auto.
    - rewrite (isort_perm less l), (isort_perm less l'). auto.
  Qed.

  (* ... and equals every other ascending permutation (whatever algorithm produced it) *)
  Lemma isort_is_the_sorted_perm l s :
    Forall P l ->
    (forall a b, In a l -> In b l -> c a b = 0 -> a = b) ->
    Permutation s l -> StronglySorted cle s -> s = isort less l.
  Proof.
    intros HP Hsep Hp Hs. symmetry.
    apply sorted_perm_unique; auto.
    - eapply Permutation_Forall; [symmetry; apply isort_perm|]; auto.
    - intros a b Ha Hb. apply isort_in in Ha. apply isort_in in Hb. auto.
    - apply isort_sorted; auto.
    - rewrite (isort_perm less l). symmetry; auto.
  Qed.

  Lemma isort_idem l :
    Forall P l ->
    (forall a b, In a l -> In b l -> c a b = 0 -> a = b) ->
    isort less (isort less l) = isort less l.
  Proof.
    intros HP Hsep. symmetry. apply isort_perm_unique; auto. symmetry. apply isort_perm.
  Qed.
End Laws.
