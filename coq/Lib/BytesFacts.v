(* Elementary facts about byte strings (bytes_eqb, bytes_compare). *)
From Coq Require Import Lia.
From DepsDev Require Import Lib.Base.
Local Open Scope Z_scope.

Lemma beqb_eq a : forall b, bytes_eqb a b = true -> a = b.
Proof.
  induction a as [|x a IH]; intros [|y b]; simpl; intros H; try discriminate; auto.
  apply andb_true_iff in H. destruct H as [H1 H2]. apply N.eqb_eq in H1. subst. f_equal. auto.
Qed.
Lemma beqb_refl a : bytes_eqb a a = true.
Proof. induction a; simpl; auto. rewrite N.eqb_refl. auto. Qed.
Lemma beqb_neq a b : bytes_eqb a b = false -> a <> b.
Proof. intros H E. subst. rewrite beqb_refl in H. discriminate. Qed.
Lemma beqb_false a b : a <> b -> bytes_eqb a b = false.
Proof. intros H. destruct (bytes_eqb a b) eqn:E; auto. apply beqb_eq in E. contradiction. Qed.
Lemma beqb_sym a b : bytes_eqb a b = bytes_eqb b a.
Proof.
  destruct (bytes_eqb a b) eqn:E.
  - apply beqb_eq in E. subst. symmetry. apply beqb_refl.
  - symmetry. apply beqb_false. intros F. subst. rewrite beqb_refl in E. discriminate.
Qed.
Lemma bcmp_eq a : forall b, bytes_compare a b = 0 -> a = b.
Proof.
  induction a as [|x a IH]; intros [|y b]; simpl; intros H; try discriminate; auto.
  destruct (N.compare_spec x y); try discriminate. subst. f_equal. auto.
Qed.
Lemma bcmp_refl a : bytes_compare a a = 0.
Proof. induction a; simpl; auto. rewrite N.compare_refl. auto. Qed.
Lemma bcmp_eqb a b : (bytes_compare a b =? 0) = bytes_eqb a b.
Proof.
  destruct (bytes_eqb a b) eqn:E.
  - apply beqb_eq in E. subst. rewrite bcmp_refl. reflexivity.
  - apply Z.eqb_neq. intros F. apply bcmp_eq in F. subst. rewrite beqb_refl in E. discriminate.
Qed.
