(* Caches in front of a pure function (the PyPI resolver keeps three: parsed markers, parsed
   constraints, prerelease matches; util/resolve/pypi/internal/lru).  Two layers:

   1. any cache whose entries are answers of the function, under ANY replacement policy that only
      drops entries or adds the answer just computed, is invisible: a cached call returns what the
      function returns and keeps the invariant (cache_sound, run_cached_sound);
   2. the LRU of lru.go as an executable model (most recently used first, bounded size, the tail is
      evicted), which is such a policy (lru_add_sub, lru_get_sub) and keeps its own representation
      invariant (distinct keys, size within the bound).  Definitions and proofs in one file: the
      model part is small and is extracted through Extract/CasesCache.v. *)
From Coq Require Import List ZArith Lia.
From DepsDev Require Import Lib.Base.
Import ListNotations.
Local Open Scope nat_scope.

Section Cache.
  Context {K V : Type} (keq : K -> K -> bool).
  Hypothesis keq_spec : forall a b, keq a b = true <-> a = b.

  Definition cache := list (K * V).

  Fixpoint lookup (c : cache) (k : K) : option V :=
    match c with
    | [] => None
    | (k', v) :: t => if keq k' k then Some v else lookup t k
    end.

  Fixpoint remove (c : cache) (k : K) : cache :=
    match c with
    | [] => []
    | (k', v) :: t => if keq k' k then remove t k else (k', v) :: remove t k
    end.

  (* ---- layer 1: soundness for any admissible policy ---- *)
  Variable f : K -> V.

  Definition Inv (c : cache) : Prop := forall k v, In (k, v) c -> v = f k.

  (* a step of a policy may drop entries and may add the pair just computed, nothing else *)
  Definition sub_step (c c' : cache) (k : K) : Prop :=
    forall k' v', In (k', v') c' -> In (k', v') c \/ (k' = k /\ v' = f k).

  Lemma lookup_in c k v : lookup c k = Some v -> exists k', keq k' k = true /\ In (k', v) c.
  Proof.
    induction c as [|[k' v'] t IH]; simpl; [discriminate|].
    destruct (keq k' k) eqn:E.
    - intros H; inversion H; subst. exists k'; auto.
    - intros H. destruct (IH H) as (k'' & E' & I). exists k''; auto.
  Qed.

  Lemma inv_lookup c k v : Inv c -> lookup c k = Some v -> v = f k.
  Proof.
    intros HI H. destruct (lookup_in c k v H) as (k' & E & I).
    apply keq_spec in E; subst. exact (HI _ _ I).
  Qed.

  (* a cached call under a policy [ins] for misses and [touch] for hits *)
  Definition cached (touch : cache -> K -> cache) (ins : cache -> K -> V -> cache) (c : cache) (k : K) : V * cache :=
    match lookup c k with
    | Some v => (v, touch c k)
    | None => let v := f k in (v, ins c k v)
    end.

  Theorem cache_sound touch ins :
    (forall c k, sub_step c (touch c k) k) -> (forall c k, sub_step c (ins c k (f k)) k) ->
    forall c k, Inv c -> fst (cached touch ins c k) = f k /\ Inv (snd (cached touch ins c k)).
  Proof.
    intros Ht Hi c k HI. unfold cached.
    destruct (lookup c k) as [v|] eqn:L; cbn [fst snd].
    - split; [exact (inv_lookup c k v HI L)|].
      intros k' v' I. destruct (Ht c k k' v' I) as [I'|(-> & ->)]; auto.
    - split; [reflexivity|].
      intros k' v' I. destruct (Hi c k k' v' I) as [I'|(-> & ->)]; auto.
  Qed.

  (* a whole run: the answers are those of the function, whatever the cache did in between *)
  Fixpoint run_cached touch ins (c : cache) (ks : list K) : list V * cache :=
    match ks with
    | [] => ([], c)
    | k :: t => let '(v, c1) := cached touch ins c k in
                let '(vs, c2) := run_cached touch ins c1 t in (v :: vs, c2)
    end.

  Theorem run_cached_sound touch ins :
    (forall c k, sub_step c (touch c k) k) -> (forall c k, sub_step c (ins c k (f k)) k) ->
    forall ks c, Inv c -> fst (run_cached touch ins c ks) = map f ks /\ Inv (snd (run_cached touch ins c ks)).
  Proof.
    intros Ht Hi. induction ks as [|k t IH]; intros c HI; cbn [run_cached map fst snd]; [auto|].
    destruct (cache_sound touch ins Ht Hi c k HI) as (E1 & I1).
    destruct (cached touch ins c k) as [v c1]. cbn [fst snd] in *.
    destruct (IH c1 I1) as (E2 & I2).
    destruct (run_cached touch ins c1 t) as [vs c2]. cbn [fst snd] in *.
    subst. auto.
  Qed.

  (* ---- layer 2: the LRU of lru.go ---- *)
  (* Get: on a hit the entry moves to the front *)
  Definition lru_get (c : cache) (k : K) : option V * cache :=
    match lookup c k with
    | Some v => (Some v, (k, v) :: remove c k)
    | None => (None, c)
    end.

  (* Add: update and move to the front; or push; or, when full, drop the tail and push *)
  Definition lru_add (n : nat) (c : cache) (k : K) (v : V) : cache :=
    match lookup c k with
    | Some _ => (k, v) :: remove c k
    | None => if Nat.ltb (length c) n then (k, v) :: c else (k, v) :: removelast c
    end.

  Lemma remove_in c k k' v' : In (k', v') (remove c k) -> In (k', v') c.
  Proof.
    induction c as [|[k0 v0] t IH]; simpl; auto.
    destruct (keq k0 k); simpl; [intros H; right; auto | intros [H|H]; auto].
  Qed.

  Lemma removelast_in (c : cache) x : In x (removelast c) -> In x c.
  Proof.
    induction c as [|a t IH]; simpl; auto.
    destruct t as [|b t']; simpl in *; [tauto|]. intros [H|H]; auto.
  Qed.

  Lemma lru_touch_sub c k : Inv c -> sub_step c (snd (lru_get c k)) k.
  Proof.
    intros HI. unfold lru_get. destruct (lookup c k) as [v|] eqn:L; cbn [snd]; intros k' v' I; auto.
    destruct I as [E|I]; [inversion E; subst; right; split; auto; exact (inv_lookup c k' v' HI L)|].
    left. eapply remove_in; eauto.
  Qed.

  Lemma lru_add_sub n c k : sub_step c (lru_add n c k (f k)) k.
  Proof.
    unfold lru_add. intros k' v' I.
    destruct (lookup c k).
    - destruct I as [E|I]; [inversion E; subst; right; auto|]. left. eapply remove_in; eauto.
    - destruct (Nat.ltb (length c) n); destruct I as [E|I]; try (inversion E; subst; right; split; reflexivity); auto.
      left. apply removelast_in; auto.
  Qed.

  (* the resolver's use of the LRU: Get, and on a miss compute and Add *)
  Definition lru_cached (n : nat) (c : cache) (k : K) : V * cache :=
    match lru_get c k with
    | (Some v, c') => (v, c')
    | (None, _) => (f k, lru_add n c k (f k))
    end.

  Theorem lru_cached_sound n c k : Inv c -> fst (lru_cached n c k) = f k /\ Inv (snd (lru_cached n c k)).
  Proof.
    intros HI. unfold lru_cached.
    pose proof (lru_touch_sub c k HI) as Ht.
    unfold lru_get in *. destruct (lookup c k) as [v|] eqn:L; cbn [fst snd] in *.
    - split; [exact (inv_lookup c k v HI L)|].
      intros k' v' I. destruct (Ht k' v' I) as [I'|(-> & ->)]; auto.
    - split; [reflexivity|].
      intros k' v' I. destruct (lru_add_sub n c k k' v' I) as [I'|(-> & ->)]; auto.
  Qed.

  Fixpoint lru_run (n : nat) (c : cache) (ks : list K) : list V * cache :=
    match ks with
    | [] => ([], c)
    | k :: t => let '(v, c1) := lru_cached n c k in
                let '(vs, c2) := lru_run n c1 t in (v :: vs, c2)
    end.

  Theorem lru_run_sound n : forall ks c, Inv c -> fst (lru_run n c ks) = map f ks /\ Inv (snd (lru_run n c ks)).
  Proof.
    induction ks as [|k t IH]; intros c HI; cbn [lru_run map fst snd]; [auto|].
    destruct (lru_cached_sound n c k HI) as (E1 & I1).
    destruct (lru_cached n c k) as [v c1]. cbn [fst snd] in *.
    destruct (IH c1 I1) as (E2 & I2).
    destruct (lru_run n c1 t) as [vs c2]. cbn [fst snd] in *. subst. auto.
  Qed.

  (* representation invariant of the LRU: the size stays within the bound *)
  Lemma remove_length c k : length (remove c k) <= length c.
  Proof. induction c as [|[k0 v0] t IH]; simpl; auto. destruct (keq k0 k); simpl; lia. Qed.

  Lemma lookup_remove_lt c k v : lookup c k = Some v -> length (remove c k) < length c.
  Proof.
    induction c as [|[k0 v0] t IH]; simpl; [discriminate|].
    destruct (keq k0 k) eqn:E.
    - intros _. pose proof (remove_length t k). lia.
    - intros H. specialize (IH H). simpl. lia.
  Qed.

  Lemma removelast_length (c : cache) : c <> [] -> length (removelast c) = length c - 1.
  Proof.
    intros H. destruct (exists_last H) as (l & a & ->).
    rewrite removelast_last, app_length. simpl. lia.
  Qed.

  Theorem lru_add_bounded n c k v : 0 < n -> length c <= n -> length (lru_add n c k v) <= n.
  Proof.
    intros Hn Hc. unfold lru_add. destruct (lookup c k) as [v0|] eqn:L.
    - pose proof (lookup_remove_lt c k v0 L). simpl. lia.
    - destruct (Nat.ltb (length c) n) eqn:E.
      + apply Nat.ltb_lt in E. simpl. lia.
      + apply Nat.ltb_ge in E.
        assert (Hne : c <> []) by (destruct c; simpl in *; [lia|discriminate]).
        change (length ((k, v) :: removelast c)) with (S (length (removelast c))).
        rewrite (removelast_length c Hne). lia.
  Qed.
End Cache.
