(* Lemmas about the specification-level sort of Lib/Sort.v.
   Main result: sorted_perm_unique -- for a comparator satisfying cmp_laws whose
   equivalence is equality on the elements of the list, any two sorted permutations of
   the same multiset are equal.  Hence "the sorted list" is well defined without
   reference to the sorting algorithm (DESIGN 3.5). *)
From Coq Require Import List ZArith Lia Permutation Sorted Bool.
From DepsDev Require Import Lib.Order Lib.SortZ.
Import ListNotations.
Local Open Scope Z_scope.

Section SortSpec.
  Context {A : Type} (c : A -> A -> Z) (P : A -> Prop).
  Hypothesis L : cmp_laws P c.

  Definition le (a b : A) : Prop := c a b <= 0.
  Definition sorted (l : list A) : Prop := StronglySorted le l.

  (* no two elements at different positions compare equal *)
  Definition nodup_c (l : list A) : Prop := ForallOrdPairs (fun x y => c x y <> 0) l.
  (* the equivalence of the comparator is equality on the elements of l *)
  Definition eq_on (l : list A) : Prop := forall x y, In x l -> In y l -> c x y = 0 -> x = y.

  Lemma insert_perm x l : Permutation (insert c x l) (x :: l).
  Proof.
    induction l as [|y t IH]; simpl; auto.
    destruct (c x y <=? 0); auto.
    eapply perm_trans; [apply perm_skip; apply IH | apply perm_swap].
  Qed.

  Lemma isort_perm l : Permutation (isort c l) l.
  Proof.
    induction l as [|x t IH]; simpl; auto.
    eapply perm_trans; [apply insert_perm | apply perm_skip; auto].
  Qed.

  Lemma isort_length l : length (isort c l) = length l.
  Proof. apply Permutation_length, isort_perm. Qed.

  Lemma Forall_perm (Q : A -> Prop) l l' : Permutation l l' -> Forall Q l -> Forall Q l'.
  Proof.
    intros Hp H. apply Forall_forall. intros x Hx.
    rewrite Forall_forall in H. apply H. eapply Permutation_in; [apply Permutation_sym; eauto | auto].
  Qed.

  Lemma insert_sorted x l : P x -> Forall P l -> sorted l -> sorted (insert c x l).
  Proof.
    intros Px Pl Hs. induction Hs as [|y t Hs IH Hy]; simpl.
    - constructor; constructor.
    - inversion Pl as [|? ? Py Pt]; subst.
      destruct (Z.leb_spec (c x y) 0) as [Hle|Hgt].
      + constructor; [constructor; auto|].
        constructor; auto.
        rewrite Forall_forall in *. intros z Hz. unfold le in *.
        eapply (cl_trans _ _ L x y z); auto.
      + constructor; [apply IH; auto|].
        apply (Forall_perm _ (x :: t)); [apply Permutation_sym, insert_perm|].
        constructor; auto. unfold le.
        pose proof (cl_antisym _ _ L x y Px Py). lia.
  Qed.

  Lemma isort_sorted l : Forall P l -> sorted (isort c l).
  Proof.
    induction 1 as [|x t Px Pt IH]; simpl; [constructor|].
    apply insert_sorted; auto.
    apply (Forall_perm _ t); auto. apply Permutation_sym, isort_perm.
  Qed.

  Lemma isort_sorted_id l : sorted l -> isort c l = l.
  Proof.
    induction 1 as [|x t Hs IH Hx]; simpl; auto.
    rewrite IH. destruct t as [|y t']; simpl; auto.
    inversion Hx; subst. unfold le in *.
    destruct (Z.leb_spec (c x y) 0); auto; lia.
  Qed.

  Theorem sorted_perm_unique l1 : forall l2,
    Forall P l1 -> Permutation l1 l2 -> sorted l1 -> sorted l2 -> eq_on l1 -> l1 = l2.
  Proof.
    induction l1 as [|a t1 IH]; intros l2 HP Hp H1 H2 He.
    - apply Permutation_nil in Hp. auto.
    - destruct l2 as [|b t2]; [apply Permutation_sym, Permutation_nil in Hp; discriminate|].
      inversion H1 as [|? ? S1 F1]; inversion H2 as [|? ? S2 F2]; subst.
      inversion HP as [|? ? Pa Pt]; subst.
      assert (Pl2 : Forall P (b :: t2)) by (eapply Forall_perm; eauto).
      inversion Pl2 as [|? ? Pb _]; subst.
      assert (E : a = b).
      { assert (Hb : In b (a :: t1)) by (eapply Permutation_in; [apply Permutation_sym; eauto | left; auto]).
        assert (Ha : In a (b :: t2)) by (eapply Permutation_in; [eauto | left; auto]).
        assert (Lab : c a b <= 0).
        { destruct Hb as [->|Hb]; [rewrite (cl_refl _ _ L) by auto; lia|].
          rewrite Forall_forall in F1. apply F1; auto. }
        assert (Lba : c b a <= 0).
        { destruct Ha as [->|Ha]; [rewrite (cl_refl _ _ L) by auto; lia|].
          rewrite Forall_forall in F2. apply F2; auto. }
        apply He; [left; auto | auto |].
        pose proof (cl_antisym _ _ L a b Pa Pb). lia. }
      subst b. f_equal. apply IH; auto.
      + eapply Permutation_cons_inv; eauto.
      + intros x y Hx Hy. apply He; right; auto.
  Qed.

  Corollary isort_perm_eq l1 l2 : Forall P l1 -> Permutation l1 l2 -> eq_on l1 -> isort c l1 = isort c l2.
  Proof.
    intros HP Hp He.
    assert (P2 : Forall P l2) by (eapply Forall_perm; eauto).
    apply sorted_perm_unique.
    - eapply Forall_perm; [apply Permutation_sym, isort_perm | auto].
    - eapply perm_trans; [apply isort_perm|]. eapply perm_trans; [eauto|]. apply Permutation_sym, isort_perm.
    - apply isort_sorted; auto.
    - apply isort_sorted; auto.
    - intros x y Hx Hy. apply He; eapply Permutation_in; try apply isort_perm; auto.
  Qed.

  (* sorting a sorted permutation of l gives it back *)
  Corollary isort_unique l s : Forall P l -> Permutation l s -> sorted s -> eq_on l -> isort c l = s.
  Proof.
    intros HP Hp Hs He. rewrite (isort_perm_eq l s); auto. apply isort_sorted_id; auto.
  Qed.

  (* ---- duplicates ---- *)
  Lemma nodup_c_sym_head a l : P a -> Forall P l ->
    Forall (fun y => c a y <> 0) l -> Forall (fun y => c y a <> 0) l.
  Proof.
    intros Pa Pl H. rewrite Forall_forall in *. intros y Hy E.
    apply (H y Hy). pose proof (cl_antisym _ _ L a y Pa (Pl y Hy)). lia.
  Qed.

  Lemma nodup_c_perm l l' : Forall P l -> Permutation l l' -> nodup_c l -> nodup_c l'.
  Proof.
    intros HP Hp. revert HP. induction Hp; intros HP H.
    - constructor.
    - inversion H; inversion HP; subst. constructor.
      + eapply Forall_perm; eauto.
      + apply IHHp; auto.
    - inversion H as [|? ? Fy Hr]; subst. inversion Hr as [|? ? Fx Hl]; subst.
      inversion HP as [|? ? Py HP']; subst. inversion HP' as [|? ? Px Pl]; subst.
      inversion Fy as [|? ? Nyx Fyl]; subst.
      constructor; [constructor; auto|].
      + intros E. apply Nyx. pose proof (cl_antisym _ _ L y x Py Px). lia.
      + constructor; auto.
    - apply IHHp2; [eapply Forall_perm; eauto|]. apply IHHp1; auto.
  Qed.

  Lemma nodup_c_inj l : Forall P l -> nodup_c l -> eq_on l.
  Proof.
    intros HP H. induction H as [|a l Fa Hl IH]; intros x y Hx Hy E; [inversion Hx|].
    inversion HP as [|? ? Pa Pl]; subst.
    rewrite Forall_forall in Fa, Pl.
    destruct Hx as [<-|Hx], Hy as [<-|Hy]; auto.
    - exfalso. apply (Fa y Hy); auto.
    - exfalso. apply (Fa x Hx). pose proof (cl_antisym _ _ L a x Pa (Pl x Hx)). lia.
    - apply IH; auto. apply Forall_forall; auto.
  Qed.

  Lemma adj_dupe_sorted l : Forall P l -> sorted l -> (adj_dupe c l = false <-> nodup_c l).
  Proof.
    intros HP Hs. induction Hs as [|x t Hs IH Hx].
    - simpl. split; auto. intros _. constructor.
    - inversion HP as [|? ? Px Pt]; subst. specialize (IH Pt).
      destruct t as [|y t'].
      + simpl. split; auto. intros _. constructor; constructor.
      + change (adj_dupe c (x :: y :: t')) with ((c x y =? 0) || adj_dupe c (y :: t')).
        rewrite orb_false_iff, IH. split.
        * intros [Exy Hn]. apply Z.eqb_neq in Exy. constructor; auto.
          inversion Hx as [|? ? Lxy _]; subst. unfold le in Lxy.
          inversion Hs as [|? ? _ Fy]; subst.
          inversion Pt as [|? ? Py Pt']; subst.
          constructor; auto.
          rewrite Forall_forall in *. intros z Hz E.
          pose proof (cl_congr _ _ L x z y Px (Pt' z Hz) Py E) as Hc.
          pose proof (Fy z Hz) as Lyz. unfold le in Lyz.
          pose proof (cl_antisym _ _ L y z Py (Pt' z Hz)). lia.
        * intros H. inversion H as [|? ? Fx Hn]; subst. inversion Fx; subst.
          split; auto. apply Z.eqb_neq; auto.
  Qed.

  Corollary isort_dupe_iff l : Forall P l -> (adj_dupe c (isort c l) = false <-> nodup_c l).
  Proof.
    intros HP.
    assert (HP' : Forall P (isort c l)) by (eapply Forall_perm; [apply Permutation_sym, isort_perm | auto]).
    rewrite adj_dupe_sorted; auto using isort_sorted.
    split; intros H.
    - eapply (nodup_c_perm (isort c l) l); auto. apply isort_perm.
    - eapply (nodup_c_perm l (isort c l)); auto. apply Permutation_sym, isort_perm.
  Qed.

  Corollary isort_dupe_perm l l' : Forall P l -> Permutation l l' ->
    adj_dupe c (isort c l) = adj_dupe c (isort c l').
  Proof.
    intros HP Hp.
    assert (HP' : Forall P l') by (eapply Forall_perm; eauto).
    destruct (adj_dupe c (isort c l)) eqn:E1, (adj_dupe c (isort c l')) eqn:E2; auto.
    - apply isort_dupe_iff in E2; auto.
      assert (E3 : adj_dupe c (isort c l) = false); [|congruence].
      apply isort_dupe_iff; auto. apply (nodup_c_perm l' l); auto. apply Permutation_sym; auto.
    - apply isort_dupe_iff in E1; auto.
      assert (E3 : adj_dupe c (isort c l') = false); [|congruence].
      apply isort_dupe_iff; auto. apply (nodup_c_perm l l'); auto.
  Qed.
End SortSpec.

(* sorting commutes with a projection the comparator is pulled back along *)
Lemma insert_map {A B} (f : A -> B) (c : B -> B -> Z) x l :
  map f (insert (fun a b => c (f a) (f b)) x l) = insert c (f x) (map f l).
Proof.
  induction l as [|y t IH]; simpl; auto.
  destruct (c (f x) (f y) <=? 0); simpl; auto. rewrite IH; auto.
Qed.

Lemma isort_map {A B} (f : A -> B) (c : B -> B -> Z) l :
  map f (isort (fun a b => c (f a) (f b)) l) = isort c (map f l).
Proof.
  induction l as [|x t IH]; simpl; auto. rewrite insert_map, IH; auto.
Qed.

Lemma adj_dupe_map {A B} (f : A -> B) (c : B -> B -> Z) l :
  adj_dupe (fun a b => c (f a) (f b)) l = adj_dupe c (map f l).
Proof.
  induction l as [|x t IH]; simpl; auto.
  destruct t as [|y t']; simpl; auto. simpl in IH. rewrite IH. auto.
Qed.
