(* Comparator laws (total preorder given by a three-way comparison returning a Z)
   and the combinators that preserve them: pull-back, lexicographic product,
   lexicographic lists, options.  Used by C01, C12, C13, C19. *)
From Coq Require Import List ZArith NArith Lia Bool.
Import ListNotations.
Local Open Scope Z_scope.

Section Laws.
  Context {A : Type}.

  (* The four laws of the property statement, on a domain P. *)
  Record cmp_laws (P : A -> Prop) (c : A -> A -> Z) : Prop := {
    cl_refl : forall a, P a -> c a a = 0;
    cl_antisym : forall a b, P a -> P b -> Z.sgn (c a b) = - Z.sgn (c b a);
    cl_trans : forall a b x, P a -> P b -> P x -> c a b <= 0 -> c b x <= 0 -> c a x <= 0;
    cl_congr : forall a b x, P a -> P b -> P x -> c a b = 0 -> Z.sgn (c a x) = Z.sgn (c b x)
  }.

  (* An easier set of obligations that implies the laws. *)
  Record cmp_core (P : A -> Prop) (c : A -> A -> Z) : Prop := {
    cc_refl : forall a, P a -> c a a = 0;
    cc_antisym : forall a b, P a -> P b -> Z.sgn (c a b) = - Z.sgn (c b a);
    cc_lt_trans : forall a b x, P a -> P b -> P x -> c a b < 0 -> c b x < 0 -> c a x < 0;
    cc_congr : forall a b x, P a -> P b -> P x -> c a b = 0 -> Z.sgn (c a x) = Z.sgn (c b x)
  }.

  Lemma core_laws P c : cmp_core P c -> cmp_laws P c.
  Proof.
    intros [R S T C]. split; auto.
    intros a b x Pa Pb Px Hab Hbx.
    destruct (Z.eq_dec (c a b) 0) as [E|E].
    - specialize (C a b x Pa Pb Px E). lia.
    - destruct (Z.eq_dec (c b x) 0) as [E2|E2].
      + assert (E3 : c x b = 0) by (specialize (S b x Pb Px); lia).
        pose proof (C x b a Px Pb Pa E3) as H.
        pose proof (S a b Pa Pb). pose proof (S a x Pa Px). lia.
      + assert (c a x < 0) by (apply (T a b x); auto; lia). lia.
  Qed.

  Lemma laws_core P c : cmp_laws P c -> cmp_core P c.
  Proof.
    intros [R S T C]. split; auto.
    intros a b x Pa Pb Px Hab Hbx.
    assert (Hle : c a x <= 0) by (apply (T a b x); auto; lia).
    destruct (Z.eq_dec (c a x) 0) as [E|E]; [|lia].
    pose proof (C a x b Pa Px Pb E) as H.
    pose proof (S b x Pb Px). pose proof (S x b Px Pb). lia.
  Qed.
End Laws.

(* ---- base comparators ---- *)
Definition cmpZ (a b : Z) : Z := match Z.compare a b with Lt => -1 | Eq => 0 | Gt => 1 end.
Definition cmpN (a b : N) : Z := match N.compare a b with Lt => -1 | Eq => 0 | Gt => 1 end.

Lemma cmpZ_core : cmp_core (fun _ => True) cmpZ.
Proof.
  unfold cmpZ; split; intros.
  - rewrite Z.compare_refl; reflexivity.
  - rewrite (Z.compare_antisym a b). destruct (a ?= b); reflexivity.
  - destruct (Z.compare_spec a b), (Z.compare_spec b x); try lia.
    destruct (Z.compare_spec a x); lia.
  - destruct (Z.compare_spec a b); try lia. subst; reflexivity.
Qed.

Lemma cmpN_core : cmp_core (fun _ => True) cmpN.
Proof.
  unfold cmpN; split; intros.
  - rewrite N.compare_refl; reflexivity.
  - rewrite (N.compare_antisym b a). destruct (N.compare b a); reflexivity.
  - destruct (N.compare_spec a b), (N.compare_spec b x); try lia.
    destruct (N.compare_spec a x); lia.
  - destruct (N.compare_spec a b); try lia. subst; reflexivity.
Qed.

Lemma cmpZ_eq a b : cmpZ a b = 0 <-> a = b.
Proof. unfold cmpZ; destruct (Z.compare_spec a b); split; intros; try lia; congruence. Qed.
Lemma cmpN_eq a b : cmpN a b = 0 <-> a = b.
Proof. unfold cmpN; destruct (N.compare_spec a b); split; intros; try lia; try congruence; subst; lia. Qed.

(* ---- combinators ---- *)
Section Comb.
  Context {A B : Type}.

  Lemma core_pullback (f : A -> B) (P : A -> Prop) (Q : B -> Prop) (c : B -> B -> Z) :
    (forall a, P a -> Q (f a)) -> cmp_core Q c -> cmp_core P (fun a b => c (f a) (f b)).
  Proof.
    intros H [R S T C]; split; intros.
    - apply R; auto.
    - apply S; auto.
    - eapply (T (f a) (f b) (f x)); eauto.
    - apply C; auto.
  Qed.

  Lemma core_weaken (P P' : A -> Prop) c :
    (forall a, P' a -> P a) -> cmp_core P c -> cmp_core P' c.
  Proof.
    intros H [R S T C]; split; intros.
    - apply R; auto.
    - apply S; auto.
    - eapply (T a b x); eauto.
    - apply C; auto.
  Qed.

  Lemma core_ext (P : A -> Prop) c c' :
    (forall a b, P a -> P b -> c a b = c' a b) -> cmp_core P c -> cmp_core P c'.
  Proof.
    intros H [R S T C]; split.
    - intros a Pa. rewrite <- H; auto.
    - intros a b Pa Pb. rewrite <- !H; auto.
    - intros a b x Pa Pb Px. rewrite <- !H; auto. apply T; auto.
    - intros a b x Pa Pb Px. rewrite <- !H; auto.
  Qed.

  (* lexicographic: first by c1, ties broken by c2 *)
  Definition lex (c1 c2 : A -> A -> Z) (a b : A) : Z :=
    if c1 a b =? 0 then c2 a b else c1 a b.

  Lemma core_lex (P : A -> Prop) c1 c2 : cmp_core P c1 -> cmp_core P c2 -> cmp_core P (lex c1 c2).
  Proof.
    intros [R1 S1 T1 C1] [R2 S2 T2 C2]; unfold lex; split.
    - intros a Pa. rewrite R1 by auto. simpl. auto.
    - intros a b Pa Pb. pose proof (S1 a b Pa Pb).
      destruct (Z.eqb_spec (c1 a b) 0), (Z.eqb_spec (c1 b a) 0); auto; lia.
    - intros a b x Pa Pb Px.
      pose proof (S1 a b Pa Pb). pose proof (S1 b x Pb Px). pose proof (S1 a x Pa Px).
      destruct (Z.eqb_spec (c1 a b) 0) as [E1|E1], (Z.eqb_spec (c1 b x) 0) as [E2|E2]; intros L1 L2.
      + pose proof (C1 a b x Pa Pb Px E1).
        destruct (Z.eqb_spec (c1 a x) 0); [apply (T2 a b x); auto | lia].
      + pose proof (C1 a b x Pa Pb Px E1).
        destruct (Z.eqb_spec (c1 a x) 0); lia.
      + assert (E3 : c1 x b = 0) by (pose proof (S1 x b Px Pb); lia).
        pose proof (C1 x b a Px Pb Pa E3). pose proof (S1 x a Px Pa). pose proof (S1 b a Pb Pa).
        destruct (Z.eqb_spec (c1 a x) 0); lia.
      + pose proof (T1 a b x Pa Pb Px L1 L2).
        destruct (Z.eqb_spec (c1 a x) 0); lia.
    - intros a b x Pa Pb Px.
      destruct (Z.eqb_spec (c1 a b) 0) as [E1|E1]; [|intros; lia].
      intros E2. pose proof (C1 a b x Pa Pb Px E1).
      destruct (Z.eqb_spec (c1 a x) 0), (Z.eqb_spec (c1 b x) 0); try lia; auto.
  Qed.

  Lemma lex_eq0 c1 c2 a b : lex c1 c2 a b = 0 <-> c1 a b = 0 /\ c2 a b = 0.
  Proof. unfold lex. destruct (Z.eqb_spec (c1 a b) 0); split; intros; try lia; tauto. Qed.
End Comb.

(* Lexicographic comparison of lists, element-wise by c; a proper prefix sorts first
   ([short] = -1) or last ([short] = 1). *)
Section ListLex.
  Context {A : Type} (c : A -> A -> Z) (short : Z).

  Fixpoint list_lex (l1 l2 : list A) : Z :=
    match l1, l2 with
    | [], [] => 0
    | [], _ :: _ => short
    | _ :: _, [] => - short
    | x :: t1, y :: t2 => if c x y =? 0 then list_lex t1 t2 else c x y
    end.

  Context (P : A -> Prop) (Hc : cmp_core P c) (Hs : short <> 0).

  Lemma list_lex_refl l : Forall P l -> list_lex l l = 0.
  Proof. induction 1; simpl; auto. rewrite (cc_refl _ _ Hc) by auto. auto. Qed.

  Lemma list_lex_antisym l1 : forall l2, Forall P l1 -> Forall P l2 ->
    Z.sgn (list_lex l1 l2) = - Z.sgn (list_lex l2 l1).
  Proof.
    induction l1 as [|x t1 IH]; intros [|y t2] H1 H2; simpl; rewrite ?Z.sgn_opp; try lia.
    inversion H1; inversion H2; subst.
    pose proof (cc_antisym _ _ Hc x y ltac:(auto) ltac:(auto)).
    destruct (Z.eqb_spec (c x y) 0), (Z.eqb_spec (c y x) 0); auto; lia.
  Qed.

  Lemma list_lex_congr l1 : forall l2 l3, Forall P l1 -> Forall P l2 -> Forall P l3 ->
    list_lex l1 l2 = 0 -> Z.sgn (list_lex l1 l3) = Z.sgn (list_lex l2 l3).
  Proof.
    induction l1 as [|x t1 IH]; intros [|y t2] l3 H1 H2 H3; simpl; intros E; try lia; auto.
    { inversion H1; inversion H2; subst.
      destruct (Z.eqb_spec (c x y) 0) as [E1|E1]; [|lia].
      destruct l3 as [|z t3]; simpl; auto.
      inversion H3; subst.
      pose proof (cc_congr _ _ Hc x y z ltac:(auto) ltac:(auto) ltac:(auto) E1).
      destruct (Z.eqb_spec (c x z) 0), (Z.eqb_spec (c y z) 0); try lia; auto. }
  Qed.

  Lemma list_lex_lt_trans l1 : forall l2 l3, Forall P l1 -> Forall P l2 -> Forall P l3 ->
    list_lex l1 l2 < 0 -> list_lex l2 l3 < 0 -> list_lex l1 l3 < 0.
  Proof.
    induction l1 as [|x t1 IH]; intros [|y t2] [|z t3] H1 H2 H3; simpl; try lia.
    inversion H1; inversion H2; inversion H3; subst.
    pose proof (cc_antisym _ _ Hc x y ltac:(auto) ltac:(auto)).
    pose proof (cc_antisym _ _ Hc y z ltac:(auto) ltac:(auto)).
    pose proof (cc_antisym _ _ Hc x z ltac:(auto) ltac:(auto)).
    destruct (Z.eqb_spec (c x y) 0) as [E1|E1], (Z.eqb_spec (c y z) 0) as [E2|E2]; intros L1 L2.
    - pose proof (cc_congr _ _ Hc x y z ltac:(auto) ltac:(auto) ltac:(auto) E1).
      destruct (Z.eqb_spec (c x z) 0); [apply (IH t2 t3); auto | lia].
    - pose proof (cc_congr _ _ Hc x y z ltac:(auto) ltac:(auto) ltac:(auto) E1).
      destruct (Z.eqb_spec (c x z) 0); lia.
    - assert (E3 : c z y = 0) by (pose proof (cc_antisym _ _ Hc z y ltac:(auto) ltac:(auto)); lia).
      pose proof (cc_congr _ _ Hc z y x ltac:(auto) ltac:(auto) ltac:(auto) E3).
      pose proof (cc_antisym _ _ Hc z x ltac:(auto) ltac:(auto)).
      pose proof (cc_antisym _ _ Hc y x ltac:(auto) ltac:(auto)).
      destruct (Z.eqb_spec (c x z) 0); lia.
    - pose proof (cc_lt_trans _ _ Hc x y z ltac:(auto) ltac:(auto) ltac:(auto) L1 L2).
      destruct (Z.eqb_spec (c x z) 0); lia.
  Qed.

  Lemma core_list_lex : cmp_core (Forall P) list_lex.
  Proof.
    split.
    - apply list_lex_refl.
    - intros a b Pa Pb; apply list_lex_antisym; auto.
    - intros a b x Pa Pb Px; apply (list_lex_lt_trans a b x); auto.
    - intros a b x Pa Pb Px; apply list_lex_congr; auto.
  Qed.
End ListLex.

(* Options: None first (none = -1) or last (none = 1). *)
Section Opt.
  Context {A : Type} (c : A -> A -> Z) (none : Z).
  Definition opt_cmp (a b : option A) : Z :=
    match a, b with
    | None, None => 0
    | None, Some _ => none
    | Some _, None => - none
    | Some x, Some y => c x y
    end.
  Definition opt_P (P : A -> Prop) (o : option A) : Prop := match o with Some x => P x | None => True end.
  Lemma core_opt (P : A -> Prop) : cmp_core P c -> none <> 0 -> cmp_core (opt_P P) opt_cmp.
  Proof.
    intros [R S T C] Hn; split; unfold opt_cmp, opt_P.
    - intros [a|]; auto.
    - intros [a|] [b|]; intros; rewrite ?Z.sgn_opp; auto; lia.
    - intros [a|] [b|] [x|]; intros; try lia. apply (T a b x); auto.
    - intros [a|] [b|] [x|]; intros; try lia; auto.
  Qed.
End Opt.

(* A comparator whose results are compared through a key into Z-lists etc. is
   most easily handled with the combinators above; the following packs the
   consequence used by the sorting statements. *)
Lemma laws_le_total {A} P (c : A -> A -> Z) : cmp_laws P c -> forall a b, P a -> P b -> c a b <= 0 \/ c b a <= 0.
Proof. intros [R S T C] a b Pa Pb. pose proof (S a b Pa Pb). lia. Qed.
