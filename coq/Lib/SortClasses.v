(* For a total preorder given by a three-way comparator (cmp_laws), two sorted lists that are
   permutations of each other are position-wise equivalent: sorting yields the same sequence
   of equivalence classes whatever the input order and whatever the (correct) sorting
   algorithm.  Used by C01. *)
From Coq Require Import List ZArith Lia Permutation.
From DepsDev Require Import Lib.Order.
Import ListNotations.
Local Open Scope Z_scope.

Section Classes.
  Context {A : Type} (P : A -> Prop) (c : A -> A -> Z) (L : cmp_laws P c).

  Definition le (a b : A) : Prop := c a b <= 0.
  Definition equiv (a b : A) : Prop := c a b = 0.

  Lemma le_trans a b x : P a -> P b -> P x -> le a b -> le b x -> le a x.
  Proof. intros Pa Pb Px H1 H2. exact (cl_trans _ _ L a b x Pa Pb Px H1 H2). Qed.

  Lemma le_refl a : P a -> le a a.
  Proof. intros Pa. unfold le. rewrite (cl_refl _ _ L) by auto. lia. Qed.

  Lemma equiv_of_le a b : P a -> P b -> le a b -> le b a -> equiv a b.
  Proof. intros Pa Pb H1 H2. pose proof (cl_antisym _ _ L a b Pa Pb). unfold le, equiv in *. lia. Qed.

  Lemma equiv_le a b : P a -> P b -> equiv a b -> le a b /\ le b a.
  Proof. intros Pa Pb H. pose proof (cl_antisym _ _ L a b Pa Pb). unfold le, equiv in *. lia. Qed.

  Lemma equiv_sym a b : P a -> P b -> equiv a b -> equiv b a.
  Proof. intros Pa Pb H. destruct (equiv_le a b Pa Pb H). apply equiv_of_le; auto. Qed.

  Lemma equiv_trans a b x : P a -> P b -> P x -> equiv a b -> equiv b x -> equiv a x.
  Proof.
    intros Pa Pb Px H1 H2. destruct (equiv_le a b Pa Pb H1), (equiv_le b x Pb Px H2).
    apply equiv_of_le; auto.
    - apply (le_trans a b x); auto.
    - apply (le_trans x b a); auto.
  Qed.

  (* sorted: every element is below every later element *)
  Fixpoint sorted (l : list A) : Prop :=
    match l with
    | [] => True
    | a :: t => Forall (le a) t /\ sorted t
    end.

  (* the usual adjacent formulation implies it *)
  Fixpoint adj_sorted (l : list A) : Prop :=
    match l with
    | a :: ((b :: _) as t) => le a b /\ adj_sorted t
    | _ => True
    end.

  Lemma adj_sorted_sorted l : Forall P l -> adj_sorted l -> sorted l.
  Proof.
    induction l as [|a t IH]; intros HP H; simpl; auto.
    inversion HP as [|? ? Pa Pt]; subst.
    destruct t as [|b t'].
    - split; constructor.
    - destruct H as (Hab & Ht). specialize (IH Pt Ht). split; auto.
      inversion Pt as [|? ? Pb Pt']; subst.
      constructor; auto. destruct IH as (Hb & _).
      rewrite Forall_forall in *. intros x Hx. apply (le_trans a b x); auto.
  Qed.

  Lemma sorted_app_elim u a w : sorted (u ++ a :: w) -> sorted (u ++ w) /\ Forall (fun x => le x a) u /\ Forall (le a) w.
  Proof.
    induction u as [|x u IH]; simpl.
    - intros (H1 & H2). auto.
    - intros (H1 & H2). destruct (IH H2) as (S1 & S2 & S3).
      rewrite Forall_app in H1. destruct H1 as (H1u & H1aw). inversion H1aw; subst.
      repeat split; auto.
      apply Forall_app; auto.
  Qed.

  Lemma Forall2_equiv_trans l1 : forall l2 l3, Forall P l1 -> Forall P l2 -> Forall P l3 ->
    Forall2 equiv l1 l2 -> Forall2 equiv l2 l3 -> Forall2 equiv l1 l3.
  Proof.
    induction l1 as [|a t IH]; intros l2 l3 P1 P2 P3 H12 H23.
    - inversion H12; subst. inversion H23; subst. constructor.
    - inversion H12 as [|? b ? t2 Eab Et]; subst. inversion H23 as [|? x ? t3 Ebx Et3]; subst.
      inversion P1; inversion P2; inversion P3; subst. constructor.
      + apply (equiv_trans a b x); auto.
      + apply (IH t2 t3); auto.
  Qed.

  Lemma Forall2_equiv_refl l : Forall P l -> Forall2 equiv l l.
  Proof. induction 1; constructor; auto. unfold equiv. apply (cl_refl _ _ L); auto. Qed.

  (* b :: u  and  u ++ [a]  are position-wise equivalent when everything in them is equivalent to a *)
  Lemma shift_equiv a b u : P a -> P b -> Forall P u -> equiv b a -> Forall (fun x => equiv x a) u ->
    Forall2 equiv (b :: u) (u ++ [a]).
  Proof.
    revert b. induction u as [|x u IH]; intros b Pa Pb Pu Hb Hu; simpl.
    - constructor; auto.
    - inversion Pu; inversion Hu; subst. constructor.
      + apply (equiv_trans b a x); auto. apply equiv_sym; auto.
      + apply IH; auto.
  Qed.

  Theorem sorted_perm_classes l1 : forall l2, Forall P l1 -> Forall P l2 ->
    Permutation l1 l2 -> sorted l1 -> sorted l2 -> Forall2 equiv l1 l2.
  Proof.
    induction l1 as [|a t1 IH]; intros l2 P1 P2 HP S1 S2.
    - apply Permutation_nil in HP. subst. constructor.
    - inversion P1 as [|? ? Pa Pt1]; subst.
      assert (Hin : In a l2) by (eapply Permutation_in; eauto; left; auto).
      destruct (in_split _ _ Hin) as (u & w & ->).
      assert (HP' : Permutation t1 (u ++ w)).
      { apply Permutation_cons_inv with a. eapply Permutation_trans; eauto.
        apply Permutation_sym, Permutation_middle. }
      destruct (sorted_app_elim u a w S2) as (S2' & Hua & Haw).
      assert (Puw : Forall P (u ++ w)).
      { rewrite Forall_app in *. destruct P2 as (Pu & Paw). inversion Paw; auto. }
      assert (Pu : Forall P u) by (rewrite Forall_app in P2; tauto).
      destruct S1 as (Hat1 & St1).
      specialize (IH (u ++ w) Pt1 Puw HP' St1 S2').
      (* every element of u is equivalent to a: a is below everything in l1, hence in u *)
      assert (Hu : Forall (fun x => equiv x a) u).
      { rewrite Forall_forall in *. intros x Hx.
        assert (Px : P x) by auto.
        apply equiv_of_le; auto.
        assert (In x t1).
        { eapply Permutation_in; [apply Permutation_sym; exact HP'|]. apply in_or_app; auto. }
        auto. }
      (* a :: t1  ~  a :: (u ++ w)  ~  (u ++ [a]) ++ w *)
      assert (H1 : Forall2 equiv (a :: t1) (a :: u ++ w)).
      { constructor; auto. unfold equiv. apply (cl_refl _ _ L); auto. }
      assert (H2 : Forall2 equiv (a :: u ++ w) (u ++ a :: w)).
      { replace (u ++ a :: w) with ((u ++ [a]) ++ w) by (rewrite <- app_assoc; reflexivity).
        change (a :: u ++ w) with ((a :: u) ++ w).
        apply Forall2_app.
        - apply shift_equiv; auto. unfold equiv. apply (cl_refl _ _ L); auto.
        - apply Forall2_equiv_refl. rewrite Forall_app in Puw. tauto. }
      eapply Forall2_equiv_trans with (l2 := a :: u ++ w); auto.
  Qed.
End Classes.
