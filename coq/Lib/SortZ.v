(* Specification-level sorting used by the models (definitions only; lemmas in SortSpec.v).
   Stable insertion sort for a three-way comparator.  For a comparator whose equivalence
   is equality on the elements of the list the result is the only sorted permutation
   (SortSpec.sorted_perm_unique), so it stands for any correct sorting algorithm. *)
From Coq Require Import List ZArith.
Import ListNotations.

Section Sort.
  Context {A : Type} (cmp : A -> A -> Z).
  Fixpoint insert (x : A) (l : list A) : list A :=
    match l with
    | [] => [x]
    | y :: t => if (cmp x y <=? 0)%Z then x :: l else y :: insert x t
    end.
  Fixpoint isort (l : list A) : list A :=
    match l with
    | [] => []
    | x :: t => insert x (isort t)
    end.
  (* two neighbours of a (sorted) list compare equal *)
  Fixpoint adj_dupe (l : list A) : bool :=
    match l with
    | x :: ((y :: _) as t) => (cmp x y =? 0)%Z || adj_dupe t
    | _ => false
    end.
End Sort.
