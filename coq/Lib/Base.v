(* Shared basic definitions: byte strings, Go-style outcomes. Models only (no proofs). *)
From Coq Require Export List NArith ZArith Bool.
Export ListNotations.
Open Scope N_scope.

(* A Go string is a list of bytes, each an N (the harness only builds values < 256). *)
Definition bytes := list N.

Fixpoint bytes_eqb (a b : bytes) : bool :=
  match a, b with
  | [], [] => true
  | x :: a', y :: b' => N.eqb x y && bytes_eqb a' b'
  | _, _ => false
  end.

(* strings.Compare: lexicographic on bytes, result in {-1,0,1}. *)
Fixpoint bytes_compare (a b : bytes) : Z :=
  match a, b with
  | [], [] => 0%Z
  | [], _ :: _ => (-1)%Z
  | _ :: _, [] => 1%Z
  | x :: a', y :: b' =>
      match N.compare x y with
      | Lt => (-1)%Z
      | Gt => 1%Z
      | Eq => bytes_compare a' b'
      end
  end.

(* Outcome of a Go call that may fail: value, error, run-time panic, or model fuel exhausted. *)
Inductive res (A : Type) : Type :=
| Ok (a : A)
| Err (e : N)          (* error kind: a small enum, the text is never compared *)
| Panic (p : N)        (* panic kind *)
| OutOfFuel.
Arguments Ok {A} a.
Arguments Err {A} e.
Arguments Panic {A} p.
Arguments OutOfFuel {A}.

Definition bind {A B} (r : res A) (f : A -> res B) : res B :=
  match r with
  | Ok a => f a
  | Err e => Err e
  | Panic p => Panic p
  | OutOfFuel => OutOfFuel
  end.

Notation "x <- r ;; k" := (bind r (fun x => k)) (at level 61, r at next level, right associativity).

(* Panic kinds *)
Definition PIndex : N := 1.       (* index out of range *)
Definition PNilMap : N := 2.      (* assignment to entry in nil map *)
Definition PExplicit : N := 3.    (* explicit panic(...) *)
Definition PNilDeref : N := 4.    (* nil pointer dereference *)
Definition PSlice : N := 5.       (* slice bounds out of range *)

(* Go's s[i] on a slice/string: panics when out of range. *)
Fixpoint idx {A} (l : list A) (i : nat) : res A :=
  match l, i with
  | [], _ => Panic PIndex
  | x :: _, O => Ok x
  | _ :: l', S i' => idx l' i'
  end.

(* ASCII helpers *)
Definition ascii_lower (c : N) : N := if (65 <=? c) && (c <=? 90) then c + 32 else c.
Definition to_lower (s : bytes) : bytes := map ascii_lower s.
Definition is_digit (c : N) : bool := (48 <=? c) && (c <=? 57).

(* Decimal rendering of naturals and integers (strconv.Itoa). *)
Fixpoint pos_digits (fuel : nat) (n : N) (acc : bytes) : bytes :=
  match fuel with
  | O => acc
  | S f => let acc' := (48 + n mod 10) :: acc in
           if n / 10 =? 0 then acc' else pos_digits f (n / 10) acc'
  end.
Definition N_to_dec (n : N) : bytes := pos_digits (S (N.to_nat (N.log2 n))) n [].
Definition Z_to_dec (z : Z) : bytes :=
  match z with
  | Z0 => [48]
  | Zpos p => N_to_dec (Npos p)
  | Zneg p => 45 :: N_to_dec (Npos p)
  end.
