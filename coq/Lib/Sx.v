(* The generic value tree exchanged with the harness (see harness/go/sx). *)
From DepsDev Require Import Lib.Base.

Inductive sx : Type :=
| SI (z : Z)
| SB (b : bytes)
| SL (l : list sx).

Definition sx_bool (b : bool) : sx := SI (if b then 1 else 0)%Z.

(* Symbols used in results are plain byte strings. *)
Definition sym_panic : bytes := [112;97;110;105;99].          (* "panic" *)
Definition sym_ok : bytes := [111;107].                       (* "ok" *)
Definition sym_err : bytes := [101;114;114].                  (* "err" *)
Definition sym_fuel : bytes := [102;117;101;108].             (* "fuel" *)
Definition sym_badcase : bytes := [98;97;100;99;97;115;101].  (* "badcase" *)
Definition sym_oom : bytes := [111;111;109].                  (* "oom": outside the modelled fragment *)

Definition sx_res {A} (f : A -> sx) (r : res A) : sx :=
  match r with
  | Ok a => SL [SB sym_ok; f a]
  | Err _ => SL [SB sym_err]
  | Panic _ => SL [SB sym_panic]
  | OutOfFuel => SL [SB sym_fuel]
  end.

Definition badcase : sx := SL [SB sym_badcase].

(* Structural equality on sx (used by the in-kernel cross-check of extraction). *)
Fixpoint sx_eqb (a b : sx) : bool :=
  match a, b with
  | SI x, SI y => Z.eqb x y
  | SB x, SB y => bytes_eqb x y
  | SL x, SL y =>
      (fix go (l1 l2 : list sx) : bool :=
         match l1, l2 with
         | [], [] => true
         | u :: t1, v :: t2 => sx_eqb u v && go t1 t2
         | _, _ => false
         end) x y
  | _, _ => false
  end.

(* indices of the cases on which run differs from the expected result *)
Fixpoint mismatches_from (run : bytes -> sx -> sx) (cases : list (bytes * sx * sx)) (i : nat) : list nat :=
  match cases with
  | [] => []
  | (k, a, e) :: t =>
      (if sx_eqb (run k a) e then [] else [i]) ++ mismatches_from run t (S i)
  end.
