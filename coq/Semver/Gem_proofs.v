(* Proofs about the RubyGems comparator (Gem.v): C01. *)
From Coq Require Import Lia.
From DepsDev Require Import Lib.Base Lib.Order Lib.PadLex Semver.Version Semver.Maven Semver.Gem
  Semver.GemDomain Semver.GemParse Semver.Compare Semver.Generic_proofs.
Local Open Scope Z_scope.

(* ------------------------------------------------------------------ element comparator *)
Definition gnum (e : gem_elem) : Z := if gcat e =? cat_numeric then ge_int e else 0.
Definition gstr (e : gem_elem) : bytes := if gcat e =? cat_numeric then [] else ge_str e.

(* the key of an element: (category, value if numeric, text otherwise) *)
Definition ge_cmp : gem_elem -> gem_elem -> Z :=
  lex (fun a b => cmpZ (gcat a) (gcat b))
      (lex (fun a b => cmpZ (gnum a) (gnum b)) (fun a b => bytes_compare (gstr a) (gstr b))).

Lemma ge_cmp_core : cmp_core (fun _ : gem_elem => True) ge_cmp.
Proof.
  unfold ge_cmp. apply core_lex; [|apply core_lex].
  - apply (core_pullback gcat (fun _ => True) (fun _ => True) cmpZ); auto. apply cmpZ_core.
  - apply (core_pullback gnum (fun _ => True) (fun _ => True) cmpZ); auto. apply cmpZ_core.
  - apply (core_pullback gstr (fun _ => True) (fun _ => True) bytes_compare); auto. apply bytes_core.
Qed.

Lemma bytes_eqb_eq a : forall b, bytes_eqb a b = true -> a = b.
Proof.
  induction a as [|x a IH]; intros [|y b]; simpl; intros H; try discriminate; auto.
  apply andb_true_iff in H. destruct H as [H1 H2]. apply N.eqb_eq in H1. subst. f_equal. auto.
Qed.

Lemma gem_elem_eqb_eq a b : gem_elem_eqb a b = true -> a = b.
Proof.
  unfold gem_elem_eqb. intros H. apply andb_true_iff in H. destruct H as [H1 H2].
  apply bytes_eqb_eq in H1. apply Z.eqb_eq in H2. destruct a, b; simpl in *; subst; reflexivity.
Qed.

Definition opt_elem (o : option gem_elem) : gem_elem := match o with Some a => a | None => gem_pad end.

Lemma cmpZ_cases a b : (b <? a = true /\ cmpZ a b = 1) \/ (a <? b = true /\ b <? a = false /\ cmpZ a b = -1)
                       \/ (a = b /\ a <? b = false /\ b <? a = false /\ cmpZ a b = 0).
Proof.
  unfold cmpZ. destruct (Z.compare_spec a b).
  - right; right. subst. rewrite Z.ltb_irrefl. auto.
  - right; left. repeat split; auto; [apply Z.ltb_lt | apply Z.ltb_ge]; lia.
  - left. split; auto. apply Z.ltb_lt; lia.
Qed.

(* one round of the loop = the element comparator *)
Lemma gem_step_cmp ao bo :
  gem_step ao bo = let r := ge_cmp (opt_elem ao) (opt_elem bo) in if r =? 0 then Continue else Return r.
Proof.
  unfold gem_step. fold (opt_elem ao) (opt_elem bo).
  set (a := opt_elem ao). set (b := opt_elem bo). cbv zeta.
  destruct (gem_elem_eqb a b) eqn:E.
  - apply gem_elem_eqb_eq in E. rewrite E. rewrite (cc_refl _ _ ge_cmp_core) by auto. reflexivity.
  - fold (gcat a) (gcat b). unfold ge_cmp, lex.
    destruct (cmpZ_cases (gcat a) (gcat b)) as [[H1 H2]|[[H1 [H2 H3]]|[H1 [H2 [H3 H4]]]]].
    + rewrite H1, H2. reflexivity.
    + rewrite H2, H1, H3. reflexivity.
    + rewrite H3, H2, H4. simpl (0 =? 0).  cbv iota.
      unfold gnum, gstr. rewrite <- H1.
      destruct (gcat a =? cat_numeric) eqn:N.
      * unfold gem_fix_numeric_continue. simpl andb. change sgnZ with cmpZ.
        destruct (cmpZ (ge_int a) (ge_int b) =? 0) eqn:Z0; simpl; rewrite ?Z0; reflexivity.
      * simpl (cmpZ 0 0 =? 0). cbv iota.
        destruct (bytes_compare (ge_str a) (ge_str b) =? 0) eqn:Z0; rewrite ?Z0; reflexivity.
Qed.

Lemma gem_loop_l_pad xs :
  gem_loop_l xs = let r := pad_l ge_cmp gem_pad xs in if r =? 0 then None else Some r.
Proof.
  induction xs as [|x xs IH]; simpl; auto.
  rewrite gem_step_cmp. simpl opt_elem. cbv zeta.
  destruct (ge_cmp x gem_pad =? 0) eqn:E; auto. rewrite E. reflexivity.
Qed.
Lemma gem_loop_r_pad ys :
  gem_loop_r ys = let r := pad_r ge_cmp gem_pad ys in if r =? 0 then None else Some r.
Proof.
  induction ys as [|y ys IH]; simpl; auto.
  rewrite gem_step_cmp. simpl opt_elem. cbv zeta.
  destruct (ge_cmp gem_pad y =? 0) eqn:E; auto. rewrite E. reflexivity.
Qed.
Lemma gem_loop_pad xs : forall ys,
  gem_loop xs ys = let r := pad_lex ge_cmp gem_pad xs ys in if r =? 0 then None else Some r.
Proof.
  induction xs as [|x xs IH]; intros ys.
  - replace (gem_loop [] ys) with (gem_loop_r ys) by (destruct ys; reflexivity).
    replace (pad_lex ge_cmp gem_pad [] ys) with (pad_r ge_cmp gem_pad ys) by (destruct ys; reflexivity).
    apply gem_loop_r_pad.
  - destruct ys as [|y ys].
    + apply (gem_loop_l_pad (x :: xs)).
    + simpl. rewrite gem_step_cmp. simpl opt_elem. cbv zeta.
      destruct (ge_cmp x y =? 0) eqn:E; [apply IH | rewrite E; reflexivity].
Qed.

Lemma gcat_num_iff e : (gcat e =? cat_numeric) = gem_is_num e.
Proof.
  unfold gcat, gem_is_num. destruct (version_category (ge_str e) =? cat_eof) eqn:E; auto.
  apply Z.eqb_eq in E. rewrite E. reflexivity.
Qed.

(* ------------------------------------------------------------------ the key of a version *)
Definition gem_key := (list Z * list gem_elem)%type.
Definition pre_opt (l : list gem_elem) : option (list gem_elem) := match l with [] => None | _ => Some l end.

(* numbers zero-padded; then a release above every prerelease; then the elements padded with ("0",0) *)
Definition gem_key_cmp : gem_key -> gem_key -> Z :=
  lex (fun a b => compare_nums (fst a) (fst b))
      (fun a b => opt_cmp (pad_lex ge_cmp gem_pad) 1 (pre_opt (snd a)) (pre_opt (snd b))).

Lemma gem_key_core : cmp_core (fun _ : gem_key => True) gem_key_cmp.
Proof.
  unfold gem_key_cmp. apply core_lex.
  - apply (core_pullback (@fst (list Z) (list gem_elem)) (fun _ => True) (fun _ => True) compare_nums); auto.
    apply compare_nums_core.
  - apply (core_pullback (fun k : gem_key => pre_opt (snd k)) (fun _ => True)
             (opt_P (Forall (fun _ : gem_elem => True))) (opt_cmp (pad_lex ge_cmp gem_pad) 1)).
    + intros a _. destruct (pre_opt (snd a)); simpl; auto. apply Forall_True.
    + apply core_opt; [|lia]. apply (core_pad_lex ge_cmp gem_pad (fun _ => True) ge_cmp_core I).
Qed.

Lemma gem_compare_key na nb xs ys :
  gem_compare na nb xs ys = gem_key_cmp (na, xs) (nb, ys).
Proof.
  unfold gem_compare, gem_key_cmp, lex. simpl fst; simpl snd.
  destruct (compare_nums na nb =? 0); simpl negb; cbv iota; auto.
  destruct xs as [|x xs], ys as [|y ys]; try reflexivity.
  rewrite gem_loop_pad. cbv zeta. simpl pre_opt. simpl opt_cmp.
  destruct (pad_lex ge_cmp gem_pad (x :: xs) (y :: ys) =? 0) eqn:E; auto.
  apply Z.eqb_eq in E. auto.
Qed.

(* ------------------------------------------------------------------ on versions *)
Definition gem_cmp_v (a b : version) : Z := gem_compare (v_num a) (v_num b) (gem_elems a) (gem_elems b).

(* a RubyGems version: any numbers, any elements *)
Definition gem_dom (v : version) : Prop := v_sys v = SRubyGems /\ v_ext v = GemExt (gem_elems v).

Lemma gem_compare_ok a b : gem_dom a -> gem_dom b -> compare a b = Ok (gem_cmp_v a b).
Proof.
  intros [Sa Ea] [Sb Eb]. unfold compare. rewrite Sa, Sb. simpl. rewrite Ea, Eb. reflexivity.
Qed.

Lemma gem_core : cmp_core gem_dom gem_cmp_v.
Proof.
  eapply core_ext with (c := fun a b => gem_key_cmp (v_num a, gem_elems a) (v_num b, gem_elems b)).
  - intros a b Ha Hb. unfold gem_cmp_v. symmetry. apply gem_compare_key.
  - apply (core_pullback (fun v => (v_num v, gem_elems v)) gem_dom (fun _ => True) gem_key_cmp); auto.
    apply gem_key_core.
Qed.

Theorem gem_laws : exists c : version -> version -> Z,
  (forall a b, gem_dom a -> gem_dom b -> compare a b = Ok (c a b)) /\ cmp_laws gem_dom c.
Proof. exists gem_cmp_v. split; [exact gem_compare_ok | apply core_laws, gem_core]. Qed.

(* every accepted string yields such a version *)
Lemma gem_parse_dom s v : gem_parse s = Ok v -> gem_dom v.
Proof.
  unfold gem_parse, gem_parse_with. destruct (gem_possible s); simpl; [|discriminate].
  destruct (gem_version_head s); simpl; try discriminate.
  destruct (gem_init_with gem_fix_zero_trim s); simpl; try discriminate.
  intros H. inversion H; subst; simpl. split; reflexivity.
Qed.

Definition s_1a : bytes := [49; 46; 97]%N.
Definition s_1a00 : bytes := [49; 46; 97; 46; 48; 48]%N.
Definition s_1a01 : bytes := [49; 46; 97; 46; 48; 49]%N.

(* non-vacuity, and the pair of the repaired finding F-C01-3: 1.a = 1.a.00 < 1.a.01 *)
Lemma gem_examples :
  match gem_parse s_1a, gem_parse s_1a00, gem_parse s_1a01 with
  | Ok a, Ok b, Ok c => compare a b = Ok 0 /\ compare b a = Ok 0 /\ compare a c = Ok (-1) /\ compare b c = Ok (-1)
  | _, _, _ => False
  end.
Proof. vm_compute. repeat split; reflexivity. Qed.
