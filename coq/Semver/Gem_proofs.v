(* Proofs about the RubyGems comparator (Gem.v): C01. *)
From Coq Require Import Lia.
From DepsDev Require Import Lib.Base Lib.Order Lib.PadLex Semver.Version Semver.Maven Semver.Gem
  Semver.GemDomain Semver.GemParse Semver.Compare Semver.Generic_proofs.
Local Open Scope Z_scope.

(* ------------------------------------------------------------------ element comparator *)
Definition gnum (e : gem_elem) : Z := if gcat e =? cat_numeric then ge_int e else 0.
Definition gstr (e : gem_elem) : bytes := if gcat e =? cat_numeric then [] else ge_str e.

(* the key of an element: (category, value if numeric, text otherwise) *)
Definition ge_cmp : gem_elem -> gem_elem -> Z :=
  lex (fun a b => cmpZ (gcat a) (gcat b))
      (lex (fun a b => cmpZ (gnum a) (gnum b)) (fun a b => bytes_compare (gstr a) (gstr b))).

Lemma ge_cmp_core : cmp_core (fun _ : gem_elem => True) ge_cmp.
Proof.
  unfold ge_cmp. apply core_lex; [|apply core_lex].
  - apply (core_pullback gcat (fun _ => True) (fun _ => True) cmpZ); auto. apply cmpZ_core.
  - apply (core_pullback gnum (fun _ => True) (fun _ => True) cmpZ); auto. apply cmpZ_core.
  - apply (core_pullback gstr (fun _ => True) (fun _ => True) bytes_compare); auto. apply bytes_core.
Qed.

Lemma bytes_eqb_eq a : forall b, bytes_eqb a b = true -> a = b.
Proof.
  induction a as [|x a IH]; intros [|y b]; simpl; intros H; try discriminate; auto.
  apply andb_true_iff in H. destruct H as [H1 H2]. apply N.eqb_eq in H1. subst. f_equal. auto.
Qed.

Lemma gem_elem_eqb_eq a b : gem_elem_eqb a b = true -> a = b.
Proof.
  unfold gem_elem_eqb. intros H. apply andb_true_iff in H. destruct H as [H1 H2].
  apply bytes_eqb_eq in H1. apply Z.eqb_eq in H2. destruct a, b; simpl in *; subst; reflexivity.
Qed.

Definition opt_elem (o : option gem_elem) : gem_elem := match o with Some a => a | None => gem_pad end.

Lemma cmpZ_cases a b : (b <? a = true /\ cmpZ a b = 1) \/ (a <? b = true /\ b <? a = false /\ cmpZ a b = -1)
                       \/ (a = b /\ a <? b = false /\ b <? a = false /\ cmpZ a b = 0).
Proof.
  unfold cmpZ. destruct (Z.compare_spec a b).
  - right; right. subst. rewrite Z.ltb_irrefl. auto.
  - right; left. repeat split; auto; [apply Z.ltb_lt | apply Z.ltb_ge]; lia.
  - left. split; auto. apply Z.ltb_lt; lia.
Qed.

(* one round of the loop = the element comparator *)
Lemma gem_step_cmp ao bo :
  gem_step ao bo = let r := ge_cmp (opt_elem ao) (opt_elem bo) in if r =? 0 then Continue else Return r.
Proof.
  unfold gem_step. fold (opt_elem ao) (opt_elem bo).
  set (a := opt_elem ao). set (b := opt_elem bo). cbv zeta.
  destruct (gem_elem_eqb a b) eqn:E.
  - apply gem_elem_eqb_eq in E. rewrite E. rewrite (cc_refl _ _ ge_cmp_core) by auto. reflexivity.
  - fold (gcat a) (gcat b). unfold ge_cmp, lex.
    destruct (cmpZ_cases (gcat a) (gcat b)) as [[H1 H2]|[[H1 [H2 H3]]|[H1 [H2 [H3 H4]]]]].
    + rewrite H1, H2. reflexivity.
    + rewrite H2, H1, H3. reflexivity.
    + rewrite H3, H2, H4. simpl (0 =? 0).  cbv iota.
      unfold gnum, gstr. rewrite <- H1.
      destruct (gcat a =? cat_numeric) eqn:N.
      * unfold gem_fix_numeric_continue. simpl andb. change sgnZ with cmpZ.
        destruct (cmpZ (ge_int a) (ge_int b) =? 0) eqn:Z0; simpl; rewrite ?Z0; reflexivity.
      * simpl (cmpZ 0 0 =? 0). cbv iota.
        destruct (bytes_compare (ge_str a) (ge_str b) =? 0) eqn:Z0; rewrite ?Z0; reflexivity.
Qed.

Lemma gem_loop_l_pad xs :
  gem_loop_l xs = let r := pad_l ge_cmp gem_pad xs in if r =? 0 then None else Some r.
Proof.
  induction xs as [|x xs IH]; simpl; auto.
  rewrite gem_step_cmp. simpl opt_elem. cbv zeta.
  destruct (ge_cmp x gem_pad =? 0) eqn:E; auto. rewrite E. reflexivity.
Qed.
Lemma gem_loop_r_pad ys :
  gem_loop_r ys = let r := pad_r ge_cmp gem_pad ys in if r =? 0 then None else Some r.
Proof.
  induction ys as [|y ys IH]; simpl; auto.
  rewrite gem_step_cmp. simpl opt_elem. cbv zeta.
  destruct (ge_cmp gem_pad y =? 0) eqn:E; auto. rewrite E. reflexivity.
Qed.
Lemma gem_loop_pad xs : forall ys,
  gem_loop xs ys = let r := pad_lex ge_cmp gem_pad xs ys in if r =? 0 then None else Some r.
Proof.
  induction xs as [|x xs IH]; intros ys.
  - replace (gem_loop [] ys) with (gem_loop_r ys) by (destruct ys; reflexivity).
    replace (pad_lex ge_cmp gem_pad [] ys) with (pad_r ge_cmp gem_pad ys) by (destruct ys; reflexivity).
    apply gem_loop_r_pad.
  - destruct ys as [|y ys].
    + apply (gem_loop_l_pad (x :: xs)).
    + simpl. rewrite gem_step_cmp. simpl opt_elem. cbv zeta.
      destruct (ge_cmp x y =? 0) eqn:E; [apply IH | rewrite E; reflexivity].
Qed.

(* ------------------------------------------------------------------ the final length test *)
Lemma gcat_num_iff e : (gcat e =? cat_numeric) = gem_is_num e.
Proof.
  unfold gcat, gem_is_num. destruct (version_category (ge_str e) =? cat_eof) eqn:E; auto.
  apply Z.eqb_eq in E. rewrite E. reflexivity.
Qed.

Lemma pad_equiv_zero y : ge_cmp gem_pad y = 0 \/ ge_cmp y gem_pad = 0 -> gem_is_num y = true /\ ge_int y = 0.
Proof.
  intros H.
  assert (H' : ge_cmp gem_pad y = 0).
  { destruct H; auto. pose proof (cc_antisym _ _ ge_cmp_core y gem_pad I I) as A. rewrite H in A.
    simpl in A. destruct (ge_cmp gem_pad y); simpl in A; try discriminate; auto. }
  unfold ge_cmp in H'. apply lex_eq0 in H'. destruct H' as [H1 H2]. apply lex_eq0 in H2. destruct H2 as [H2 _].
  apply (proj1 (cmpZ_eq _ _)) in H1. apply (proj1 (cmpZ_eq _ _)) in H2.
  change (gcat gem_pad) with cat_numeric in H1. change (gnum gem_pad) with 0 in H2.
  unfold gnum in H2. rewrite <- H1 in H2. simpl in H2.
  rewrite <- gcat_num_iff, <- H1. split; auto.
Qed.

Lemma gem_last_ok_tail_zero l :
  l <> [] -> Forall (fun y => gem_is_num y = true /\ ge_int y = 0) l -> gem_last_ok l = false.
Proof.
  induction l as [|e t IH]; intros Hn H; [congruence|].
  inversion H as [|? ? [H1 H2] Ht]; subst.
  destruct t as [|e' t'].
  - simpl. rewrite H1, H2. reflexivity.
  - change (gem_last_ok (e :: e' :: t')) with (gem_last_ok (e' :: t')). apply IH; auto. discriminate.
Qed.

Lemma gem_last_ok_skipn n : forall l, (n < length l)%nat -> gem_last_ok (skipn n l) = gem_last_ok l.
Proof.
  induction n as [|n IH]; intros l H; auto.
  destruct l as [|e t]; [simpl in H; lia|].
  destruct t as [|e' t']; [simpl in H; lia|].
  change (gem_last_ok (e :: e' :: t')) with (gem_last_ok (e' :: t')).
  change (skipn (S n) (e :: e' :: t')) with (skipn n (e' :: t')). apply IH. simpl in *. lia.
Qed.

Lemma skipn_nonnil {A} n (l : list A) : (n < length l)%nat -> skipn n l <> [].
Proof.
  intros H E. pose proof (skipn_length n l) as L. rewrite E in L. simpl in L. lia.
Qed.

(* in the domain, a zero result of the loop leaves lists of equal length *)
Lemma pad_lex_zero_len xs ys :
  gem_last_ok xs = true -> gem_last_ok ys = true ->
  pad_lex ge_cmp gem_pad xs ys = 0 -> length xs = length ys.
Proof.
  intros Hx Hy H. apply pad_lex_zero_tail in H. destruct H as [H1 H2].
  destruct (Nat.lt_trichotomy (length xs) (length ys)) as [L|[L|L]]; auto; exfalso.
  - assert (F : gem_last_ok (skipn (length xs) ys) = false).
    { apply gem_last_ok_tail_zero; [apply skipn_nonnil; auto|].
      eapply Forall_impl; [|exact H2]. intros a Ha. apply pad_equiv_zero; auto. }
    rewrite gem_last_ok_skipn in F by auto. congruence.
  - assert (F : gem_last_ok (skipn (length ys) xs) = false).
    { apply gem_last_ok_tail_zero; [apply skipn_nonnil; auto|].
      eapply Forall_impl; [|exact H1]. intros a Ha. apply pad_equiv_zero; auto. }
    rewrite gem_last_ok_skipn in F by auto. congruence.
Qed.

(* ------------------------------------------------------------------ the key of a version *)
Definition gem_key := (list Z * list gem_elem)%type.
Definition pre_opt (l : list gem_elem) : option (list gem_elem) := match l with [] => None | _ => Some l end.

(* numbers zero-padded; then a release above every prerelease; then the elements padded with ("0",0) *)
Definition gem_key_cmp : gem_key -> gem_key -> Z :=
  lex (fun a b => compare_nums (fst a) (fst b))
      (fun a b => opt_cmp (pad_lex ge_cmp gem_pad) 1 (pre_opt (snd a)) (pre_opt (snd b))).

Lemma gem_key_core : cmp_core (fun _ : gem_key => True) gem_key_cmp.
Proof.
  unfold gem_key_cmp. apply core_lex.
  - apply (core_pullback (@fst (list Z) (list gem_elem)) (fun _ => True) (fun _ => True) compare_nums); auto.
    apply compare_nums_core.
  - apply (core_pullback (fun k : gem_key => pre_opt (snd k)) (fun _ => True)
             (opt_P (Forall (fun _ : gem_elem => True))) (opt_cmp (pad_lex ge_cmp gem_pad) 1)).
    + intros a _. destruct (pre_opt (snd a)); simpl; auto. apply Forall_True.
    + apply core_opt; [|lia]. apply (core_pad_lex ge_cmp gem_pad (fun _ => True) ge_cmp_core I).
Qed.

Lemma gem_compare_key na nb xs ys :
  gem_last_ok xs = true -> gem_last_ok ys = true ->
  gem_compare na nb xs ys = gem_key_cmp (na, xs) (nb, ys).
Proof.
  intros Hx Hy. unfold gem_compare, gem_key_cmp, lex. simpl fst; simpl snd.
  destruct (compare_nums na nb =? 0); simpl negb; cbv iota; auto.
  destruct xs as [|x xs], ys as [|y ys]; try reflexivity.
  rewrite gem_loop_pad. cbv zeta. simpl pre_opt. simpl opt_cmp.
  destruct (pad_lex ge_cmp gem_pad (x :: xs) (y :: ys) =? 0) eqn:E; auto.
  apply Z.eqb_eq in E. rewrite (pad_lex_zero_len _ _ Hx Hy E), Nat.ltb_irrefl. auto.
Qed.

(* ------------------------------------------------------------------ on versions *)
Definition gem_cmp_v (a b : version) : Z := gem_compare (v_num a) (v_num b) (gem_elems a) (gem_elems b).

(* a RubyGems version whose prerelease does not end in a numeral of value 0 *)
Definition gem_dom (v : version) : Prop := v_sys v = SRubyGems /\ gem_c01_dom v = true.

Lemma gem_dom_ext v : gem_dom v -> v_ext v = GemExt (gem_elems v) /\ gem_last_ok (gem_elems v) = true.
Proof.
  intros [_ H]. unfold gem_c01_dom, gem_elems in *. destruct (v_ext v); try discriminate. auto.
Qed.

Lemma gem_compare_ok a b : gem_dom a -> gem_dom b -> compare a b = Ok (gem_cmp_v a b).
Proof.
  intros Ha Hb. destruct (gem_dom_ext a Ha) as [Ea _], (gem_dom_ext b Hb) as [Eb _].
  destruct Ha as [Sa _], Hb as [Sb _]. unfold compare. rewrite Sa, Sb. simpl.
  rewrite Ea, Eb. reflexivity.
Qed.

Lemma gem_core : cmp_core gem_dom gem_cmp_v.
Proof.
  eapply core_ext with (c := fun a b => gem_key_cmp (v_num a, gem_elems a) (v_num b, gem_elems b)).
  - intros a b Ha Hb. unfold gem_cmp_v. symmetry.
    apply gem_compare_key; [apply (gem_dom_ext a Ha) | apply (gem_dom_ext b Hb)].
  - apply (core_pullback (fun v => (v_num v, gem_elems v)) gem_dom (fun _ => True) gem_key_cmp); auto.
    apply gem_key_core.
Qed.

Theorem gem_laws : exists c : version -> version -> Z,
  (forall a b, gem_dom a -> gem_dom b -> compare a b = Ok (c a b)) /\ cmp_laws gem_dom c.
Proof. exists gem_cmp_v. split; [exact gem_compare_ok | apply core_laws, gem_core]. Qed.

(* every accepted string yields a RubyGems version carrying a gem extension: the only
   hypothesis of gem_laws that is not automatic is the condition on the last element *)
Lemma gem_parse_shape s v : gem_parse s = Ok v -> v_sys v = SRubyGems /\ exists l, v_ext v = GemExt l.
Proof.
  unfold gem_parse, gem_parse_with. destruct (gem_possible s); simpl; [|discriminate].
  destruct (gem_version_head s); simpl; try discriminate.
  destruct (gem_init_with gem_fix_zero_trim s); simpl; try discriminate.
  intros H. inversion H; subst; simpl. split; eauto.
Qed.

Lemma gem_parse_dom s v : gem_parse s = Ok v -> gem_c01_dom v = true -> gem_dom v.
Proof. intros H D. split; auto. apply (gem_parse_shape s v H). Qed.

(* The restriction is needed: 1.a against 1.a.00 (F-C01-3). *)
Definition s_1a : bytes := [49; 46; 97]%N.
Definition s_1a00 : bytes := [49; 46; 97; 46; 48; 48]%N.

Lemma gem_antisym_witness_c :
  match gem_parse s_1a, gem_parse s_1a00 with
  | Ok va, Ok vb => compare va vb = Ok (-1) /\ compare vb va = Ok 0
  | _, _ => False
  end.
Proof. vm_compute. split; reflexivity. Qed.

Lemma gem_antisym_witness : exists va vb,
  gem_parse s_1a = Ok va /\ gem_parse s_1a00 = Ok vb /\
  compare va vb = Ok (-1) /\ compare vb va = Ok 0.
Proof.
  pose proof gem_antisym_witness_c as H.
  destruct (gem_parse s_1a) as [va| | |]; try contradiction.
  destruct (gem_parse s_1a00) as [vb| | |]; try contradiction.
  exists va, vb. tauto.
Qed.

Definition s_1a01 : bytes := [49; 46; 97; 46; 48; 49]%N.
Lemma gem_domain_nonvacuous_c :
  match gem_parse s_1a, gem_parse s_1a01 with
  | Ok va, Ok vb => gem_c01_dom va = true /\ gem_c01_dom vb = true /\ compare va vb = Ok (-1)
  | _, _ => False
  end.
Proof. vm_compute. repeat split; reflexivity. Qed.

Lemma gem_domain_nonvacuous : exists va vb,
  gem_parse s_1a = Ok va /\ gem_parse s_1a01 = Ok vb /\ gem_dom va /\ gem_dom vb /\
  compare va vb = Ok (-1).
Proof.
  pose proof gem_domain_nonvacuous_c as H.
  destruct (gem_parse s_1a) as [va| | |] eqn:E1; try contradiction.
  destruct (gem_parse s_1a01) as [vb| | |] eqn:E2; try contradiction.
  exists va, vb. destruct H as [H1 [H2 H3]].
  repeat split; auto; try (eapply gem_parse_shape; eauto).
Qed.
