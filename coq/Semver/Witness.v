(* A concrete parser table for the witnesses of the refuted statements.  Every entry is the
   structure Go's parser returns for that string (the same dumps the correspondence check
   exchanges); strings that are not listed are reported as parse errors. *)
From Coq Require Import String Ascii.
From DepsDev Require Import Lib.Base Semver.Version Semver.Span Semver.Interval Semver.Set Semver.Constraint.
Local Open Scope Z_scope.

Definition b (s : string) : bytes := List.map (fun a => N_of_ascii a) (list_ascii_of_string s).

(* a SemVer-family version as the parser builds it *)
Definition mkv (sys : system) (str : string) (nums : list Z) (pre : list string) : version :=
  {| v_sys := sys; v_user_num_count := Z.of_nat (List.length nums);
     v_is_prerelease := match pre with nil => false | _ => true end;
     v_str := b str; v_num := nums; v_pre := List.map b pre; v_build := nil; v_ext := NoExt |}.

Definition npm_versions : list (string * list Z * list string) :=
  [ ("1.2.0", [1;2;0], []); ("2.0.0", [2;0;0], []); ("3.0.0", [3;0;0], []); ("0.1.1", [0;1;1], []);
    ("1", [1], []); ("2", [2], []); ("0.2", [0;2], []); ("1.0", [1;0], []); ("1.2", [1;2], []);
    ("10.2.0-1", [10;2;0], ["1"]); ("1.3.3", [1;3;3], []); ("0.2.0", [0;2;0], []); ("3.1.10", [3;1;10], []);
    ("1.0.0", [1;0;0], []); ("1.2.3", [1;2;3], []); ("1.2.4", [1;2;4], []); ("0.0.0-0", [0;0;0], ["0"]);
    ("0.0.0-rc.1", [0;0;0], ["rc"; "1"]); ("1.5.0", [1;5;0], []); ("0.x", [0;-1], []); ("0.0", [0;0], []);
    ("0.0.0", [0;0;0], []); ("1.9.9", [1;9;9], []); ("0.5.0", [0;5;0], []); ("1.4.0", [1;4;0], []);
    ("2.5.0", [2;5;0], []); ("3", [3], []); ("0.1.9", [0;1;9], []);
    ("1.∞.∞", [1; 9223372036854775807; 9223372036854775807], []) ]%string.

Definition go_versions : list (string * list Z * list string) :=
  [ ("v1.10.9-alpha.1", [1;10;9], ["alpha"; "1"]); ("v2.0.0-alpha.1", [2;0;0], ["alpha"; "1"]); ("v2.0.0", [2;0;0], []) ]%string.

Definition cargo_versions : list (string * list Z * list string) :=
  [ ("10.10.9223372036854775806", [10;10;9223372036854775806], []); ("10.10.1", [10;10;1], []) ]%string.

(* NuGet drops a fourth component that is 0 *)
Definition nuget_versions : list (string * list Z * list string) :=
  [ ("1.2.3.*", [1;2;3;-1], []); ("1.2.3.0", [1;2;3], []); ("1.2.3", [1;2;3], []); ("1.2.3.1", [1;2;3;1], []);
    ("∞.∞.∞.∞", [9223372036854775807; 9223372036854775807; 9223372036854775807; 9223372036854775807], []) ]%string.

Fixpoint lookup (sys : system) (tbl : list (string * list Z * list string)) (s : bytes) : parse_out :=
  match tbl with
  | nil => {| po_v := None; po_err := true |}
  | (k, nums, pre) :: t =>
      if bytes_eqb (b k) s then {| po_v := Some (mkv sys k nums pre); po_err := false |} else lookup sys t s
  end.

(* the parser parameter of the model, instantiated *)
Definition pv_w (sys : system) (allow_inf : bool) (s : bytes) : res parse_out :=
  match sys with
  | SNPM => Ok (lookup SNPM npm_versions s)
  | SGo => Ok (lookup SGo go_versions s)
  | SCargo => Ok (lookup SCargo cargo_versions s)
  | SNuGet => Ok (lookup SNuGet nuget_versions s)
  | _ => Ok {| po_v := None; po_err := true |}
  end.

Definition parse_set_of (sys : system) (text : string) : res set :=
  c <- parse_constraint pv_w sys (b text);; Ok (c_set c).

Definition probe (sys : system) (text : string) : res version :=
  po <- parse_public pv_w sys (b text);;
  match po_v po with Some v => if po_err po then Err 0%N else Ok v | None => Err 0%N end.
