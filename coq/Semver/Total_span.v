(* Totality (C04), part 2: spans and the interval code.  What the version parser guarantees
   (oracle_wf) is stated here; every clause is checked by the harness on every dump it feeds to
   the model (harness/gen/ctable.py, check_dump). *)
From Coq Require Import Lia.
From DepsDev Require Import Lib.Base Lib.Order Semver.Version Semver.Maven Semver.Gem Semver.Pep440 Semver.Compare
     Semver.Parse Semver.Span Semver.Interval Semver.Set Semver.Token Semver.Total_base Gen.SemverTables.
Local Open Scope Z_scope.

(* ---------------------------------------------------------------- spans *)
(* an empty span carries nil bounds; every other span carries both bounds *)
Definition nil_span (s : span) : Prop := sp_min s = None /\ sp_max s = None /\ sp_rank s = REmpty.
Definition bounded (s : span) : Prop :=
  exists mn mx, sp_min s = Some mn /\ sp_max s = Some mx /\ ver_ok mn = true /\ ver_ok mx = true.
Definition wf_span (s : span) : Prop := nil_span s \/ bounded s.

Lemma wf_empty_span : wf_span empty_span.
Proof. left. repeat split. Qed.

Lemma bounded_wf s : bounded s -> wf_span s.
Proof. right; auto. Qed.

(* a span that is not skipped as empty has its bounds *)
Lemma wf_nonempty_bounded s : wf_span s -> rank_is_empty (sp_rank s) = false -> bounded s.
Proof. intros [(_ & _ & R)|B] E; auto. rewrite R in E. discriminate. Qed.

Lemma new_span_good mn mo mx xo : ver_ok mn = true -> ver_ok mx = true -> good bounded (new_span mn mo mx xo).
Proof.
  intros Hmn Hmx. unfold new_span.
  set (min1 := if major mn =? wildcard then min_version (v_sys mn) mn else set_tail mn wildcard 0).
  assert (H1 : ver_ok min1 = true).
  { unfold min1. destruct (major mn =? wildcard); [apply ver_ok_min; reflexivity | apply ver_ok_set_tail; auto]. }
  assert (H2 : ver_ok (vset_build min1 []) = true) by (apply ver_ok_vset_build; auto).
  assert (H3 : ver_ok (vset_build (set_tail mx wildcard infinity) []) = true)
    by (apply ver_ok_vset_build, ver_ok_set_tail; auto).
  destruct (compare_total _ _ H2 H3) as (z & ->). cbn [bind].
  destruct (z =? 0); [simpl; eexists; eexists; repeat split; eauto|].
  destruct (z <? 0); [simpl; eexists; eexists; repeat split; eauto | exact I].
Qed.

Lemma new_span_same_good v mo xo : ver_ok v = true -> good bounded (new_span_same v mo xo).
Proof.
  intros H. unfold new_span_same.
  destruct (major v =? wildcard).
  - destruct (min_version_in_place (v_sys v)); apply new_span_good; auto; apply ver_ok_min; reflexivity.
  - apply new_span_good; apply ver_ok_set_tail; auto.
Qed.

(* ---------------------------------------------------------------- the version parser *)
Section Oracle.
Variable pv : system -> bool -> bytes -> res parse_out.

(* what a successfully parsed version of a system looks like, beyond ver_ok *)
Definition parsed_ok (sys : system) (v : version) : Prop :=
  (sys = SGo -> v_num v <> []) /\
  (sys = SPyPI -> match v_ext v with Pep440Ext _ => True | _ => False end).

(* the guarantees of System.parse used by the constraint code:
   - it returns (no panic: that is C04 for the version parsers);
   - a returned Version belongs to the system asked for and satisfies ver_ok, even when it
     comes together with an error (Maven, PyPI);
   - without an error there is a Version, a Go version has a number, a PyPI version has its
     extension object;
   - Maven and NuGet return a Version for the text 0 (used for an empty lower bound). *)
Definition oracle_wf : Prop :=
  (forall sys allow s, exists po, pv sys allow s = Ok po /\
     (forall v, po_v po = Some v -> ver_ok v = true /\ v_sys v = sys) /\
     (po_err po = false -> exists v, po_v po = Some v /\ parsed_ok sys v)) /\
  (forall sys, sys = SMaven \/ sys = SNuGet -> exists po v, pv sys false [48%N] = Ok po /\ po_v po = Some v).

Hypothesis Hwf : oracle_wf.

Lemma pv_good sys allow s :
  good (fun po => (forall v, po_v po = Some v -> ver_ok v = true /\ v_sys v = sys) /\
                  (po_err po = false -> exists v, po_v po = Some v /\ parsed_ok sys v)) (pv sys allow s).
Proof. destruct Hwf as [H _]. destruct (H sys allow s) as (po & -> & A & B). simpl. auto. Qed.

Lemma parse_public_good sys s :
  good (fun po => (forall v, po_v po = Some v -> ver_ok v = true /\ v_sys v = sys) /\
                  (po_err po = false -> exists v, po_v po = Some v /\ parsed_ok sys v)) (parse_public pv sys s).
Proof.
  unfold parse_public. destruct (possible_version_string sys s); [apply pv_good|].
  simpl. split; [intros v E; discriminate | intros E; discriminate].
Qed.

(* ---------------------------------------------------------------- rebuildExtension *)
Lemma rebuild_good v : ver_ok v = true -> good (fun w => ver_ok w = true) (rebuild_extension pv v).
Proof.
  intros H. unfold rebuild_extension. destruct (ext_empty (v_ext v)); [exact H|].
  eapply good_bind; [apply pv_good|]. intros po (A & B).
  destruct (po_err po) eqn:E; [exact I|]. destruct (B eq_refl) as (r & Er & _). rewrite Er.
  destruct (A r Er) as (Hr & Sr).
  unfold ver_ok in *. apply andb_prop in H. apply andb_prop in Hr. destruct H as [H1 H2], Hr as [R1 R2].
  rewrite Sr in R1.
  destruct (sys_eqb (v_sys v) SPyPI); [|destruct (sys_eqb (v_sys v) SMaven)]; simpl;
    cbn [v_sys v_ext v_pre vset_ext]; rewrite ?R1, ?R2, ?H2; reflexivity.
Qed.

(* ---------------------------------------------------------------- opVersionToSpan *)
Lemma op_tail_good lo mo hi xo : ver_ok lo = true -> ver_ok hi = true -> good bounded (op_tail pv lo mo hi xo).
Proof.
  intros Hl Hh. unfold op_tail.
  assert (L : ver_ok (set_tail lo infinity infinity) = true) by (apply ver_ok_set_tail; auto).
  assert (U : ver_ok (set_tail hi infinity infinity) = true) by (apply ver_ok_set_tail; auto).
  destruct (needs_rebuild _); [|apply new_span_good; auto].
  eapply good_bind; [apply rebuild_good; auto|]. intros lo2 H2.
  eapply good_bind; [apply rebuild_good; auto|]. intros hi2 H3.
  apply new_span_good; auto.
Qed.

Lemma last_opt_in {A} (l : list A) x : last_opt l = Some x -> In x l.
Proof.
  induction l as [|a t IH]; simpl; [discriminate|]. destruct t; [intros E; inversion E; auto|]. intros E. right. auto.
Qed.
Lemma last_opt_some {A} (l : list A) : l <> [] -> exists x, last_opt l = Some x.
Proof. induction l as [|a t IH]; [congruence|]. intros _. simpl. destruct t; eauto. apply IH. discriminate. Qed.

Lemma forallb_removelast {A} (f : A -> bool) l : forallb f l = true -> forallb f (removelast l) = true.
Proof.
  induction l as [|a t IH]; simpl; auto. intros H. apply andb_prop in H. destruct H as [Ha Ht].
  destruct t; simpl; auto. simpl in IH. rewrite Ha. apply IH. auto.
Qed.

Lemma nuget_strip_good pre : pre <> [] -> forallb nonempty_b pre = true ->
  good (fun r => forallb nonempty_b (fst r) = true) (nuget_strip_star pre).
Proof.
  intros Hne Hall. unfold nuget_strip_star.
  destruct (last_opt_some pre Hne) as (p & Ep). rewrite Ep.
  assert (Hp : nonempty_b p = true) by (rewrite forallb_forall in Hall; apply Hall; apply last_opt_in; auto).
  destruct (last_opt_some p) as (c & Ec); [destruct p; [discriminate Hp | discriminate]|]. rewrite Ec.
  destruct (N.eqb c 42); simpl.
  - rewrite forallb_app, forallb_removelast by auto. simpl. destruct (removelast p); reflexivity.
  - rewrite forallb_app, forallb_removelast by auto. simpl. destruct p; [discriminate|reflexivity].
Qed.

Lemma ver_ok_map_num v f : ver_ok v = true -> ver_ok (vset_num v (map f (v_num v))) = true.
Proof. apply ver_ok_vset_num. Qed.

Lemma op_ge_good lo mo hi : ver_ok lo = true -> ver_ok hi = true -> good bounded (op_ge pv lo mo hi).
Proof.
  intros Hl Hh. unfold op_ge.
  eapply (good_bind (fun r => ver_ok (fst r) = true)).
  { destruct (sys_eqb (v_sys lo) SNuGet && has_pre lo) eqn:E; [|exact Hl].
    apply andb_prop in E. destruct E as [_ E].
    assert (Hp : v_pre lo <> []) by (unfold has_pre in E; destruct (v_pre lo); [discriminate|discriminate]).
    assert (Ha : forallb nonempty_b (v_pre lo) = true) by (unfold ver_ok in Hl; apply andb_prop in Hl; apply Hl).
    eapply good_bind; [apply nuget_strip_good; auto|]. intros x Hx. simpl. apply ver_ok_vset_pre; auto. }
  intros [lo1 wild] H1. simpl in H1.
  assert (H2 : ver_ok (clear_pre (vset_num hi (map (fun _ => infinity) (v_num hi)))) = true)
    by (apply ver_ok_clear_pre, ver_ok_vset_num; auto).
  destruct (sys_eqb (v_sys lo1) SNuGet && (is_wildcard_v lo1 || wild)); [apply new_span_good; auto|].
  apply op_tail_good; [auto | apply ver_ok_vset_build; auto].
Qed.

Theorem op_version_to_span_good typ lo : ver_ok lo = true -> good wf_span (op_version_to_span pv typ lo).
Proof.
  intros H0. unfold op_version_to_span.
  set (lo1 := if is_wildcard_v lo && negb (sys_eqb (v_sys lo) SNuGet) then clear_pre lo else lo).
  assert (H : ver_ok lo1 = true) by (unfold lo1; destruct (_ && _); [apply ver_ok_clear_pre|]; auto).
  clearbody lo1. clear H0 lo.
  assert (B : forall r, good bounded r -> good wf_span r) by (intros r; apply good_weaken; apply bounded_wf).
  assert (S2 : forall x y, ver_ok (set_patch (set_minor lo1 x) y) = true) by (intros; repeat apply ver_ok_set_num; auto).
  assert (S1 : forall y, ver_ok (set_patch lo1 y) = true) by (intros; apply ver_ok_set_num; auto).
  assert (HI : forall k, ver_ok (match k with 1%nat => set_patch (set_minor lo1 infinity) infinity
                                         | 2%nat => set_patch lo1 infinity | _ => lo1 end) = true).
  { intros [|[|[|k]]]; auto. }
  destruct (_ && _ && has_pre lo1); [exact I|].
  destruct (_ && _ && negb (is_wildcard_v lo1)); [apply B, new_span_same_good; auto|].
  destruct (_ || _).
  { apply B, new_span_good; auto. }
  destruct (typ =? go_tokGreater).
  { destruct (all_v lo1 wildcard); [apply wf_empty_span|].
    eapply (good_bind (fun r => ver_ok (fst r) = true)).
    - destruct (has_pre lo1 || is_rubygems_or_pypi (v_sys lo1)); [exact H|].
      eapply good_bind; [apply version_inc_good; auto|]. intros w Hw. exact Hw.
    - intros [lo2 mo] H2. simpl in H2. apply B, op_ge_good; [apply ver_ok_vset_build; auto | auto]. }
  destruct (typ =? go_tokGreaterEqual); [apply B, op_ge_good; auto|].
  destruct (typ =? go_tokLess).
  { destruct (_ || _); [apply wf_empty_span|].
    apply B, op_tail_good; [apply ver_ok_min; reflexivity|]. apply ver_ok_vset_build, ver_ok_vset_num; auto. }
  destruct (typ =? go_tokLessEqual).
  { apply B, op_tail_good; [apply ver_ok_min; reflexivity | apply HI]. }
  destruct (typ =? go_tokCaret).
  { destruct (_ && _ && _); [apply B, new_span_good; auto; apply ver_ok_clear_pre; auto|].
    destruct (_ && _).
    { apply B, new_span_good; auto. apply ver_ok_clear_pre. destruct (negb _); auto. }
    destruct (major lo1 =? wildcard).
    { apply B, new_span_good; [apply ver_ok_min; reflexivity|]. apply ver_ok_clear_pre. repeat apply ver_ok_set_num. auto. }
    apply B, new_span_good; auto. unfold caret_hi3. apply ver_ok_clear_pre. auto. }
  destruct (typ =? go_tokTilde).
  { apply B, op_tail_good; auto. destruct (_ && _); auto.
    destruct (length (v_num lo1)) as [|[|[|[|k]]]]; auto. }
  destruct (typ =? go_tokBacon); [|exact I].
  destruct (if is_rubygems_or_pypi (v_sys lo1) then _ else _) as [|[|[|[|k]]]].
  - exact I.
  - destruct (sys_eqb (v_sys lo1) SPyPI); [exact I|]. apply B, op_tail_good; auto.
  - destruct (negb _); [apply B, new_span_good; auto | apply B, op_tail_good; auto].
  - apply B, op_tail_good; auto.
  - apply B, op_tail_good; auto using ver_ok_set_num.
Qed.

(* with an empty operator the span is never the empty one *)
Lemma op_empty_bounded lo : ver_ok lo = true -> good bounded (op_version_to_span pv go_tokEmpty lo).
Proof.
  intros H0. unfold op_version_to_span.
  set (lo1 := if is_wildcard_v lo && negb (sys_eqb (v_sys lo) SNuGet) then clear_pre lo else lo).
  assert (H : ver_ok lo1 = true) by (unfold lo1; destruct (_ && _); [apply ver_ok_clear_pre|]; auto).
  clearbody lo1. clear H0 lo.
  assert (HI : forall k, ver_ok (match k with 1%nat => set_patch (set_minor lo1 infinity) infinity
                                         | 2%nat => set_patch lo1 infinity | _ => lo1 end) = true).
  { intros [|[|[|k]]]; auto; repeat apply ver_ok_set_num; auto. }
  destruct (_ && _ && has_pre lo1); [exact I|].
  change ((go_tokEmpty =? go_tokEmpty) || (go_tokEmpty =? go_tokEqual)) with true. cbn [andb].
  destruct (_ && negb (is_wildcard_v lo1)); [apply new_span_same_good; auto|].
  apply new_span_good; auto.
Qed.

(* ---------------------------------------------------------------- excludeToSpans *)
Lemma ver_ok_zero sys : ver_ok (zero_version sys) = true.
Proof. reflexivity. Qed.
Lemma ver_ok_inf sys : ver_ok (inf_version sys) = true.
Proof. reflexivity. Qed.

Theorem exclude_to_spans_good v : ver_ok v = true ->
  good (fun r => bounded (fst r) /\ bounded (snd r)) (exclude_to_spans pv v).
Proof.
  intros H. unfold exclude_to_spans. destruct (rev (v_num v)) as [|last front]; [exact I|].
  destruct (existsb _ _); [exact I|]. destruct (last =? infinity); [exact I|].
  eapply (good_bind (fun r => ver_ok (fst (fst r)) = true /\ ver_ok (snd (fst r)) = true)).
  { destruct (last =? wildcard); [|simpl; auto].
    eapply good_bind; [apply op_empty_bounded; auto|]. intros opp (mn & mx & E1 & E2 & H1 & H2).
    rewrite E1, E2. simpl. auto. }
  intros [[lo hi] same] (Hl & Hh). simpl in Hl, Hh.
  assert (Hl' : ver_ok (vset_build (set_tail lo wildcard infinity) []) = true) by (apply ver_ok_vset_build, ver_ok_set_tail; auto).
  eapply good_bind; [apply new_span_good; auto; apply ver_ok_zero|]. intros s1 B1.
  eapply good_bind; [apply new_span_good; [destruct same; auto | apply ver_ok_inf]|]. intros s2 B2.
  simpl. auto.
Qed.

End Oracle.
