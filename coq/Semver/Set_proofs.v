(* canon, Union and Intersect on release-bounded spans.

   Domain (dom_span_b): both bounds present, three non-negative components, no prerelease, lower
   bound finite and closed, min <= max, a unit span has closed ends.  On lists of such spans in
   which no span ends exactly one step before another begins (no_adj_b), canon is proved to
   preserve the set of versions matched under interval matching, to stay inside the domain, and
   never to take one of the paths that skip without merging.                                    *)
From Coq Require Import Lia Sorted Permutation.
From DepsDev Require Import Lib.Base Lib.Order Semver.Version Semver.Maven Semver.Gem Semver.Pep440 Semver.Compare
     Semver.Generic_proofs Semver.Compare_proofs Semver.Span Semver.Interval Semver.Set
     Semver.Span_proofs Semver.Inc_proofs.
Local Open Scope Z_scope.

Lemma eq_true_iff_eq' (a b : bool) : (a = true <-> b = true) -> a = b.
Proof. destruct a, b; intuition congruence. Qed.

Section Canon.
Variable S : system.
Notation gc := (generic_compare S).
Notation fam := (fam_version S).
Hypothesis not_maven : sys_eqb S SMaven = false.

(* ---------------------------------------------------------------- the domain *)
Definition dom_span_b (s : span) : bool :=
  match sp_min s, sp_max s with
  | Some mn, Some mx =>
      ver3_b S (infinity - 1) mn && ver3_b S infinity mx && negb (sp_min_open s)
      && match sp_rank s with
         | REmpty => false
         | RUnit => (gc mn mx =? 0) && negb (sp_max_open s)
         | RVector => gc mn mx <=? 0
         end
  | _, _ => false
  end.

(* a ends exactly one step before b begins *)
Definition adj_b (a b : span) : bool :=
  match sp_max a, sp_min b with
  | Some mx, Some mn => match version_inc mx with Ok x => gc x mn =? 0 | _ => true end
  | _, _ => true
  end.

Definition no_adj_b (l : list span) : bool := forallb (fun a => forallb (fun b => negb (adj_b a b)) l) l.

Definition c09_dom_b (l : list span) : bool := forallb dom_span_b l && no_adj_b l.

Record dom_facts (s : span) (mn mx : version) : Prop := {
  df_min : sp_min s = Some mn;
  df_max : sp_max s = Some mx;
  df_mn3 : ver3_b S (infinity - 1) mn = true;
  df_mx3 : ver3_b S infinity mx = true;
  df_mo : sp_min_open s = false;
  df_le : gc mn mx <= 0;
  df_rank : match sp_rank s with REmpty => False | RUnit => gc mn mx = 0 /\ sp_max_open s = false | RVector => True end }.

Lemma dom_span_spec s : dom_span_b s = true -> exists mn mx, dom_facts s mn mx.
Proof.
  unfold dom_span_b. destruct (sp_min s) as [mn|] eqn:Emn; [|discriminate].
  destruct (sp_max s) as [mx|] eqn:Emx; [|discriminate].
  intros H. do 3 (apply andb_prop in H; destruct H as [H ?]).
  exists mn, mx. apply negb_true_iff in H1.
  destruct (sp_rank s) eqn:R; try discriminate.
  - apply andb_prop in H0. destruct H0 as [E O]. apply Z.eqb_eq in E. apply negb_true_iff in O.
    constructor; try rewrite R; auto; try lia.
  - apply Z.leb_le in H0. constructor; try rewrite R; auto.
Qed.

Lemma ver3_fam hi v : ver3_b S hi v = true -> fam v.
Proof. intros H. apply (ver3_b_spec S hi v H). Qed.
Lemma ver3_pre hi v : ver3_b S hi v = true -> v_pre v = [].
Proof. intros H. apply (ver3_b_spec S hi v H). Qed.

Lemma dom_fam_span s : dom_span_b s = true -> fam_span S s.
Proof.
  intros H. destruct (dom_span_spec s H) as (mn & mx & D). unfold fam_span.
  pose proof (df_rank _ _ _ D) as R.
  destruct (sp_rank s); [tauto| |]; exists mn, mx;
    (split; [apply D|]; split; [apply D|]; split;
     [apply (ver3_fam _ _ (df_mn3 _ _ _ D)) | apply (ver3_fam _ _ (df_mx3 _ _ _ D))]).
Qed.

(* membership in a span of the domain, in words *)
Lemma in_dom_span s mn mx v : dom_facts s mn mx ->
  (in_span S true s v = true <->
   gc mn v <= 0 /\ (if sp_max_open s then gc v mx < 0 else gc v mx <= 0)).
Proof.
  intros D. unfold in_span. rewrite (df_min _ _ _ D), (df_max _ _ _ D), (df_mo _ _ _ D).
  pose proof (df_rank _ _ _ D) as R. destruct (sp_rank s) eqn:ER; [tauto| |].
  - destruct R as [E O]. rewrite O. rewrite Z.eqb_eq. split.
    + intros E1. split; [lia|]. pose proof (gc_congr S mn mx v E). pose proof (gc_antisym S mx v). lia.
    + intros [L U]. pose proof (gc_congr S mn mx v E). pose proof (gc_antisym S mx v). lia.
  - rewrite orb_true_l, andb_true_r, andb_true_iff, lower_ok_le.
    destruct (sp_max_open s); [rewrite upper_ok_lt | rewrite upper_ok_le]; tauto.
Qed.

(* ---------------------------------------------------------------- one step of the merge loop *)
Definition le_min (a b : span) : Prop :=
  match sp_min a, sp_min b with Some x, Some y => gc x y <= 0 | _, _ => False end.

Lemma compare_opt_fam x y : fam x -> fam y -> compare_opt (Some x) (Some y) = Ok (gc x y).
Proof. intros. simpl. apply compare_family; auto. Qed.

Lemma canon_step_dom this next :
  dom_span_b this = true -> dom_span_b next = true -> le_min this next -> adj_b this next = false ->
  canon_step this next = Ok IBreak \/
  exists this', canon_step this next = Ok (IContinue this' true) /\ dom_span_b this' = true /\
    sp_min this' = sp_min this /\ (sp_max this' = sp_max this \/ sp_max this' = sp_max next) /\
    forall v, in_span S true this' v = in_span S true this v || in_span S true next v.
Proof.
  intros Dt Dn Hle Hadj.
  destruct (dom_span_spec _ Dt) as (mn & mx & T).
  Ltac bound_eq := first [reflexivity | simpl; first [reflexivity | eassumption | symmetry; eassumption]]. destruct (dom_span_spec _ Dn) as (mn' & mx' & N).
  pose proof (ver3_fam _ _ (df_mn3 _ _ _ T)) as Fmn. pose proof (ver3_fam _ _ (df_mx3 _ _ _ T)) as Fmx.
  pose proof (ver3_fam _ _ (df_mn3 _ _ _ N)) as Fmn'. pose proof (ver3_fam _ _ (df_mx3 _ _ _ N)) as Fmx'.
  pose proof (ver3_pre _ _ (df_mn3 _ _ _ T)) as Pmn. pose proof (ver3_pre _ _ (df_mx3 _ _ _ T)) as Pmx.
  pose proof (ver3_pre _ _ (df_mn3 _ _ _ N)) as Pmn'. pose proof (ver3_pre _ _ (df_mx3 _ _ _ N)) as Pmx'.
  pose proof (df_min _ _ _ T) as Qmn. pose proof (df_max _ _ _ T) as Qmx.
  pose proof (df_min _ _ _ N) as Qmn'. pose proof (df_max _ _ _ N) as Qmx'.
  unfold le_min in Hle. rewrite (df_min _ _ _ T), (df_min _ _ _ N) in Hle.
  unfold adj_b in Hadj. rewrite (df_max _ _ _ T), (df_min _ _ _ N) in Hadj.
  destruct (version_inc_ver3 S mx (df_mx3 _ _ _ T)) as (x & Ix & Px & Sx & Ex & a & b & c & Nx & Hx).
  rewrite Ix in Hadj. apply Z.eqb_neq in Hadj.
  assert (Fx : fam x) by (destruct Fmx; split; congruence).
  (* the lower bound of next is not above the upper bound of this, unless there is a gap *)
  assert (Touch : gc x mn' < 0 \/ gc mn' mx <= 0).
  { destruct (Z_lt_ge_dec (gc x mn') 0) as [L|G]; [left; auto|right].
    destruct (Z_lt_ge_dec (gc mx mn') 0) as [L2|G2].
    - pose proof (Hx mn' (df_mn3 _ _ _ N) L2). lia.
    - apply gc_flip_le. lia. }
  unfold canon_step, equal_opt.
  rewrite (df_max _ _ _ T), (df_min _ _ _ N). rewrite compare_opt_fam by auto. cbn [bind].
  (* the gap computation *)
  assert (Gap : (if gc mx mn' =? 0 then Ok (Some false) else
                   mx0 <- opt_version (Some mx);;
                   if has_pre mx0 then Ok None
                   else mp1 <- version_inc mx0;; c0 <- compare_opt (Some mp1) (Some mn');; Ok (Some (c0 <? 0)))
                = Ok (Some (if gc mx mn' =? 0 then false else gc x mn' <? 0))).
  { destruct (gc mx mn' =? 0); [reflexivity|]. cbn [opt_version bind]. unfold has_pre. rewrite Pmx, Ix.
    cbn [bind]. rewrite compare_opt_fam by auto. reflexivity. }
  rewrite Gap. cbn [bind].
  destruct (if gc mx mn' =? 0 then false else gc x mn' <? 0) eqn:G.
  { left. reflexivity. }
  right.
  assert (Ov : gc mn' mx <= 0).
  { destruct (Z.eqb_spec (gc mx mn') 0) as [E|E]; [apply gc_flip_le; lia|].
    apply Z.ltb_ge in G. destruct Touch; [lia | auto]. }
  rewrite (df_mo _ _ _ N), andb_false_r.
  unfold equal_pre. rewrite ?(df_min _ _ _ T), ?(df_max _ _ _ T), ?(df_min _ _ _ N), ?(df_max _ _ _ N).
  rewrite ?Pmn, ?Pmx, ?Pmn', ?Pmx'. cbn [compare_pre Z.eqb negb bind].
  assert (Rn : rank_is_empty (sp_rank next) = false).
  { pose proof (df_rank _ _ _ N). destruct (sp_rank next); simpl; tauto. }
  rewrite Rn. rewrite compare_opt_fam by auto. cbn [bind].
  destruct (Z.leb_spec (gc mx' mx) 0) as [Cov|Ext].
  - (* next is covered *)
    rewrite compare_opt_fam by auto. cbn [bind].
    destruct (Z.eqb_spec (gc mx mx') 0) as [Eq|Ne].
    + eexists. split; [reflexivity|].
      assert (D' : dom_span_b (sp_set_max_open this (sp_max_open this && sp_max_open next)) = true).
      { unfold dom_span_b, sp_set_max_open. cbn [sp_min sp_max sp_min_open sp_rank sp_max_open].
        rewrite (df_min _ _ _ T), (df_max _ _ _ T), (df_mn3 _ _ _ T), (df_mx3 _ _ _ T), (df_mo _ _ _ T).
        pose proof (df_rank _ _ _ T) as R. destruct (sp_rank this); [tauto| |].
        - destruct R as [E O]. rewrite O. simpl. apply Z.eqb_eq in E. rewrite E. reflexivity.
        - simpl. apply Z.leb_le. apply T. }
      split; [exact D'|]. split; [bound_eq|]. split; [left; bound_eq|].
      intros v. apply eq_true_iff_eq'. rewrite orb_true_iff.
      destruct (dom_span_spec _ D') as (m1 & m2 & T').
      assert (m1 = mn) by (pose proof (df_min _ _ _ T'); pose proof (df_min _ _ _ T); unfold sp_set_max_open in *; simpl in *; congruence).
      assert (m2 = mx) by (pose proof (df_max _ _ _ T'); pose proof (df_max _ _ _ T); unfold sp_set_max_open in *; simpl in *; congruence).
      subst m1 m2.
      rewrite (in_dom_span _ _ _ v T'), (in_dom_span _ _ _ v T), (in_dom_span _ _ _ v N).
      unfold sp_set_max_open. cbn [sp_max_open].
      pose proof (gc_congr_r S mx mx' v Eq) as E2. pose proof (gc_antisym S mx v) as A1.
      assert (M : gc mn' v <= 0 -> gc mn v <= 0) by (intros; apply (gc_trans S mn mn' v); auto).
      assert (K1 : gc mx v <= 0 -> gc mn' v <= 0) by (intros; apply (gc_trans S mn' mx v); auto).
      destruct (sp_max_open this), (sp_max_open next); simpl; lia.
    + eexists. split; [reflexivity|]. split; [exact Dt|]. split; [bound_eq|]. split; [left; bound_eq|].
      intros v. apply eq_true_iff_eq'. rewrite orb_true_iff.
      rewrite (in_dom_span _ _ _ v T), (in_dom_span _ _ _ v N).
      assert (Lt : gc mx' mx < 0) by (pose proof (gc_antisym S mx mx'); lia).
      split; [intros; left; auto|]. intros [H|[L U]]; auto.
      split; [apply (gc_trans S mn mn' v); auto|].
      assert (gc v mx < 0).
      { destruct (sp_max_open next); [apply (gc_lt_le_trans S v mx' mx); lia | apply (gc_le_lt_trans S v mx' mx); auto]. }
      destruct (sp_max_open this); lia.
  - (* this is extended up to next.max *)
    eexists. split; [reflexivity|].
    set (m := {| sp_rank := RVector; sp_min_open := sp_min_open this; sp_max_open := sp_max_open next;
                 sp_min := Some mn; sp_max := Some mx' |}).
    assert (Lmm : gc mn mx' <= 0).
    { apply (gc_trans S mn mx mx'); [apply T|]. apply gc_flip_le. lia. }
    assert (D' : dom_facts m mn mx').
    { constructor; simpl; auto; try apply T; try apply N. }
    assert (Db : dom_span_b m = true).
    { unfold dom_span_b, m. cbn [sp_min sp_max sp_min_open sp_rank sp_max_open].
      rewrite (df_mn3 _ _ _ T), (df_mx3 _ _ _ N), (df_mo _ _ _ T). simpl.
      apply Z.leb_le. auto. }
    split; [exact Db|]. split; [bound_eq|]. split; [right; bound_eq|].
    intros v. apply eq_true_iff_eq'. rewrite orb_true_iff.
    rewrite (in_dom_span _ _ _ v D'), (in_dom_span _ _ _ v T), (in_dom_span _ _ _ v N).
    cbn [sp_max_open m].
    assert (Lt : gc mx mx' < 0) by (apply gc_flip_lt; lia).
    split.
    + intros [L U].
      destruct (Z_lt_ge_dec (gc v mn') 0) as [B|A].
      * left. split; auto.
        assert (gc v mx < 0) by (apply (gc_lt_le_trans S v mn' mx); auto).
        destruct (sp_max_open this); lia.
      * right. split; [apply gc_flip_le; lia | auto].
    + intros [[L U]|[L U]].
      * split; auto.
        assert (gc v mx' < 0).
        { destruct (sp_max_open this); [apply (gc_lt_le_trans S v mx mx'); lia | apply (gc_le_lt_trans S v mx mx'); auto]. }
        destruct (sp_max_open next); lia.
      * split; [apply (gc_trans S mn mn' v); auto | auto].
Qed.

(* ---------------------------------------------------------------- the invariant of the loops *)
Notation dom := (fun s => dom_span_b s = true).

Definition noadj (l : list span) : Prop := forall a b, In a l -> In b l -> adj_b a b = false.

Definition inv (l : list span) : Prop := StronglySorted le_min l /\ Forall dom l /\ noadj l.

Lemma adj_b_ext a a' b b' : sp_max a = sp_max a' -> sp_min b = sp_min b' -> adj_b a b = adj_b a' b'.
Proof. unfold adj_b. intros -> ->. reflexivity. Qed.

Lemma no_adj_b_spec l : no_adj_b l = true -> noadj l.
Proof.
  unfold no_adj_b, noadj. intros H a b Ia Ib.
  rewrite forallb_forall in H. specialize (H a Ia). rewrite forallb_forall in H. specialize (H b Ib).
  apply negb_true_iff in H. exact H.
Qed.

Lemma le_min_trans a b c : dom b -> le_min a b -> le_min b c -> le_min a c.
Proof.
  unfold le_min. intros _. destruct (sp_min a), (sp_min b), (sp_min c); try tauto. apply gc_trans.
Qed.

Lemma inv_tail a l : inv (a :: l) -> inv l.
Proof.
  intros (Hs & Hd & Hn). inversion Hs; inversion Hd; subst. repeat split; auto.
  intros x y Ix Iy. apply Hn; right; auto.
Qed.

Lemma inv_merge this this' next rest :
  inv (this :: next :: rest) -> dom this' -> sp_min this' = sp_min this ->
  (sp_max this' = sp_max this \/ sp_max this' = sp_max next) -> inv (this' :: rest).
Proof.
  intros (Hs & Hd & Hn) D' Emin Emax.
  inversion Hs as [|? ? Hs1 Hf1]; subst. inversion Hs1 as [|? ? Hs2 Hf2]; subst.
  inversion Hd as [|? ? Dt Hd1]; subst. inversion Hd1 as [|? ? Dn Hd2]; subst.
  inversion Hf1 as [|? ? L1 Hf1']; subst.
  repeat split.
  - constructor; auto. eapply Forall_impl; [|exact Hf1']. intros x L. unfold le_min in *. rewrite Emin. exact L.
  - constructor; auto.
  - (* every bound of this' is a bound of this or of next *)
    assert (Src : forall x, In x (this' :: rest) ->
              exists x0, In x0 (this :: next :: rest) /\ sp_max x = sp_max x0).
    { intros x [<-|I]; [destruct Emax as [E|E]; [exists this | exists next]; simpl; auto | exists x; simpl; auto]. }
    assert (Srm : forall x, In x (this' :: rest) ->
              exists x0, In x0 (this :: next :: rest) /\ sp_min x = sp_min x0).
    { intros x [<-|I]; [exists this; simpl; auto | exists x; simpl; auto]. }
    intros a b Ia Ib.
    destruct (Src a Ia) as (a0 & Ia0 & Ea). destruct (Srm b Ib) as (b0 & Ib0 & Eb).
    rewrite (adj_b_ext a a0 b b0) by auto. apply Hn; auto.
Qed.

(* ---------------------------------------------------------------- the inner loop *)
Lemma canon_inner_dom tail : forall this k, inv (this :: tail) ->
  exists this' j, canon_inner this tail k = Ok (this', (k + j)%nat) /\ (j <= length tail)%nat /\
    inv (this' :: skipn j tail) /\
    forall v, in_spans S true (this' :: skipn j tail) v = in_spans S true (this :: tail) v.
Proof.
  induction tail as [|next rest IH]; intros this k Hinv.
  - exists this, 0%nat. simpl. rewrite Nat.add_0_r.
    split; [reflexivity|]. split; [lia|]. split; [exact Hinv|]. reflexivity.
  - pose proof Hinv as Hinv0. destruct Hinv as (Hs & Hd & Hn).
    inversion Hs as [|? ? Hs1 Hf1]; subst. inversion Hf1 as [|? ? L1 Hf1']; subst.
    inversion Hd as [|? ? Dt Hd1]; subst. inversion Hd1 as [|? ? Dn Hd2]; subst.
    assert (A : adj_b this next = false) by (apply Hn; simpl; auto).
    destruct (canon_step_dom this next Dt Dn L1 A) as [Br|(this' & St & D' & Emin & Emax & Den)].
    + exists this, 0%nat. simpl. rewrite Br. simpl. rewrite Nat.add_0_r.
      split; [reflexivity|]. split; [lia|]. split; [exact Hinv0|]. reflexivity.
    + assert (Hinv' : inv (this' :: rest)).
      { apply (inv_merge this this' next rest); auto. }
      destruct (IH this' (Datatypes.S k) Hinv') as (this'' & j & Ein & Hj & Hinv'' & Den').
      exists this'', (Datatypes.S j). simpl. rewrite St. simpl. rewrite Ein.
      split; [f_equal; f_equal; lia|]. split; [lia|]. split; [exact Hinv''|].
      intros v. pose proof (Den' v) as E. simpl in E. rewrite E. rewrite Den. rewrite orb_assoc. reflexivity.
Qed.

(* ---------------------------------------------------------------- the outer loop *)
Lemma canon_loop_dom : forall fuel l, (length l < fuel)%nat -> inv l ->
  exists r, canon_loop fuel l = Ok r /\ Forall dom r /\ (l <> [] -> r <> []) /\
    forall v, in_spans S true r v = in_spans S true l v.
Proof.
  induction fuel as [|f IH]; intros l Hlen Hinv; [lia|].
  destruct l as [|this tail].
  - exists []. simpl. repeat split; auto.
  - simpl.
    assert (Dt : dom this) by (destruct Hinv as (_ & Hd & _); inversion Hd; auto).
    assert (Rk : rank_is_empty (sp_rank this) = false).
    { destruct (dom_span_spec _ Dt) as (mn & mx & T). pose proof (df_rank _ _ _ T). destruct (sp_rank this); simpl; tauto. }
    rewrite Rk.
    destruct (canon_inner_dom tail this 0%nat Hinv) as (this' & j & Ein & Hj & Hinv' & Den).
    rewrite Ein. simpl.
    assert (Hlen' : (length (skipn j tail) < f)%nat) by (rewrite skipn_length; simpl in Hlen; lia).
    destruct (IH (skipn j tail) Hlen' (inv_tail _ _ Hinv')) as (r & Er & Dr & _ & Denr).
    rewrite Er. simpl. exists (this' :: r). split; [reflexivity|].
    split; [constructor; auto; destruct Hinv' as (_ & Hd' & _); inversion Hd'; auto|].
    split; [discriminate|].
    intros v. pose proof (Den v) as E. simpl in E. simpl. rewrite <- E. rewrite Denr. reflexivity.
Qed.

(* ---------------------------------------------------------------- the sort *)
Definition span_lt (a b : span) : bool :=
  match sp_min a, sp_min b, sp_max a, sp_max b with
  | Some x, Some y, Some p, Some q =>
      let c := gc x y in
      if negb (c =? 0) then c <? 0 else
      if negb (Bool.eqb (sp_min_open a) (sp_min_open b)) then negb (sp_min_open a) else
      let c2 := gc p q in
      if negb (c2 =? 0) then c2 <? 0 else
      if negb (Bool.eqb (sp_max_open a) (sp_max_open b)) then sp_max_open a else false
  | _, _, _, _ => false
  end.

Lemma span_less_dom a b : dom a -> dom b -> span_less a b = Ok (span_lt a b).
Proof.
  intros Da Db. destruct (dom_span_spec _ Da) as (x & p & A). destruct (dom_span_spec _ Db) as (y & q & B).
  unfold span_less, span_lt. rewrite (df_min _ _ _ A), (df_min _ _ _ B), (df_max _ _ _ A), (df_max _ _ _ B).
  rewrite compare_opt_fam by (eapply ver3_fam; first [apply A | apply B]). cbn [bind].
  destruct (negb (gc x y =? 0)); [reflexivity|].
  destruct (negb (Bool.eqb (sp_min_open a) (sp_min_open b))); [reflexivity|].
  rewrite compare_opt_fam by (eapply ver3_fam; first [apply A | apply B]). cbn [bind].
  destruct (negb (gc p q =? 0)); [reflexivity|].
  destruct (negb (Bool.eqb (sp_max_open a) (sp_max_open b))); reflexivity.
Qed.

Lemma span_lt_true a b : dom a -> dom b -> span_lt a b = true -> le_min a b.
Proof.
  intros Da Db. destruct (dom_span_spec _ Da) as (x & p & A). destruct (dom_span_spec _ Db) as (y & q & B).
  unfold span_lt, le_min. rewrite (df_min _ _ _ A), (df_min _ _ _ B), (df_max _ _ _ A), (df_max _ _ _ B).
  destruct (Z.eqb_spec (gc x y) 0); simpl; [lia|]. intros H. apply Z.ltb_lt in H. lia.
Qed.
Lemma span_lt_false a b : dom a -> dom b -> span_lt a b = false -> le_min b a.
Proof.
  intros Da Db. destruct (dom_span_spec _ Da) as (x & p & A). destruct (dom_span_spec _ Db) as (y & q & B).
  unfold span_lt, le_min. rewrite (df_min _ _ _ A), (df_min _ _ _ B), (df_max _ _ _ A), (df_max _ _ _ B).
  destruct (Z.eqb_spec (gc x y) 0); simpl.
  - intros _. apply gc_flip_le. lia.
  - intros H. apply Z.ltb_ge in H. apply gc_flip_le. lia.
Qed.

Definition ge_min (a b : span) : Prop := le_min b a.

Lemma ins_rev_dom x : dom x -> forall rl, Forall dom rl -> StronglySorted ge_min rl ->
  exists r, ins_rev x rl = Ok r /\ Permutation r (x :: rl) /\ StronglySorted ge_min r /\ Forall dom r.
Proof.
  intros Dx. induction rl as [|y t IH]; intros Hd Hs.
  - exists [x]. simpl. split; [reflexivity|]. split; [reflexivity|].
    split; [constructor; constructor | constructor; auto].
  - inversion Hd as [|? ? Dy Hd']; subst. inversion Hs as [|? ? Hs' Hf]; subst.
    simpl. rewrite span_less_dom by auto. simpl.
    destruct (span_lt x y) eqn:L.
    + destruct (IH Hd' Hs') as (r & Er & Pr & Sr & Dr). rewrite Er. simpl.
      exists (y :: r). split; [reflexivity|].
      split; [rewrite Pr; apply perm_swap|].
      split; [|constructor; auto].
      constructor; auto.
      rewrite Forall_forall. intros z Iz.
      apply (Permutation_in _ Pr) in Iz. destruct Iz as [<-|Iz].
      * unfold ge_min. apply span_lt_true; auto.
      * rewrite Forall_forall in Hf. apply Hf; auto.
    + exists (x :: y :: t). split; [reflexivity|]. split; [reflexivity|]. split; [|constructor; auto].
      constructor; auto. constructor.
      * unfold ge_min. apply span_lt_false; auto.
      * rewrite Forall_forall in *. intros z Iz. unfold ge_min in *.
        apply (le_min_trans z y x); auto. apply span_lt_false; auto.
Qed.

Lemma sort_rev_dom l : Forall dom l -> forall acc, Forall dom acc -> StronglySorted ge_min acc ->
  exists r, sort_rev l acc = Ok r /\ Permutation r (l ++ acc) /\ StronglySorted ge_min r /\ Forall dom r.
Proof.
  induction 1 as [|x l Dx Dl IH]; intros acc Da Sa.
  - exists acc. simpl. repeat split; auto.
  - simpl. destruct (ins_rev_dom x Dx acc Da Sa) as (acc' & E & P & S' & D'). rewrite E. simpl.
    destruct (IH acc' D' S') as (r & Er & Pr & Sr & Dr). exists r. split; [exact Er|]. split; [|auto].
    rewrite Pr. rewrite P. symmetry. apply Permutation_middle.
Qed.

Lemma SS_app {A} (R : A -> A -> Prop) l1 : forall l2, StronglySorted R l1 -> StronglySorted R l2 ->
  (forall x y, In x l1 -> In y l2 -> R x y) -> StronglySorted R (l1 ++ l2).
Proof.
  induction l1 as [|a l1 IH]; intros l2 S1 S2 H; simpl; auto.
  inversion S1; subst. constructor.
  - apply IH; auto. intros; apply H; simpl; auto.
  - rewrite Forall_app. split; auto. rewrite Forall_forall. intros; apply H; simpl; auto.
Qed.

Lemma SS_rev {A} (R : A -> A -> Prop) l : StronglySorted (fun a b => R b a) l -> StronglySorted R (rev l).
Proof.
  induction 1 as [|a l Sl IH Hf]; simpl; [constructor|].
  apply SS_app; auto.
  - constructor; [constructor | constructor].
  - intros x y Ix [<-|[]]. rewrite Forall_forall in Hf. apply Hf. apply in_rev. auto.
Qed.

Lemma sort_spans_dom l : Forall dom l ->
  exists r, sort_spans l = Ok r /\ Permutation r l /\ StronglySorted le_min r /\ Forall dom r.
Proof.
  intros Dl. destruct (sort_rev_dom l Dl [] (Forall_nil _) (SSorted_nil _)) as (r & E & P & Sr & Dr).
  unfold sort_spans. rewrite E. simpl. exists (rev r). split; [reflexivity|].
  split; [rewrite <- Permutation_rev; rewrite app_nil_r in P; auto|].
  split; [apply SS_rev; exact Sr|].
  rewrite Forall_forall in *. intros x Ix. apply Dr. apply in_rev. auto.
Qed.

(* ---------------------------------------------------------------- canon and Union *)
Lemma existsb_perm {A} (f : A -> bool) l l' : Permutation l l' -> existsb f l = existsb f l'.
Proof.
  induction 1; simpl; auto.
  - congruence.
  - destruct (f x), (f y); reflexivity.
  - congruence.
Qed.

Lemma forallb_dom l : forallb dom_span_b l = true -> Forall dom l.
Proof. rewrite forallb_forall, Forall_forall. auto. Qed.

Theorem canon_spans_dom l : c09_dom_b l = true ->
  exists r, canon_spans l = Ok r /\ Forall dom r /\ (l <> [] -> r <> []) /\
    forall v, in_spans S true r v = in_spans S true l v.
Proof.
  unfold c09_dom_b. intros H. apply andb_prop in H. destruct H as [Hd Hn].
  apply forallb_dom in Hd. apply no_adj_b_spec in Hn.
  unfold canon_spans.
  destruct (length l <=? 1)%nat eqn:Len.
  { exists l. repeat split; auto. }
  assert (Hsys : sys_eqb (sys_of_span l) SMaven = false).
  { destruct l as [|s t]; [discriminate|]. inversion Hd as [|? ? Ds _]; subst.
    destruct (dom_span_spec _ Ds) as (mn & mx & T). simpl. rewrite (df_min _ _ _ T).
    destruct (ver3_fam _ _ (df_mn3 _ _ _ T)) as [-> _]. exact not_maven. }
  rewrite Hsys.
  destruct (sort_spans_dom l Hd) as (sorted & Es & Ps & Ss & Ds). rewrite Es. simpl.
  assert (Hne : sorted <> []).
  { intros ->. apply Permutation_nil in Ps. subst. discriminate. }
  assert (Hall : forallb (fun x => rank_is_empty (sp_rank x)) sorted = false).
  { destruct sorted as [|s t]; [congruence|]. inversion Ds as [|? ? D1 _]; subst.
    destruct (dom_span_spec _ D1) as (mn & mx & T). pose proof (df_rank _ _ _ T).
    simpl. destruct (sp_rank s); simpl; tauto. }
  rewrite Hall.
  assert (Hinv : inv sorted).
  { repeat split; auto. intros a b Ia Ib. apply Hn; eapply Permutation_in; eauto. }
  destruct (canon_loop_dom (Datatypes.S (length sorted)) sorted (Nat.lt_succ_diag_r _) Hinv) as (r & Er & Dr & Nr & Den).
  exists r. split; [exact Er|]. split; [exact Dr|]. split; [auto|].
  intros v. rewrite Den. apply existsb_perm. exact Ps.
Qed.

Theorem union_dom A B : c09_dom_b (set_span A ++ set_span B) = true -> set_span A <> [] ->
  exists U, set_union A B = Ok U /\ set_span U <> [] /\ Forall dom (set_span U) /\
    forall v, in_spans S true (set_span U) v = in_spans S true (set_span A) v || in_spans S true (set_span B) v.
Proof.
  intros H Hne. destruct (canon_spans_dom _ H) as (r & Er & Dr & Nr & Den).
  unfold set_union. rewrite Er. simpl. eexists. split; [reflexivity|]. simpl.
  split; [apply Nr; destruct (set_span A); [congruence|discriminate]|]. split; [exact Dr|].
  intros v. rewrite Den. unfold in_spans. apply existsb_app.
Qed.

End Canon.
