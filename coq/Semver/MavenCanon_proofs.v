(* C10, Maven: printing an element list and parsing the result gives the list back, for the
   lists of MavenPrintable.printable_b (which the harness checks to contain every list the
   parser produces). *)
From Coq Require Import Lia.
From DepsDev Require Import Lib.Base Lib.Order Lib.BytesFacts Semver.Version Semver.Maven Semver.MavenParse
  Semver.MavenDomain Semver.MavenPrintable Semver.Compare Semver.Maven_proofs Semver.MavenParse_proofs Gen.MavenVariants.
Local Open Scope Z_scope.

(* ------------------------------------------------------------------ homogeneous texts *)
Definition pstr (s : bytes) : Prop :=
  s <> [] /\ exists k, k <> cat_separator /\ Forall (fun c => bcat c = k) s.
Definition pe (e : mvn_elem) : Prop := (me_sep e = 45%N \/ me_sep e = 46%N) /\ pstr (me_str e).

Lemma pstr_b_sound s : pstr_b s = true -> pstr s.
Proof.
  destruct s as [|c t]; [discriminate|]. unfold pstr_b. intros H. apply andb_true_iff in H. destruct H as [H1 H2].
  split; [discriminate|]. exists (bcat c). split.
  - apply negb_true_iff in H1. apply Z.eqb_neq in H1. exact H1.
  - apply Forall_forall. intros d Hd. rewrite forallb_forall in H2. apply Z.eqb_eq. auto.
Qed.
Lemma pe_b_sound e : pe_b e = true -> pe e.
Proof.
  unfold pe_b. intros H. apply andb_true_iff in H. destruct H as [H1 H2]. split; [|apply pstr_b_sound; auto].
  apply orb_true_iff in H1. destruct H1 as [H1|H1]; apply N.eqb_eq in H1; auto.
Qed.

Definition starts_sep (r : bytes) : Prop := match r with [] => True | c :: _ => bcat c = cat_separator end.

Lemma span_hom k str : forall rest, k <> cat_separator -> Forall (fun c => bcat c = k) str -> starts_sep rest ->
  span_cat k (str ++ rest) = (str, rest).
Proof.
  induction str as [|c t IH]; intros rest Hk H S.
  - simpl. destruct rest as [|d r]; auto. simpl in S. simpl. rewrite S.
    rewrite Z.eqb_refl. simpl. rewrite andb_false_r. reflexivity.
  - inversion H; subst. simpl. rewrite Z.eqb_refl.
    destruct (Z.eqb_spec (bcat c) cat_separator); [contradiction|]. simpl.
    rewrite (IH rest) by auto. reflexivity.
Qed.

Lemma pstr_cat s : pstr s -> maven_category s <> cat_separator /\ maven_category s <> cat_unknown.
Proof.
  intros [N [k [Hk F]]]. destruct s as [|c t]; [congruence|]. inversion F; subst. split.
  - intros X. apply mcat_sep_bcat in X. contradiction.
  - destruct (mcat_cases (c :: t) N) as [H|[H|H]]; rewrite H; discriminate.
Qed.

Lemma sep_bcat c : c = 45%N \/ c = 46%N -> bcat c = cat_separator.
Proof. intros [->| ->]; reflexivity. Qed.

(* ------------------------------------------------------------------ tokenising printed elements *)
Lemma canon_from_cons e t : maven_canon_from false (e :: t) = me_sep e :: me_str e ++ maven_canon_from false t.
Proof. reflexivity. Qed.

Lemma starts_sep_canon t : Forall pe t -> starts_sep (maven_canon_from false t).
Proof.
  intros H. destruct t as [|e t]; simpl; auto. inversion H; subst. destruct H2 as [S _]. apply sep_bcat; auto.
Qed.

Lemma next_elem_sep c str rest : (c = 45%N \/ c = 46%N) -> pstr str -> starts_sep rest ->
  next_maven_elem (c :: str ++ rest) = (c :: str, rest).
Proof.
  intros Hc [N [k [Hk F]]] S. destruct str as [|d t]; [congruence|]. inversion F; subst.
  unfold next_maven_elem. change ((d :: t) ++ rest) with (d :: t ++ rest).
  rewrite (sep_bcat c Hc). simpl (cat_separator =? cat_separator). cbv iota.
  change (d :: t ++ rest) with ((d :: t) ++ rest). rewrite (span_hom (bcat d) (d :: t) rest); auto.
Qed.

Lemma next_elem_first str rest : pstr str -> starts_sep rest ->
  next_maven_elem (str ++ rest) = (str, rest).
Proof.
  intros [N [k [Hk F]]] S. destruct str as [|c t]; [congruence|]. inversion F; subst.
  unfold next_maven_elem. change ((c :: t) ++ rest) with (c :: t ++ rest).
  destruct (t ++ rest) as [|d r] eqn:E.
  - apply app_eq_nil in E. destruct E; subst. reflexivity.
  - destruct (Z.eqb_spec (bcat c) cat_separator); [contradiction|].
    rewrite <- E. change (c :: t ++ rest) with ((c :: t) ++ rest). apply span_hom; auto.
Qed.

Lemma mcat_sep_head c str : c = 45%N \/ c = 46%N -> maven_category (c :: str) = cat_separator.
Proof. intros [->| ->]; reflexivity. Qed.

Lemma scan_step f c s' first pc racc :
  mvn_scan (S f) (c :: s') first pc racc =
  (let '(str, rest) := next_maven_elem (c :: s') in
   let cat := maven_category str in
   if cat =? cat_unknown then Err 1%N
   else if cat =? cat_separator then
     match str with
     | [] => Panic PIndex
     | c :: str1 =>
         let str2 := match str1 with [] => [48%N] | _ => str1 end in
         mvn_scan f rest false (maven_category str2) (mk_elem c str2 :: racc)
     end
   else if first then mvn_scan f rest false cat (mk_elem 0 str :: racc)
   else if cat =? cat_numeric then
     if pc =? cat_numeric then mvn_scan f rest false cat (mk_elem 46 str :: racc)
     else if pc =? cat_qualifier then
       match racc with
       | [] => Panic PIndex
       | p :: r => mvn_scan f rest false cat (mk_elem 45 str :: shortcut p :: r)
       end
     else mvn_scan f rest false cat (mk_elem 45 str :: racc)
   else mvn_scan f rest false cat (mk_elem 45 str :: racc)).
Proof. reflexivity. Qed.

Lemma scan_nil f first pc racc : mvn_scan f [] first pc racc = Ok (rev racc).
Proof. destruct f; reflexivity. Qed.

Lemma scan_tail t : forall fuel racc first pc, Forall pe t -> (length t <= fuel)%nat ->
  mvn_scan fuel (maven_canon_from false t) first pc racc = Ok (rev racc ++ map strip1 t).
Proof.
  induction t as [|e t IH]; intros fuel racc first pc H L.
  - simpl. rewrite scan_nil, app_nil_r. reflexivity.
  - inversion H as [|? ? He Ht]; subst. destruct He as [Se Pe].
    destruct fuel as [|f]; [simpl in L; lia|].
    rewrite canon_from_cons, scan_step.
    rewrite (next_elem_sep (me_sep e) (me_str e) _ Se Pe (starts_sep_canon t Ht)).
    rewrite (mcat_sep_head _ _ Se). simpl (cat_separator =? cat_unknown). simpl (cat_separator =? cat_separator). cbv iota zeta.
    destruct Pe as [N Pe']. destruct (me_str e) as [|d s'] eqn:E; [congruence|].
    rewrite (IH f) by (auto; simpl in L; lia).
    simpl rev. rewrite <- app_assoc. simpl. unfold strip1. rewrite E. reflexivity.
Qed.

Lemma canon_len t : Forall pe t -> (length t <= length (maven_canon_from false t))%nat.
Proof.
  induction 1 as [|e t He _ IH]; simpl; auto. rewrite app_length. lia.
Qed.

Lemma scan_first f str rest pc racc : pstr str -> starts_sep rest ->
  mvn_scan (S f) (str ++ rest) true pc racc = mvn_scan f rest false (maven_category str) (mk_elem 0 str :: racc).
Proof.
  intros P S. pose proof (next_elem_first str rest P S) as NE. destruct (pstr_cat str P) as [NS NU].
  destruct str as [|c s']; [destruct P; congruence|].
  change ((c :: s') ++ rest) with (c :: (s' ++ rest)) in *.
  rewrite scan_step, NE. cbv beta iota zeta.
  destruct (Z.eqb_spec (maven_category (c :: s')) cat_unknown); [contradiction|].
  destruct (Z.eqb_spec (maven_category (c :: s')) cat_separator); [contradiction|]. reflexivity.
Qed.

Lemma canon_with_false e0 t : maven_canon_with false (e0 :: t) = me_str e0 ++ maven_canon_from false t.
Proof. reflexivity. Qed.

Lemma scan_all e0 t : pstr (me_str e0) -> Forall pe t ->
  mvn_scan (S (length (maven_canon_with false (e0 :: t)))) (maven_canon_with false (e0 :: t)) true cat_unknown [] = Ok (strip (e0 :: t)).
Proof.
  intros P0 Ht. rewrite canon_with_false.
  rewrite (scan_first _ _ _ _ _ P0 (starts_sep_canon t Ht)).
  rewrite (scan_tail t) by (auto; pose proof (canon_len t Ht); rewrite app_length; lia).
  reflexivity.
Qed.

Lemma scan_all_with h e0 t : pstr (me_str e0) -> Forall pe t -> head_ok_b h (e0 :: t) = true ->
  mvn_scan (S (length (maven_canon_with h (e0 :: t)))) (maven_canon_with h (e0 :: t)) true cat_unknown [] =
  Ok (strip_with h (e0 :: t)).
Proof.
  intros P0 Ht Hh. destruct h; [|apply scan_all; auto].
  unfold strip_with. simpl in Hh.
  destruct (N.eqb_spec (me_sep e0) 0) as [Z|Z].
  - assert (E : maven_canon_with true (e0 :: t) = maven_canon_with false (e0 :: t)).
    { unfold maven_canon_with. rewrite Z. reflexivity. }
    rewrite E, (scan_all e0 t P0 Ht). f_equal. cbn [strip map]. f_equal. unfold strip1. rewrite Z. reflexivity.
  - assert (S : me_sep e0 = 45%N \/ me_sep e0 = 46%N).
    { simpl in Hh. apply orb_true_iff in Hh. destruct Hh as [Hh|Hh]; [left | right]; apply N.eqb_eq; auto. }
    assert (E : maven_canon_with true (e0 :: t) = maven_canon_from false (e0 :: t)).
    { unfold maven_canon_with. apply N.eqb_neq in Z. rewrite Z. reflexivity. }
    rewrite E. rewrite (scan_tail (e0 :: t)).
    + reflexivity.
    + constructor; auto. split; auto.
    + pose proof (canon_len (e0 :: t) ltac:(constructor; [split; auto | auto])). lia.
Qed.

(* ------------------------------------------------------------------ the round trip *)
Lemma mvn_list_eqb_eq a : forall b, mvn_list_eqb a b = true -> a = b.
Proof.
  induction a as [|x a IH]; intros [|y b] H; simpl in H; try discriminate; auto.
  apply andb_true_iff in H. destruct H as [H1 H2]. apply mvn_elem_eqb_eq in H1. subst. f_equal. apply IH. exact H2.
Qed.

Definition mk_version (s : bytes) (l : list mvn_elem) (b : bool) : version :=
  {| v_sys := SMaven; v_user_num_count := 0; v_is_prerelease := b; v_str := s;
     v_num := []; v_pre := []; v_build := []; v_ext := MavenExt l |}.

(* for both variants of the printer (h) and of the zero test (z) *)
Theorem maven_roundtrip_with h z l : printable_with h z l = true ->
  exists b, mvn_parse_with z (maven_canon_with h l) =
            Some (Ok (mk_version (maven_canon_with h l) (head_with h l) b)).
Proof.
  destruct l as [|e0 t].
  - intros _. exists false. destruct h; reflexivity.
  - unfold printable_with. intros H. repeat (apply andb_true_iff in H; destruct H as [H ?]).
    apply pstr_b_sound in H.
    assert (Ht : Forall pe t).
    { apply Forall_forall. intros e He. apply pe_b_sound. rewrite forallb_forall in H5. auto. }
    apply beqb_eq in H3.
    destruct (mvn_trim_with z (strip_with h (e0 :: t))) as [l'| | |] eqn:TR; try discriminate. apply mvn_list_eqb_eq in H1. subst l'.
    destruct (mvn_ints (strip_with h (e0 :: t))) as [r| | |] eqn:IN; try discriminate. apply mvn_list_eqb_eq in H0.
    exists (snd r). unfold mvn_parse_with. rewrite H2. unfold mvn_init_with. rewrite H3.
    rewrite (scan_all_with h e0 t H Ht H4). cbn [bind]. rewrite TR. cbn [bind].
    rewrite IN. cbn [bind]. rewrite H0. reflexivity.
Qed.

(* the variant of the tree *)
Theorem maven_roundtrip l : printable_b l = true ->
  exists b, mvn_parse (maven_canon l) = Some (Ok (mk_version (maven_canon l) (head_with go_mvn_canon_head_sep l) b)).
Proof. apply maven_roundtrip_with. Qed.

(* compare is reflexive on every list *)
Lemma maven_compare_refl l : maven_compare l l = Ok 0.
Proof.
  unfold maven_compare.
  assert (L : maven_loop l l = Ok None).
  { induction l as [|x l IH]; [reflexivity|].
    change (maven_loop (x :: l) (x :: l)) with
      (match maven_step (Some x) (Some x) with Continue => maven_loop l l | Return r => Ok (Some r) | PanicStep => Panic PExplicit end).
    rewrite step_both. unfold mstep. rewrite mvn_elem_eqb_refl. exact IH. }
  rewrite L. reflexivity.
Qed.

(* the three clauses: with the first separator printed, for every printable list; without, for
   the lists whose first separator is 0 *)
Theorem maven_roundtrip_clauses h z l : printable_with h z l = true -> head_with h l = l ->
  exists b, mvn_parse_with z (maven_canon_with h l) = Some (Ok (mk_version (maven_canon_with h l) l b)) /\
            maven_compare l l = Ok 0.
Proof.
  intros P E. destruct (maven_roundtrip_with h z l P) as [b H]. rewrite E in H. exists b. split; auto. apply maven_compare_refl.
Qed.

Lemma head_with_true l : head_with true l = l.
Proof. reflexivity. Qed.

(* same canonical string: same list *)
Theorem maven_canon_inj h z l1 l2 : printable_with h z l1 = true -> printable_with h z l2 = true ->
  head_with h l1 = l1 -> head_with h l2 = l2 -> maven_canon_with h l1 = maven_canon_with h l2 -> l1 = l2.
Proof.
  intros P1 P2 E1 E2 C. destruct (maven_roundtrip_with h z l1 P1) as [b1 H1], (maven_roundtrip_with h z l2 P2) as [b2 H2].
  rewrite C, E1 in H1. rewrite E2 in H2. rewrite H1 in H2. inversion H2. congruence.
Qed.
