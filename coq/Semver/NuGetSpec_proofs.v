(* The generic comparison of Version.v, run for NuGet, coincides with NuGet's own comparison
   (Spec/NuGetSpec.v) on NuGet structures: three or four numbers, release labels of the
   SemVer grammar.  No range hypothesis: both sides read a label as a number exactly when it
   fits Int32 (C02 for NuGet). *)
From Coq Require Import Lia.
From DepsDev Require Import Lib.Base Semver.Version Spec.SemverSpec Spec.NuGetSpec Semver.SemverSpec_proofs.
Local Open Scope Z_scope.

(* abstraction of a parsed structure to the spec's value; Parse pads NuGet versions to three
   numbers and drops a fourth number 0 *)
Definition abs_nuget (v : version) : option nv :=
  match sequence (map label (v_pre v)) with
  | Some ls =>
      match v_num v with
      | [a; b; c] => Some {| nv_nums := [a; b; c; 0]; nv_labels := ls |}
      | [a; b; c; d] => Some {| nv_nums := [a; b; c; d]; nv_labels := ls |}
      | _ => None
      end
  | None => None
  end.

(* ------------------------------------------------------------------ labels *)
Lemma label_self e e' : label e = Some e' -> e' = e.
Proof. unfold label. destruct (pre_ident e); intros H; inversion H; auto. Qed.

Lemma sequence_label_self l : forall r, sequence (map label l) = Some r -> r = l.
Proof.
  induction l as [|x t IH]; intros r H.
  - simpl in H. inversion H; auto.
  - cbn [map] in H. apply sequence_cons in H as (x' & r' & Hx & Ht & ->).
    rewrite (label_self _ _ Hx), (IH _ Ht). reflexivity.
Qed.

(* both sides read a label as a number in exactly the same cases *)
Lemma is_numeric_label e e' : label e = Some e' -> is_numeric SNuGet e = label_int e.
Proof.
  unfold label. destruct (pre_ident e) as [i|] eqn:P; [|discriminate]. intros _.
  destruct i as [n|s].
  - (* numeric identifier of the grammar *)
    unfold pre_ident in P.
    destruct e as [|c t]; [discriminate|].
    destruct (forallb is_ident_char (c :: t)); cbn [negb] in P; [|discriminate].
    destruct (forallb is_digit (c :: t)) eqn:D; [|discriminate].
    destruct (numeric_ident (c :: t)) as [m|] eqn:E; [|discriminate].
    destruct (numeric_ident_spec _ _ E) as (_ & Hv & Hz).
    unfold is_numeric, label_int. rewrite D.
    assert (Hc : is_digit c = true) by (cbn [forallb] in D; apply andb_true_iff in D; tauto).
    destruct (is_digit_not_sign c Hc) as (H43 & H45).
    rewrite (lz_match c t), Hz, (sign_match c t), H45, H43. cbn [andb orb].
    change (sys_eqb SNuGet SNuGet) with true. cbn iota.
    rewrite (parse_int_nosign c t _ H43 H45).
    rewrite (digits_val_dec (c :: t) 0 D).
    assert (0 <= dec_val (c :: t) 0) by (apply dec_val_mono; lia).
    unfold max_int32. change (2 ^ (32 - 1)) with 2147483648.
    destruct (dec_val (c :: t) 0 <=? 2147483647) eqn:R.
    + apply Z.leb_le in R.
      match goal with |- (if ?cnd then _ else _) = _ => destruct cnd eqn:Q end; auto.
      apply orb_true_iff in Q. destruct Q as [Q|Q]; apply Z.ltb_lt in Q; lia.
    + apply Z.leb_gt in R.
      match goal with |- (if ?cnd then _ else _) = _ => destruct cnd eqn:Q end; auto.
      apply orb_false_iff in Q. destruct Q as [_ Q]. apply Z.ltb_ge in Q. lia.
  - (* text identifier *)
    destruct (is_numeric_alpha SNuGet e s P) as (_ & ->).
    unfold pre_ident in P. unfold label_int.
    destruct e as [|c t]; [discriminate|].
    destruct (forallb is_ident_char (c :: t)); cbn [negb] in P; [|discriminate].
    destruct (forallb is_digit (c :: t)) eqn:D; [|reflexivity].
    destruct (numeric_ident (c :: t)); discriminate.
Qed.

Lemma label_chars e e' : label e = Some e' -> forallb is_ident_char e = true.
Proof.
  unfold label, pre_ident. destruct e as [|c t]; [discriminate|].
  destruct (forallb is_ident_char (c :: t)); cbn [negb]; auto; discriminate.
Qed.

(* ------------------------------------------------------------------ case folding *)
Lemma compare_transfer a b c d :
  (a < b <-> c < d) -> (a = b <-> c = d) -> Z.compare a b = Z.compare c d.
Proof.
  intros H1 H2.
  destruct (Z.compare_spec a b) as [E|L|G], (Z.compare_spec c d) as [E'|L'|G']; auto; lia.
Qed.

Lemma fold_char x y : is_ident_char x = true -> is_ident_char y = true ->
  sgnZ (Z.of_N (ascii_lower x)) (Z.of_N (ascii_lower y)) =
  zcmp (Z.of_N (ascii_upper x)) (Z.of_N (ascii_upper y)).
Proof.
  unfold is_ident_char, is_digit, sgnZ, zcmp, ascii_lower, ascii_upper. intros Hx Hy.
  rewrite (compare_transfer _ _ (Z.of_N (if ((97 <=? x) && (x <=? 122))%N then (x - 32)%N else x))
                                (Z.of_N (if ((97 <=? y) && (y <=? 122))%N then (y - 32)%N else y))); [reflexivity| |].
  - destruct ((65 <=? x) && (x <=? 90))%N eqn:Ux, ((97 <=? x) && (x <=? 122))%N eqn:Lx,
             ((65 <=? y) && (y <=? 90))%N eqn:Uy, ((97 <=? y) && (y <=? 122))%N eqn:Ly,
             ((48 <=? x) && (x <=? 57))%N eqn:Dx, ((48 <=? y) && (y <=? 57))%N eqn:Dy,
             (N.eqb x 45) eqn:Mx, (N.eqb y 45) eqn:My;
      cbn [orb] in Hx, Hy; try discriminate;
      rewrite ?andb_true_iff, ?andb_false_iff, ?N.leb_le, ?N.leb_gt, ?N.eqb_eq, ?N.eqb_neq in *; lia.
  - destruct ((65 <=? x) && (x <=? 90))%N eqn:Ux, ((97 <=? x) && (x <=? 122))%N eqn:Lx,
             ((65 <=? y) && (y <=? 90))%N eqn:Uy, ((97 <=? y) && (y <=? 122))%N eqn:Ly,
             ((48 <=? x) && (x <=? 57))%N eqn:Dx, ((48 <=? y) && (y <=? 57))%N eqn:Dy,
             (N.eqb x 45) eqn:Mx, (N.eqb y 45) eqn:My;
      cbn [orb] in Hx, Hy; try discriminate;
      rewrite ?andb_true_iff, ?andb_false_iff, ?N.leb_le, ?N.leb_gt, ?N.eqb_eq, ?N.eqb_neq in *; lia.
Qed.

Lemma nuget_compare_ordinal a : forall b,
  forallb is_ident_char a = true -> forallb is_ident_char b = true ->
  nuget_compare a b = ordinal_ignore_case a b.
Proof.
  induction a as [|x a' IH]; intros [|y b'] Ha Hb; cbn [nuget_compare ordinal_ignore_case]; auto.
  cbn [forallb] in Ha, Hb. apply andb_true_iff in Ha as (Hx & Ha). apply andb_true_iff in Hb as (Hy & Hb).
  rewrite (fold_char x y Hx Hy), (IH b' Ha Hb). reflexivity.
Qed.

Lemma compare_elem_label x y x' y' : label x = Some x' -> label y = Some y' ->
  compare_elem SNuGet x y = label_cmp x y.
Proof.
  intros Hx Hy. unfold compare_elem, label_cmp.
  rewrite (is_numeric_label x x' Hx), (is_numeric_label y y' Hy).
  destruct (label_int x), (label_int y); try reflexivity.
  change (sys_eqb SNuGet SNuGet) with true. cbn iota.
  apply nuget_compare_ordinal; eapply label_chars; eauto.
Qed.

Lemma compare_pre_labels : forall p1 p2 l1 l2,
  sequence (map label p1) = Some l1 -> sequence (map label p2) = Some l2 ->
  compare_pre SNuGet p1 p2 = labels_cmp p1 p2.
Proof.
  induction p1 as [|x t1 IH]; intros [|y t2] l1 l2 H1 H2; cbn [compare_pre labels_cmp]; auto.
  cbn [map] in H1, H2.
  apply sequence_cons in H1 as (x' & r1 & Hx & S1 & ->).
  apply sequence_cons in H2 as (y' & r2 & Hy & S2 & ->).
  rewrite (compare_elem_label x y x' y' Hx Hy), (IH t2 r1 r2 S1 S2). reflexivity.
Qed.

(* ------------------------------------------------------------------ numbers *)
Lemma compare_nums_33 a b c a' b' c' :
  compare_nums [a; b; c] [a'; b'; c'] = nums_cmp [a; b; c; 0] [a'; b'; c'; 0].
Proof. cbn. change sgnZ with zcmp. repeat (match goal with |- context[if ?c then _ else _] => destruct c end); reflexivity. Qed.
Lemma compare_nums_34 a b c a' b' c' d' :
  compare_nums [a; b; c] [a'; b'; c'; d'] = nums_cmp [a; b; c; 0] [a'; b'; c'; d'].
Proof. cbn. change sgnZ with zcmp. repeat (match goal with |- context[if ?c then _ else _] => destruct c end); reflexivity. Qed.
Lemma compare_nums_43 a b c d a' b' c' :
  compare_nums [a; b; c; d] [a'; b'; c'] = nums_cmp [a; b; c; d] [a'; b'; c'; 0].
Proof. cbn. change sgnZ with zcmp. repeat (match goal with |- context[if ?c then _ else _] => destruct c end); reflexivity. Qed.
Lemma compare_nums_44 a b c d a' b' c' d' :
  compare_nums [a; b; c; d] [a'; b'; c'; d'] = nums_cmp [a; b; c; d] [a'; b'; c'; d'].
Proof. reflexivity. Qed.

Theorem generic_compare_nuget a b na nb :
  abs_nuget a = Some na -> abs_nuget b = Some nb ->
  generic_compare SNuGet a b = nuget_precedence na nb.
Proof.
  intros Ha Hb. unfold abs_nuget in *.
  destruct (sequence (map label (v_pre a))) as [la|] eqn:La; [|discriminate].
  destruct (sequence (map label (v_pre b))) as [lb|] eqn:Lb; [|discriminate].
  pose proof (sequence_label_self _ _ La) as Ea. pose proof (sequence_label_self _ _ Lb) as Eb.
  pose proof (compare_pre_labels _ _ _ _ La Lb) as Hp.
  assert (Hnum : forall na4 nb4,
     (match v_num a with [x;y;z] => Some [x;y;z;0] | [x;y;z;w] => Some [x;y;z;w] | _ => None end) = Some na4 ->
     (match v_num b with [x;y;z] => Some [x;y;z;0] | [x;y;z;w] => Some [x;y;z;w] | _ => None end) = Some nb4 ->
     compare_nums (v_num a) (v_num b) = nums_cmp na4 nb4).
  { intros na4 nb4 H1 H2.
    destruct (v_num a) as [|a1 [|a2 [|a3 [|a4 [|? ?]]]]]; try discriminate;
    destruct (v_num b) as [|b1 [|b2 [|b3 [|b4 [|? ?]]]]]; try discriminate;
    inversion H1; inversion H2; subst.
    - apply compare_nums_33. - apply compare_nums_34. - apply compare_nums_43. - apply compare_nums_44. }
  assert (exists na4, (match v_num a with [x;y;z] => Some [x;y;z;0] | [x;y;z;w] => Some [x;y;z;w] | _ => None end) = Some na4
                      /\ na = {| nv_nums := na4; nv_labels := la |}) as (na4 & Hna & ->).
  { destruct (v_num a) as [|a1 [|a2 [|a3 [|a4 [|? ?]]]]]; try discriminate; inversion Ha; eauto. }
  assert (exists nb4, (match v_num b with [x;y;z] => Some [x;y;z;0] | [x;y;z;w] => Some [x;y;z;w] | _ => None end) = Some nb4
                      /\ nb = {| nv_nums := nb4; nv_labels := lb |}) as (nb4 & Hnb & ->).
  { destruct (v_num b) as [|b1 [|b2 [|b3 [|b4 [|? ?]]]]]; try discriminate; inversion Hb; eauto. }
  unfold generic_compare, nuget_precedence. cbn [nv_nums nv_labels].
  rewrite (Hnum na4 nb4 Hna Hnb). subst la lb.
  destruct (nums_cmp na4 nb4 =? 0); cbn [negb]; [|reflexivity].
  destruct (v_pre a) as [|xa ta], (v_pre b) as [|xb tb]; try reflexivity. exact Hp.
Qed.
