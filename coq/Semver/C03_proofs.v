(* C03, npm layer: the model's order is SemVer precedence; the span produced for an operator
   applied to a full release version denotes what node-semver's desugaring of that comparator
   accepts; the prerelease admission rule of span.contains against node's rule for a comparator
   pair; composition of sound spans by Intersect and canon. *)
From Coq Require Import Lia.
From DepsDev Require Import Lib.Base Lib.Order Semver.Version Semver.Maven Semver.Gem Semver.Pep440 Semver.Compare
     Semver.Generic_proofs Semver.Compare_proofs Semver.Span Semver.Interval Semver.Set Semver.Constraint
     Semver.Span_proofs Semver.Inc_proofs Semver.Inter_proofs Gen.SemverTables Spec.NodeRange.
Local Open Scope Z_scope.

Notation gcn := (generic_compare SNPM).

(* ---------------------------------------------------------------- versions as SemVer tuples *)
Definition ident_of (s : bytes) : ident :=
  match is_numeric SNPM s with Some n => INum n | None => IStr s end.

Definition sv_of (v : version) : sv :=
  mk_sv (get_num (v_num v) 0) (get_num (v_num v) 1) (get_num (v_num v) 2) (map ident_of (v_pre v)).

Lemma compare_elem_ident s1 s2 : compare_elem SNPM s1 s2 = ident_compare (ident_of s1) (ident_of s2).
Proof.
  unfold compare_elem, ident_of, ident_compare.
  destruct (is_numeric SNPM s1), (is_numeric SNPM s2); reflexivity.
Qed.

Lemma compare_pre_loop p1 : forall p2, compare_pre SNPM p1 p2 = pre_compare_loop (map ident_of p1) (map ident_of p2).
Proof.
  induction p1 as [|x t IH]; intros [|y t2]; simpl; auto.
  rewrite compare_elem_ident, IH. reflexivity.
Qed.

(* the comparison of the model is SemVer 2.0.0 precedence on three-component versions *)
Theorem npm_compare_is_semver x y a b c d e f :
  v_num x = [a; b; c] -> v_num y = [d; e; f] -> gcn x y = sv_compare (sv_of x) (sv_of y).
Proof.
  intros Nx Ny. unfold generic_compare, sv_compare, sv_of. rewrite Nx, Ny. cbn [get_num sv_major sv_minor sv_patch sv_pre mk_sv].
  unfold zcmp. change (fun a b => match a ?= b with Lt => -1 | Eq => 0 | Gt => 1 end) with sgnZ.
  simpl compare_nums.
  fold (sgnZ a d) (sgnZ b e) (sgnZ c f).
  destruct (sgnZ a d =? 0) eqn:E1; simpl.
  2:{ rewrite E1. reflexivity. }
  destruct (sgnZ b e =? 0) eqn:E2; simpl.
  2:{ rewrite E2. simpl. reflexivity. }
  destruct (sgnZ c f =? 0) eqn:E3; simpl.
  2:{ rewrite E3. simpl. reflexivity. }
  unfold pre_compare. destruct (v_pre x) as [|p1 t1], (v_pre y) as [|p2 t2]; simpl; auto.
  rewrite compare_elem_ident, compare_pre_loop. reflexivity.
Qed.

(* ---------------------------------------------------------------- full release versions *)
Definition mk3 (str : bytes) (M m p : Z) : version :=
  {| v_sys := SNPM; v_user_num_count := 3; v_is_prerelease := false; v_str := str;
     v_num := [M; m; p]; v_pre := []; v_build := []; v_ext := NoExt |}.

Definition fin (x : Z) : Prop := 0 <= x < infinity.

(* a candidate: a release with three finite components *)
Definition cand (u : version) (a b c : Z) : Prop :=
  fam_version SNPM u /\ v_num u = [a; b; c] /\ v_pre u = [] /\ v_is_prerelease u = false /\ fin a /\ fin b /\ fin c.

Definition full (M m p : Z) : partial := {| pa_major := Some M; pa_minor := Some m; pa_patch := Some p; pa_pre := [] |}.

Lemma fam_mk3 s M m p : fam_version SNPM (mk3 s M m p).
Proof. split; reflexivity. Qed.

Lemma nowild_3 v M m p : v_num v = [M; m; p] -> 0 <= M -> 0 <= m -> 0 <= p -> nowild v = true.
Proof.
  intros E H1 H2 H3. unfold nowild. rewrite E. simpl.
  rewrite !(proj2 (Z.leb_le _ _)) by auto. reflexivity.
Qed.

Lemma wild_false M m p : 0 <= M -> 0 <= m -> 0 <= p -> is_wildcard [M; m; p] = false.
Proof.
  intros. unfold is_wildcard, wildcard. simpl.
  rewrite !(proj2 (Z.eqb_neq _ _)) by lia. reflexivity.
Qed.

(* comparison of a candidate with a bound whose components are given *)
Lemma gc_cand_l u a b c y d e f : cand u a b c -> v_num y = [d; e; f] -> v_pre y = [] -> gcn u y = lex3 a b c d e f.
Proof. intros (_ & N & P & _) Ny Py. apply (gc3 SNPM); auto. Qed.
Lemma gc_cand_r u a b c y d e f : cand u a b c -> v_num y = [d; e; f] -> v_pre y = [] -> gcn y u = lex3 d e f a b c.
Proof. intros (_ & N & P & _) Ny Py. apply (gc3 SNPM); auto. Qed.

Lemma sv_compare_lex a b c d e f pre :
  sv_compare (mk_sv a b c []) (mk_sv d e f pre) =
  if lex3 a b c d e f =? 0 then (match pre with [] => 0 | _ => 1 end) else lex3 a b c d e f.
Proof.
  unfold sv_compare, lex3, zcmp. cbn [sv_major sv_minor sv_patch sv_pre mk_sv].
  change (fun a b => match a ?= b with Lt => -1 | Eq => 0 | Gt => 1 end) with sgnZ.
  fold (sgnZ a d) (sgnZ b e) (sgnZ c f).
  destruct (sgnZ a d =? 0) eqn:E1; simpl; [|rewrite E1; reflexivity].
  destruct (sgnZ b e =? 0) eqn:E2; simpl; [|rewrite E2; reflexivity].
  destruct (sgnZ c f =? 0) eqn:E3; simpl; [|rewrite E3; reflexivity].
  destruct pre; reflexivity.
Qed.

Lemma sv_of_cand u a b c : cand u a b c -> sv_of u = mk_sv a b c [].
Proof. intros (_ & N & P & _). unfold sv_of. rewrite N, P. reflexivity. Qed.

(* ---------------------------------------------------------------- spans between explicit bounds *)
Lemma new_span_3 st1 st2 a b c d e f mo xo : 0 <= a -> 0 <= b -> 0 <= c -> 0 <= d -> 0 <= e -> 0 <= f ->
  lex3 a b c d e f < 0 ->
  new_span (mk3 st1 a b c) mo (mk3 st2 d e f) xo =
  Ok {| sp_rank := RVector; sp_min_open := mo; sp_max_open := xo;
        sp_min := Some (mk3 st1 a b c); sp_max := Some (mk3 st2 d e f) |}.
Proof.
  intros. rewrite (new_span_nowild SNPM) by (try apply fam_mk3; eapply nowild_3; try reflexivity; auto).
  rewrite (gc3 SNPM _ _ a b c d e f) by reflexivity.
  destruct (Z.eqb_spec (lex3 a b c d e f) 0); [lia|].
  destruct (Z.ltb_spec (lex3 a b c d e f) 0); [reflexivity|lia].
Qed.

Lemma new_span_3_unit st a b c mo xo : 0 <= a -> 0 <= b -> 0 <= c ->
  new_span_same (mk3 st a b c) mo xo =
  Ok {| sp_rank := RUnit; sp_min_open := mo; sp_max_open := xo;
        sp_min := Some (mk3 st a b c); sp_max := Some (mk3 st a b c) |}.
Proof.
  intros. unfold new_span_same.
  assert (W : nowild (mk3 st a b c) = true) by (eapply nowild_3; try reflexivity; auto).
  rewrite (major_nowild _ W), (set_tail_nowild _ 0 W (or_introl eq_refl)).
  rewrite (new_span_nowild SNPM) by (try apply fam_mk3; auto).
  rewrite gc_refl. reflexivity.
Qed.

(* the minimum version 0.0.0-0 is below every candidate *)
Definition min_npm (unc : Z) : version :=
  {| v_sys := SNPM; v_user_num_count := unc; v_is_prerelease := false; v_str := s_min_str;
     v_num := [0; 0; 0]; v_pre := [[48%N]]; v_build := []; v_ext := NoExt |}.

Lemma min_below unc y d e f : v_num y = [d; e; f] -> v_pre y = [] -> 0 <= d -> 0 <= e -> 0 <= f -> gcn (min_npm unc) y < 0.
Proof.
  intros Ny Py Hd He Hf. unfold generic_compare, min_npm. cbn [v_num v_pre]. rewrite Ny, Py.
  simpl compare_nums.
  destruct (sgnZ_cases 0 d) as [[? ->]|[[? ->]|[? ->]]]; simpl; try lia.
  destruct (sgnZ_cases 0 e) as [[? ->]|[[? ->]|[? ->]]]; simpl; try lia.
  destruct (sgnZ_cases 0 f) as [[? ->]|[[? ->]|[? ->]]]; simpl; lia.
Qed.

Lemma new_span_min unc st d e f xo : 0 <= d -> 0 <= e -> 0 <= f ->
  new_span (min_npm unc) false (mk3 st d e f) xo =
  Ok {| sp_rank := RVector; sp_min_open := false; sp_max_open := xo;
        sp_min := Some (min_npm unc); sp_max := Some (mk3 st d e f) |}.
Proof.
  intros. rewrite (new_span_nowild SNPM); try (split; reflexivity); try reflexivity;
    [| eapply nowild_3; try reflexivity; auto].
  pose proof (min_below unc (mk3 st d e f) d e f eq_refl eq_refl ltac:(auto) ltac:(auto) ltac:(auto)) as L.
  destruct (Z.eqb_spec (gcn (min_npm unc) (mk3 st d e f)) 0); [lia|].
  destruct (Z.ltb_spec (gcn (min_npm unc) (mk3 st d e f)) 0); [reflexivity|lia].
Qed.

(* membership of a candidate, as comparisons of triples *)
Definition lowb (mo : bool) (l : Z) : bool := negb (((l =? 0) && mo) || (l <? 0)).

Lemma in_vec_3 st1 st2 a b c d e f mo xo u x y z : cand u x y z ->
  in_span SNPM true {| sp_rank := RVector; sp_min_open := mo; sp_max_open := xo;
                       sp_min := Some (mk3 st1 a b c); sp_max := Some (mk3 st2 d e f) |} u
  = lowb mo (lex3 x y z a b c) && lowb xo (lex3 d e f x y z).
Proof.
  intros C. unfold in_span, lower_ok, upper_ok, lowb. cbn [sp_rank sp_min sp_max sp_min_open sp_max_open].
  rewrite (gc_cand_l u x y z _ a b c C) by reflexivity. rewrite (gc_cand_r u x y z _ d e f C) by reflexivity.
  rewrite orb_true_l, andb_true_r. reflexivity.
Qed.

Lemma in_vec_min unc st d e f xo u x y z : cand u x y z ->
  in_span SNPM true {| sp_rank := RVector; sp_min_open := false; sp_max_open := xo;
                       sp_min := Some (min_npm unc); sp_max := Some (mk3 st d e f) |} u
  = lowb xo (lex3 d e f x y z).
Proof.
  intros C. unfold in_span, lower_ok, upper_ok, lowb. cbn [sp_rank sp_min sp_max sp_min_open sp_max_open].
  rewrite (gc_cand_r u x y z _ d e f C) by reflexivity.
  rewrite orb_true_l, andb_true_r, andb_false_r. cbn [orb].
  destruct C as (_ & N & P & _ & Hx & Hy & Hz). unfold fin in *.
  pose proof (min_below unc u x y z N P ltac:(lia) ltac:(lia) ltac:(lia)) as L.
  pose proof (gc_antisym SNPM (min_npm unc) u).
  destruct (Z.ltb_spec (gcn u (min_npm unc)) 0); [lia|]. reflexivity.
Qed.

Lemma in_unit_3 st a b c mo xo u x y z : cand u x y z ->
  in_span SNPM true {| sp_rank := RUnit; sp_min_open := mo; sp_max_open := xo;
                       sp_min := Some (mk3 st a b c); sp_max := Some (mk3 st a b c) |} u
  = (lex3 a b c x y z =? 0).
Proof.
  intros C. unfold in_span. cbn [sp_rank sp_min]. rewrite (gc_cand_r u x y z _ a b c C) by reflexivity. reflexivity.
Qed.

(* node's primitive comparators on a release candidate *)
Lemma test_ge u x y z a b c pre : cand u x y z ->
  pcmp_test (PCmp OpGe (mk_sv a b c pre)) (sv_of u) =
  if lex3 x y z a b c =? 0 then (match pre with [] => true | _ => true end) else 0 <=? lex3 x y z a b c.
Proof.
  intros C. rewrite (sv_of_cand u x y z C). cbn [pcmp_test]. rewrite sv_compare_lex.
  destruct (lex3 x y z a b c =? 0) eqn:E; [destruct pre; reflexivity | reflexivity].
Qed.
Lemma test_lt u x y z a b c pre : cand u x y z ->
  pcmp_test (PCmp OpLt (mk_sv a b c pre)) (sv_of u) =
  if lex3 x y z a b c =? 0 then false else lex3 x y z a b c <? 0.
Proof.
  intros C. rewrite (sv_of_cand u x y z C). cbn [pcmp_test]. rewrite sv_compare_lex.
  destruct (lex3 x y z a b c =? 0) eqn:E; [destruct pre; reflexivity | reflexivity].
Qed.
Lemma test_le u x y z a b c : cand u x y z ->
  pcmp_test (PCmp OpLe (mk_sv a b c [])) (sv_of u) = (lex3 x y z a b c <=? 0).
Proof.
  intros C. rewrite (sv_of_cand u x y z C). cbn [pcmp_test]. rewrite sv_compare_lex.
  destruct (Z.eqb_spec (lex3 x y z a b c) 0) as [E|E]; [rewrite E; reflexivity | reflexivity].
Qed.
Lemma test_gt u x y z a b c : cand u x y z ->
  pcmp_test (PCmp OpGt (mk_sv a b c [])) (sv_of u) = (0 <? lex3 x y z a b c).
Proof.
  intros C. rewrite (sv_of_cand u x y z C). cbn [pcmp_test]. rewrite sv_compare_lex.
  destruct (Z.eqb_spec (lex3 x y z a b c) 0) as [E|E]; [rewrite E; reflexivity | reflexivity].
Qed.
Lemma test_eq u x y z a b c : cand u x y z ->
  pcmp_test (PCmp OpEq (mk_sv a b c [])) (sv_of u) = (lex3 x y z a b c =? 0).
Proof.
  intros C. rewrite (sv_of_cand u x y z C). cbn [pcmp_test]. rewrite sv_compare_lex.
  destruct (Z.eqb_spec (lex3 x y z a b c) 0) as [E|E];
    [reflexivity | first [reflexivity | apply Z.eqb_neq; exact E | symmetry; apply Z.eqb_neq; exact E]].
Qed.

(* boolean comparisons of triples, as arithmetic *)
Lemma lex3_antisym a b c d e f : lex3 d e f a b c = - lex3 a b c d e f.
Proof.
  unfold lex3.
  destruct (sgnZ_cases a d) as [[? E1]|[[? E1]|[? E1]]], (sgnZ_cases d a) as [[? E1']|[[? E1']|[? E1']]]; try lia;
  destruct (sgnZ_cases b e) as [[? E2]|[[? E2]|[? E2]]], (sgnZ_cases e b) as [[? E2']|[[? E2']|[? E2']]]; try lia;
  destruct (sgnZ_cases c f) as [[? E3]|[[? E3]|[? E3]]], (sgnZ_cases f c) as [[? E3']|[[? E3']|[? E3']]]; try lia;
  rewrite E1, E1', E2, E2', E3, E3'; reflexivity.
Qed.

Section Ops.
Variable pv : system -> bool -> bytes -> res parse_out.
Variables (str : bytes) (M m p : Z).
Hypothesis HM : fin M.
Hypothesis Hm : fin m.
Hypothesis Hp : fin p.

Notation lo := (mk3 str M m p).

Lemma W_lo : is_wildcard_v lo = false.
Proof. unfold fin in *. apply wild_false; lia. Qed.

Ltac prep :=
  unfold op_version_to_span; rewrite W_lo; cbn [andb];
  change (v_sys lo) with SNPM; change (v_num lo) with [M; m; p];
  unfold go_tokEmpty, go_tokEqual, go_tokGreater, go_tokGreaterEqual, go_tokLess, go_tokLessEqual,
         go_tokCaret, go_tokTilde, go_tokBacon;
  cbn [sys_eqb sys_index Z.eqb Pos.eqb length Nat.ltb Nat.leb has_pre v_pre mk3 andb negb orb].

Lemma set_tail_lo : set_tail lo infinity infinity = lo.
Proof.
  unfold set_tail, fin in *. cbn [v_num mk3 at_least3 length Nat.max pad_to Nat.sub repeat app fill_from].
  rewrite !(proj2 (Z.eqb_neq _ infinity)) by lia. reflexivity.
Qed.

(* what the spans denote for a release candidate, against node's comparators *)
Definition npm_sound (r : res span) (op : nop) : Prop :=
  exists s, r = Ok s /\ forall u x y z, cand u x y z ->
    in_span SNPM true s u = set_test (desugar_simple op (full M m p)) (sv_of u) /\
    in_span SNPM false s u = in_span SNPM true s u.

Lemma release_set_test l u x y z : cand u x y z -> set_test l (sv_of u) = forallb (fun c0 => pcmp_test c0 (sv_of u)) l.
Proof.
  intros C. unfold set_test, prerelease_ok. rewrite (sv_of_cand u x y z C). simpl. rewrite andb_true_r. reflexivity.
Qed.

Ltac finish_bool :=
  unfold lowb; repeat rewrite ?andb_false_r, ?andb_true_r, ?orb_false_r; cbn [orb andb negb];
  repeat match goal with
         | |- context [?a =? ?b] => destruct (Z.eqb_spec a b)
         | |- context [?a <? ?b] => destruct (Z.ltb_spec a b)
         | |- context [?a <=? ?b] => destruct (Z.leb_spec a b)
         end; cbn [orb andb negb]; try reflexivity; exfalso.

(* >=M.m.p : [M.m.p, inf.inf.inf] *)
Theorem op_ge_sound : npm_sound (op_version_to_span pv go_tokGreaterEqual lo) OpGe.
Proof.
  unfold npm_sound. prep. unfold op_ge. change (v_sys lo) with SNPM.
  cbn [sys_eqb sys_index Z.eqb Pos.eqb andb bind]. rewrite W_lo. cbn [orb andb].
  unfold op_tail. rewrite set_tail_lo. change (v_sys lo) with SNPM.
  unfold needs_rebuild. cbn [sys_eqb sys_index Z.eqb Pos.eqb orb].
  change (set_tail (vset_build (clear_pre (vset_num lo (map (fun _ : Z => infinity) (v_num lo)))) []) infinity infinity)
    with (mk3 str infinity infinity infinity).
  unfold fin in *.
  rewrite new_span_3 by (unfold infinity in *; try lia; apply lex3_lt; lia).
  eexists. split; [reflexivity|]. intros u x y z C. split; [|apply in_span_release; apply C].
  rewrite (in_vec_3 _ _ _ _ _ _ _ _ _ _ u x y z C), (release_set_test _ u x y z C).
  unfold desugar_simple, desugar_xrange, full, view. cbn [pa_major pa_minor pa_patch pa_pre map forallb gte0 mk_sv sv_major sv_minor sv_patch sv_pre].
  pose proof C as C0. destruct C as (_ & _ & _ & _ & Hx & Hy & Hz). unfold fin in *.
  pose proof (lex3_lt infinity infinity infinity x y z) as U1.
  pose proof (lex3_eq infinity infinity infinity x y z) as U2.
  pose proof (lex3_lt x y z M m p) as L1. pose proof (lex3_eq x y z M m p) as L2.
  destruct ((M =? 0) && (m =? 0) && (p =? 0) && true) eqn:Z0.
  - (* >=0.0.0 is the empty comparator for node *)
    repeat (apply andb_prop in Z0; destruct Z0 as [Z0 ?]).
    apply Z.eqb_eq in Z0. apply Z.eqb_eq in H0. apply Z.eqb_eq in H1. subst.
    cbn [forallb pcmp_test andb]. finish_bool; lia.
  - cbn [forallb]. rewrite (test_ge u x y z M m p [] C0). finish_bool; lia.
Qed.

(* <M.m.p : [0.0.0-0, M.m.p) ; node: <M.m.p.  (the all-zero bound is excluded: deps.dev answers
   with the empty span, node with a comparator that only prereleases of 0.0.0 satisfy) *)
Theorem op_lt_sound : (M <> 0 \/ m <> 0 \/ p <> 0) -> npm_sound (op_version_to_span pv go_tokLess lo) OpLt.
Proof.
  intros NZ. unfold npm_sound. prep. unfold all_v. cbn [v_num mk3 forallb].
  unfold wildcard. unfold fin in *.
  assert (A1 : (M =? -1) = false) by (apply Z.eqb_neq; lia). rewrite A1. cbn [andb orb].
  assert (A0 : (M =? 0) && ((m =? 0) && ((p =? 0) && true)) = false).
  { destruct (Z.eqb_spec M 0), (Z.eqb_spec m 0), (Z.eqb_spec p 0); simpl; auto. lia. }
  rewrite A0.
  unfold op_tail. cbn [min_version v_sys mk3 sys_eqb sys_index Z.eqb Pos.eqb v_user_num_count].
  unfold needs_rebuild. cbn [sys_eqb sys_index Z.eqb Pos.eqb orb v_sys set_tail].
  change (set_tail
       {| v_sys := SNPM; v_user_num_count := 3; v_is_prerelease := false; v_str := s_min_str;
          v_num := [0; 0; 0]; v_pre := [[48%N]]; v_build := []; v_ext := NoExt |} infinity infinity)
    with (min_npm 3).
  assert (Hm1 : (m =? -1) = false) by (apply Z.eqb_neq; lia).
  assert (Hp1 : (p =? -1) = false) by (apply Z.eqb_neq; lia).
  cbn [map v_num mk3 vset_num vset_build]. unfold wildcard. rewrite A1, Hm1, Hp1.
  change (vset_build (vset_num lo [M; m; p]) []) with lo. rewrite set_tail_lo.
  rewrite new_span_min by lia.
  eexists. split; [reflexivity|]. intros u x y z C. split; [|apply in_span_release; apply C].
  rewrite (in_vec_min _ _ _ _ _ _ u x y z C), (release_set_test _ u x y z C).
  unfold desugar_simple, desugar_xrange, full, view. cbn [pa_major pa_minor pa_patch pa_pre map forallb gte0 mk_sv].
  rewrite (test_lt u x y z M m p [] C). rewrite (lex3_antisym x y z M m p).
  finish_bool; lia.
Qed.

(* ^M.m.p with M > 0 : [M.m.p, M.inf.inf] ; node: >=M.m.p <(M+1).0.0-0 *)
Theorem op_caret_sound : 0 < M -> npm_sound (op_version_to_span pv go_tokCaret lo) OpCaret.
Proof.
  intros PM. unfold npm_sound. prep. unfold major, wildcard. cbn [v_num mk3 get_num Nat.eqb].
  unfold fin in *.
  assert (A0 : (M =? 0) = false) by (apply Z.eqb_neq; lia).
  assert (A1 : (M =? -1) = false) by (apply Z.eqb_neq; lia).
  rewrite A0, A1. cbn [andb].
  change (caret_hi3 lo) with (mk3 str M infinity infinity).
  rewrite new_span_3 by (unfold infinity in *; try lia; apply lex3_lt; lia).
  eexists. split; [reflexivity|]. intros u x y z C. split; [|apply in_span_release; apply C].
  rewrite (in_vec_3 _ _ _ _ _ _ _ _ _ _ u x y z C), (release_set_test _ u x y z C).
  unfold desugar_simple, desugar_caret, full, view. cbn [pa_major pa_minor pa_patch pa_pre]. rewrite A0.
  cbn [map forallb gte0 c_ge c_lt0 mk_sv sv_major sv_minor sv_patch sv_pre]. rewrite A0. cbn [andb].
  unfold c_ge, c_lt0, pre_zero. rewrite (test_ge u x y z M m p [] C). rewrite (test_lt u x y z (M + 1) 0 0 _ C).
  pose proof C as C0. destruct C as (_ & _ & _ & _ & Hx & Hy & Hz). unfold fin in *.
  pose proof (lex3_lt M infinity infinity x y z) as U1. pose proof (lex3_eq M infinity infinity x y z) as U2.
  pose proof (lex3_lt x y z M m p) as L1. pose proof (lex3_eq x y z M m p) as L2.
  pose proof (lex3_lt x y z (M + 1) 0 0) as V1. pose proof (lex3_eq x y z (M + 1) 0 0) as V2.
  finish_bool; lia.
Qed.

(* ~M.m.p : [M.m.p, M.m.inf] ; node: >=M.m.p <M.(m+1).0-0 *)
Theorem op_tilde_sound : npm_sound (op_version_to_span pv go_tokTilde lo) OpTilde.
Proof.
  unfold npm_sound. prep. unfold major. cbn [v_num mk3 get_num].
  unfold fin in *.
  assert (H1 : (if (M =? 0) && true then set_patch lo infinity else set_patch lo infinity) = mk3 str M m infinity).
  { destruct ((M =? 0) && true); reflexivity. }
  rewrite H1. unfold op_tail. rewrite set_tail_lo. change (v_sys lo) with SNPM.
  unfold needs_rebuild. cbn [sys_eqb sys_index Z.eqb Pos.eqb orb].
  assert (H2 : set_tail (mk3 str M m infinity) infinity infinity = mk3 str M m infinity).
  { unfold set_tail. cbn [v_num mk3 at_least3 length Nat.max pad_to Nat.sub repeat app fill_from].
    rewrite !(proj2 (Z.eqb_neq _ infinity)) by lia. rewrite Z.eqb_refl. reflexivity. }
  rewrite H2.
  rewrite new_span_3 by (unfold infinity in *; try lia; apply lex3_lt; lia).
  eexists. split; [reflexivity|]. intros u x y z C. split; [|apply in_span_release; apply C].
  rewrite (in_vec_3 _ _ _ _ _ _ _ _ _ _ u x y z C), (release_set_test _ u x y z C).
  unfold desugar_simple, desugar_tilde, full, view. cbn [pa_major pa_minor pa_patch pa_pre map forallb gte0 c_ge c_lt0 mk_sv sv_major sv_minor sv_patch sv_pre].
  unfold c_ge, c_lt0, pre_zero. rewrite (test_lt u x y z M (m + 1) 0 _ C).
  pose proof C as C0. destruct C as (_ & _ & _ & _ & Hx & Hy & Hz). unfold fin in *.
  pose proof (lex3_lt M m infinity x y z) as U1. pose proof (lex3_eq M m infinity x y z) as U2.
  pose proof (lex3_lt x y z M m p) as L1. pose proof (lex3_eq x y z M m p) as L2.
  pose proof (lex3_lt x y z M (m + 1) 0) as V1. pose proof (lex3_eq x y z M (m + 1) 0) as V2.
  destruct ((M =? 0) && (m =? 0) && (p =? 0) && true) eqn:Z0.
  - repeat (apply andb_prop in Z0; destruct Z0 as [Z0 ?]).
    apply Z.eqb_eq in Z0. apply Z.eqb_eq in H0. apply Z.eqb_eq in H3. subst.
    cbn [pcmp_test andb]. finish_bool; lia.
  - rewrite (test_ge u x y z M m p [] C0). finish_bool; lia.
Qed.

(* =M.m.p and a bare M.m.p : the single version *)
Theorem op_eq_sound : npm_sound (op_version_to_span pv go_tokEqual lo) OpEq.
Proof.
  unfold npm_sound. prep. rewrite W_lo. cbn [negb]. unfold fin in *.
  rewrite new_span_3_unit by lia.
  eexists. split; [reflexivity|]. intros u x y z C. split; [|apply in_span_release; apply C].
  rewrite (in_unit_3 _ _ _ _ _ _ u x y z C), (release_set_test _ u x y z C).
  unfold desugar_simple, desugar_xrange, full, view. cbn [pa_major pa_minor pa_patch pa_pre map forallb gte0 mk_sv].
  rewrite (test_eq u x y z M m p C). rewrite (lex3_antisym x y z M m p). finish_bool; lia.
Qed.

End Ops.

(* ---------------------------------------------------------------- the prerelease rule *)
(* For a comparator pair >=lo <hi (or <=hi) of full versions, node admits a candidate with a
   prerelease tag only if lo or hi carries a tag and has the candidate's major.minor.patch.
   span.contains applies the same test to the two bounds of the span (plus lo <= candidate,
   which holds for every candidate inside the span), provided the isPrerelease flag of a
   version tells whether it has a tag, as it does for every parsed version. *)
Definition flag_ok (v : version) : Prop := v_is_prerelease v = has_pre v.

Lemma equal_values_3 a b c d e f : equal_values [a; b; c] [d; e; f] = (d =? a) && (e =? b) && (f =? c).
Proof. simpl. rewrite andb_true_r, (Z.eqb_sym a d), (Z.eqb_sym b e), (Z.eqb_sym c f), andb_assoc. reflexivity. Qed.

Theorem admission_is_node_rule mn mx u a b c d e f x y z (op : nop) :
  v_num mn = [a; b; c] -> v_num mx = [d; e; f] -> v_num u = [x; y; z] ->
  flag_ok mn -> flag_ok mx -> flag_ok u -> gcn mn u <= 0 ->
  admits SNPM mn mx u = prerelease_ok [PCmp OpGe (sv_of mn); PCmp op (sv_of mx)] (sv_of u).
Proof.
  intros Nmn Nmx Nu Fmn Fmx Fu L. unfold admits, prerelease_ok, sv_of, flag_ok, has_pre in *.
  rewrite Fu, Fmn, Fmx, Nmn, Nmx, Nu. cbn [get_num mk_sv sv_pre sv_major sv_minor sv_patch existsb].
  destruct (v_pre u) as [|pu tu]; [reflexivity|]. cbn [map].
  rewrite !equal_values_3. apply Z.leb_le in L. rewrite L, andb_true_r, orb_false_r.
  destruct (v_pre mn), (v_pre mx); cbn [map andb orb]; reflexivity.
Qed.

(* ---------------------------------------------------------------- composition *)
(* two spans that are sound for comparator lists l1 and l2 on release candidates and do not
   meet in an excluded point intersect in a set that is sound for l1 ++ l2 *)
Theorem and_sound s t l1 l2 : good_span_b SNPM s = true -> good_span_b SNPM t = true ->
  no_point_contact_b SNPM s t = true ->
  (forall u x y z, cand u x y z -> in_span SNPM true s u = set_test l1 (sv_of u)) ->
  (forall u x y z, cand u x y z -> in_span SNPM true t u = set_test l2 (sv_of u)) ->
  exists r, inter_row s [t] = Ok r /\
    forall u x y z, cand u x y z -> in_spans SNPM true r u = set_test (l1 ++ l2) (sv_of u).
Proof.
  intros Gs Gt Np H1 H2. destruct (inter_pair SNPM s t Gs Gt Np) as (r & Er & _ & Den).
  exists r. split; [exact Er|]. intros u x y z C.
  rewrite Den, (H1 u x y z C), (H2 u x y z C).
  unfold set_test, prerelease_ok. rewrite (sv_of_cand u x y z C). cbn [sv_pre mk_sv].
  rewrite !andb_true_r, forallb_app. reflexivity.
Qed.
