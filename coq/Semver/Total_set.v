(* Totality (C04), part 3: sort, canon, Union, Intersect, matchVersion, parseSpan, parseSet.

   The invariant that makes canon safe is the one Go relies on silently: the sort puts the
   spans without bounds (empty spans) first, so that once the merge loop holds a span with
   bounds every later span has bounds too. *)
From Coq Require Import Lia Sorted.
From DepsDev Require Import Lib.Base Lib.Order Semver.Version Semver.Maven Semver.Gem Semver.Pep440 Semver.Compare
     Semver.Parse Semver.Span Semver.Interval Semver.Set Semver.Token Semver.Total_base Semver.Total_span Gen.SemverTables.
Local Open Scope Z_scope.

Lemma wf_span_opts s : wf_span s -> opt_ok (sp_min s) /\ opt_ok (sp_max s).
Proof.
  intros [(E1 & E2 & _)|(mn & mx & E1 & E2 & H1 & H2)]; rewrite E1, E2; simpl; auto.
Qed.

Lemma span_less_good a b : wf_span a -> wf_span b -> good (fun _ => True) (span_less a b).
Proof.
  intros Ha Hb. destruct (wf_span_opts a Ha) as [A1 A2]. destruct (wf_span_opts b Hb) as [B1 B2].
  unfold span_less. eapply good_bind; [apply compare_opt_good; auto|]. intros c _.
  destruct (negb (c =? 0)); [exact I|]. destruct (negb (Bool.eqb _ _)); [exact I|].
  eapply good_bind; [apply compare_opt_good; auto|]. intros c2 _.
  destruct (negb (c2 =? 0)); [exact I|]. destruct (negb (Bool.eqb _ _)); exact I.
Qed.

(* less when the left span has no lower bound and the right one has; never the other way *)
Lemma span_less_nil_l a b : sp_min a = None -> sp_min b <> None -> span_less a b = Ok true.
Proof. intros E N. unfold span_less. rewrite E. destruct (sp_min b); [reflexivity|congruence]. Qed.
Lemma span_less_nil_r a b : sp_min a <> None -> sp_min b = None -> span_less a b = Ok false.
Proof. intros N E. unfold span_less. rewrite E. destruct (sp_min a); [reflexivity|congruence]. Qed.

(* in the reversed prefix: once a span without bounds appears, all that follow are without *)
Definition Rrev (a b : span) : Prop := sp_min a = None -> sp_min b = None.
(* in the sorted list: a span without bounds is never preceded by one with bounds *)
Definition Rfwd (a b : span) : Prop := sp_min b = None -> sp_min a = None.

Lemma ins_rev_good x : wf_span x -> forall rl, Forall wf_span rl -> StronglySorted Rrev rl ->
  good (fun r => Forall wf_span r /\ StronglySorted Rrev r /\
                 forall P : span -> Prop, P x -> Forall P rl -> Forall P r) (ins_rev x rl).
Proof.
  intros Hx. induction rl as [|y t IH]; intros Hw Hs.
  - simpl. repeat split; auto. constructor; constructor.
  - inversion Hw as [|? ? Hy Ht]; subst. inversion Hs as [|? ? Hs' Hf]; subst.
    cbn [ins_rev]. pose proof (span_less_good x y Hx Hy) as G.
    destruct (span_less x y) as [b0| | |] eqn:E; try contradiction; [|exact I]. cbn [bind].
    destruct b0.
    + eapply good_bind; [apply IH; auto|]. intros r (Wr & Sr & Pr). simpl. split; [constructor; auto|]. split.
      * constructor; auto. apply Pr.
        { (* y against x *)
          unfold Rrev. intros Ny. destruct (sp_min x) eqn:Nx; auto.
          rewrite span_less_nil_r in E by (auto; congruence). discriminate. }
        { exact Hf. }
      * intros P Px Pl. inversion Pl; subst. constructor; auto.
    + simpl. split; [constructor; auto|]. split.
      * constructor; auto. constructor.
        { unfold Rrev. intros Nx. destruct (sp_min y) eqn:Ny; auto.
          rewrite span_less_nil_l in E by (auto; congruence). discriminate. }
        { rewrite Forall_forall in *. intros z Iz Nx. unfold Rrev in *.
          destruct (sp_min y) eqn:Ny.
          - rewrite span_less_nil_l in E by (auto; congruence). discriminate.
          - apply Hf; auto. }
      * intros P Px Pl. constructor; auto.
Qed.

Lemma sort_rev_good l : Forall wf_span l -> forall acc, Forall wf_span acc -> StronglySorted Rrev acc ->
  good (fun r => Forall wf_span r /\ StronglySorted Rrev r) (sort_rev l acc).
Proof.
  induction 1 as [|x l Hx Hl IH]; intros acc Ha Hs.
  - simpl. split; auto.
  - cbn [sort_rev]. eapply good_bind; [apply ins_rev_good; eauto|]. intros acc' (W & S' & _). apply IH; auto.
Qed.

Lemma SS_app' {A} (R : A -> A -> Prop) l1 : forall l2, StronglySorted R l1 -> StronglySorted R l2 ->
  (forall x y, In x l1 -> In y l2 -> R x y) -> StronglySorted R (l1 ++ l2).
Proof.
  induction l1 as [|a l1 IH]; intros l2 S1 S2 H; simpl; auto.
  inversion S1; subst. constructor.
  - apply IH; auto. intros; apply H; simpl; auto.
  - rewrite Forall_app. split; auto. rewrite Forall_forall. intros; apply H; simpl; auto.
Qed.

Lemma SS_rev' {A} (R : A -> A -> Prop) l : StronglySorted (fun a b => R b a) l -> StronglySorted R (rev l).
Proof.
  induction 1 as [|a l Sl IH Hf]; simpl; [constructor|].
  apply SS_app'; auto.
  - constructor; [constructor | constructor].
  - intros x y Ix [<-|[]]. rewrite Forall_forall in Hf. apply Hf. apply in_rev. auto.
Qed.

Lemma sort_spans_good l : Forall wf_span l ->
  good (fun r => Forall wf_span r /\ StronglySorted Rfwd r) (sort_spans l).
Proof.
  intros H. unfold sort_spans. eapply good_bind; [apply sort_rev_good; auto; constructor|].
  intros r (W & S). simpl. split.
  - rewrite Forall_forall in *. intros x Ix. apply W. apply in_rev. auto.
  - apply SS_rev'. exact S.
Qed.

(* ---------------------------------------------------------------- the merge loop *)
Lemma bounded_opts s : bounded s -> exists mn mx, sp_min s = Some mn /\ sp_max s = Some mx /\ ver_ok mn = true /\ ver_ok mx = true.
Proof. auto. Qed.

Definition step_ok (st : inner_step) : Prop := match st with IBreak => True | IContinue t _ => bounded t end.

Lemma equal_opt_good a b : opt_ok a -> opt_ok b -> good (fun _ => True) (equal_opt a b).
Proof. intros. unfold equal_opt. eapply good_bind; [apply compare_opt_good; auto|]. intros; exact I. Qed.

Lemma canon_step_good this next : bounded this -> bounded next -> good step_ok (canon_step this next).
Proof.
  intros (mn & mx & E1 & E2 & H1 & H2) (mn' & mx' & F1 & F2 & G1 & G2).
  assert (Bt : bounded this) by (exists mn, mx; auto).
  unfold canon_step. rewrite E1, E2, F1, F2.
  eapply good_bind; [apply equal_opt_good; simpl; auto|].
  intros e _.
  eapply (good_bind (fun _ => True)).
  { destruct e; [exact I|]. cbn [opt_version bind]. destruct (has_pre mx); [exact I|].
    eapply good_bind; [apply version_inc_good; auto|]. intros mp1 Hm.
    eapply good_bind; [apply compare_opt_good; simpl; auto|]. intros c _. exact I. }
  intros gap _. destruct gap as [[|]|]; try exact Bt; [exact I|].
  destruct (sp_max_open this && sp_min_open next); [exact Bt|].
  cbn [equal_pre bind].
  destruct (negb _); [exact Bt|]. destruct (negb _); [exact Bt|]. destruct (negb _); [exact Bt|].
  destruct (rank_is_empty (sp_rank next)); [exact Bt|].
  eapply good_bind; [apply compare_opt_good; simpl; auto|]. intros c _.
  destruct (c <=? 0).
  - eapply good_bind; [apply equal_opt_good; simpl; auto|].
    intros e2 _. destruct e2; simpl; [|exact Bt].
    exists mn, mx. unfold sp_set_max_open. simpl. auto.
  - simpl. exists mn, mx'. simpl. auto.
Qed.

Lemma canon_inner_good tail : forall this k, bounded this -> Forall bounded tail ->
  good (fun r => bounded (fst r)) (canon_inner this tail k).
Proof.
  induction tail as [|next rest IH]; intros this k Ht Hl; [exact Ht|].
  inversion Hl; subst. cbn [canon_inner].
  eapply good_bind; [apply canon_step_good; auto|]. intros [|t skip] Hs; [exact Ht|]. apply IH; auto.
Qed.

Lemma Forall_skipn {A} (P : A -> Prop) n l : Forall P l -> Forall P (skipn n l).
Proof. revert l. induction n; intros l H; simpl; auto. destruct l; auto. inversion H; auto. Qed.

Lemma canon_loop_bounded : forall fuel l, (length l < fuel)%nat -> Forall bounded l ->
  good (Forall bounded) (canon_loop fuel l).
Proof.
  induction fuel as [|f IH]; intros l Hlen Hl; [lia|].
  destruct l as [|this tail]; [constructor|]. inversion Hl; subst. cbn [canon_loop].
  simpl in Hlen.
  destruct (rank_is_empty (sp_rank this)); [apply IH; auto; lia|].
  eapply good_bind; [apply canon_inner_good; auto|]. intros [t k] Ht. cbn [fst snd] in *.
  eapply good_bind; [apply IH; [rewrite skipn_length; lia | apply Forall_skipn; auto]|].
  intros r Hr. simpl. constructor; auto.
Qed.

Lemma canon_loop_good : forall fuel l, (length l < fuel)%nat -> Forall wf_span l -> StronglySorted Rfwd l ->
  good (Forall bounded) (canon_loop fuel l).
Proof.
  induction fuel as [|f IH]; intros l Hlen Hw Hs; [lia|].
  destruct l as [|this tail]; [constructor|]. inversion Hw as [|? ? Wt Wl]; subst. inversion Hs as [|? ? Ss Sf]; subst.
  simpl in Hlen.
  destruct (rank_is_empty (sp_rank this)) eqn:R.
  - cbn [canon_loop]. rewrite R. apply IH; auto; lia.
  - (* this has bounds, hence everything after it has *)
    apply canon_loop_bounded; [simpl; lia|].
    pose proof (wf_nonempty_bounded this Wt R) as Bt. constructor; auto.
    rewrite Forall_forall in *. intros z Iz.
    destruct (Wl z Iz) as [(Nz & _)|Bz]; auto.
    exfalso. specialize (Sf z Iz). unfold Rfwd in Sf. destruct Bt as (mn & mx & E1 & _). rewrite (Sf Nz) in E1. discriminate.
Qed.

Theorem canon_spans_good l : Forall wf_span l -> good (Forall wf_span) (canon_spans l).
Proof.
  intros H. unfold canon_spans. destruct (length l <=? 1)%nat; [exact H|].
  destruct (sys_eqb (sys_of_span l) SMaven); [exact H|].
  eapply good_bind; [apply sort_spans_good; auto|]. intros sorted (W & S0).
  destruct (forallb _ sorted).
  - simpl. destruct sorted; simpl; auto. inversion W; auto.
  - eapply good_weaken; [|apply canon_loop_good; auto].
    intros r Hr. eapply Forall_impl; [|exact Hr]. intros; apply bounded_wf; auto.
Qed.

(* ---------------------------------------------------------------- Union, Intersect *)
Definition wf_set (s : set) : Prop := Forall wf_span (set_span s).

Theorem set_union_good s t : wf_set s -> wf_set t -> good wf_set (set_union s t).
Proof.
  intros Hs Ht. unfold set_union. eapply good_bind; [apply canon_spans_good; apply Forall_app; split; auto|].
  intros sp Hsp. exact Hsp.
Qed.

Lemma inter_row_good selem ts : bounded selem -> Forall wf_span ts -> good (Forall bounded) (inter_row selem ts).
Proof.
  intros (mn & mx & E1 & E2 & H1 & H2) Hts. induction Hts as [|telem rest Wt Wr IH]; [constructor|].
  cbn [inter_row]. destruct (rank_is_empty (sp_rank telem)) eqn:R; [exact IH|].
  destruct (wf_nonempty_bounded telem Wt R) as (mn' & mx' & F1 & F2 & G1 & G2).
  rewrite E1, E2, F1, F2.
  eapply good_bind; [apply compare_opt_good; simpl; auto|]. intros c1 _.
  destruct (_ || _); [exact IH|].
  eapply good_bind; [apply compare_opt_good; simpl; auto|]. intros c2 _.
  destruct (0 <? c2); [constructor|].
  eapply good_bind; [apply compare_opt_good; simpl; auto|]. intros c3 _.
  assert (N : forall a b0 c d, (a = mn \/ a = mn') -> (c = mx \/ c = mx') -> good bounded (new_span_opt (Some a) b0 (Some c) d)).
  { intros a b0 c d Ha Hc. unfold new_span_opt. cbn [opt_version bind]. apply new_span_good; destruct Ha, Hc; subst; auto. }
  destruct (_ || _);
    (eapply good_bind; [apply compare_opt_good; simpl; auto|]; intros c4 _;
     destruct (_ || _);
     (eapply good_bind; [apply N; auto|]; intros sp Hsp; eapply good_bind; [exact IH|]; intros r Hr; simpl; constructor; auto)).
Qed.

Lemma inter_rows_good ss ts : Forall wf_span ss -> Forall wf_span ts -> good (Forall bounded) (inter_rows ss ts).
Proof.
  intros Hs Ht. induction Hs as [|selem rest Ws Wr IH]; [constructor|].
  cbn [inter_rows]. destruct (rank_is_empty (sp_rank selem)) eqn:R; [exact IH|].
  eapply good_bind; [apply inter_row_good; auto; apply wf_nonempty_bounded; auto|]. intros a Ha.
  eapply good_bind; [exact IH|]. intros b0 Hb. simpl. apply Forall_app. split; auto.
Qed.

Theorem set_intersect_good s t : wf_set s -> wf_set t -> good wf_set (set_intersect s t).
Proof.
  intros Hs Ht. unfold set_intersect. eapply good_bind; [apply inter_rows_good; auto|]. intros out Ho.
  eapply good_bind; [apply canon_spans_good|intros sp Hsp; exact Hsp].
  destruct out; [constructor; [apply wf_empty_span | constructor]|].
  eapply Forall_impl; [|exact Ho]. intros; apply bounded_wf; auto.
Qed.

(* ---------------------------------------------------------------- matching *)
Lemma span_contains_good s v incl : wf_span s -> ver_ok v = true -> total (span_contains s v incl).
Proof.
  intros Hs Hv. unfold span_contains, total. destruct (sp_rank s) eqn:R; [exact I| |].
  - destruct (wf_span_opts s Hs) as [A _]. eapply good_bind; [apply compare_opt_good; simpl; auto|]. intros; exact I.
  - destruct Hs as [(_ & _ & E)|(mn & mx & E1 & E2 & H1 & H2)]; [congruence|]. rewrite E1, E2.
    eapply good_bind; [apply compare_opt_good; simpl; auto|]. intros c1 _.
    destruct (_ || _); [exact I|].
    eapply good_bind; [apply compare_opt_good; simpl; auto|]. intros c2 _.
    destruct (_ || _); [exact I|]. destruct incl; [exact I|].
    destruct (_ && _); [|exact I]. cbn [opt_version bind].
    eapply (good_bind (fun _ => True)).
    + destruct (_ && _); [|exact I]. eapply good_bind; [apply compare_good; auto|]. intros; exact I.
    + intros r1 _. destruct r1; [exact I|]. destruct (_ && _); exact I.
Qed.

Lemma pep_details_good v : ver_ok v = true -> sys_eqb (v_sys v) SPyPI = true -> total (pep_details v).
Proof.
  unfold ver_ok, total, pep_details. intros H S0. apply andb_prop in H. destruct H as [H _].
  apply sys_eqb_true' in S0. rewrite S0 in H. destruct (v_ext v); simpl in *; auto; discriminate.
Qed.

Lemma is_pypi_post_good v : ver_ok v = true -> total (is_pypi_post v).
Proof.
  intros H. unfold is_pypi_post, total. destruct (sys_eqb (v_sys v) SPyPI) eqn:E; simpl; [|exact I].
  eapply good_bind; [apply pep_details_good; auto|]. intros; exact I.
Qed.
Lemma is_pypi_local_good v : ver_ok v = true -> total (is_pypi_local v).
Proof.
  intros H. unfold is_pypi_local, total. destruct (sys_eqb (v_sys v) SPyPI) eqn:E; simpl; [|exact I].
  eapply good_bind; [apply pep_details_good; auto|]. intros; exact I.
Qed.
Lemma is_pypi_dev_good v : ver_ok v = true -> total (is_pypi_dev v).
Proof.
  intros H. unfold is_pypi_dev, total. destruct (sys_eqb (v_sys v) SPyPI) eqn:E; simpl; [|exact I].
  eapply good_bind; [apply pep_details_good; auto|]. intros; exact I.
Qed.

Lemma match_span_good v incl s : wf_span s -> ver_ok v = true -> total (match_span v incl s).
Proof.
  intros Hs Hv. unfold match_span, total.
  eapply (good_bind (fun _ => True)).
  { destruct (sys_eqb (v_sys v) SPyPI && match sp_rank s with RVector => true | _ => false end) eqn:C; [|exact I].
    apply andb_prop in C. destruct C as [_ C]. destruct (sp_rank s) eqn:R; try discriminate.
    destruct Hs as [(_ & _ & E)|(mn & mx & E1 & E2 & H1 & H2)]; [congruence|]. rewrite E1, E2.
    eapply good_bind; [apply is_pypi_dev_good; auto|]. intros vdev _.
    eapply (good_bind (fun _ => True)).
    - destruct (_ && _); [|exact I]. cbn [bind opt_pypi_dev].
      eapply good_bind; [apply is_pypi_dev_good; auto|]. intros d1 _.
      eapply good_bind; [apply is_pypi_dev_good; auto|]. intros d2 _.
      destruct (negb _); [exact I|]. destruct (sp_min_open s); exact I.
    - intros [skip1 pre1] _. destruct skip1; [exact I|].
      eapply good_bind; [apply is_pypi_post_good; auto|]. intros vpost _.
      eapply (good_bind (fun _ => True)).
      + destruct vpost; [|exact I]. cbn [opt_version bind].
        eapply good_bind; [apply is_pypi_post_good; auto|]. intros; exact I.
      + intros skip2 _. destruct skip2; [exact I|].
        eapply good_bind; [apply is_pypi_local_good; auto|]. intros; exact I. }
  intros [skip pre] _. destruct skip; [exact I|].
  eapply (good_bind (fun _ => True)).
  { destruct (_ && _ && _); [|exact I]. destruct (_ && _); exact I. }
  intros [skip3 pre3] _. destruct skip3; [exact I|]. apply span_contains_good; auto.
Qed.

Lemma match_spans_good v incl l : Forall wf_span l -> ver_ok v = true -> total (match_spans v incl l).
Proof.
  intros Hl Hv. induction Hl as [|s t Hs Ht IH]; [exact I|]. cbn [match_spans].
  eapply good_bind; [apply match_span_good; auto|]. intros b0 _. destruct b0; [exact I | exact IH].
Qed.

Theorem set_match_version_good st v incl : wf_set st -> ver_ok v = true -> total (set_match_version st v incl).
Proof.
  intros Hs Hv. unfold set_match_version. unfold wf_set in Hs. destruct (set_span st); [exact I|].
  apply match_spans_good; auto.
Qed.

(* ---------------------------------------------------------------- parseSpan, parseSet *)
Section Oracle.
Variable pv : system -> bool -> bytes -> res parse_out.
Hypothesis Hwf : oracle_wf pv.

Lemma parse_ok_good sys r :
  good (fun po => (forall v, po_v po = Some v -> ver_ok v = true /\ v_sys v = sys) /\
                  (po_err po = false -> exists v, po_v po = Some v /\ parsed_ok sys v)) r ->
  good (fun v => ver_ok v = true /\ parsed_ok sys v) (parse_ok r).
Proof.
  intros G. unfold parse_ok. eapply good_bind; [exact G|]. intros po (A & B).
  destruct (po_err po); [exact I|]. destruct (B eq_refl) as (v & E & P). rewrite E. simpl. split; auto. apply (A v E).
Qed.

Theorem parse_span_good sys s : good (fun r => wf_span (fst r)) (parse_span pv sys s).
Proof.
  unfold parse_span. destruct s as [|c0 t]; [exact I|].
  destruct (bytes_eqb _ _); [apply wf_empty_span|].
  destruct (_ || _).
  - destruct (last_opt _); [|exact I]. destruct (negb _); [exact I|].
    destruct (split_on _ _ _) as [|a [|b0 [|x y]]]; try exact I.
    eapply good_bind; [apply parse_ok_good, pv_good; auto|]. intros mn (Hmn & _).
    eapply good_bind; [apply parse_ok_good, pv_good; auto|]. intros mx (Hmx & _).
    simpl. right. exists mn, mx. simpl. auto.
  - eapply good_bind; [apply parse_ok_good, parse_public_good; auto|]. intros v (Hv & _).
    simpl. right. exists v, v. simpl. auto.
Qed.

Lemma parse_spans_good sys l : good (fun r => Forall wf_span (fst r)) (parse_spans pv sys l).
Proof.
  induction l as [|s t IH]; [constructor|]. cbn [parse_spans].
  eapply good_bind; [apply parse_span_good|]. intros r Hr.
  eapply good_bind; [exact IH|]. intros rest Hrest. simpl. constructor; auto.
Qed.

Theorem parse_set_good sys s : good (fun r => wf_set (fst r)) (parse_set pv sys s).
Proof.
  unfold parse_set. destruct s as [|c0 [|c1 t]]; try exact I.
  destruct (last_opt _); [|exact I]. destruct (negb _); [exact I|].
  destruct (bytes_eqb _ _); [simpl; constructor; [apply wf_empty_span|constructor]|].
  eapply good_bind; [apply parse_spans_good|]. intros r Hr. exact Hr.
Qed.

End Oracle.
