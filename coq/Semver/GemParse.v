(* Model of semver.RubyGems.Parse: possibleVersionString, versionParser.version with the
   RubyGems branches (lexer with its record-first-error-keep-going discipline, number,
   addNum, metadata, elem, padding to three numbers) and gemExtension.init (lowercasing,
   preStart, "-" becomes "pre", nextVersionElemPos, separators stripped, empty becomes "0",
   the zero-trimming loop as written, parseNum).  Definitions only.

   Every byte of the input goes through lexer.next (or makes the parse fail earlier), and
   next accepts only runes below 0x7F of type tVS, so a non-ASCII byte anywhere makes the
   parse fail: the model is total on all byte strings; the rune a byte >= 0x80 starts is
   represented by that byte, which is in none of the classes the parser asks about. *)
From DepsDev Require Import Lib.Base Semver.Version Semver.Maven Semver.Gem Semver.MavenParse Gen.SemverTables.
Local Open Scope Z_scope.

(* ---------- possibleVersionString, generic branch (RubyGems strips no prefix) ---------- *)
Fixpoint pvs_from (i : nat) (n : nat) (s : bytes) : bool :=
  match n, s with
  | O, _ => true
  | _, [] => true
  | S n', c :: t =>
      if (N.eqb c 46) || (N.eqb c 45) || (N.eqb c 43) then negb (Nat.eqb i 0)
      else if is_digit c || (N.eqb c 42) || (N.eqb c 120) || (N.eqb c 88) then pvs_from (S i) n' t
      else false
  end.
Definition gem_possible (s : bytes) : bool :=
  match s with [] => false | _ => pvs_from 0 3 s end.

(* ---------- lexer ---------- *)
Record lx := { lrest : bytes;    (* str[pos:] *)
               lprev : bytes;    (* str[pos-wid:] *)
               lerr : bool }.    (* err != nil *)

Definition is_vs (c : N) : bool :=
  (c <? 127)%N && match nth_error byte_type (N.to_nat c) with Some t => N.eqb t go_tVS | None => false end.

Definition r_eof : Z := -1.

Definition lx_next (st : lx) : Z * lx :=
  match lrest st with
  | [] => (r_eof, {| lrest := []; lprev := []; lerr := lerr st |})
  | c :: t =>
      if is_vs c then (Z.of_N c, {| lrest := t; lprev := c :: t; lerr := lerr st |})
      else (Z.of_N c, {| lrest := c :: t; lprev := c :: t; lerr := true |})
  end.
Definition lx_back (st : lx) : lx := {| lrest := lprev st; lprev := lprev st; lerr := lerr st |}.
Definition lx_peek (st : lx) : Z * lx := let '(r, st') := lx_next st in (r, lx_back st').
Definition lx_set_err (st : lx) : lx := {| lrest := lrest st; lprev := lprev st; lerr := true |}.

Definition r_is_digit (r : Z) : bool := (48 <=? r) && (r <=? 57).
Definition r_is_alpha (r : Z) : bool := ((97 <=? r) && (r <=? 122)) || ((65 <=? r) && (r <=? 90)).
Definition r_is_alnum (r : Z) : bool := r_is_digit r || r_is_alpha r.
Definition r_is_alnumh (r : Z) : bool := (r =? 45) || r_is_alnum r.

(* "for accept() {}": characters consumed, state after the failing call (which has backed up) *)
Fixpoint lx_while (f : Z -> bool) (fuel : nat) (st : lx) (acc : bytes) : bytes * lx :=
  match fuel with
  | O => (rev acc, st)
  | S k =>
      let '(r, st') := lx_next st in
      if f r then
        match lrest st with
        | c :: _ => lx_while f k st' (c :: acc)
        | [] => (rev acc, lx_back st')      (* f eof is false for every class used *)
        end
      else (rev acc, lx_back st')
  end.

(* ---------- number / addNum for RubyGems ---------- *)
(* number(): Some nums' when it returned true *)
Definition gem_number (st : lx) (nums : list Z) : option (list Z) * lx :=
  let '(ds, st1) := lx_while r_is_digit (S (length (lrest st))) st [] in
  match ds with
  | [] => (None, st1)                     (* no wildcard in RubyGems *)
  | _ =>
      match parse_num ds with
      | None => (None, lx_set_err st1)
      | Some v => (Some (nums ++ [v]), st1)    (* addNum: no limit on the count for RubyGems *)
      end
  end.

(* r := next(); for r == '.' && number() { r = next() } *)
Fixpoint gem_more_nums (fuel : nat) (r : Z) (st : lx) (nums : list Z) : res (Z * lx * list Z) :=
  if r =? 46 then
    match fuel with
    | O => OutOfFuel
    | S f =>
        match gem_number st nums with
        | (Some nums1, st1) => let '(r2, st2) := lx_next st1 in gem_more_nums f r2 st2 nums1
        | (None, st1) => Ok (r, st1, nums)
        end
    end
  else Ok (r, st, nums).

(* elem(false) *)
Definition gem_elem_tok (st : lx) : option bytes * lx :=
  let '(s, st1) := lx_while r_is_alnumh (S (length (lrest st))) st [] in
  match s with
  | [] =>
      let '(r, st2) := lx_peek st1 in
      (None, if r =? 46 then lx_set_err st2 else st2)
  | _ => (Some s, st1)
  end.

(* metadata(&pre, false, ...): returns the rune that stopped it (0 when no element was read) *)
Fixpoint gem_metadata (fuel : nat) (st : lx) (acc : list bytes) (r : Z) : res (Z * lx * list bytes) :=
  match fuel with
  | O => OutOfFuel
  | S f =>
      match gem_elem_tok st with
      | (None, st1) =>
          Ok (r, (match acc with [] => lx_set_err st1 | _ => st1 end), acc)
      | (Some e, st1) =>
          let '(r2, st2) := lx_next st1 in
          if r2 =? 46 then gem_metadata f st2 (acc ++ [e]) r2
          else Ok (r2, st2, acc ++ [e])
      end
  end.

Fixpoint pad3 (l : list Z) (n : nat) : list Z :=
  match n with
  | O => l
  | S n' => match l with [] => 0 :: pad3 [] n' | x :: t => x :: pad3 t n' end
  end.

(* the part of versionParser.version that RubyGems executes: numbers, prerelease, flags *)
Record gem_head := { gh_nums : list Z; gh_count : Z; gh_pre : list bytes; gh_ispre : bool }.

Definition gem_version_head (s : bytes) : res gem_head :=
  let st0 := {| lrest := s; lprev := s; lerr := false |} in
  let fuel := S (length s) in
  match gem_number st0 [] with
  | (None, _) => Err 1%N                         (* no number in version string *)
  | (Some nums0, st1) =>
      let '(r0, st2) := lx_next st1 in
      x <- gem_more_nums fuel r0 st2 nums0 ;;
      let '(r1, st3, nums) := x in
      (* RubyGems: 1.2.3b5 means 1.2.3-b5 *)
      let '(r2, st4) := if r_is_alnum r1 then (45, lx_back st3) else (r1, st3) in
      y <- (if r2 =? 45 then
              m <- gem_metadata fuel st4 [] 0 ;; let '(r, st, pre) := m in Ok (r, st, pre, true)
            else if r2 =? 46 then
              m <- gem_metadata fuel st4 [] 0 ;; let '(r, st, pre) := m in Ok (r, st, pre, true)
            else Ok (r2, st4, [], false)) ;;
      let '(r3, st5, pre, ispre) := y in
      let st6 := if r3 =? r_eof then st5 else lx_set_err st5 in
      if lerr st6 then Err 2%N
      else Ok {| gh_nums := pad3 nums 3; gh_count := Z.of_nat (length nums); gh_pre := pre; gh_ispre := ispre |}
  end.

(* ---------- gemExtension.init ---------- *)
(* versionNext category of one byte (ASCII; other bytes are unknown) *)
Definition vcat (c : N) : Z :=
  if is_digit c then cat_numeric
  else if ((97 <=? c) && (c <=? 122))%N || ((65 <=? c) && (c <=? 90))%N || (N.eqb c 95) then cat_qualifier
  else if (N.eqb c 46) || (N.eqb c 45) then cat_separator
  else if N.eqb c 42 then cat_star
  else cat_unknown.

Fixpoint span_vcat (prev : Z) (s : bytes) : bytes * bytes :=
  match s with
  | [] => ([], [])
  | c :: t =>
      let k := vcat c in
      if ((k =? cat_numeric) || (k =? cat_qualifier)) && (k =? prev)
      then let '(a, b) := span_vcat prev t in (c :: a, b)
      else ([], s)
  end.

(* s[:i], s[i:] for i = nextVersionElemPos(s) *)
Definition next_version_elem (s : bytes) : bytes * bytes :=
  match s with
  | [] => ([], [])
  | c :: t =>
      let k := vcat c in
      if k =? cat_separator then
        match t with
        | [] => ([c], [])
        | d :: _ => let '(a, b) := span_vcat (vcat d) t in (c :: a, b)
        end
      else if (k =? cat_unknown) || (k =? cat_star) then ([c], t)
      else span_vcat k s
  end.

Definition is_pre_start (c : N) : bool := (N.eqb c 45) || ((97 <=? c) && (c <=? 122))%N.

Fixpoint drop_to_pre (s : bytes) : option bytes :=
  match s with
  | [] => None
  | c :: t => if is_pre_start c then Some s else drop_to_pre t
  end.

Definition mk_gem (s : bytes) : gem_elem := {| ge_str := s; ge_int := 0 |}.

Fixpoint gem_scan (fuel : nat) (s : bytes) (racc : list gem_elem) : res (list gem_elem) :=
  match s with
  | [] => Ok (rev racc)
  | c :: t =>
      match fuel with
      | O => OutOfFuel
      | S f =>
          if N.eqb c 45 then gem_scan f t (mk_gem s_pre :: racc)
          else
            let '(str, rest) := next_version_elem s in
            let cat := version_category str in
            if cat =? cat_unknown then Err 3%N
            else
              let str1 := if cat =? cat_separator then tl str else str in
              let str2 := match str1 with [] => [48%N] | _ => str1 end in
              gem_scan f rest (mk_gem str2 :: racc)
      end
  end.

(* Whether the trimming loop stops at the first non-zero element from the right (what
   Gem::Version does, the proposed repair) or, as the code stands, goes on down to index 0
   and truncates at every "0" it meets (F-C02-1). *)
Definition gem_fix_zero_trim : bool := true.

(* for i := len-1; i >= 0; i-- { if elements[i].str == "0" { elements = elements[:i] } }
   n = i+1 *)
Fixpoint gem_trim_from (fixed : bool) (n : nat) (l : list gem_elem) : res (list gem_elem) :=
  match n with
  | O => Ok l
  | S i =>
      e <- idx l i ;;
      if bytes_eqb (ge_str e) [48%N] then gem_trim_from fixed i (firstn i l)
      else if fixed then Ok l else gem_trim_from fixed i l
  end.
Definition gem_trim_with (fixed : bool) (l : list gem_elem) : res (list gem_elem) := gem_trim_from fixed (length l) l.
Definition gem_trim (l : list gem_elem) : res (list gem_elem) := gem_trim_with gem_fix_zero_trim l.

Fixpoint gem_ints (l : list gem_elem) : res (list gem_elem) :=
  match l with
  | [] => Ok []
  | e :: t =>
      if version_category (ge_str e) =? cat_numeric then
        if bytes_eqb (ge_str e) s_inf then
          r <- gem_ints t ;; Ok ({| ge_str := ge_str e; ge_int := infinity |} :: r)
        else
          match parse_num (ge_str e) with
          | None => Err 4%N
          | Some n => r <- gem_ints t ;; Ok ({| ge_str := ge_str e; ge_int := n |} :: r)
          end
      else r <- gem_ints t ;; Ok (e :: r)
  end.

Definition gem_init_with (fixed : bool) (s : bytes) : res (list gem_elem) :=
  match drop_to_pre (to_lower s) with
  | None => Ok []
  | Some p =>
      l <- gem_scan (S (length p)) p [] ;;
      l' <- gem_trim_with fixed l ;;
      gem_ints l'
  end.
Definition gem_init (s : bytes) : res (list gem_elem) := gem_init_with gem_fix_zero_trim s.

(* semver.RubyGems.Parse; fixed: with the repaired trimming loop *)
Definition gem_parse_with (fixed : bool) (s : bytes) : res version :=
  if negb (gem_possible s) then Err 5%N
  else
    h <- gem_version_head s ;;
    l <- gem_init_with fixed s ;;
    Ok {| v_sys := SRubyGems; v_user_num_count := gh_count h; v_is_prerelease := gh_ispre h; v_str := s;
          v_num := gh_nums h; v_pre := gh_pre h; v_build := []; v_ext := GemExt l |}.
Definition gem_parse (s : bytes) : res version := gem_parse_with gem_fix_zero_trim s.
