(* Model of util/semver/diff.go: Version.Difference with mavenDifference and mavenExtension.num
   (maven.go).  Definitions only; proofs in Diff_proofs.v.  The versions are the parsed structures
   of Semver/Version.v; compare is the model of Compare (Semver/Compare.v). *)
From DepsDev Require Import Lib.Base Semver.Version Semver.Maven Semver.Gem Semver.Pep440 Semver.Compare.
Local Open Scope Z_scope.

Definition d_same : Z := 0.
Definition d_other : Z := 1.
Definition d_major : Z := 2.
Definition d_minor : Z := 3.
Definition d_patch : Z := 4.
Definition d_prerelease : Z := 5.
Definition d_build : Z := 6.

(* mavenExtension.num(i): 0 past the end, -1 for an element that is not a number *)
Definition mvn_num (l : list mvn_elem) (i : nat) : Z :=
  match nth_error l i with
  | None => 0
  | Some e => match me_str e with
              | [] => -1
              | c :: _ => if is_digit c then me_int e else -1
              end
  end.

(* mavenDifference: two type assertions, then the first three numbers *)
Definition maven_difference (u v : version) : res Z :=
  match v_ext u, v_ext v with
  | MavenExt ue, MavenExt ve =>
      Ok (if negb (mvn_num ve 0 =? mvn_num ue 0) then d_major
          else if negb (mvn_num ve 1 =? mvn_num ue 1) then d_minor
          else if negb (mvn_num ve 2 =? mvn_num ue 2) then d_patch
          else d_other)
  | _, _ => Panic PExplicit
  end.

Definition is_maven (s : system) : bool := sys_eqb s SMaven.

(* v.Difference(u) *)
Definition difference (v u : version) : res (Z * Z) :=
  c <- compare v u ;;
  if (c =? 0) && bytes_eqb (v_build v) (v_build u) then Ok (c, d_same)
  else if is_maven (v_sys v) then d <- maven_difference v u ;; Ok (c, d)
  else if negb (get_num (v_num v) 0 =? get_num (v_num u) 0) then Ok (c, d_major)
  else if negb (get_num (v_num v) 1 =? get_num (v_num u) 1) then Ok (c, d_minor)
  else if negb (get_num (v_num v) 2 =? get_num (v_num u) 2) then Ok (c, d_patch)
  else if negb (Nat.eqb (length (v_num v)) 3) || negb (Nat.eqb (length (v_num u)) 3) then Ok (c, d_other)
  else if negb (compare_pre (v_sys u) (v_pre u) (v_pre v) =? 0) then Ok (c, d_prerelease)
  else if negb (bytes_eqb (v_build u) (v_build v)) then Ok (c, d_build)
  else Ok (c, d_other).
