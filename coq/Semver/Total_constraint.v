(* Totality (C04), part 4: the recursive-descent parser of constraints (value, andList, setRange,
   orList, constraint), ParseSetConstraint and the Match entry points.  The loops are shown to
   finish within the fuel the model gives them: every continuation consumes input. *)
From Coq Require Import Lia Sorted.
From DepsDev Require Import Lib.Base Lib.Order Semver.Version Semver.Maven Semver.Gem Semver.Pep440 Semver.Compare
     Semver.Parse Semver.Span Semver.Interval Semver.Set Semver.Token Semver.Constraint
     Semver.Total_base Semver.Total_span Semver.Total_set Gen.SemverTables.
Local Open Scope Z_scope.

Definition m (st : pst) : nat := length (ps_rest st).

Lemma m_set_err st : m (set_err st) = m st. Proof. reflexivity. Qed.
Lemma m_add_weight st w : m (add_weight st w) = m st. Proof. reflexivity. Qed.
Lemma m_advance st n : m (advance st n) = (m st - n)%nat.
Proof. unfold m, advance. simpl. apply skipn_length. Qed.

Lemma catch_good {A B} (P : A -> Prop) (Q : B -> Prop) (r : res A) k on_err :
  good P r -> (forall x, P x -> good Q (k x)) -> good Q on_err -> good Q (catch r k on_err).
Proof. destruct r; simpl; auto; tauto. Qed.

Lemma unop_not_eof typ : is_unop typ = true -> typ <> go_tokEOF.
Proof. intros H ->. vm_compute in H. discriminate. Qed.
Lemma verwild_not_eof typ : is_ver_or_wild typ = true -> typ <> go_tokEOF.
Proof. intros H ->. vm_compute in H. discriminate. Qed.

Lemma ver_ok_new_version sys s x : ver_ok (new_version sys s x) = true.
Proof. reflexivity. Qed.

Section Oracle.
Variable pv : system -> bool -> bytes -> res parse_out.
Hypothesis Hwf : oracle_wf pv.

Notation ppub := (parse_public_good pv Hwf).

(* ---------------------------------------------------------------- value *)
Definition value_post (st : pst) (r : list span * bool * bool * pst) : Prop :=
  let '(spans, _, ok, st') := r in
  Forall wf_span spans /\ (m st' <= m st)%nat /\ (ok = true -> (m st' < m st)%nat).

Lemma value_good sys st : good (value_post st) (value pv sys st).
Proof.
  unfold value.
  destruct (token_total sys (ps_rest st)) as (typ & tok & i & E & Hi & Hn). rewrite E. cbn [bind].
  assert (None_ok : forall s, (m s <= m st)%nat -> good (value_post st) (Ok ([], false, false, s))).
  { intros s Hs. simpl. repeat split; auto. discriminate. }
  destruct (typ =? go_tokEOF); [apply None_ok; lia|].
  destruct (typ =? go_tokInvalid); [apply None_ok; rewrite m_set_err; lia|].
  destruct (is_unop typ) eqn:U.
  { pose proof (Hn (unop_not_eof typ U)) as Hi1.
    destruct (token_total sys (skipn i (ps_rest st))) as (typ2 & tok2 & j & E2 & Hj & _). rewrite E2. cbn [bind].
    destruct (negb (is_ver_or_wild typ2)); [apply None_ok; rewrite m_set_err; lia|].
    eapply good_bind; [apply ppub|]. intros po (A & B).
    destruct (po_err po) eqn:Pe; [apply None_ok; rewrite m_set_err; lia|].
    destruct (B eq_refl) as (v & Ev & _). rewrite Ev. cbn [opt_version bind].
    destruct (A v Ev) as (Hv & _).
    assert (Lt : (m (advance st (i + j)) < m st)%nat) by (rewrite m_advance; unfold m in *; lia).
    assert (K : forall spans, Forall wf_span spans ->
              good (value_post st)
                (Ok (spans, false, true,
                     if typ =? go_tokEqual then add_weight (advance st (i + j)) 1 else add_weight (add_weight (advance st (i + j)) 1) 1))).
    { intros spans Hs. simpl. destruct (typ =? go_tokEqual); rewrite ?m_add_weight; repeat split; auto; lia. }
    destruct (bytes_eqb tok s_ne).
    - eapply catch_good; [apply exclude_to_spans_good; auto | | apply None_ok; rewrite m_set_err; lia].
      intros [l r] (Bl & Br). apply K. constructor; [apply bounded_wf; auto|]. constructor; [apply bounded_wf; auto|constructor].
    - eapply catch_good; [apply op_version_to_span_good; auto | | apply None_ok; rewrite m_set_err; lia].
      intros s Hs. apply K. constructor; auto. }
  destruct (is_ver_or_wild typ) eqn:V; [|apply None_ok; lia].
  pose proof (Hn (verwild_not_eof typ V)) as Hi1.
  destruct (token_total sys (skipn i (ps_rest st))) as (typ2 & tok2 & j & E2 & Hj & _). rewrite E2. cbn [bind].
  destruct (typ2 =? go_tokInvalid); [apply None_ok; rewrite m_set_err; lia|].
  destruct (negb (typ2 =? go_tokHyphen)).
  { eapply good_bind; [apply ppub|]. intros po (A & B).
    set (st3 := advance (if po_err po then set_err _ else _) i).
    assert (L3 : (m st3 < m st)%nat).
    { unfold st3. rewrite m_advance. destruct (po_err po), (po_v po) as [v0|]; try destruct (is_wildcard_v v0);
        rewrite ?m_set_err, ?m_add_weight; unfold m in *; lia. }
    destruct (po_v po) as [version|] eqn:Ev.
    - destruct (A version eq_refl) as (Hv & _).
      eapply catch_good; [apply op_version_to_span_good; auto | |].
      + intros s Hs. simpl. repeat split; auto; lia.
      + apply None_ok. rewrite m_set_err. lia.
    - simpl. repeat split; auto; lia. }
  destruct (token_total sys (skipn (i + j) (ps_rest st))) as (typ3 & tok3 & k & E3 & Hk & _). rewrite E3. cbn [bind].
  destruct (negb (is_ver_or_wild typ3)); [apply None_ok; rewrite m_set_err; lia|].
  eapply good_bind; [apply ppub|]. intros plo (A1 & B1).
  eapply good_bind; [apply ppub|]. intros phi (A2 & B2).
  set (st2 := add_weight (advance (if po_err plo || po_err phi then set_err st else st) (i + j + k)) 2).
  assert (L2 : (m st2 < m st)%nat).
  { unfold st2. rewrite m_add_weight, m_advance. destruct (_ || _); rewrite ?m_set_err; unfold m in *; lia. }
  destruct (po_v plo) as [lo|] eqn:El; [|simpl; repeat split; auto; lia].
  destruct (po_v phi) as [hi|] eqn:Eh; [|simpl; repeat split; auto; lia].
  destruct (A1 lo eq_refl) as (Hlo & _). destruct (A2 hi eq_refl) as (Hhi & _).
  eapply good_bind; [apply compare_good; auto|]. intros c _.
  destruct (c <? 0); [apply None_ok; rewrite m_set_err; lia|].
  eapply catch_good; [apply new_span_good; [auto | apply ver_ok_fill; auto] | |].
  - intros s Hs. simpl. repeat split; auto; try lia. constructor; [apply bounded_wf; auto|constructor].
  - apply None_ok. rewrite m_set_err. lia.
Qed.

(* ---------------------------------------------------------------- andList *)
Definition list_post (st : pst) (r : set * bool * pst) : Prop :=
  let '(s, _, st') := r in wf_set s /\ (m st' <= m st)%nat.

Lemma and_loop_good sys : forall fuel cur first lc st, (m st < fuel)%nat -> wf_set cur ->
  good (list_post st) (and_loop pv fuel sys cur first lc st).
Proof.
  induction fuel as [|f IH]; intros cur first lc st Hf Hc; [lia|].
  cbn [and_loop]. eapply good_bind; [apply value_good|]. intros [[[spans hy] ok] st1] (Ws & Le & Lt).
  destruct ok; cbn [negb].
  2:{ simpl. split; auto. destruct lc; rewrite ?m_set_err; lia. }
  specialize (Lt eq_refl).
  eapply (good_bind (fun r2 => match fst r2 with None => True | Some (c1, s2) => wf_set c1 /\ m s2 = m st1 end)).
  { destruct first; [simpl; split; auto|]. destruct hy; [exact I|].
    eapply catch_good; [apply set_intersect_good; [auto | exact Ws] | |].
    - intros s Hs. simpl. auto.
    - simpl. auto. }
  intros [[[cur1 st2]|] stop] H2; [|simpl; split; auto; rewrite m_set_err; lia].
  simpl in H2. destruct H2 as (W1 & M2).
  destruct (first && stop); [simpl; split; auto; lia|].
  destruct (negb first && stop); [simpl; split; auto; lia|].
  destruct (token_total sys (ps_rest st2)) as (typ & tok & i & E & Hi & Hn). rewrite E. cbn [bind].
  set (p3 := if typ =? go_tokEOF then _ else _).
  assert (L3 : (m (fst p3) <= m st2)%nat).
  { unfold p3. repeat match goal with |- context [if ?b then _ else _] => destruct b end;
      cbn [fst]; rewrite ?m_set_err, ?m_advance; lia. }
  destruct p3 as [st3 comma]. cbn [fst] in L3.
  eapply good_weaken; [|apply IH; [lia | auto]].
  intros [[s b0] st'] (A & B). split; auto. lia.
Qed.

(* ---------------------------------------------------------------- setRange *)
Lemma pvs_zero sys : sys = SMaven \/ sys = SNuGet -> possible_version_string sys s_zero = true.
Proof. intros [-> | ->]; reflexivity. Qed.

Lemma set_range_good sys st : sys = SMaven \/ sys = SNuGet -> good (list_post st) (set_range pv sys st).
Proof.
  intros Hsys. unfold set_range.
  assert (Fail : forall s, (m s <= m st)%nat -> good (list_post st) (Ok (zero_set, false, s))).
  { intros s Hs. simpl. split; [constructor | auto]. }
  assert (Done : forall sp s, wf_span sp -> (m s <= m st)%nat ->
            good (list_post st) (Ok ({| set_sys := sys; set_span := [sp] |}, true, s))).
  { intros sp s Hsp Hs. simpl. split; [constructor; auto | auto]. }
  destruct (token_total sys (ps_rest st)) as (typ & tok & i & E & Hi & Hn). rewrite E. cbn [bind].
  destruct (typ =? go_tokEOF); [apply Fail; lia|].
  destruct (typ =? go_tokInvalid); [apply Fail; rewrite m_set_err; lia|].
  destruct (_ && negb _); [apply Fail; rewrite m_set_err; lia|].
  destruct (is_ver_or_wild typ).
  { eapply good_bind; [apply ppub|]. intros po (A & B).
    destruct (po_err po) eqn:Pe; [apply Fail; rewrite m_set_err; lia|].
    destruct (B eq_refl) as (v & Ev & _). rewrite Ev. cbn [opt_version bind]. destruct (A v Ev) as (Hv & _).
    assert (G : forall t0 w, ver_ok w = true ->
              good wf_span (match op_version_to_span pv t0 w with Ok s => Ok s | Err _ => Ok empty_span
                                                           | Panic p => Panic p | OutOfFuel => OutOfFuel end)).
    { intros t0 w Hw. pose proof (op_version_to_span_good pv Hwf t0 w Hw) as G.
      destruct (op_version_to_span pv t0 w); simpl in *; auto. apply wf_empty_span. }
    destruct (sys_eqb sys SMaven).
    - eapply good_bind; [apply G; apply ver_ok_new_version|]. intros s Hs.
      apply Done; auto. rewrite m_advance, m_add_weight. lia.
    - destruct (sys_eqb sys SNuGet).
      + eapply good_bind; [apply G; auto|]. intros s Hs. apply Done; auto. rewrite m_advance, m_add_weight. lia.
      + apply Fail. rewrite m_set_err, m_add_weight. lia. }
  destruct (typ =? go_tokLbracket); [|apply Fail; lia].
  set (st1 := advance (add_weight st 2) i).
  assert (L1 : (m st1 <= m st)%nat) by (unfold st1; rewrite m_advance, m_add_weight; lia).
  destruct (token_total sys (ps_rest st1)) as (typ1 & tok1 & i1 & E1 & Hi1 & _). rewrite E1. cbn [bind].
  (* the optional version followed by the next token *)
  assert (Opt : forall st0 ty tk ik, (m st0 <= m st)%nat ->
            good (fun r => match r with
                           | None => True
                           | Some (vo, _, s) => opt_ok vo /\ (m s <= m st)%nat
                           end)
                 (if ty =? go_tokVersion then
                    po <- parse_public pv sys tk;;
                    if po_err po then Ok None else
                    v <- opt_version (po_v po);;
                    let st2 := advance st0 ik in
                    t2 <- token sys (ps_rest st2);;
                    Ok (Some (Some v, t2, st2))
                  else Ok (Some (None, (ty, tk, ik), st0)))).
  { intros st0 ty tk ik L0. destruct (ty =? go_tokVersion); [|simpl; auto].
    eapply good_bind; [apply ppub|]. intros po (A & B).
    destruct (po_err po) eqn:Pe; [exact I|].
    destruct (B eq_refl) as (v & Ev & _). rewrite Ev. cbn [opt_version bind]. destruct (A v Ev) as (Hv & _).
    destruct (token_total sys (ps_rest (advance st0 ik))) as (ty2 & tk2 & i2 & E2 & _ & _). rewrite E2. simpl.
    split; auto. rewrite m_advance. lia. }
  eapply good_bind; [apply (Opt st1 typ1 tok1 i1 L1)|].
  intros [[[min_o [[typ2 tok2] i2]] st2]|]; [|intros _; apply Fail; rewrite m_set_err; lia].
  intros (Hmin & L2).
  eapply (good_bind (fun r0 => ver_ok (fst r0) = true)).
  { destruct min_o as [m0|]; [exact Hmin|].
    unfold parse_public. rewrite (pvs_zero sys Hsys).
    destruct Hwf as [W1 W2]. destruct (W2 sys Hsys) as (po & v & Ep & Ev). unfold s_zero. rewrite Ep. cbn [bind].
    rewrite Ev. simpl. destruct (W1 sys false [48%N]) as (po' & Ep' & A & _). rewrite Ep in Ep'. inversion Ep'; subst.
    apply (A v Ev). }
  intros [mn min_open] Hmn. cbn [fst] in Hmn.
  destruct (negb _); [apply Fail; rewrite m_set_err; lia|].
  destruct (typ2 =? go_tokRbracket).
  { eapply catch_good; [apply new_span_same_good; auto | |].
    - intros s Hs. apply Done; [apply bounded_wf; auto|]. destruct (_ || _); rewrite ?m_set_err, m_advance; lia.
    - apply Fail. destruct (_ || _); rewrite ?m_set_err, m_advance; lia. }
  set (st3 := advance st2 i2).
  assert (L3 : (m st3 <= m st)%nat) by (unfold st3; rewrite m_advance; lia).
  destruct (token_total sys (ps_rest st3)) as (typ3 & tok3 & i3 & E3 & _ & _). rewrite E3. cbn [bind].
  eapply good_bind; [apply (Opt st3 typ3 tok3 i3 L3)|].
  intros [[[max_o [[typ4 tok4] i4]] st4]|]; [|intros _; apply Fail; rewrite m_set_err; lia].
  intros (Hmax & L4).
  set (p := match max_o with Some m0 => (m0, bytes_eqb tok4 [41%N]) | None => (new_version sys s_inf3 infinity, false) end).
  assert (Hp : ver_ok (fst p) = true) by (unfold p; destruct max_o; simpl; auto).
  destruct p as [mx max_open]. cbn [fst] in Hp.
  destruct (negb _); [apply Fail; rewrite m_set_err; lia|].
  eapply catch_good; [apply new_span_good; auto | |].
  - intros s Hs. apply Done; [apply bounded_wf; auto|]. rewrite m_advance. lia.
  - apply Fail. rewrite m_set_err. lia.
Qed.

Lemma and_list_good sys st : good (list_post st) (and_list pv sys st).
Proof.
  unfold and_list. destruct (sys_eqb sys SMaven || sys_eqb sys SNuGet) eqn:E.
  - apply set_range_good. apply orb_prop in E. destruct E as [E|E]; apply sys_eqb_true' in E; auto.
  - apply and_loop_good; [unfold m; lia | constructor].
Qed.

(* ---------------------------------------------------------------- orList *)
Lemma or_loop_good sys : forall fuel spans lo st, (m st < fuel)%nat -> Forall wf_span spans ->
  good (fun r => match fst r with Some l => Forall wf_span l | None => True end) (or_loop pv fuel sys spans lo st).
Proof.
  induction fuel as [|f IH]; intros spans lo st Hf Hs; [lia|].
  cbn [or_loop]. eapply good_bind; [apply and_list_good|]. intros [[s ok] st1] (Ws & Le).
  destruct ok; cbn [negb]; [|destruct lo; simpl; auto].
  assert (W1 : Forall wf_span (spans ++ set_span s)) by (apply Forall_app; split; auto).
  destruct (_ && _); [simpl; auto|].
  destruct (token_total sys (ps_rest st1)) as (typ & tok & i & E & Hi & Hn). rewrite E. cbn [bind].
  destruct (typ =? _) eqn:T; [|simpl; auto].
  apply IH; auto. rewrite m_advance.
  assert (typ <> go_tokEOF).
  { apply Z.eqb_eq in T. rewrite T. destruct (_ || _); intros C; vm_compute in C; discriminate. }
  specialize (Hn H). unfold m in *. lia.
Qed.

Lemma or_list_good sys st : good (fun r => wf_set (fst r)) (or_list pv sys st).
Proof.
  unfold or_list. eapply good_bind; [apply or_loop_good; [unfold m; lia | constructor]|].
  intros [[spans|] st1] H; [|simpl; constructor].
  simpl in H. eapply catch_good; [apply canon_spans_good; auto | |].
  - intros sp Hsp. exact Hsp.
  - simpl. constructor.
Qed.

(* ---------------------------------------------------------------- constraint *)
Lemma eof_check_good sys st : total (eof_check sys st).
Proof.
  unfold eof_check, total. destruct (token_total sys (ps_rest st)) as (typ & tok & i & E & _ & _). rewrite E. exact I.
Qed.

Definition wf_constraint (c : constraint) : Prop := wf_set (c_set c).

Theorem parse_constraint_good sys str : good wf_constraint (parse_constraint pv sys str).
Proof.
  unfold parse_constraint.
  assert (Main : good wf_constraint
    (let lex_str := match trim_space str with [] => s_ge000 | _ => trim_space str end in
     if sys_eqb sys SGo then
        po <- parse_public pv SGo lex_str;;
        if po_err po then Err E_parse else
        lo <- opt_version (po_v po);;
        hi1 <- (if major lo =? 0 then inc_n lo 0 else Ok lo);;
        hi2 <- inc_n hi1 0;;
        let hi := set_patch (set_minor hi2 0) 0 in
        s <- new_span lo false hi true;;
        Ok {| c_str := trim_space str; c_sys := sys; c_simple := true; c_set := {| set_sys := SGo; set_span := [s] |} |}
      else
        st0 <- (let st := {| ps_rest := lex_str; ps_err := false; ps_weight := 0 |} in
                if sys_eqb sys SPyPI then
                  t <- token sys lex_str;;
                  let '(typ, _, _) := t in Ok (if typ =? go_tokVersion then set_err st else st)
                else Ok st);;
        r <- or_list pv sys st0;;
        let '(s, st1) := r in
        r2 <- (match set_span s with
               | [] => Ok (zero_set, st1)
               | _ => if ps_err st1 then Ok (s, st1) else st2 <- eof_check sys st1;; Ok (s, st2)
               end);;
        let '(cset, st2) := r2 in
        st3 <- eof_check sys st2;;
        if ps_err st3 then Err E_syntax
        else Ok {| c_str := trim_space str; c_sys := sys; c_simple := (ps_weight st3 =? 1); c_set := cset |})).
  { cbv zeta. destruct (sys_eqb sys SGo).
    - eapply good_bind; [apply ppub|]. intros po (A & B).
      destruct (po_err po) eqn:Pe; [exact I|].
      destruct (B eq_refl) as (lo & Ev & (Hgo & _)). rewrite Ev. cbn [opt_version bind]. destruct (A lo Ev) as (Hlo & _).
      assert (Ln : (0 < length (v_num lo))%nat) by (specialize (Hgo eq_refl); destruct (v_num lo); [congruence|simpl; lia]).
      eapply (good_bind (fun w => ver_ok w = true /\ (0 < length (v_num w))%nat)).
      { destruct (major lo =? 0); [|simpl; auto].
        pose proof (inc_n_good lo 0 Hlo Ln) as G. unfold inc_n in *.
        destruct (idx (v_num lo) 0); simpl in *; auto. split; auto.
        unfold set_num, vset_num. simpl. destruct (v_num lo); simpl; lia. }
      intros hi1 (H1 & L1).
      eapply good_bind; [apply inc_n_good; auto|]. intros hi2 H2.
      eapply good_bind; [apply new_span_good; [auto | repeat apply ver_ok_set_num; auto]|]. intros s Hs.
      simpl. unfold wf_constraint, wf_set. simpl. constructor; [apply bounded_wf; auto|constructor].
    - eapply (good_bind (fun _ => True)).
      { destruct (sys_eqb sys SPyPI); [|exact I].
        destruct (token_total sys (match trim_space str with [] => s_ge000 | _ :: _ => trim_space str end)) as (typ & tok & i & E & _ & _).
        rewrite E. exact I. }
      intros st0 _. eapply good_bind; [apply or_list_good|]. intros [s st1] Hs. cbn [fst] in Hs.
      eapply (good_bind (fun r2 => wf_set (fst r2))).
      { destruct (set_span s) eqn:Es; [simpl; constructor|].
        destruct (ps_err st1); [exact Hs|].
        eapply good_bind; [apply eof_check_good|]. intros st2 _. exact Hs. }
      intros [cset st2] Hc. cbn [fst] in Hc.
      eapply good_bind; [apply eof_check_good|]. intros st3 _.
      destruct (ps_err st3); [exact I|]. exact Hc. }
  cbv zeta in Main. destruct (trim_space str) eqn:T; [destruct sys; exact Main || exact I | exact Main].
Qed.

Theorem parse_set_constraint_good sys str : good wf_constraint (parse_set_constraint pv sys str).
Proof.
  unfold parse_set_constraint. eapply good_bind; [apply parse_set_good; auto|]. intros r Hr. exact Hr.
Qed.

(* ---------------------------------------------------------------- Match *)
(* a version offered to Match: it satisfies the invariant and, when the constraint is a PyPI
   one, carries its extension object (as every parsed PyPI version does) *)
Definition probe_ok (sys : system) (v : version) : Prop :=
  ver_ok v = true /\ (sys = SPyPI -> match v_ext v with Pep440Ext _ => True | _ => False end).

Theorem constraint_match_good c v : wf_constraint c -> probe_ok (c_sys c) v -> total (constraint_match c v).
Proof.
  intros Hc (Hv & Hp). unfold constraint_match, total.
  eapply (good_bind (fun _ => True)).
  - destruct (sys_eqb (c_sys c) SPyPI && bytes_eqb (c_str c) []) eqn:E; [|exact I].
    apply andb_prop in E. destruct E as [E _]. apply sys_eqb_true' in E. specialize (Hp E).
    destruct (v_ext v) as [| |[p|]|]; simpl in *; auto.
  - intros dev _. destruct dev; [exact I|]. apply set_match_version_good; auto.
Qed.

Theorem match_version_good c v : wf_constraint c -> probe_ok (c_sys c) v -> total (match_version c v).
Proof. intros. unfold match_version. destruct (is_wildcard_v v); [exact I|]. apply constraint_match_good; auto. Qed.

Theorem match_version_prerelease_good c v : wf_constraint c -> ver_ok v = true -> total (match_version_prerelease c v).
Proof. intros. unfold match_version_prerelease. destruct (is_wildcard_v v); [exact I|]. apply set_match_version_good; auto. Qed.

Theorem match_string_good c s : wf_constraint c -> total (match_string pv c s).
Proof.
  intros Hc. unfold match_string, total. eapply good_bind; [apply ppub|]. intros po (A & B).
  destruct (po_err po) eqn:Pe; [exact I|].
  destruct (B eq_refl) as (v & Ev & (_ & Hpy)). rewrite Ev. cbn [opt_version bind].
  apply constraint_match_good; auto. split; [apply (A v Ev) | exact Hpy].
Qed.

End Oracle.
