(* The bridge between the PEP 440 reference (Spec/Pep440Spec.v) and the model of the Go
   code (Pep440.v, Pep440Parse.v): what semver.PyPI.Parse is expected to store for a
   version of the grammar, and the sub-domain of PEP 440 on which the Go ordering is
   proved to coincide with the reference (c02_pypi_dom, also used by the generator of
   the C02 check through extraction).  Definitions only. *)
From DepsDev Require Import Lib.Base Lib.Order Semver.Version Semver.Pep440 Semver.Pep440Parse Spec.Pep440Spec.
Local Open Scope Z_scope.

(* invariants of every version produced by spec_parse *)
Definition seg_ok (t : bytes) : bool := negb (bytes_eqb t []) && forallb sp_alnum t.

Definition pv_wfb (p : pv) : bool :=
  (0 <=? s_epoch p) &&
  forallb (fun n => 0 <=? n) (s_release p) &&
  negb (Nat.eqb (length (s_release p)) 0) &&
  (match s_pre p with Some (k, n) => (0 <=? k) && (k <=? 2) && (0 <=? n) | None => true end) &&
  (match s_post p with Some n => 0 <=? n | None => true end) &&
  (match s_dev p with Some n => 0 <=? n | None => true end) &&
  (match s_local p with Some l => negb (Nat.eqb (length l) 0) && forallb seg_ok l | None => true end).

(* the extension Go stores (pep440 struct) when every number fits *)
Definition go_ext (p : pv) : pep440 :=
  {| p_epoch := s_epoch p;
     p_pre := match s_pre p with Some (k, _) => pre_letter k | None => [] end;
     p_prenum := match s_pre p with Some (_, n) => n | None => 0 end;
     p_post := match s_post p with Some _ => true | None => false end;
     p_postnum := match s_post p with Some n => n | None => 0 end;
     p_dev := match s_dev p with Some _ => true | None => false end;
     p_devnum := match s_dev p with Some n => n | None => 0 end;
     p_local := match s_local p with Some l => join_dots l | None => [] end |}.

Definition go_nums (p : pv) : list Z := pad3 (s_release p).

(* v (numbers, extension) is what Parse stores for p *)
Definition abs_rel (v : list Z * option pep440) (p : pv) : Prop :=
  fst v = go_nums p /\ make_ext (snd v) = go_ext p.

(* ---------- the domain of C02_pypi_partial ---------- *)
Definition two63 : Z := 9223372036854775808.

Definition has_upper (t : bytes) : bool := existsb (fun c => N.leb 65 c && N.leb c 90) t.

(* widths: pre, post and dev numbers fit a signed 64-bit int (Go truncates int(uint64)),
   numeric local segments do not exceed 2^64-1 (Go saturates there) *)
Definition local_seg_width (t : bytes) : bool :=
  if all_digits_b t then sp_int t <=? max_uint64 else true.

Definition c02_dom_width (p : pv) : bool :=
  (match s_pre p with Some (_, n) => n <? two63 | None => true end) &&
  (match s_post p with Some n => n <? two63 | None => true end) &&
  (match s_dev p with Some n => n <? two63 | None => true end) &&
  (match s_local p with Some l => forallb local_seg_width l | None => true end).

Definition c02_dom_shape (p : pv) : bool :=
  (* a local segment only on a plain release (Go ignores it after post/dev and ranks it
     before post and dev after a pre-release) and without upper-case letters (Go does
     not fold case) *)
  (match s_local p with
   | Some l => (match s_pre p, s_post p, s_dev p with None, None, None => true | _, _, _ => false end)
               && forallb (fun t => negb (has_upper t)) l
   | None => true
   end) &&
  (* no post0 attached to a pre-release: Go does not tell it from an absent post *)
  (match s_pre p, s_post p with Some _, Some n => negb (n =? 0) | _, _ => true end).

Definition c02_pypi_dom (p : pv) : bool := c02_dom_width p && c02_dom_shape p.

(* ---------- the domain of C10_pypi_*_partial ---------- *)
(* a wildcard, if any, is the last number (Canon stops printing at the first wildcard) *)
Fixpoint wild_only_last (l : list Z) : bool :=
  match l with
  | [] => true
  | [_] => true
  | x :: t => negb (x =? wildcard) && wild_only_last t
  end.

(* pre, post and dev numbers are not negative (a number >= 2^63 in the input is stored
   as a negative int, printed with a minus sign, and the sign is read back as a separator) *)
(* ... and the first release number is not the infinity sign (accepted after an epoch
   spelled with leading zeros, 01!<inf>, but the canonical 1!<inf>.0.0 is rejected by
   possibleVersionString) *)
Definition c10_pypi_dom (nums : list Z) (e : option pep440) : bool :=
  let x := make_ext e in
  wild_only_last nums && negb (hd 0 nums =? infinity) &&
  (0 <=? p_prenum x) && (0 <=? p_postnum x) && (0 <=? p_devnum x).
