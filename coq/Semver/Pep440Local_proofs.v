(* Where the local label stands in the PyPI comparison (model pep_compare), and how two
   local labels are compared.  Statements used by Properties/C02_pypi_local.v. *)
From Coq Require Import List ZArith NArith Lia Bool.
From DepsDev Require Import Lib.Base Lib.Order Semver.Version Semver.Pep440 Semver.Pep440Parse
  Semver.Pep440_proofs.
Import ListNotations.
Local Open Scope Z_scope.

Lemma nz_r0 s : nz s 0 = s.
Proof. unfold nz. destruct (Z.eqb_spec s 0); simpl; auto. Qed.

Lemma opt_cmp_refl (o : option Z) : opt_cmp cmpZ 1 o o = 0.
Proof. destruct o; simpl; auto. apply cmpZ_refl. Qed.

(* the attachments other than the local label are the same *)
Definition same_but_local (x y : pep440) : Prop :=
  p_epoch x = p_epoch y /\ p_pre x = p_pre y /\ p_prenum x = p_prenum y /\
  p_post x = p_post y /\ p_postnum x = p_postnum y /\ p_dev x = p_dev y /\ p_devnum x = p_devnum y.

Lemma no_pre_rank x : is_pre_rank (pep_rank x) = false ->
  pep_rank x = if p_post x then rk_post else if p_dev x then rk_dev
               else if negb (bytes_eqb (p_local x) []) then rk_local else rk_empty.
Proof.
  unfold pep_rank.
  destruct (bytes_eqb (p_pre x) [97%N]); [discriminate|].
  destruct (bytes_eqb (p_pre x) [98%N]); [discriminate|].
  destruct (bytes_eqb (p_pre x) [114%N; 99%N]); [discriminate|]. reflexivity.
Qed.

Lemma pre_rank_same x y : p_pre x = p_pre y -> is_pre_rank (pep_rank x) = true ->
  pep_rank y = pep_rank x /\ is_pre_rank (pep_rank y) = true.
Proof.
  intros E H. unfold pep_rank in *. rewrite <- E.
  destruct (bytes_eqb (p_pre x) [97%N]); [auto|].
  destruct (bytes_eqb (p_pre x) [98%N]); [auto|].
  destruct (bytes_eqb (p_pre x) [114%N; 99%N]); [auto|].
  exfalso. destruct (p_post x); [discriminate|]. destruct (p_dev x); [discriminate|].
  destruct (negb (bytes_eqb (p_local x) [])); discriminate.
Qed.

Lemma no_pre_same x y : p_pre x = p_pre y -> is_pre_rank (pep_rank x) = false -> is_pre_rank (pep_rank y) = false.
Proof.
  intros E H. destruct (is_pre_rank (pep_rank y)) eqn:Hy; auto.
  destruct (pre_rank_same y x (eq_sym E) Hy) as [_ Hx]. congruence.
Qed.

(* pre-release present: the local labels decide *)
Lemma cmp_local_pre na nb x y : compare_nums na nb = 0 -> same_but_local x y ->
  is_pre_rank (pep_rank x) = true ->
  pypi_cmp (na, Some x) (nb, Some y) = local_compare (p_local x) (p_local y).
Proof.
  intros Hn (Ee & Ep & Epn & Eq & Eqn & Ed & Edn) Hr.
  destruct (pre_rank_same x y Ep Hr) as [Ry Hy].
  rewrite pypi_cmp_lex. unfold pypi_lex. rewrite !lex_nz.
  unfold c_epoch, c_nums, c_rank, c_prenum, c_local, c_post, c_dev, k_prenum, k_local, k_postnum, k_dev, dflt.
  cbn [fst snd]. rewrite Ry, Hr. cbn [orb]. rewrite Ee, Hn, Epn, Eqn, Ed, Edn.
  rewrite !cmpZ_refl, opt_cmp_refl, !nz_0. apply nz_r0.
Qed.

(* plain release (no pre, post, dev): the local labels decide; no label sorts first *)
Lemma cmp_local_plain na nb x y : compare_nums na nb = 0 -> same_but_local x y ->
  is_pre_rank (pep_rank x) = false -> p_post x = false -> p_dev x = false ->
  pypi_cmp (na, Some x) (nb, Some y) =
  match p_local x, p_local y with
  | [], _ :: _ => -1
  | _ :: _, [] => 1
  | _, _ => local_compare (p_local x) (p_local y)
  end.
Proof.
  intros Hn (Ee & Ep & Epn & Eq & Eqn & Ed & Edn) Hr Hq Hd.
  pose proof (no_pre_same x y Ep Hr) as Hy.
  pose proof (no_pre_rank x Hr) as Rx. pose proof (no_pre_rank y Hy) as Ry.
  rewrite <- Eq, <- Ed, Hq, Hd in Ry. rewrite Hq, Hd in Rx.
  rewrite pypi_cmp_lex. unfold pypi_lex. rewrite !lex_nz.
  unfold c_epoch, c_nums, c_rank, c_prenum, c_local, c_post, c_dev, k_prenum, k_local, k_postnum, k_dev, dflt.
  cbn [fst snd]. rewrite Rx, Ry. rewrite Ee, Hn, <- Ed, Hd, cmpZ_refl, !nz_0.
  destruct (p_local x) as [|a la], (p_local y) as [|b lb]; cbn [bytes_eqb negb];
    unfold rk_local, rk_empty, rk_post, is_pre_rank, rk_alpha, rk_beta, rk_prerelease; cbn [Z.eqb Pos.eqb orb opt_cmp];
    rewrite ?cmpZ_refl, ?nz_0, ?Eqn, ?cmpZ_refl, ?nz_0, ?nz_r0; try reflexivity.
Qed.

(* post-releases and dev-releases without a pre-release tag: the local labels are not read *)
Lemma cmp_local_ignored na nb x y la lb :
  is_pre_rank (pep_rank x) = false -> is_pre_rank (pep_rank y) = false ->
  (p_post x = true /\ p_post y = true) \/
  (p_post x = false /\ p_post y = false /\ p_dev x = true /\ p_dev y = true) ->
  pypi_cmp (na, Some (set_local x la)) (nb, Some (set_local y lb)) = pypi_cmp (na, Some x) (nb, Some y).
Proof.
  intros Hx Hy H.
  assert (Sx : forall l, pep_rank (set_local x l) = pep_rank x /\ is_pre_rank (pep_rank (set_local x l)) = false).
  { intros l. assert (A : is_pre_rank (pep_rank (set_local x l)) = false).
    { destruct (is_pre_rank (pep_rank (set_local x l))) eqn:E; auto.
      destruct (pre_rank_same (set_local x l) x eq_refl E) as [_ F]. congruence. }
    split; auto. rewrite (no_pre_rank _ A), (no_pre_rank _ Hx). cbn [set_local p_post p_dev p_local].
    destruct H as [[P _]|(P & _ & D & _)]; rewrite P; [reflexivity | rewrite D; reflexivity]. }
  assert (Sy : forall l, pep_rank (set_local y l) = pep_rank y /\ is_pre_rank (pep_rank (set_local y l)) = false).
  { intros l. assert (A : is_pre_rank (pep_rank (set_local y l)) = false).
    { destruct (is_pre_rank (pep_rank (set_local y l))) eqn:E; auto.
      destruct (pre_rank_same (set_local y l) y eq_refl E) as [_ F]. congruence. }
    split; auto. rewrite (no_pre_rank _ A), (no_pre_rank _ Hy). cbn [set_local p_post p_dev p_local].
    destruct H as [[_ P]|(_ & P & _ & D)]; rewrite P; [reflexivity | rewrite D; reflexivity]. }
  destruct (Sx la) as [Rx Ax], (Sy lb) as [Ry Ay].
  assert (Lx : pep_rank x =? rk_local = false).
  { rewrite (no_pre_rank x Hx). destruct H as [[P _]|(P & _ & D & _)]; rewrite P; [reflexivity | rewrite D; reflexivity]. }
  assert (Ly : pep_rank y =? rk_local = false).
  { rewrite (no_pre_rank y Hy). destruct H as [[_ P]|(_ & P & _ & D)]; rewrite P; [reflexivity | rewrite D; reflexivity]. }
  rewrite !pypi_cmp_lex. unfold pypi_lex. rewrite !lex_nz.
  unfold c_epoch, c_nums, c_rank, c_prenum, c_local, c_post, c_dev, k_prenum, k_local, k_postnum, k_dev, dflt.
  cbn [fst snd]. rewrite Rx, Ry, Hx, Hy, Lx, Ly. cbn [orb set_local p_epoch p_prenum p_postnum p_dev p_devnum p_local].
  reflexivity.
Qed.

(* ---------- how two local labels are compared ---------- *)
Lemma list_lex_prefix {A} (c : A -> A -> Z) sh l : forall y r,
  (forall x, c x x = 0) -> list_lex c sh l (l ++ y :: r) = sh.
Proof.
  induction l as [|x l IH]; intros y r R; [reflexivity|].
  cbn [app]. rewrite list_lex_cons, R, nz_0. apply IH; auto.
Qed.

(* on a common prefix the label with fewer segments is the smaller one *)
Lemma local_fewer_segments pl ql y r : split_dots ql = split_dots pl ++ y :: r -> local_compare pl ql = -1.
Proof.
  intros E. rewrite local_compare_list_lex, E. apply list_lex_prefix.
  intros x. apply (cc_refl _ _ local_elem_compare_core). exact I.
Qed.

Lemma elem_numeric_by_value a b : all_digits a = true -> all_digits b = true ->
  local_elem_compare a b = cmpZ (parse_uint_sat a) (parse_uint_sat b).
Proof. intros Ha Hb. unfold local_elem_compare. rewrite Ha, Hb. reflexivity. Qed.

Lemma elem_numeric_above a b : all_digits a = true -> all_digits b = false ->
  local_elem_compare a b = 1 /\ local_elem_compare b a = -1.
Proof. intros Ha Hb. unfold local_elem_compare. rewrite Ha, Hb. split; reflexivity. Qed.

Lemma elem_text a b : all_digits a = false -> all_digits b = false ->
  local_elem_compare a b = bytes_compare a b.
Proof. intros Ha Hb. unfold local_elem_compare. rewrite Ha, Hb. reflexivity. Qed.

(* ---------- the same on what Parse stores ---------- *)
Lemma pypi_cmp_make_ext na nb e f :
  pypi_cmp (na, e) (nb, f) = pypi_cmp (na, Some (make_ext e)) (nb, Some (make_ext f)).
Proof. rewrite !pypi_cmp_lex. reflexivity. Qed.

Lemma set_local_eta x : set_local x (p_local x) = x.
Proof. destruct x; reflexivity. Qed.

(* post-releases without a pre-release tag: post number, then dev; nothing else *)
Lemma cmp_post_rank na nb x y : p_epoch x = p_epoch y -> compare_nums na nb = 0 ->
  is_pre_rank (pep_rank x) = false -> is_pre_rank (pep_rank y) = false ->
  p_post x = true -> p_post y = true ->
  pypi_cmp (na, Some x) (nb, Some y) =
  nz (cmpZ (p_postnum x) (p_postnum y)) (opt_cmp cmpZ 1 (k_dev x) (k_dev y)).
Proof.
  intros Ee Hn Hx Hy Px Py.
  pose proof (no_pre_rank x Hx) as Rx. pose proof (no_pre_rank y Hy) as Ry. rewrite Px in Rx. rewrite Py in Ry.
  rewrite pypi_cmp_lex. unfold pypi_lex. rewrite !lex_nz.
  unfold c_epoch, c_nums, c_rank, c_prenum, c_local, c_post, c_dev, k_prenum, k_local, k_postnum, dflt.
  cbn [fst snd]. rewrite Rx, Ry, Ee, Hn.
  unfold rk_post, rk_local, is_pre_rank, rk_alpha, rk_beta, rk_prerelease. cbn [Z.eqb Pos.eqb orb].
  rewrite !cmpZ_refl, local_compare_refl, !nz_0. reflexivity.
Qed.

(* dev-releases without pre-release tag and post: the dev number alone *)
Lemma cmp_dev_rank na nb x y : p_epoch x = p_epoch y -> compare_nums na nb = 0 ->
  is_pre_rank (pep_rank x) = false -> is_pre_rank (pep_rank y) = false ->
  p_post x = false -> p_post y = false -> p_dev x = true -> p_dev y = true ->
  pypi_cmp (na, Some x) (nb, Some y) = cmpZ (p_devnum x) (p_devnum y).
Proof.
  intros Ee Hn Hx Hy Px Py Dx Dy.
  pose proof (no_pre_rank x Hx) as Rx. pose proof (no_pre_rank y Hy) as Ry.
  rewrite Px, Dx in Rx. rewrite Py, Dy in Ry.
  rewrite pypi_cmp_lex. unfold pypi_lex. rewrite !lex_nz.
  unfold c_epoch, c_nums, c_rank, c_prenum, c_local, c_post, c_dev, k_prenum, k_local, k_postnum, k_dev, dflt.
  cbn [fst snd]. rewrite Rx, Ry, Ee, Hn, Dx, Dy.
  unfold rk_dev, rk_post, rk_local, is_pre_rank, rk_alpha, rk_beta, rk_prerelease. cbn [Z.eqb Pos.eqb orb opt_cmp].
  rewrite !cmpZ_refl, local_compare_refl, !nz_0. reflexivity.
Qed.
