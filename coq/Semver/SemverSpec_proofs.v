(* The generic comparison of Version.v coincides with SemVer 2.0.0 precedence (Spec/SemverSpec.v)
   on strict structures: three numbers, prerelease identifiers of the strict grammar, numeric
   identifiers within int64 (C02 for npm, Cargo, Go). *)
From Coq Require Import Lia.
From DepsDev Require Import Lib.Base Semver.Version Spec.SemverSpec.
Local Open Scope Z_scope.

Definition max_int64 : Z := 9223372036854775807.

(* abstraction of a parsed structure to the spec's value *)
Definition abs_version (v : version) : option sv :=
  match v_num v with
  | [a; b; c] =>
      match sequence (map pre_ident (v_pre v)) with
      | Some p => Some {| sv_nums := [a; b; c]; sv_pre := p; sv_build := [] |}
      | None => None
      end
  | _ => None
  end.

Definition in_range (v : version) : Prop :=
  forall e n, In e (v_pre v) -> pre_ident e = Some (INum n) -> n <= max_int64.

Definition not_nuget (S : system) : Prop := sys_eqb S SNuGet = false.

(* ------------------------------------------------------------------ digits *)
Lemma digits_val_dec s : forall acc, forallb is_digit s = true -> digits_val s acc = Some (dec_val s acc).
Proof.
  induction s as [|c t IH]; intros acc H; cbn [digits_val dec_val forallb] in *; [reflexivity|].
  apply andb_true_iff in H as (Hc & Ht). rewrite Hc. apply IH; auto.
Qed.

Lemma digits_val_none s : forall acc, forallb is_digit s = false -> digits_val s acc = None.
Proof.
  induction s as [|c t IH]; intros acc H; cbn [digits_val forallb] in *; [discriminate|].
  destruct (is_digit c); cbn [andb] in H; auto.
Qed.

Lemma dec_val_mono s : forall acc, 0 <= acc -> acc <= dec_val s acc.
Proof.
  induction s as [|c t IH]; intros acc H; cbn [dec_val]; [lia|].
  pose proof (N2Z.is_nonneg (c - 48)%N) as Hc.
  specialize (IH (10 * acc + Z.of_N (c - 48)%N) ltac:(lia)). lia.
Qed.

Lemma is_digit_not_sign c : is_digit c = true -> N.eqb c 43 = false /\ N.eqb c 45 = false.
Proof.
  unfold is_digit. rewrite andb_true_iff, !N.leb_le. intros (H1 & H2).
  split; apply N.eqb_neq; lia.
Qed.

(* ------------------------------------------------------------------ identifiers *)
Lemma lz_match (c : N) (t : bytes) :
  (match c :: t with 48%N :: _ :: _ => true | _ => false end) = N.eqb c 48 && negb (Nat.eqb (length t) 0).
Proof.
  destruct c as [|p]; [destruct t; reflexivity|].
  do 7 (try (destruct p as [p|p|]; try (destruct t; reflexivity))).
Qed.

Lemma sign_match (c : N) (t : bytes) :
  (match c :: t with 45%N :: _ => true | 43%N :: _ => true | _ => false end) = N.eqb c 45 || N.eqb c 43.
Proof.
  destruct c as [|p]; [reflexivity|].
  do 7 (try (destruct p as [p|p|]; try reflexivity)).
Qed.

Lemma parse_int_nosign (c : N) (t : bytes) bits : N.eqb c 43 = false -> N.eqb c 45 = false ->
  parse_int (c :: t) bits =
  match digits_val (c :: t) 0 with
  | None => None
  | Some n => if (n <? - 2 ^ (bits - 1)) || (2 ^ (bits - 1) - 1 <? n) then None else Some n
  end.
Proof.
  intros H1 H2. unfold parse_int. destruct c as [|p]; [reflexivity|].
  do 7 (try (destruct p as [p|p|]; try reflexivity)); simpl in H1, H2; discriminate.
Qed.

Lemma numeric_ident_spec e n : numeric_ident e = Some n ->
  forallb is_digit e = true /\ n = dec_val e 0 /\
  (match e with c :: t => N.eqb c 48 && negb (Nat.eqb (length t) 0) | [] => false end) = false.
Proof.
  unfold numeric_ident. destruct e as [|c t]; [discriminate|].
  destruct (forallb is_digit (c :: t)) eqn:D; [|discriminate].
  destruct (N.eqb c 48 && negb (Nat.eqb (length t) 0)) eqn:Z; [discriminate|].
  intros H; inversion H; subst. auto.
Qed.

Lemma is_numeric_num S e n : not_nuget S ->
  pre_ident e = Some (INum n) -> n <= max_int64 -> is_numeric S e = Some n.
Proof.
  intros HS H Hn. unfold pre_ident in H.
  destruct e as [|c t]; [discriminate|].
  destruct (forallb is_ident_char (c :: t)); cbn [negb] in H; [|discriminate].
  destruct (forallb is_digit (c :: t)) eqn:D; [|discriminate].
  destruct (numeric_ident (c :: t)) as [m|] eqn:E; [|discriminate].
  inversion H; subst m. clear H.
  destruct (numeric_ident_spec _ _ E) as (_ & Hv & Hz).
  unfold is_numeric. rewrite HS.
  assert (Hc : is_digit c = true) by (cbn [forallb] in D; apply andb_true_iff in D; tauto).
  destruct (is_digit_not_sign c Hc) as (H43 & H45).
  rewrite (lz_match c t), Hz, (sign_match c t), H45, H43. cbn [andb orb].
  rewrite (parse_int_nosign c t _ H43 H45).
  rewrite (digits_val_dec (c :: t) 0 D). rewrite <- Hv.
  assert (0 <= n) by (rewrite Hv; apply dec_val_mono; lia).
  unfold max_int64 in Hn.
  destruct ((n <? - 2 ^ (64 - 1)) || (2 ^ (64 - 1) - 1 <? n)) eqn:R; auto.
  apply orb_true_iff in R. destruct R as [R|R]; apply Z.ltb_lt in R; simpl in R; lia.
Qed.

Lemma is_numeric_alpha S e s : pre_ident e = Some (IAlpha s) -> s = e /\ is_numeric S e = None.
Proof.
  intros H. unfold pre_ident in H.
  destruct e as [|c t]; [discriminate|].
  destruct (forallb is_ident_char (c :: t)) eqn:I; cbn [negb] in H; [|discriminate].
  destruct (forallb is_digit (c :: t)) eqn:D.
  { destruct (numeric_ident (c :: t)); discriminate. }
  inversion H; subst. split; auto.
  unfold is_numeric. rewrite (lz_match c t), (sign_match c t).
  destruct (N.eqb c 48 && negb (Nat.eqb (length t) 0) && negb (sys_eqb S SNPM)); auto.
  destruct (N.eqb c 45) eqn:H45; [reflexivity|].
  destruct (N.eqb c 43) eqn:H43; [reflexivity|]. cbn [orb].
  rewrite (parse_int_nosign c t _ H43 H45).
  rewrite (digits_val_none (c :: t) 0 D). reflexivity.
Qed.

Lemma sgnZ_zcmp a b : sgnZ a b = zcmp a b.
Proof. reflexivity. Qed.

Lemma compare_elem_ident S x y ix iy : not_nuget S ->
  pre_ident x = Some ix -> pre_ident y = Some iy ->
  (forall n, ix = INum n -> n <= max_int64) -> (forall n, iy = INum n -> n <= max_int64) ->
  compare_elem S x y = ident_cmp ix iy.
Proof.
  intros HS Hx Hy Rx Ry. unfold compare_elem.
  destruct ix as [n|s], iy as [m|u].
  - rewrite (is_numeric_num S x n HS Hx (Rx n eq_refl)), (is_numeric_num S y m HS Hy (Ry m eq_refl)). reflexivity.
  - rewrite (is_numeric_num S x n HS Hx (Rx n eq_refl)).
    destruct (is_numeric_alpha S y u Hy) as (_ & ->). reflexivity.
  - destruct (is_numeric_alpha S x s Hx) as (_ & ->).
    rewrite (is_numeric_num S y m HS Hy (Ry m eq_refl)). reflexivity.
  - destruct (is_numeric_alpha S x s Hx) as (-> & ->).
    destruct (is_numeric_alpha S y u Hy) as (-> & ->).
    rewrite HS. reflexivity.
Qed.

Lemma sequence_cons {A} (o : option A) l r : sequence (o :: l) = Some r ->
  exists x r', o = Some x /\ sequence l = Some r' /\ r = x :: r'.
Proof.
  simpl. destruct o as [x|]; [|discriminate]. destruct (sequence l) as [r'|]; [|discriminate].
  intros H; inversion H; eauto.
Qed.

Lemma compare_pre_spec S : not_nuget S -> forall p1 p2 i1 i2,
  sequence (map pre_ident p1) = Some i1 -> sequence (map pre_ident p2) = Some i2 ->
  (forall e n, In e p1 -> pre_ident e = Some (INum n) -> n <= max_int64) ->
  (forall e n, In e p2 -> pre_ident e = Some (INum n) -> n <= max_int64) ->
  compare_pre S p1 p2 = pre_cmp i1 i2.
Proof.
  intros HS. induction p1 as [|x t1 IH]; intros [|y t2] i1 i2 H1 H2 R1 R2.
  - simpl in *. inversion H1; inversion H2; reflexivity.
  - simpl in H1. inversion H1; subst. apply sequence_cons in H2 as (iy & r' & _ & _ & ->). reflexivity.
  - simpl in H2. inversion H2; subst. apply sequence_cons in H1 as (ix & r' & _ & _ & ->). reflexivity.
  - apply sequence_cons in H1 as (ix & r1 & Hx & S1 & ->).
    apply sequence_cons in H2 as (iy & r2 & Hy & S2 & ->).
    simpl.
    rewrite (compare_elem_ident S x y ix iy HS Hx Hy).
    + rewrite (IH t2 r1 r2 S1 S2); auto.
      * intros e n Hin. apply R1. right; auto.
      * intros e n Hin. apply R2. right; auto.
    + intros n ->. apply (R1 x n); [left; auto | auto].
    + intros n ->. apply (R2 y n); [left; auto | auto].
Qed.

Lemma compare_nums_three a b c a' b' c' :
  compare_nums [a; b; c] [a'; b'; c'] = nums_cmp [a; b; c] [a'; b'; c'].
Proof. reflexivity. Qed.

Theorem generic_compare_semver S a b sa sb : not_nuget S ->
  abs_version a = Some sa -> abs_version b = Some sb -> in_range a -> in_range b ->
  generic_compare S a b = precedence sa sb.
Proof.
  intros HS Ha Hb Ra Rb. unfold abs_version in *.
  destruct (v_num a) as [|a1 [|a2 [|a3 [|? ?]]]] eqn:Na; try discriminate.
  destruct (v_num b) as [|b1 [|b2 [|b3 [|? ?]]]] eqn:Nb; try discriminate.
  destruct (sequence (map pre_ident (v_pre a))) as [pa|] eqn:Pa; [|discriminate].
  destruct (sequence (map pre_ident (v_pre b))) as [pb|] eqn:Pb; [|discriminate].
  inversion Ha; inversion Hb; subst. clear Ha Hb.
  unfold generic_compare, precedence. rewrite Na, Nb. cbn [sv_nums sv_pre].
  rewrite compare_nums_three.
  destruct (nums_cmp [a1; a2; a3] [b1; b2; b3] =? 0); cbn [negb]; [|reflexivity].
  pose proof (compare_pre_spec S HS (v_pre a) (v_pre b) pa pb Pa Pb Ra Rb) as Hp.
  destruct (v_pre a) as [|xa ta] eqn:Ea, (v_pre b) as [|xb tb] eqn:Eb.
  - simpl in Pa, Pb. inversion Pa; inversion Pb. reflexivity.
  - simpl in Pa. inversion Pa; subst. apply sequence_cons in Pb as (? & ? & _ & _ & ->). reflexivity.
  - simpl in Pb. inversion Pb; subst. apply sequence_cons in Pa as (? & ? & _ & _ & ->). reflexivity.
  - rewrite Hp.
    apply sequence_cons in Pa as (? & ? & _ & _ & ->).
    apply sequence_cons in Pb as (? & ? & _ & _ & ->). reflexivity.
Qed.
