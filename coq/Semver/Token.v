(* Model of util/semver/token.go: System.token, byte for byte over the REGENERATED
   byte_type / operators tables (Gen/SemverTables.v).  Definitions only.

   Go decodes runes (utf8.DecodeRuneInString).  Every rune >= 0x80 (and RuneError) has type
   tXX whatever its value, so only its WIDTH is observable, and only for the first rune of a
   token (the text of the invalid token); decode_width reproduces the width rule of the
   standard decoder (1 for an invalid or truncated sequence). *)
From DepsDev Require Import Lib.Base Semver.Version Gen.SemverTables.
Local Open Scope Z_scope.

(* ---------------------------------------------------------------- UTF-8 width *)
Definition in_range (lo hi c : N) : bool := (lo <=? c)%N && (c <=? hi)%N.
Definition is_cont (c : N) : bool := in_range 128 191 c.

(* (size, lo, hi) of the accepted second byte, for a leading byte >= 0x80; None = invalid *)
Definition utf8_first (c : N) : option (nat * N * N) :=
  if in_range 194 223 c then Some (2%nat, 128, 191)%N
  else if N.eqb c 224 then Some (3%nat, 160, 191)%N
  else if in_range 225 236 c then Some (3%nat, 128, 191)%N
  else if N.eqb c 237 then Some (3%nat, 128, 159)%N
  else if in_range 238 239 c then Some (3%nat, 128, 191)%N
  else if N.eqb c 240 then Some (4%nat, 144, 191)%N
  else if in_range 241 243 c then Some (4%nat, 128, 191)%N
  else if N.eqb c 244 then Some (4%nat, 128, 143)%N
  else None.

(* width of the rune at the start of a non-empty string whose first byte is >= 0x80 *)
Definition decode_width_hi (c : N) (t : bytes) : nat :=
  match utf8_first c with
  | None => 1
  | Some (sz, lo, hi) =>
      if (length t <? sz - 1)%nat then 1
      else match t with
           | s1 :: t1 =>
               if negb (in_range lo hi s1) then 1
               else if (sz <=? 2)%nat then 2
               else match t1 with
                    | s2 :: t2 =>
                        if negb (is_cont s2) then 1
                        else if (sz <=? 3)%nat then 3
                        else match t2 with
                             | s3 :: _ => if negb (is_cont s3) then 1 else 4
                             | [] => 1
                             end
                    | [] => 1
                    end
           | [] => 1
           end
  end.

(* A decoded rune: an ASCII byte (< 0x80) or anything else. *)
Inductive rune := RAscii (c : N) | ROther.

Definition decode_rune (s : bytes) : rune * nat :=
  match s with
  | [] => (ROther, 0%nat)                       (* RuneError, width 0 *)
  | c :: t => if (c <? 128)%N then (RAscii c, 1%nat) else (ROther, decode_width_hi c t)
  end.

(* ---------------------------------------------------------------- typeOf *)
Definition type_of (sys : system) (r : rune) : res N :=
  match r with
  | ROther => Ok go_tXX
  | RAscii c =>
      if N.eqb c 95 && sys_eqb sys SMaven then Ok go_tVS
      else if N.eqb c 43 && sys_eqb sys SRubyGems then Ok go_tXX
      else if (127 <=? c)%N then Ok go_tXX
      else idx byte_type (N.to_nat c)
  end.

(* opSet[key]: the zero value for a missing key *)
Fixpoint ops_lookup (opset : list (bytes * Z)) (key : bytes) : Z :=
  match opset with
  | [] => 0
  | (k, v) :: t => if bytes_eqb k key then v else ops_lookup t key
  end.

Definition valid_wildcard (sys : system) (r : N) : bool :=
  match sys with
  | SDefault | SCargo | SNPM => N.eqb r 120 || N.eqb r 88 || N.eqb r 42
  | SNuGet | SPyPI => N.eqb r 42
  | _ => false
  end.

(* the leading-space loop: str[i] < 0x7F && byteType[str[i]] == tWS *)
Fixpoint skip_spaces (s : bytes) : res (nat * bytes) :=
  match s with
  | [] => Ok (0%nat, [])
  | c :: t =>
      if (c <? 127)%N then
        ty <- idx byte_type (N.to_nat c);;
        if N.eqb ty go_tWS then r <- skip_spaces t;; Ok (S (fst r), snd r)
        else Ok (0%nat, s)
      else Ok (0%nat, s)
  end.

(* the main loop: k = bytes of the token so far, rest = input from there on.
   Returns the final length of the token. *)
Fixpoint tok_scan (sys : system) (typ : N) (opset : list (bytes * Z)) (tokstart : bytes)
         (k : nat) (rest : bytes) : res nat :=
  match rest with
  | [] => Ok k                                   (* RuneError, type tXX <> typ *)
  | c :: t =>
      if (128 <=? c)%N then Ok k                  (* any non-ASCII rune: tXX <> typ *)
      else if N.eqb c 33 && sys_eqb sys SPyPI && N.eqb typ go_tVS then
        tok_scan sys typ opset tokstart (S k) t  (* the PyPI epoch: 1!1.2.3 *)
      else
        ty <- type_of sys (RAscii c);;
        if negb (N.eqb ty typ) then Ok k
        else if (N.eqb typ go_tOP || N.eqb typ go_tBR)
                && (ops_lookup opset (firstn (S k) tokstart) =? go_tokInvalid) then Ok k
        else tok_scan sys typ opset tokstart (S k) t
  end.

(* version or wildcard?  The scan stops (break of the for loop) at the first character that
   is neither a digit, a dot nor, for Maven, an underscore: a wildcard character after that
   point (1.2.3-x) does not make the token a wildcard. *)
Fixpoint vs_scan (sys : system) (tok : bytes) (start : bool) (num_dots : nat) : Z :=
  match tok with
  | [] => go_tokVersion
  | r :: t =>
      if start && N.eqb r 118 then
        vs_scan sys t (if sys_eqb sys SGo then false else true) num_dots
      else if valid_wildcard sys r then go_tokWildcard
      else if is_digit r then vs_scan sys t false num_dots
      else if N.eqb r 46 then
        (if (3 <=? S num_dots)%nat then go_tokVersion else vs_scan sys t false (S num_dots))
      else if N.eqb r 95 && sys_eqb sys SMaven then vs_scan sys t false num_dots
      else go_tokVersion
  end.

Definition b_hyphen : bytes := [45%N].

(* System.token: (type, text, bytes consumed) *)
Definition token (sys : system) (str : bytes) : res (Z * bytes * nat) :=
  sk <- skip_spaces str;;
  let '(i, rest) := sk in
  match rest with
  | [] => Ok (go_tokEOF, [], i)
  | _ =>
      let '(r, wid) := decode_rune rest in
      typ <- type_of sys r;;
      if N.eqb typ go_tXX then Ok (go_tokInvalid, firstn wid rest, (i + wid)%nat)
      else
        opset <- idx operators (Z.to_nat (sys_index sys));;
        k <- tok_scan sys typ opset rest wid (skipn wid rest);;
        let tok := firstn k rest in
        let n := (i + k)%nat in
        if N.eqb typ go_tOP then Ok (ops_lookup opset tok, tok, n)
        else if N.eqb typ go_tVS then
          if bytes_eqb tok b_hyphen then Ok (ops_lookup opset tok, tok, n)
          else Ok (vs_scan sys tok true 0, tok, n)
        else if N.eqb typ go_tBR then
          if sys_eqb sys SMaven || sys_eqb sys SNuGet then
            if bytes_eqb tok [40%N] || bytes_eqb tok [91%N] then Ok (go_tokLbracket, tok, n)
            else Ok (go_tokRbracket, tok, n)
          else Ok (go_tokInvalid, tok, n)
        else Ok (go_tokInternalError, tok, n)
  end.
