(* Versions with exactly three non-negative components and no prerelease (bounds of release
   constraints; an upper bound may contain infinity), their comparison, and Version.inc on them:
   inc x is the least finite release above x. *)
From Coq Require Import Lia.
From DepsDev Require Import Lib.Base Lib.Order Semver.Version Semver.Maven Semver.Gem Semver.Pep440 Semver.Compare
     Semver.Generic_proofs Semver.Compare_proofs Semver.Span Semver.Interval.
Local Open Scope Z_scope.

Lemma sys_eqb_eq a b : sys_eqb a b = true -> a = b.
Proof. unfold sys_eqb. intros H. apply Z.eqb_eq in H. destruct a, b; simpl in H; congruence || lia. Qed.

Section Three.
Variable S : system.
Notation gc := (generic_compare S).

Definition comp_ok (hi x : Z) : bool := (0 <=? x) && (x <=? hi).

(* three components in [0, hi], no prerelease, no extension, system S *)
Definition ver3_b (hi : Z) (v : version) : bool :=
  sys_eqb (v_sys v) S
  && match v_ext v with NoExt => true | _ => false end
  && match v_pre v with [] => true | _ => false end
  && match v_num v with [a; b; c] => comp_ok hi a && comp_ok hi b && comp_ok hi c | _ => false end.

Lemma ver3_b_spec hi v : ver3_b hi v = true ->
  fam_version S v /\ v_pre v = [] /\
  exists a b c, v_num v = [a; b; c] /\ 0 <= a <= hi /\ 0 <= b <= hi /\ 0 <= c <= hi.
Proof.
  unfold ver3_b, comp_ok. intros H.
  repeat (apply andb_prop in H; destruct H as [H ?]).
  destruct (v_ext v) eqn:E; try discriminate.
  destruct (v_pre v) eqn:P; try discriminate.
  destruct (v_num v) as [|a [|b [|c [|d t]]]] eqn:N; try discriminate.
  match goal with H0 : _ && _ && _ = true |- _ =>
    repeat (apply andb_prop in H0; destruct H0 as [H0 ?]) end.
  repeat match goal with H0 : (_ <=? _) = true |- _ => apply Z.leb_le in H0 end.
  split; [split; auto; apply sys_eqb_eq; auto|]. split; auto.
  exists a, b, c. repeat split; auto; lia.
Qed.

(* comparison of two such versions is the lexicographic comparison of the triples *)
Definition lex3 (a b c d e f : Z) : Z :=
  if sgnZ a d =? 0 then (if sgnZ b e =? 0 then (if sgnZ c f =? 0 then 0 else sgnZ c f) else sgnZ b e) else sgnZ a d.

Lemma gc3 x y a b c d e f : v_pre x = [] -> v_pre y = [] -> v_num x = [a; b; c] -> v_num y = [d; e; f] ->
  gc x y = lex3 a b c d e f.
Proof.
  intros Px Py Nx Ny. unfold generic_compare. rewrite Px, Py, Nx, Ny. unfold lex3. simpl.
  destruct (sgnZ a d =? 0) eqn:E1; simpl.
  - destruct (sgnZ b e =? 0) eqn:E2; simpl.
    + destruct (sgnZ c f =? 0) eqn:E3; simpl; auto. rewrite E3. reflexivity.
    + rewrite E2. reflexivity.
  - rewrite E1. reflexivity.
Qed.

Lemma sgnZ_cases a b : (a < b /\ sgnZ a b = -1) \/ (a = b /\ sgnZ a b = 0) \/ (a > b /\ sgnZ a b = 1).
Proof. unfold sgnZ. destruct (Z.compare_spec a b); [right; left | left | right; right]; split; auto; lia. Qed.

Lemma lex3_lt a b c d e f : lex3 a b c d e f < 0 <-> (a < d \/ (a = d /\ (b < e \/ (b = e /\ c < f)))).
Proof.
  unfold lex3.
  destruct (sgnZ_cases a d) as [[? ->]|[[? ->]|[? ->]]], (sgnZ_cases b e) as [[? ->]|[[? ->]|[? ->]]],
           (sgnZ_cases c f) as [[? ->]|[[? ->]|[? ->]]]; simpl; lia.
Qed.
Lemma lex3_eq a b c d e f : lex3 a b c d e f = 0 <-> (a = d /\ b = e /\ c = f).
Proof.
  unfold lex3.
  destruct (sgnZ_cases a d) as [[? ->]|[[? ->]|[? ->]]], (sgnZ_cases b e) as [[? ->]|[[? ->]|[? ->]]],
           (sgnZ_cases c f) as [[? ->]|[[? ->]|[? ->]]]; simpl; lia.
Qed.
Lemma lex3_le a b c d e f : lex3 a b c d e f <= 0 <-> (a < d \/ (a = d /\ (b < e \/ (b = e /\ c <= f)))).
Proof.
  unfold lex3.
  destruct (sgnZ_cases a d) as [[? ->]|[[? ->]|[? ->]]], (sgnZ_cases b e) as [[? ->]|[[? ->]|[? ->]]],
           (sgnZ_cases c f) as [[? ->]|[[? ->]|[? ->]]]; simpl; lia.
Qed.

(* value.inc below infinity is the successor *)
Lemma value_inc_small z : 0 <= z < infinity -> value_inc z = z + 1.
Proof.
  intros H. unfold value_inc, wrap64, infinity in *.
  rewrite Z.mod_small by lia.
  replace (z + 1 + 9223372036854775808 - 9223372036854775808) with (z + 1) by lia.
  destruct (Z.ltb_spec 9223372036854775807 (z + 1)); auto; lia.
Qed.

(* the wrap that the comment of value.inc does not expect: infinity + 1 is the most negative
   int64, and the saturation test can never fire *)
Lemma value_inc_wraps : value_inc infinity = -9223372036854775808.
Proof. vm_compute. reflexivity. Qed.

Lemma list_set_pad_3_0 a b c x : list_set_pad [a; b; c] 0 x = [x; b; c].
Proof. reflexivity. Qed.

(* Version.inc on a three-component release bound *)
Lemma version_inc_ver3 x : ver3_b infinity x = true ->
  exists x', version_inc x = Ok x' /\ v_pre x' = [] /\ v_sys x' = v_sys x /\ v_ext x' = v_ext x /\
    exists a b c, v_num x' = [a; b; c] /\
      forall y, ver3_b (infinity - 1) y = true -> gc x y < 0 -> gc x' y <= 0.
Proof.
  intros H. destruct (ver3_b_spec _ _ H) as (Fx & Px & a & b & c & Nx & Ha & Hb & Hc).
  unfold version_inc, has_pre. rewrite Px, Nx. cbn [length].
  unfold find_wild_or_inf, is_wild_or_inf, wildcard.
  assert (Wa : (a =? -1) = false) by (apply Z.eqb_neq; lia).
  assert (Wb : (b =? -1) = false) by (apply Z.eqb_neq; lia).
  assert (Wc : (c =? -1) = false) by (apply Z.eqb_neq; lia).
  rewrite Wa, Wb, Wc. cbn [orb].
  assert (Key : forall y, ver3_b (infinity - 1) y = true ->
            exists d e f, v_pre y = [] /\ v_num y = [d; e; f] /\ 0 <= d < infinity /\ 0 <= e < infinity /\ 0 <= f < infinity).
  { intros y Hy. destruct (ver3_b_spec _ _ Hy) as (_ & Py & d & e & f & Ny & ? & ? & ?).
    exists d, e, f. repeat split; auto; lia. }
  destruct (Z.eqb_spec a infinity) as [Ea|Ea].
  { (* first component infinite: unchanged; nothing finite is above it *)
    exists x. repeat split; auto. exists a, b, c. split; auto.
    intros y Hy L. destruct (Key y Hy) as (d & e & f & Py & Ny & Hd & He & Hf).
    rewrite (gc3 x y a b c d e f) in * by auto. apply lex3_lt in L. lia. }
  destruct (Z.eqb_spec b infinity) as [Eb|Eb].
  { unfold inc_n. rewrite Nx. cbn [idx N.to_nat bind]. unfold set_num, vset_num. cbn [v_num v_pre v_sys v_ext].
    rewrite Nx. cbn [list_set_pad zero_from].
    eexists. split; [reflexivity|]. cbn [v_pre v_sys v_ext v_num]. repeat split; auto.
    exists (value_inc a), 0, 0. split; [reflexivity|].
    intros y Hy L. destruct (Key y Hy) as (d & e & f & Py & Ny & Hd & He & Hf).
    rewrite (gc3 x y a b c d e f) in L by auto.
    rewrite (gc3 _ y (value_inc a) 0 0 d e f) by auto.
    rewrite value_inc_small by lia. apply lex3_lt in L. apply lex3_le. lia. }
  destruct (Z.eqb_spec c infinity) as [Ec|Ec].
  { unfold inc_n. rewrite Nx. cbn [idx bind]. unfold set_num, vset_num. cbn [v_num v_pre v_sys v_ext].
    rewrite Nx. cbn [list_set_pad zero_from].
    eexists. split; [reflexivity|]. cbn [v_pre v_sys v_ext v_num]. repeat split; auto.
    exists a, (value_inc b), 0. split; [reflexivity|].
    intros y Hy L. destruct (Key y Hy) as (d & e & f & Py & Ny & Hd & He & Hf).
    rewrite (gc3 x y a b c d e f) in L by auto.
    rewrite (gc3 _ y a (value_inc b) 0 d e f) by auto.
    rewrite value_inc_small by lia. apply lex3_lt in L. apply lex3_le. lia. }
  { unfold inc_n. rewrite Nx. cbn [length Nat.sub idx bind]. unfold set_num, vset_num. cbn [v_num v_pre v_sys v_ext].
    rewrite Nx. cbn [list_set_pad].
    eexists. split; [reflexivity|]. cbn [v_pre v_sys v_ext v_num]. repeat split; auto.
    exists a, b, (value_inc c). split; [reflexivity|].
    intros y Hy L. destruct (Key y Hy) as (d & e & f & Py & Ny & Hd & He & Hf).
    rewrite (gc3 x y a b c d e f) in L by auto.
    rewrite (gc3 _ y a b (value_inc c) d e f) by auto.
    rewrite value_inc_small by lia. apply lex3_lt in L. apply lex3_le. lia. }
Qed.

End Three.
