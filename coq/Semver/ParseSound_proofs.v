(* What an error-free run of the SemVer-family parser (Parse.v) has read: backward direction.
   Errors are sticky, so a run that ends without error never met one; every lexer step of
   such a run either saw the end of the input or consumed one accepted byte.  From this the
   shape of every parsed version follows (wf_parsed): the range and count of the numbers,
   the bytes of the prerelease elements, the form of the build string.  All byte strings, no
   length bound.  Each lemma has an unconditional part (the infinity flag stays off) and a
   part conditional on the absence of an error in the output state. *)
From Coq Require Import Lia.
From DepsDev Require Import Lib.Base Semver.Version Gen.SemverTables Semver.Parse Spec.SemverSpec
  Semver.SemverSpec_proofs Semver.ParseLex_proofs Semver.ParseRender_proofs.
Local Open Scope Z_scope.

Local Arguments infinity : simpl never.
Local Arguments byte_type_of : simpl never.

(* l' is l advanced over cs *)
Definition adv (l l' : lexer) (cs : bytes) : Prop :=
  l_rest l = cs ++ l_rest l' /\ l_pos l' = (l_pos l + length cs)%nat.

Lemma adv_nil l l' : l_rest l' = l_rest l -> l_pos l' = l_pos l -> adv l l' [].
Proof. intros H1 H2. split; [rewrite H1; reflexivity | rewrite H2; cbn [length]; lia]. Qed.

Lemma adv_trans l1 l2 l3 a b : adv l1 l2 a -> adv l2 l3 b -> adv l1 l3 (a ++ b).
Proof.
  intros [H1 H2] [H3 H4]. split.
  - rewrite H1, H3, app_assoc. reflexivity.
  - rewrite H4, H2, app_length. lia.
Qed.

(* ------------------------------------------------------------------ lexer steps *)
Lemma lex_next_good l r l' : l_inf l = false -> lex_next l = (r, l') ->
  l_inf l' = false /\
  (l_err l' = false -> l_err l = false /\
    ((l_rest l = [] /\ r = r_eof /\ l_rest l' = [] /\ l_pos l' = l_pos l /\ l_last l' = []) \/
     (exists c, l_rest l = c :: l_rest l' /\ r = Z.of_N c /\ l_pos l' = S (l_pos l) /\ l_last l' = [c]))).
Proof.
  intros Hi. unfold lex_next. destruct (l_rest l) as [|c t] eqn:Er.
  - intros H; inversion H; subst; cbn [l_inf l_err l_rest l_pos l_last].
    split; [exact Hi|]. intros He. split; [exact He|]. left. repeat split.
  - destruct (c <? 127)%N.
    + destruct (N.eqb (byte_type_of c) go_tVS); intros H; inversion H; subst; cbn [l_inf l_err l_rest l_pos l_last].
      * split; [exact Hi|]. intros He. split; [exact He|]. right. exists c. repeat split.
      * split; [exact Hi|]. intros He. discriminate.
    + rewrite Hi. cbv iota. intros H.
      assert (E : l_inf l' = false /\ l_err l' = true).
      { revert H. repeat match goal with |- context [match ?x with _ => _ end] => destruct x end;
          intros H; inversion H; subst; split; reflexivity. }
      destruct E as [E1 E2]. split; [exact E1|]. rewrite E2. intros; discriminate.
Qed.

(* lex_back applied to the result of lex_next *)
Lemma lex_back_next l r l1 : l_inf l = false -> lex_next l = (r, l1) ->
  l_inf (lex_back l1) = false /\ l_err (lex_back l1) = l_err l1 /\
  (l_err l1 = false -> l_rest (lex_back l1) = l_rest l /\ l_pos (lex_back l1) = l_pos l).
Proof.
  intros Hi Hn. destruct (lex_next_good l r l1 Hi Hn) as (I1 & G).
  unfold lex_back. cbn [l_inf l_err l_rest l_pos]. split; [exact I1|]. split; [reflexivity|].
  intros He. destruct (G He) as (_ & [(E1 & _ & E2 & E3 & E4)|(c & E1 & _ & E3 & E4)]).
  - rewrite E4, E2, E1, E3. cbn [app length]. split; [reflexivity | lia].
  - rewrite E4, E1, E3. cbn [app length]. split; [reflexivity | lia].
Qed.

Lemma lex_peek_good l r l' : l_inf l = false -> lex_peek l = (r, l') ->
  l_inf l' = false /\
  (l_err l' = false -> l_err l = false /\ l_rest l' = l_rest l /\ l_pos l' = l_pos l /\
     (l_rest l = [] -> r = r_eof) /\ (forall c t, l_rest l = c :: t -> r = Z.of_N c)).
Proof.
  intros Hi. unfold lex_peek. destruct (lex_next l) as [r1 l1] eqn:En. intros H; inversion H; subst r1 l'.
  destruct (lex_back_next l r l1 Hi En) as (I & E & B). split; [exact I|].
  intros He. rewrite E in He. destruct (B He) as (B1 & B2).
  destruct (lex_next_good l r l1 Hi En) as (_ & G). destruct (G He) as (E0 & Cs).
  split; [exact E0|]. split; [exact B1|]. split; [exact B2|].
  destruct Cs as [(E1 & Er & _)|(c & E1 & Er & _)].
  - split; [intros _; exact Er | intros c t Hc; rewrite E1 in Hc; discriminate].
  - split; [intros Hc; rewrite E1 in Hc; discriminate | intros c' t Hc; rewrite E1 in Hc; congruence].
Qed.

(* lexer.digit and alphanumericOrHyphen, generically: a test on the rune read *)
Lemma lex_test_good (f : Z -> bool) l ok l' : f r_eof = false -> l_inf l = false ->
  (let '(r, l1) := lex_next l in if f r then (true, l1) else (false, lex_back l1)) = (ok, l') ->
  l_inf l' = false /\
  (l_err l' = false -> l_err l = false /\
     if ok then exists c, l_rest l = c :: l_rest l' /\ l_pos l' = S (l_pos l) /\ l_last l' = [c] /\ f (Z.of_N c) = true
     else l_rest l' = l_rest l /\ l_pos l' = l_pos l).
Proof.
  intros Hf Hi. destruct (lex_next l) as [r l1] eqn:En.
  destruct (lex_next_good l r l1 Hi En) as (I1 & G).
  destruct (lex_back_next l r l1 Hi En) as (I2 & E2 & B).
  destruct (f r) eqn:Ef; intros H; inversion H; subst ok l'.
  - split; [exact I1|]. intros He. destruct (G He) as (E0 & [(_ & Er & _)|(c & E1 & Er & E3 & E4)]).
    + exfalso. subst r. rewrite Hf in Ef. discriminate.
    + split; [exact E0|]. exists c. subst r. repeat split; auto.
  - split; [exact I2|]. intros He. rewrite E2 in He. destruct (G He) as (E0 & _).
    split; [exact E0|]. exact (B He).
Qed.

Lemma lex_digit_good l ok l' : l_inf l = false -> lex_digit l = (ok, l') ->
  l_inf l' = false /\
  (l_err l' = false -> l_err l = false /\
     if ok then exists c, l_rest l = c :: l_rest l' /\ l_pos l' = S (l_pos l) /\ l_last l' = [c] /\ is_digit c = true
     else l_rest l' = l_rest l /\ l_pos l' = l_pos l).
Proof.
  intros Hi H. destruct (lex_test_good z_is_digit l ok l' eq_refl Hi H) as (I & G). split; [exact I|].
  intros He. destruct (G He) as (E0 & R). split; [exact E0|]. destruct ok; [|exact R].
  destruct R as (c & R1 & R2 & R3 & R4). exists c. rewrite z_digit_of_N in R4. auto.
Qed.

Lemma lex_alnum_good l ok l' : l_inf l = false -> lex_alnum_hyphen l = (ok, l') ->
  l_inf l' = false /\
  (l_err l' = false -> l_err l = false /\
     if ok then exists c, l_rest l = c :: l_rest l' /\ l_pos l' = S (l_pos l) /\ l_last l' = [c] /\ identc c = true
     else l_rest l' = l_rest l /\ l_pos l' = l_pos l).
Proof.
  intros Hi H. exact (lex_test_good (fun r => (r =? 45) || z_is_alnum r) l ok l' eq_refl Hi H).
Qed.

Lemma adv_one l l1 c : l_rest l = c :: l_rest l1 -> l_pos l1 = S (l_pos l) -> adv l l1 [c].
Proof. intros H1 H2. split; [exact H1 | rewrite H2; cbn [length]; lia]. Qed.

(* ------------------------------------------------------------------ token loops *)
Lemma take_digits_good fuel : forall l acc ds l', l_inf l = false -> take_digits fuel l acc = (ds, l') ->
  l_inf l' = false /\
  (l_err l' = false -> l_err l = false /\
     exists cs, ds = rev acc ++ cs /\ forallb is_digit cs = true /\ adv l l' cs).
Proof.
  induction fuel as [|f IH]; intros l acc ds l' Hi H; cbn [take_digits] in H.
  - inversion H; subst. split; [exact Hi|]. intros He. split; [exact He|].
    exists []. rewrite app_nil_r. split; [reflexivity|]. split; [reflexivity|]. apply adv_nil; reflexivity.
  - destruct (lex_digit l) as [ok l1] eqn:Ed.
    destruct (lex_digit_good l ok l1 Hi Ed) as (I1 & G).
    destruct ok.
    + destruct (IH _ _ _ _ I1 H) as (I2 & G2). split; [exact I2|]. intros He.
      destruct (G2 He) as (E1 & cs & Eds & Dg & A).
      destruct (G E1) as (E0 & c & Er & Ep & El & Fc).
      split; [exact E0|]. rewrite El in Eds. exists (c :: cs). split.
      { rewrite Eds. cbn [rev]. rewrite <- app_assoc. reflexivity. }
      split. { cbn [forallb]. rewrite Fc. exact Dg. }
      exact (adv_trans l l1 l' [c] cs (adv_one l l1 c Er Ep) A).
    + inversion H; subst. split; [exact I1|]. intros He. destruct (G He) as (E0 & Er & Ep).
      split; [exact E0|]. exists []. rewrite app_nil_r. split; [reflexivity|]. split; [reflexivity|]. apply adv_nil; assumption.
Qed.

Lemma elem_loop_good sy fuel : forall l seen acc e l', l_inf l = false -> elem_loop sy fuel l seen acc = (e, l') ->
  l_inf l' = false /\
  (l_err l' = false -> l_err l = false /\
     exists cs, e = rev acc ++ cs /\ elem_chars (sys_eqb sy SNuGet) seen cs = true /\ adv l l' cs).
Proof.
  induction fuel as [|f IH]; intros l seen acc e l' Hi H; cbn [elem_loop] in H.
  - inversion H; subst. split; [exact Hi|]. intros He. split; [exact He|].
    exists []. rewrite app_nil_r. split; [reflexivity|]. split; [reflexivity|]. apply adv_nil; reflexivity.
  - destruct (lex_alnum_hyphen l) as [ok l1] eqn:Ed.
    destruct (lex_alnum_good l ok l1 Hi Ed) as (I1 & G).
    destruct ok.
    + destruct (IH _ _ _ _ _ I1 H) as (I2 & G2). split; [exact I2|]. intros He.
      destruct (G2 He) as (E1 & cs & Eds & Dg & A).
      destruct (G E1) as (E0 & c & Er & Ep & El & Fc).
      split; [exact E0|]. rewrite El in Eds. exists (c :: cs). split.
      { rewrite Eds. cbn [rev]. rewrite <- app_assoc. reflexivity. }
      split. { cbn [elem_chars]. rewrite Fc. exact Dg. }
      exact (adv_trans l l1 l' [c] cs (adv_one l l1 c Er Ep) A).
    + destruct (sys_eqb sy SNuGet) eqn:EN.
      * destruct (lex_next l1) as [r l2] eqn:En.
        destruct (lex_next_good l1 r l2 I1 En) as (I2 & Gn).
        destruct ((r =? 42) && negb seen) eqn:Ew.
        -- destruct (IH _ _ _ _ _ I2 H) as (I3 & G3). split; [exact I3|]. intros He.
           destruct (G3 He) as (E2 & cs & Eds & Dg & A).
           destruct (Gn E2) as (E1 & Cs). destruct (G E1) as (E0 & Er & Ep).
           split; [exact E0|].
           apply andb_true_iff in Ew. destruct Ew as [Ew1 Ew2]. apply Z.eqb_eq in Ew1.
           destruct Cs as [(_ & Rr & _)|(c & C1 & C2 & C3 & _)]; [subst r; discriminate|].
           assert (c = 42%N) by lia. subst c.
           exists (42%N :: cs). split.
           { rewrite Eds. cbn [rev]. rewrite <- app_assoc. reflexivity. }
           split. { cbn [elem_chars]. change (identc 42) with false. cbv iota. rewrite Ew2. exact Dg. }
           apply (adv_trans l l2 l' [42%N] cs); [|exact A].
           apply adv_one; [rewrite <- Er; exact C1 | rewrite C3, Ep; reflexivity].
        -- inversion H; subst e l'.
           destruct (lex_back_next l1 r l2 I1 En) as (I3 & E3 & B). split; [exact I3|].
           intros He. rewrite E3 in He. destruct (Gn He) as (E1 & _). destruct (G E1) as (E0 & Er & Ep).
           split; [exact E0|]. exists []. rewrite app_nil_r. split; [reflexivity|]. split; [reflexivity|].
           destruct (B He) as (B1 & B2). apply adv_nil; congruence.
      * inversion H; subst. split; [exact I1|]. intros He. destruct (G He) as (E0 & Er & Ep).
        split; [exact E0|]. exists []. rewrite app_nil_r. split; [reflexivity|]. split; [reflexivity|]. apply adv_nil; assumption.
Qed.

(* ------------------------------------------------------------------ numbers *)
Definition same_meta (p p' : pstate) : Prop :=
  ps_pre p' = ps_pre p /\ ps_is_pre p' = ps_is_pre p /\ ps_build p' = ps_build p.

Lemma same_meta_refl p : same_meta p p. Proof. repeat split. Qed.
Lemma same_meta_trans p q r : same_meta p q -> same_meta q r -> same_meta p r.
Proof. intros (A1 & A2 & A3) (B1 & B2 & B3). repeat split; congruence. Qed.

(* addNum records an error exactly when the count is already at the limit *)
Definition roomx (sy : system) (n : nat) : bool :=
  match sy with
  | SNuGet => negb (Nat.eqb n 4)
  | SComposer | SPyPI | SRubyGems => true
  | _ => negb (Nat.eqb n 3)
  end.

Lemma parser_add_num_good sy p v ok p' : parser_add_num sy p v = (ok, p') ->
  l_inf (ps_lex p') = l_inf (ps_lex p) /\ l_rest (ps_lex p') = l_rest (ps_lex p) /\
  l_pos (ps_lex p') = l_pos (ps_lex p) /\ same_meta p p' /\
  (l_err (ps_lex p') = false -> l_err (ps_lex p) = false /\ ok = true /\ ps_num p' = ps_num p ++ [v] /\
     roomx sy (length (ps_num p)) = true /\ v <= infinity).
Proof.
  unfold parser_add_num.
  set (p1 := if Nat.eqb (length (ps_num p)) 3 then match sy with SNuGet | SPyPI | SRubyGems | SComposer => p | _ => set_err p end else p).
  assert (P1 : l_inf (ps_lex p1) = l_inf (ps_lex p) /\ l_rest (ps_lex p1) = l_rest (ps_lex p) /\
               l_pos (ps_lex p1) = l_pos (ps_lex p) /\ same_meta p p1 /\ ps_num p1 = ps_num p /\
               (l_err (ps_lex p1) = false -> l_err (ps_lex p) = false /\
                  match sy with SNuGet | SPyPI | SRubyGems | SComposer => True | _ => Nat.eqb (length (ps_num p)) 3 = false end)).
  { unfold p1. destruct (Nat.eqb (length (ps_num p)) 3); destruct sy; cbn; repeat split; auto; intros; discriminate. }
  clearbody p1. destruct P1 as (A1 & A2 & A3 & A4 & A5 & A6).
  destruct (sys_eqb sy SNuGet && Nat.eqb (length (ps_num p1)) 4) eqn:E4; intros H; inversion H; subst ok p'; clear H.
  - cbn [set_err with_lex lex_set_err ps_lex ps_num l_inf l_rest l_pos l_err].
    refine (conj A1 (conj A2 (conj A3 (conj _ _)))); [exact A4 | intros; discriminate].
  - destruct (infinity <? v) eqn:Ev.
    + cbn [push_num set_err with_lex lex_set_err ps_lex ps_num l_inf l_rest l_pos l_err].
      refine (conj A1 (conj A2 (conj A3 (conj _ _)))); [exact A4 | intros; discriminate].
    + cbn [push_num ps_lex ps_num ps_pre ps_is_pre ps_build].
      refine (conj A1 (conj A2 (conj A3 (conj _ _)))); [exact A4 |]. intros H.
      split; [|split; [reflexivity|split; [|split]]].
      * apply A6; assumption.
      * rewrite A5. reflexivity.
      * destruct (A6 H) as (_ & B). rewrite A5 in E4.
        destruct sy; cbn [roomx sys_eqb sys_index Z.eqb Pos.eqb andb] in *; try reflexivity; try (rewrite B; reflexivity).
        rewrite E4. reflexivity.
      * apply Z.ltb_ge in Ev. exact Ev.
Qed.

Definition numval_ok (sy : system) (v : Z) : Prop :=
  (v = wildcard /\ valid_wildcard sy 42 = true) \/ 0 <= v < infinity.

Lemma valid_wildcard_42 sy c : valid_wildcard sy c = true -> valid_wildcard sy 42 = true.
Proof. destruct sy; cbn [valid_wildcard]; intros H; try discriminate; reflexivity. Qed.

Lemma app_eq_nil_l {A} (a b : list A) : [] = a ++ b -> a = [] /\ b = [].
Proof. destruct a; [destruct b; [auto|discriminate]|discriminate]. Qed.

Lemma parse_number_good sy p ok p' : l_inf (ps_lex p) = false -> parse_number sy p = (ok, p') ->
  l_inf (ps_lex p') = false /\ same_meta p p' /\
  (l_err (ps_lex p') = false -> l_err (ps_lex p) = false /\
     exists cs, adv (ps_lex p) (ps_lex p') cs /\
       if ok then exists v, ps_num p' = ps_num p ++ [v] /\ numval_ok sy v /\ roomx sy (length (ps_num p)) = true
       else ps_num p' = ps_num p).
Proof.
  intros Hi. unfold parse_number.
  destruct (lex_peek (ps_lex p)) as [pk lpk]. rewrite Hi. cbn [andb].
  destruct (take_digits (S (length (l_rest (ps_lex p)))) (ps_lex p) []) as [ds l1] eqn:Et.
  destruct (take_digits_good _ _ _ _ _ Hi Et) as (I1 & G).
  destruct ds as [|d0 dt].
  - destruct (l_rest l1) as [|c t] eqn:Er.
    + intros H; inversion H; subst ok p'. cbn [with_lex ps_lex ps_num].
      split; [exact I1|]. split; [repeat split|]. intros He.
      destruct (G He) as (E0 & cs & Eds & _ & A). split; [exact E0|]. exists cs. split; [exact A | reflexivity].
    + destruct (valid_wildcard sy c) eqn:Ew.
      * set (p2 := if sys_eqb sy SNuGet && is_wildcard (ps_num (with_lex p l1)) then set_err (with_lex p l1) else with_lex p l1).
        assert (P2 : l_inf (ps_lex p2) = false /\ l_pos (ps_lex p2) = l_pos l1 /\ same_meta p p2 /\ ps_num p2 = ps_num p /\
                     (l_err (ps_lex p2) = false -> l_err l1 = false)).
        { unfold p2. destruct (sys_eqb sy SNuGet && is_wildcard (ps_num (with_lex p l1))); cbn; repeat split; auto; intros; discriminate. }
        clearbody p2. destruct P2 as (B1 & B2 & B3 & B4 & B5).
        intros H. apply parser_add_num_good in H. cbn [with_lex ps_lex l_inf l_rest l_pos l_err ps_num] in H.
        destruct H as (C1 & C2 & C3 & C4 & C5).
        split; [rewrite C1; exact B1|]. split; [apply (same_meta_trans p p2 p'); [exact B3 | exact C4]|].
        intros He. destruct (C5 He) as (D1 & D2 & D3 & D4 & D5).
        destruct (G (B5 D1)) as (E0 & cs & Eds & _ & A). split; [exact E0|].
        apply app_eq_nil_l in Eds. destruct Eds as [_ Ecs]. subst cs ok.
        exists [c]. split.
        { replace [c] with ([] ++ [c]) by reflexivity. apply (adv_trans _ l1 _ [] [c] A).
          split; [rewrite C2, Er; reflexivity | rewrite C3, B2; cbn [length]; lia]. }
        exists wildcard. rewrite D3, B4. split; [reflexivity|]. split; [|rewrite <- B4; exact D4].
        left. split; [reflexivity | exact (valid_wildcard_42 sy c Ew)].
      * intros H; inversion H; subst ok p'. cbn [with_lex ps_lex ps_num].
        split; [exact I1|]. split; [repeat split|]. intros He.
        destruct (G He) as (E0 & cs & Eds & _ & A). split; [exact E0|]. exists cs. split; [exact A | reflexivity].
  - match goal with |- context [if ?c then (false, set_err _) else _] => destruct c end.
    { intros H; inversion H; subst ok p'. cbn. split; [exact I1|]. split; [repeat split|]. intros; discriminate. }
    destruct (parse_num_digits (d0 :: dt)) as [v|] eqn:Ep.
    2:{ intros H; inversion H; subst ok p'. cbn. split; [exact I1|]. split; [repeat split|]. intros; discriminate. }
    set (p2 := if sys_eqb sy SNuGet && is_wildcard (ps_num (with_lex p l1)) then set_err (with_lex p l1) else with_lex p l1).
    assert (P2 : l_inf (ps_lex p2) = false /\ l_pos (ps_lex p2) = l_pos l1 /\ l_rest (ps_lex p2) = l_rest l1 /\ same_meta p p2 /\
                 ps_num p2 = ps_num p /\ (l_err (ps_lex p2) = false -> l_err l1 = false)).
    { unfold p2. destruct (sys_eqb sy SNuGet && is_wildcard (ps_num (with_lex p l1))); cbn; repeat split; auto; intros; discriminate. }
    clearbody p2. destruct P2 as (B1 & B2 & B2' & B3 & B4 & B5).
    intros H. apply parser_add_num_good in H. destruct H as (C1 & C2 & C3 & C4 & C5).
    split; [rewrite C1; exact B1|]. split; [apply (same_meta_trans p p2 p'); [exact B3 | exact C4]|].
    intros He. destruct (C5 He) as (D1 & D2 & D3 & D4 & D5).
    destruct (G (B5 D1)) as (E0 & cs & Eds & Dg & A). split; [exact E0|].
    cbn [rev app] in Eds. subst cs ok. exists (d0 :: dt). split.
    { destruct A as [A1 A2]. split; [rewrite C2, B2'; exact A1 | rewrite C3, B2; exact A2]. }
    exists v. rewrite D3, B4. split; [reflexivity|]. split; [|rewrite <- B4; exact D4].
    right. unfold parse_num_digits in Ep. rewrite (digits_val_dec _ 0 Dg) in Ep.
    destruct (infinity <=? dec_val (d0 :: dt) 0) eqn:Ei; [discriminate|]. inversion Ep; subst v.
    apply Z.leb_gt in Ei. split; [apply dec_val_nonneg; lia | exact Ei].
Qed.

Definition lenok (sy : system) (n : nat) : bool :=
  match sy with
  | SNuGet => Nat.leb n 4
  | SComposer | SPyPI | SRubyGems => true
  | _ => Nat.leb n 3
  end.

Lemma lenok_step sy n : lenok sy n = true -> roomx sy n = true -> lenok sy (S n) = true.
Proof.
  destruct sy; cbn [lenok roomx]; intros H1 H2; try reflexivity;
    apply Nat.leb_le in H1; apply negb_true_iff in H2; apply Nat.eqb_neq in H2; apply Nat.leb_le; lia.
Qed.

(* the rune handed to the next stage: when it is a plus sign, it is the byte just consumed *)
Definition rshape (r : Z) (cs : bytes) (r' : Z) : Prop :=
  r' = 43 -> (cs = [] /\ r = 43) \/ exists cs0, cs = cs0 ++ [43%N].

Lemma rshape_same r : rshape r [] r.
Proof. intros H. left. auto. Qed.

Lemma rshape_next l r l' : l_inf l = false -> lex_next l = (r, l') -> l_err l' = false ->
  exists cs, adv l l' cs /\ (forall r0, rshape r0 cs r) /\ (r = r_eof -> cs = []) /\
             (forall c, r = Z.of_N c -> cs = [c]).
Proof.
  intros Hi Hn He. destruct (lex_next_good l r l' Hi Hn) as (_ & G).
  destruct (G He) as (_ & [(E1 & Er & E2 & E3 & _)|(c & E1 & Er & E3 & _)]).
  - exists []. split; [apply adv_nil; congruence|]. split; [|split; [reflexivity|]].
    + intros r0 H. subst r. discriminate.
    + intros c H. subst r. unfold r_eof in H. lia.
  - exists [c]. split; [apply adv_one; assumption|]. split; [|split].
    + intros r0 H. right. exists []. subst r. assert (c = 43%N) by lia. subst c. reflexivity.
    + intros H. subst r. unfold r_eof in H. lia.
    + intros c' H. subst r. assert (c = c') by lia. subst c'. reflexivity.
Qed.

Lemma numbers_loop_good sy fuel : forall p r r' p', l_inf (ps_lex p) = false -> numbers_loop sy fuel p r = (r', p') ->
  l_inf (ps_lex p') = false /\ same_meta p p' /\
  (l_err (ps_lex p') = false -> l_err (ps_lex p) = false /\
     exists vs cs, ps_num p' = ps_num p ++ vs /\ Forall (numval_ok sy) vs /\
       (lenok sy (length (ps_num p)) = true -> lenok sy (length (ps_num p')) = true) /\
       adv (ps_lex p) (ps_lex p') cs /\ rshape r cs r').
Proof.
  induction fuel as [|f IH]; intros p r r' p' Hi H; cbn [numbers_loop] in H.
  - inversion H; subst. split; [exact Hi|]. split; [apply same_meta_refl|]. intros He. split; [exact He|].
    exists [], []. rewrite app_nil_r. split; [reflexivity|]. split; [constructor|]. split; [auto|].
    split; [apply adv_nil; reflexivity | apply rshape_same].
  - destruct (r =? 46) eqn:E46.
    2:{ inversion H; subst. split; [exact Hi|]. split; [apply same_meta_refl|]. intros He. split; [exact He|].
        exists [], []. rewrite app_nil_r. split; [reflexivity|]. split; [constructor|]. split; [auto|].
        split; [apply adv_nil; reflexivity | apply rshape_same]. }
    apply Z.eqb_eq in E46.
    destruct (parse_number sy p) as [ok p1] eqn:Ep.
    destruct (parse_number_good sy p ok p1 Hi Ep) as (I1 & M1 & G1).
    destruct ok.
    + destruct (lex_next (ps_lex p1)) as [r1 l2] eqn:En.
      destruct (lex_next_good _ _ _ I1 En) as (I2 & _).
      destruct (IH (with_lex p1 l2) r1 r' p' I2 H) as (I3 & M3 & G3).
      split; [exact I3|]. split; [apply (same_meta_trans p p1 p' M1); exact M3|].
      intros He. destruct (G3 He) as (E2 & vs2 & cs2 & N2 & F2 & L2 & A2 & R2).
      cbn [with_lex ps_lex ps_num] in E2, N2, L2, A2.
      destruct (rshape_next _ _ _ I1 En E2) as (csn & An & Rn & _ & Rc).
      destruct (lex_next_good _ _ _ I1 En) as (_ & Gn). destruct (Gn E2) as (E1 & _).
      destruct (G1 E1) as (E0 & cs1 & A1 & v & N1 & V1 & R1).
      split; [exact E0|]. exists (v :: vs2), (cs1 ++ csn ++ cs2).
      split; [rewrite N2, N1, <- app_assoc; reflexivity|].
      split; [constructor; assumption|].
      split. { intros HL. apply L2. rewrite N1, app_length. cbn [length]. rewrite Nat.add_1_r. apply lenok_step; assumption. }
      split; [exact (adv_trans _ _ _ _ _ A1 (adv_trans _ _ _ _ _ An A2))|].
      intros H43. destruct (R2 H43) as [(Ec & Er)|(cs0 & Ec)].
      * subst cs2. rewrite app_nil_r. destruct (Rn 0 Er) as [(_ & Hx)|(cs0 & Ec)]; [discriminate|].
        right. exists (cs1 ++ cs0). rewrite Ec, app_assoc. reflexivity.
      * right. exists (cs1 ++ csn ++ cs0). rewrite Ec, !app_assoc. reflexivity.
    + inversion H; subst r' p'. split; [exact I1|]. split; [exact M1|]. intros He.
      destruct (G1 He) as (E0 & cs1 & A1 & N1). split; [exact E0|].
      exists [], cs1. rewrite app_nil_r. split; [exact N1|]. split; [constructor|].
      split; [rewrite N1; auto|]. split; [exact A1|]. intros H43. subst r. discriminate.
Qed.

(* ------------------------------------------------------------------ elements and metadata *)
Lemma parse_elem_good sy p eo p' : l_inf (ps_lex p) = false -> parse_elem sy p = (eo, p') ->
  l_inf (ps_lex p') = false /\ ps_num p' = ps_num p /\ same_meta p p' /\
  (l_err (ps_lex p') = false -> l_err (ps_lex p) = false /\
     match eo with
     | Some e => elemb sy e = true /\ adv (ps_lex p) (ps_lex p') e
     | None => adv (ps_lex p) (ps_lex p') []
     end).
Proof.
  intros Hi. unfold parse_elem.
  destruct (elem_loop sy (S (length (l_rest (ps_lex p)))) (ps_lex p) false []) as [e l1] eqn:Ee.
  destruct (elem_loop_good sy _ _ _ _ _ _ Hi Ee) as (I1 & G).
  destruct e as [|c e].
  - destruct (lex_peek l1) as [pk l2] eqn:Ek.
    destruct (lex_peek_good l1 pk l2 I1 Ek) as (I2 & Gk).
    intros H; inversion H; subst eo p'. cbn [with_lex ps_lex ps_num].
    split; [destruct (pk =? 46); exact I2|]. split; [reflexivity|]. split; [repeat split|].
    intros He. destruct (pk =? 46); [discriminate|].
    destruct (Gk He) as (E1 & K1 & K2 & _). destruct (G E1) as (E0 & cs & Eds & _ & A).
    split; [exact E0|]. apply app_eq_nil_l in Eds. destruct Eds as [_ Ecs]. subst cs.
    destruct A as [A1 A2]. apply adv_nil; [rewrite K1, A1; reflexivity | rewrite K2, A2; cbn [length]; lia].
  - intros H; inversion H; subst eo p'. cbn [with_lex ps_lex ps_num].
    split; [exact I1|]. split; [reflexivity|]. split; [repeat split|].
    intros He. destruct (G He) as (E0 & cs & Eds & Dg & A). split; [exact E0|].
    cbn [rev app] in Eds. subst cs. split; [exact Dg | exact A].
Qed.

Lemma metadata_loop_good sy fuel : forall p keep n r r' p' n', l_inf (ps_lex p) = false ->
  metadata_loop sy fuel p keep n r = (r', p', n') ->
  l_inf (ps_lex p') = false /\ ps_num p' = ps_num p /\ ps_is_pre p' = ps_is_pre p /\ ps_build p' = ps_build p /\
  (l_err (ps_lex p') = false -> l_err (ps_lex p) = false /\
     exists es cs, ps_pre p' = ps_pre p ++ (if keep then es else []) /\ Forall (fun x => elemb sy x = true) es /\
       n' = (n + length es)%nat /\ adv (ps_lex p) (ps_lex p') cs /\ rshape r cs r' /\
       (r' = r_eof -> r <> r_eof -> exists e es', es = e :: es' /\ cs = joind e es')).
Proof.
  induction fuel as [|f IH]; intros p keep n r r' p' n' Hi H; cbn [metadata_loop] in H.
  - inversion H; subst. split; [exact Hi|]. repeat (split; [reflexivity|]). intros He. split; [exact He|].
    exists [], []. split; [destruct keep; rewrite app_nil_r; reflexivity|]. split; [constructor|].
    split; [cbn [length]; lia|]. split; [apply adv_nil; reflexivity|]. split; [apply rshape_same|]. intros; contradiction.
  - destruct (parse_elem sy p) as [eo p1] eqn:Ee.
    destruct (parse_elem_good sy p eo p1 Hi Ee) as (I1 & N1 & (M1a & M1b & M1c) & G1).
    destruct eo as [e|].
    2:{ inversion H; subst r' p' n'. split; [exact I1|]. split; [exact N1|]. split; [exact M1b|]. split; [exact M1c|].
        intros He. destruct (G1 He) as (E0 & A). split; [exact E0|].
        exists [], []. split; [rewrite M1a; destruct keep; rewrite app_nil_r; reflexivity|]. split; [constructor|].
        split; [cbn [length]; lia|]. split; [exact A|]. split; [apply rshape_same|]. intros; contradiction. }
    set (p2 := if keep then {| ps_lex := ps_lex p1; ps_num := ps_num p1; ps_pre := ps_pre p1 ++ [e];
                               ps_is_pre := ps_is_pre p1; ps_build := ps_build p1 |} else p1) in H.
    assert (P2 : ps_lex p2 = ps_lex p1 /\ ps_num p2 = ps_num p /\ ps_is_pre p2 = ps_is_pre p /\ ps_build p2 = ps_build p /\
                 ps_pre p2 = ps_pre p ++ (if keep then [e] else [])).
    { unfold p2. destruct keep; cbn [ps_lex ps_num ps_pre ps_is_pre ps_build]; rewrite ?M1a, ?app_nil_r; auto. }
    clearbody p2. destruct P2 as (Q1 & Q2 & Q3 & Q4 & Q5).
    rewrite Q1 in H. destruct (lex_next (ps_lex p1)) as [r1 l3] eqn:En.
    destruct (lex_next_good _ _ _ I1 En) as (I3 & Gn).
    destruct (r1 =? 46) eqn:E46.
    + apply Z.eqb_eq in E46.
      destruct (IH (with_lex p2 l3) keep (S n) r1 r' p' n' I3 H) as (I4 & N4 & M4b & M4c & G4).
      cbn [with_lex ps_lex ps_num ps_pre ps_is_pre ps_build] in N4, M4b, M4c, G4.
      split; [exact I4|]. split; [congruence|]. split; [congruence|]. split; [congruence|].
      intros He. destruct (G4 He) as (E3 & es2 & cs2 & P4 & F4 & C4 & A4 & R4 & J4).
      destruct (rshape_next _ _ _ I1 En E3) as (csn & An & _ & _ & Rc).
      destruct (Gn E3) as (E1 & _). destruct (G1 E1) as (E0 & Fe & Ae).
      split; [exact E0|].
      assert (Ecsn : csn = [46%N]) by (apply Rc; subst r1; reflexivity). subst csn.
      exists (e :: es2), (e ++ [46%N] ++ cs2).
      split. { rewrite P4, Q5. destruct keep; [rewrite <- app_assoc; reflexivity | rewrite !app_nil_r; reflexivity]. }
      split; [constructor; assumption|].
      split; [rewrite C4; cbn [length]; lia|].
      split; [exact (adv_trans _ _ _ _ _ Ae (adv_trans _ _ _ _ _ An A4))|].
      split.
      * intros H43. destruct (R4 H43) as [(_ & Hx)|(cs0 & Ec)]; [subst r1; discriminate|].
        right. exists (e ++ [46%N] ++ cs0). rewrite Ec, !app_assoc. reflexivity.
      * intros Hr _. destruct (J4 Hr) as (e2 & es2' & Ees & Ecs); [subst r1; discriminate|].
        exists e, es2. split; [reflexivity|]. subst es2 cs2. unfold joind. cbn [dots flat_map app]. reflexivity.
    + inversion H; subst r' p' n'. cbn [with_lex ps_lex ps_num ps_pre ps_is_pre ps_build].
      split; [exact I3|]. split; [exact Q2|]. split; [exact Q3|]. split; [exact Q4|].
      intros He. destruct (rshape_next _ _ _ I1 En He) as (csn & An & Rn & Re & _).
      destruct (Gn He) as (E1 & _). destruct (G1 E1) as (E0 & Fe & Ae).
      split; [exact E0|]. exists [e], (e ++ csn).
      split; [exact Q5|]. split; [constructor; [exact Fe | constructor]|].
      split; [cbn [length]; lia|].
      split; [exact (adv_trans _ _ _ _ _ Ae An)|].
      split.
      * intros H43. destruct (Rn 0 H43) as [(_ & Hx)|(cs0 & Ec)]; [discriminate|].
        right. exists (e ++ cs0). rewrite Ec, app_assoc. reflexivity.
      * intros Hr _. exists e, []. split; [reflexivity|]. rewrite (Re Hr). unfold joind. reflexivity.
Qed.

Lemma parse_metadata_good sy p keep r' p' : l_inf (ps_lex p) = false -> parse_metadata sy p keep = (r', p') ->
  l_inf (ps_lex p') = false /\ ps_num p' = ps_num p /\ ps_is_pre p' = ps_is_pre p /\ ps_build p' = ps_build p /\
  (l_err (ps_lex p') = false -> l_err (ps_lex p) = false /\
     exists e es cs, ps_pre p' = ps_pre p ++ (if keep then e :: es else []) /\
       Forall (fun x => elemb sy x = true) (e :: es) /\
       adv (ps_lex p) (ps_lex p') cs /\ rshape 0 cs r' /\ (r' = r_eof -> cs = joind e es)).
Proof.
  intros Hi. unfold parse_metadata.
  destruct (metadata_loop sy (S (length (l_rest (ps_lex p)))) p keep 0 0) as [[r1 p1] n1] eqn:Em.
  destruct (metadata_loop_good sy _ _ _ _ _ _ _ _ Hi Em) as (I1 & N1 & M1 & B1 & G).
  intros H; inversion H; subst r' p'. clear H.
  destruct (Nat.eqb n1 0) eqn:En.
  - cbn. repeat (split; [assumption|]). intros; discriminate.
  - repeat (split; [assumption|]). intros He.
    destruct (G He) as (E0 & es & cs & P & F & C & A & R & J). split; [exact E0|].
    destruct es as [|e es]; [subst n1; discriminate|].
    exists e, es, cs. repeat (split; [assumption|]).
    intros Hr. destruct (J Hr) as (e' & es' & Ees & Ecs); [discriminate|]. inversion Ees; subst. reflexivity.
Qed.

(* ------------------------------------------------------------------ position in the input *)
(* the lexer is at length a in str = a ++ rest; a plus sign just handed over is the last byte of a *)
Definition PI (str : bytes) (r : Z) (l : lexer) : Prop :=
  exists a, str = a ++ l_rest l /\ l_pos l = length a /\ (r = 43 -> exists a0, a = a0 ++ [43%N]).

Lemma PI_adv str r l l' cs r' : PI str r l -> adv l l' cs -> rshape r cs r' -> PI str r' l'.
Proof.
  intros (a & E1 & E2 & E3) [A1 A2] R. exists (a ++ cs). split; [rewrite E1, A1, app_assoc; reflexivity|].
  split; [rewrite A2, E2, app_length; reflexivity|].
  intros H43. destruct (R H43) as [(Ec & Er)|(cs0 & Ec)].
  - subst cs. rewrite app_nil_r. exact (E3 Er).
  - exists (a ++ cs0). rewrite Ec, app_assoc. reflexivity.
Qed.

Lemma rshape_weaken r cs r' : rshape 0 cs r' -> rshape r cs r'.
Proof. intros R H. destruct (R H) as [(_ & Hx)|Hc]; [discriminate | right; exact Hc]. Qed.

Lemma rshape_app r a b r1 r' : (forall r0, rshape r0 a r1) -> rshape r1 b r' -> rshape r (a ++ b) r'.
Proof.
  intros Ra Rb H. destruct (Rb H) as [(Eb & Er)|(cs0 & Eb)].
  - subst b. rewrite app_nil_r. destruct (Ra 0 Er) as [(_ & Hx)|Hc]; [discriminate | right; exact Hc].
  - right. exists (a ++ cs0). rewrite Eb, app_assoc. reflexivity.
Qed.

(* ------------------------------------------------------------------ the stages *)
Lemma skip_v_good fuel : forall l, l_inf l = false ->
  l_inf (skip_v fuel l) = false /\
  (l_err (skip_v fuel l) = false -> l_err l = false /\ exists cs, adv l (skip_v fuel l) cs).
Proof.
  induction fuel as [|f IH]; intros l Hi; cbn [skip_v].
  - split; [exact Hi|]. intros He. split; [exact He|]. exists []. apply adv_nil; reflexivity.
  - destruct (lex_peek l) as [pk l1] eqn:Ek. destruct (lex_peek_good l pk l1 Hi Ek) as (I1 & G1).
    destruct (pk =? 118).
    + destruct (lex_next l1) as [r2 l2] eqn:En. destruct (lex_next_good _ _ _ I1 En) as (I2 & G2).
      destruct (IH l2 I2) as (I3 & G3). split; [exact I3|]. intros He.
      destruct (G3 He) as (E2 & cs3 & A3). destruct (rshape_next _ _ _ I1 En E2) as (csn & An & _).
      destruct (G2 E2) as (E1 & _). destruct (G1 E1) as (E0 & K1 & K2 & _).
      split; [exact E0|]. exists (csn ++ cs3). apply (adv_trans l l2 _ csn cs3); [|exact A3].
      destruct An as [A1 A2]. split; [rewrite <- K1; exact A1 | rewrite A2, K2; reflexivity].
    + split; [exact I1|]. intros He. destruct (G1 He) as (E0 & K1 & K2 & _). split; [exact E0|].
      exists []. apply adv_nil; assumption.
Qed.

Lemma pf_prefix_good sy str : l_inf (pf_prefix sy false str) = false /\
  (l_err (pf_prefix sy false str) = false -> PI str 0 (pf_prefix sy false str)).
Proof.
  set (l0 := {| l_rest := str; l_pos := 0; l_last := []; l_err := false; l_inf := false |}).
  assert (P0 : PI str 0 l0) by (exists []; repeat split; intros; discriminate).
  assert (I0 : l_inf l0 = false) by reflexivity.
  unfold pf_prefix. fold l0. destruct sy; try (split; [exact I0 | intros _; exact P0]).
  - destruct (lex_next l0) as [r l1] eqn:En. destruct (lex_next_good _ _ _ I0 En) as (I1 & G1).
    destruct (r =? 118).
    + split; [exact I1|]. intros He. destruct (rshape_next _ _ _ I0 En He) as (cs & A & R & _).
      exact (PI_adv str 0 l0 l1 cs 0 P0 A ltac:(intros H; discriminate)).
    + cbn. split; [exact I1 | intros; discriminate].
  - destruct (skip_v_good (S (length str)) l0 I0) as (I1 & G1). split; [exact I1|]. intros He.
    destruct (G1 He) as (_ & cs & A). exact (PI_adv str 0 l0 _ cs 0 P0 A ltac:(intros H; discriminate)).
  - destruct (lex_peek l0) as [pk l1] eqn:Ek. destruct (lex_peek_good l0 pk l1 I0 Ek) as (I1 & G1).
    destruct ((pk =? 118) || (pk =? 86)).
    + destruct (lex_next l1) as [r2 l2] eqn:En. destruct (lex_next_good _ _ _ I1 En) as (I2 & G2).
      cbn [snd]. split; [exact I2|]. intros He. destruct (rshape_next _ _ _ I1 En He) as (cs & A & _).
      destruct (G2 He) as (E1 & _). destruct (G1 E1) as (_ & K1 & K2 & _).
      apply (PI_adv str 0 l0 l2 cs 0 P0); [|intros H; discriminate].
      destruct A as [A1 A2]. split; [rewrite <- K1; exact A1 | rewrite A2, K2; reflexivity].
    + split; [exact I1|]. intros He. destruct (G1 He) as (_ & K1 & K2 & _).
      apply (PI_adv str 0 l0 l1 [] 0 P0); [apply adv_nil; assumption | intros H; discriminate].
Qed.

Definition nums_wf (sy : system) (nums : list Z) : Prop :=
  Forall (numval_ok sy) nums /\ lenok sy (length nums) = true /\ nums <> [] /\
  (sys_eqb sy SNuGet = true -> length nums = 4%nat -> get_num nums 3 <> 0).

Lemma lenok_one sy : lenok sy 1 = true. Proof. destruct sy; reflexivity. Qed.

Lemma nuget_trim_wf sy nums : Forall (numval_ok sy) nums -> lenok sy (length nums) = true -> nums <> [] ->
  nums_wf sy (nuget_trim sy nums).
Proof.
  intros W1 W2 W3. unfold nuget_trim.
  destruct (sys_eqb sy SNuGet) eqn:EN; cbn [andb].
  2:{ split; [exact W1|]. split; [exact W2|]. split; [exact W3|]. intros Hx; congruence. }
  destruct (Nat.eqb_spec (length nums) 4) as [E4|E4]; cbn [andb].
  2:{ split; [exact W1|]. split; [exact W2|]. split; [exact W3|]. intros _ Hx. contradiction. }
  destruct (Z.eqb_spec (get_num nums 3) 0) as [Ez|Ez].
  2:{ split; [exact W1|]. split; [exact W2|]. split; [exact W3|]. intros _ _. exact Ez. }
  destruct nums as [|a [|b [|c [|d [|? ?]]]]]; try discriminate.
  inversion W1 as [|? ? Wa W1']; inversion W1' as [|? ? Wb W1'']; inversion W1'' as [|? ? Wc _]; subst.
  cbn [firstn]. split; [constructor; [assumption|constructor; [assumption|constructor; [assumption|constructor]]]|].
  split; [destruct sy; try discriminate; reflexivity|]. split; [discriminate|]. intros _ Hx. discriminate.
Qed.

Lemma pf_numbers_good sy str l1 r p2 : l_inf l1 = false -> pf_numbers sy str l1 = Some (r, p2) ->
  l_inf (ps_lex p2) = false /\ ps_pre p2 = [] /\ ps_build p2 = [] /\
  (l_err (ps_lex p2) = false -> l_err l1 = false /\ nums_wf sy (ps_num p2) /\
     exists cs, adv l1 (ps_lex p2) cs /\ rshape 0 cs r).
Proof.
  intros Hi. unfold pf_numbers.
  set (p0 := {| ps_lex := l1; ps_num := []; ps_pre := []; ps_is_pre := false; ps_build := [] |}).
  destruct (parse_number sy p0) as [ok p1] eqn:Ep.
  destruct (parse_number_good sy p0 ok p1 Hi Ep) as (I1 & (M1a & M1b & M1c) & G1).
  destruct ok; cbn [negb]; [|discriminate].
  destruct (lex_next (ps_lex p1)) as [r1 l2] eqn:En.
  destruct (lex_next_good _ _ _ I1 En) as (I2 & G2).
  destruct (numbers_loop sy (S (length str)) (with_lex p1 l2) r1) as [r' p2'] eqn:Eloop.
  destruct (numbers_loop_good sy _ (with_lex p1 l2) r1 r' p2' I2 Eloop) as (I3 & (M3a & M3b & M3c) & G3).
  cbn [with_lex ps_lex ps_num ps_pre ps_is_pre ps_build] in M3a, M3c, G3.
  intros H. injection H as Hr Hp. subst r'.
  assert (X : ps_lex p2 = ps_lex p2' /\ ps_pre p2 = ps_pre p2' /\ ps_build p2 = ps_build p2' /\
              ps_num p2 = nuget_trim sy (ps_num p2')).
  { rewrite <- Hp. unfold nuget_trim.
    destruct (sys_eqb sy SNuGet && Nat.eqb (length (ps_num p2')) 4 && (get_num (ps_num p2') 3 =? 0)); repeat split. }
  destruct X as (X1 & X2 & X3 & X4). rewrite X1, X2, X3, X4.
  split; [exact I3|]. split; [rewrite M3a, M1a; reflexivity|]. split; [rewrite M3c, M1c; reflexivity|].
  intros He. destruct (G3 He) as (E2 & vs & cs2 & N2 & F2 & L2 & A2 & R2).
  destruct (rshape_next _ _ _ I1 En E2) as (csn & An & Rn & _).
  destruct (G2 E2) as (E1 & _). destruct (G1 E1) as (E0 & cs1 & A1 & v & N1 & V1 & _).
  split; [exact E0|]. cbn [ps_num p0 app] in N1.
  split.
  { apply nuget_trim_wf.
    - rewrite N2, N1. constructor; assumption.
    - apply L2. rewrite N1. apply lenok_one.
    - rewrite N2, N1. discriminate. }
  exists ((cs1 ++ csn) ++ cs2). split; [rewrite <- app_assoc; exact (adv_trans _ _ _ _ _ A1 (adv_trans _ _ _ _ _ An A2))|].
  apply rshape_app with (r1 := r1); [|exact R2].
  intros r0 H43. destruct (Rn 0 H43) as [(_ & Hx)|(cs0 & Ec)]; [discriminate|].
  right. exists (cs1 ++ cs0). rewrite Ec, app_assoc. reflexivity.
Qed.

Lemma pf_pre_good sy r p3 r5 p5 : family sy -> l_inf (ps_lex p3) = false -> ps_pre p3 = [] ->
  pf_pre sy r p3 = Ok (r5, p5) ->
  l_inf (ps_lex p5) = false /\ ps_num p5 = ps_num p3 /\ ps_build p5 = ps_build p3 /\
  (l_err (ps_lex p5) = false -> l_err (ps_lex p3) = false /\
     Forall (fun x => elemb sy x = true) (ps_pre p5) /\
     exists cs, adv (ps_lex p3) (ps_lex p5) cs /\ rshape r cs r5).
Proof.
  intros F Hi Hp. unfold pf_pre.
  destruct (r =? 45).
  { destruct (sys_eqb sy SGo && Nat.ltb (length (ps_num p3)) 3); [discriminate|].
    destruct (parse_metadata sy (mark_pre p3) true) as [r' p'] eqn:Em. intros H; inversion H; subst r5 p5. clear H.
    destruct (parse_metadata_good sy (mark_pre p3) true r' p' Hi Em) as (I1 & N1 & _ & B1 & G).
    cbn [mark_pre ps_lex ps_num ps_pre ps_build] in N1, B1, G.
    split; [exact I1|]. split; [exact N1|]. split; [exact B1|]. intros He.
    destruct (G He) as (E0 & e & es & cs & P & Fa & A & R & _). split; [exact E0|].
    rewrite P, Hp. cbn [app]. split; [exact Fa|]. exists cs. split; [exact A | apply rshape_weaken; exact R]. }
  destruct ((r =? 42) && sys_eqb sy SNuGet).
  { destruct (lex_next (ps_lex p3)) as [r' l4] eqn:En.
    destruct (lex_next_good _ _ _ Hi En) as (I4 & G4).
    destruct (r' =? r_eof) eqn:Ee.
    - intros H; inversion H; subst r5 p5. clear H. cbn [with_lex ps_lex ps_num ps_pre ps_build].
      split; [exact I4|]. split; [reflexivity|]. split; [reflexivity|]. intros He.
      destruct (rshape_next _ _ _ Hi En He) as (cs & A & R & _). destruct (G4 He) as (E0 & _).
      split; [exact E0|]. rewrite Hp. split; [constructor|]. exists cs. split; [exact A | apply R].
    - destruct (parse_metadata sy (mark_pre (with_lex p3 l4)) true) as [r'' p6] eqn:Em.
      destruct (parse_metadata_good sy (mark_pre (with_lex p3 l4)) true r'' p6 I4 Em) as (I6 & N6 & _ & B6 & G6).
      cbn [mark_pre with_lex ps_lex ps_num ps_pre ps_build] in N6, B6, G6.
      destruct (last_opt (ps_pre p6)) as [le|]; [|discriminate].
      destruct (last_opt le) as [c|]; [|discriminate].
      destruct (N.eqb c 42); [|discriminate].
      intros H; inversion H; subst r5 p5. clear H.
      split; [exact I6|]. split; [exact N6|]. split; [exact B6|]. intros He.
      destruct (G6 He) as (E4 & e & es & cs & P & Fa & A & R & _).
      destruct (rshape_next _ _ _ Hi En E4) as (csn & An & Rn & _). destruct (G4 E4) as (E0 & _).
      split; [exact E0|]. rewrite P, Hp. cbn [app]. split; [exact Fa|].
      exists (csn ++ cs). split; [exact (adv_trans _ _ _ _ _ An A)|].
      apply rshape_app with (r1 := r'); [exact Rn | apply rshape_weaken; exact R]. }
  rewrite (family_not_gems sy F). cbn [andb].
  intros H; inversion H; subst r5 p5. clear H.
  split; [exact Hi|]. split; [reflexivity|]. split; [reflexivity|]. intros He. split; [exact He|].
  rewrite Hp. split; [constructor|]. exists []. split; [apply adv_nil; reflexivity | apply rshape_same].
Qed.

Lemma pf_build_good sy str r p5 r7 p7 : family sy -> l_inf (ps_lex p5) = false -> ps_build p5 = [] ->
  pf_build sy str r p5 = Ok (r7, p7) ->
  l_inf (ps_lex p7) = false /\ ps_num p7 = ps_num p5 /\
  (l_err (ps_lex p7) = false -> l_err (ps_lex p5) = false /\ ps_pre p7 = ps_pre p5 /\
     (PI str r (ps_lex p5) -> r7 = r_eof ->
      exists bl, ps_build p7 = r_build bl /\ Forall (fun x => elemb sy x = true) bl)).
Proof.
  intros F Hi Hb. unfold pf_build. rewrite (family_not_gems sy F). cbn [negb]. rewrite andb_true_r.
  destruct (r =? 43) eqn:E43.
  - apply Z.eqb_eq in E43.
    destruct (sys_eqb sy SGo && Nat.ltb (length (ps_num p5)) 3); [discriminate|].
    destruct (parse_metadata sy p5 false) as [r' p6] eqn:Em.
    destruct (parse_metadata_good sy p5 false r' p6 Hi Em) as (I6 & N6 & _ & _ & G6).
    intros H; inversion H; subst r7 p7. clear H. cbn [ps_lex ps_num ps_pre ps_build].
    split; [exact I6|]. split; [exact N6|].
    intros He. destruct (G6 He) as (E0 & e & es & cs & P & Fa & A & R & J). split; [exact E0|].
    split; [rewrite P, app_nil_r; reflexivity|].
    intros (a & S1 & S2 & S3) Hr. destruct (S3 E43) as (a0 & Ea).
    exists (e :: es). split; [|exact Fa].
    rewrite (J Hr) in A. destruct A as [A1 A2].
    assert (Es : str = a0 ++ (43%N :: joind e es) ++ l_rest (ps_lex p6)).
    { rewrite S1, Ea, A1, <- !app_assoc. reflexivity. }
    assert (Ep : (l_pos (ps_lex p5) - 1)%nat = length a0).
    { rewrite S2, Ea, app_length. cbn [length]. lia. }
    rewrite Ep, A2, S2, Ea, app_length. cbn [length].
    replace (length a0 + 1 + length (joind e es) - length a0)%nat with (length (43%N :: joind e es)) by (cbn [length]; lia).
    rewrite Es, skipn_app, skipn_all, Nat.sub_diag. cbn [skipn app].
    change (43%N :: joind e es ++ l_rest (ps_lex p6)) with ((43%N :: joind e es) ++ l_rest (ps_lex p6)).
    rewrite firstn_app, firstn_all, Nat.sub_diag. cbn [firstn]. rewrite app_nil_r. reflexivity.
  - intros H; inversion H; subst r7 p7. clear H.
    split; [exact Hi|]. split; [reflexivity|]. intros He. split; [exact He|]. split; [reflexivity|].
    intros _ _. exists []. split; [exact Hb | constructor].
Qed.

(* ------------------------------------------------------------------ the shape of parsed versions *)
Definition padz (l : list Z) : list Z := l ++ repeat 0 (3 - length l).

Lemma pad3_spec : forall fuel l, pad3 l fuel = l ++ repeat 0 (Nat.min fuel (3 - length l)).
Proof.
  induction fuel as [|f IH]; intros l; cbn [pad3].
  - cbn [Nat.min repeat]. rewrite app_nil_r. reflexivity.
  - destruct (Nat.ltb_spec (length l) 3) as [H|H].
    + rewrite IH, app_length. cbn [length]. rewrite <- app_assoc. f_equal.
      replace (3 - length l)%nat with (S (3 - (length l + 1))) by lia.
      rewrite <- Nat.succ_min_distr. reflexivity.
    + replace (3 - length l)%nat with 0%nat by lia. rewrite Nat.min_0_r. cbn [repeat]. rewrite app_nil_r. reflexivity.
Qed.

Lemma pad3_padz l : pad3 l 3 = padz l.
Proof. rewrite pad3_spec. unfold padz. f_equal. f_equal. lia. Qed.

Lemma zero_ok sy : numval_ok sy 0.
Proof. right. unfold infinity. lia. Qed.

Lemma finish_nums_wf sy nums : family sy -> nums_wf sy nums -> nums_wf sy (finish_nums sy nums).
Proof.
  intros F (W1 & W2 & W3 & W4). unfold finish_nums. rewrite (family_not_gems sy F). cbn [orb].
  destruct (sys_eqb sy SNuGet) eqn:EN; [|split; [exact W1|split; [exact W2|split; [exact W3|intros Hx; congruence]]]].
  rewrite pad3_padz. unfold padz.
  assert (ESy : sy = SNuGet) by (destruct sy; try (cbv in EN; discriminate EN); reflexivity). subst sy.
  cbn [lenok] in *. apply Nat.leb_le in W2.
  split; [apply Forall_app; split; [exact W1 | apply Forall_forall; intros x Hx; apply repeat_spec in Hx; subst x; apply zero_ok]|].
  split; [apply Nat.leb_le; rewrite app_length, repeat_length; lia|].
  split; [destruct nums; [congruence | discriminate]|].
  intros _ H4. rewrite app_length, repeat_length in H4.
  assert (E4 : length nums = 4%nat) by lia.
  replace (3 - length nums)%nat with 0%nat by lia. cbn [repeat]. rewrite app_nil_r. apply W4; auto.
Qed.

Definition wf_parsed (sy : system) (v : version) : Prop :=
  v_sys v = sy /\ v_ext v = NoExt /\ nums_wf sy (v_num v) /\
  Forall (fun x => elemb sy x = true) (v_pre v) /\
  exists bl, v_build v = r_build bl /\ Forall (fun x => elemb sy x = true) bl.

Theorem parse_front_wf sy str v b : family sy -> parse_front sy false str = Ok (v, b) -> wf_parsed sy v.
Proof.
  intros F. unfold parse_front. cbn [andb].
  destruct (pf_prefix_good sy str) as (I1 & G1).
  destruct (pf_numbers sy str (pf_prefix sy false str)) as [[r p2]|] eqn:En; [|discriminate].
  destruct (pf_numbers_good sy str _ r p2 I1 En) as (I2 & P2 & B2 & G2).
  destruct ((r =? 46) && Nat.ltb (length (ps_num p2)) 3 && negb (sys_eqb sy SRubyGems)); [discriminate|].
  rewrite (family_not_gems sy F). cbn [andb].
  destruct (pf_pre sy r p2) as [[r5 p5]| | |] eqn:E5; try discriminate.
  destruct (pf_pre_good sy r p2 r5 p5 F I2 P2 E5) as (I5 & N5 & B5 & G5).
  destruct (pf_build sy str r5 p5) as [[r7 p7]| | |] eqn:E7; try discriminate.
  destruct (pf_build_good sy str r5 p5 r7 p7 F I5 ltac:(congruence) E7) as (I7 & N7 & G7).
  unfold pf_finish.
  destruct (r7 =? r_eof) eqn:Er; cbn [negb].
  2:{ cbn. discriminate. }
  destruct (l_err (ps_lex p7)) eqn:Ee; [discriminate|].
  intros H; inversion H; subst v b. clear H. apply Z.eqb_eq in Er.
  destruct (G7 eq_refl) as (Ee5 & P7 & Gb). destruct (G5 Ee5) as (Ee2 & Fpre & cs5 & A5 & R5).
  destruct (G2 Ee2) as (Ee1 & Wn & cs2 & A2 & R2). pose proof (G1 Ee1) as PI1.
  pose proof (PI_adv _ _ _ _ _ _ PI1 A2 R2) as PI2. pose proof (PI_adv _ _ _ _ _ _ PI2 A5 R5) as PI5.
  destruct (Gb PI5 Er) as (bl & Eb & Fb).
  unfold wf_parsed, mk_version. cbn [v_sys v_ext v_num v_pre v_build].
  split; [reflexivity|]. split; [reflexivity|].
  split; [fold (finish_nums sy (ps_num p7)); rewrite N7, N5; apply finish_nums_wf; assumption|].
  split; [rewrite P7; exact Fpre|]. exists bl. split; [exact Eb | exact Fb].
Qed.

Theorem parse_wf sy s v : family sy -> parse sy s = Ok v -> wf_parsed sy v.
Proof.
  intros F. unfold parse, parse_internal. destruct (possible_version_string sy s); [|discriminate].
  destruct (parse_front sy false s) as [[v' b]| | |] eqn:E; try discriminate.
  intros H; inversion H; subst v'. exact (parse_front_wf sy s v b F E).
Qed.
