(* NuGet's own grammar (Spec/NuGetSpec.v parse_nuget) tied to the model parser at the string
   level (C02, NuGet part): a string accepted by parse_nuget is accepted by parse SNuGet, and
   the parsed structure abstracts (abs_nuget) to the spec's value. *)
From Coq Require Import Lia.
From DepsDev Require Import Lib.Base Semver.Version Gen.SemverTables Semver.Parse Spec.SemverSpec Spec.NuGetSpec
  Semver.SemverSpec_proofs Semver.NuGetSpec_proofs Semver.ParseLex_proofs Semver.ParseRender_proofs
  Semver.ParseSound_proofs Semver.StrictParse_proofs.
Local Open Scope Z_scope.

Local Arguments infinity : simpl never.

(* the common skeleton of the two spec grammars: core[-pre][+build], each dot-separated *)
Lemma spec_shape s main build core pre : cut 43 s [] = (main, build) -> cut 45 main [] = (core, pre) ->
  exists e es prel bll, split_on 46 core [] = e :: es /\ s = joind e es ++ r_pre prel ++ r_build bll /\
    (forall A (f : bytes -> option A),
       match pre with None => Some [] | Some p => sequence (map f (split_on 46 p [])) end = sequence (map f prel)) /\
    (forall A (f : bytes -> option A),
       match build with None => Some [] | Some p => sequence (map f (split_on 46 p [])) end = sequence (map f bll)).
Proof.
  intros C1 C2. apply cut_spec in C1. apply cut_spec in C2. cbn [rev app] in C1, C2.
  destruct (split_on_joind core []) as (e & es & Sp & J). cbn [rev app] in J.
  assert (Pre : exists prel, (match pre with None => [] | Some t => 45%N :: t end) = r_pre prel /\
                 forall A (f : bytes -> option A),
                 (match pre with None => Some [] | Some p => sequence (map f (split_on 46 p [])) end) = sequence (map f prel)).
  { destruct pre as [p|]; [|exists []; split; reflexivity].
    destruct (split_on_joind p []) as (e1 & es1 & Sp1 & J1). cbn [rev app] in J1.
    exists (e1 :: es1). rewrite Sp1. cbn [r_pre]. rewrite J1. split; reflexivity. }
  assert (Bld : exists bll, (match build with None => [] | Some t => 43%N :: t end) = r_build bll /\
                 forall A (f : bytes -> option A),
                 (match build with None => Some [] | Some p => sequence (map f (split_on 46 p [])) end) = sequence (map f bll)).
  { destruct build as [p|]; [|exists []; split; reflexivity].
    destruct (split_on_joind p []) as (e1 & es1 & Sp1 & J1). cbn [rev app] in J1.
    exists (e1 :: es1). rewrite Sp1. cbn [r_build]. rewrite J1. split; reflexivity. }
  destruct Pre as (prel & P1 & P2). destruct Bld as (bll & B1 & B2).
  exists e, es, prel, bll. split; [exact Sp|]. split; [rewrite C1, C2, J, P1, B1, <- app_assoc; reflexivity|].
  split; assumption.
Qed.

Lemma component_numtok t n : component t = Some n -> numtok SNuGet t n /\ 0 <= n.
Proof.
  unfold component. destruct t as [|c t']; [discriminate|].
  destruct (forallb is_digit (c :: t')) eqn:D; [|discriminate].
  destruct (dec_val (c :: t') 0 <=? max_int32) eqn:R; [|discriminate]. intros H; inversion H; subst n.
  apply Z.leb_le in R. split; [|apply dec_val_nonneg; lia].
  right. split; [discriminate|]. split; [exact D|]. split; [apply andb_false_r|].
  split; [unfold max_int32 in R; unfold infinity; lia | reflexivity].
Qed.

Lemma label_elemb e e' : label e = Some e' -> elemb SNuGet e = true.
Proof. unfold label. destruct (pre_ident e) eqn:P; [|discriminate]. intros _. exact (pre_ident_elemb SNuGet e _ P). Qed.

Lemma nonneg_no_wild nums : Forall (fun n => 0 <= n) nums -> is_wildcard nums = false.
Proof.
  unfold is_wildcard. induction 1 as [|x l Hx _ IH]; [reflexivity|]. cbn [existsb]. rewrite IH.
  assert (E : (x =? wildcard) = false) by (apply Z.eqb_neq; unfold wildcard; lia). rewrite E. reflexivity.
Qed.

Lemma toks_ok_components : forall ts ns nums, Forall2 (fun t n => component t = Some n) ts ns ->
  Forall (fun n => 0 <= n) nums -> (length nums + length ts <= 4)%nat ->
  toks_ok SNuGet nums (combine ts ns).
Proof.
  induction ts as [|t ts IH]; intros ns nums H Hn L; [exact I|].
  inversion H as [|? n ? ns' Ht Hr]; subst. cbn [combine toks_ok].
  destruct (component_numtok t n Ht) as [T P].
  split; [exact T|]. split; [cbn [room length] in *; apply Nat.ltb_lt; lia|].
  split; [rewrite (nonneg_no_wild nums Hn); reflexivity|].
  apply IH; [exact Hr | apply Forall_app; split; [exact Hn | constructor; [exact P | constructor]] |].
  rewrite app_length. cbn [length] in *. lia.
Qed.

Lemma Forall2_len {A B} (P : A -> B -> Prop) l r : Forall2 P l r -> length l = length r.
Proof. induction 1; cbn [length]; congruence. Qed.

Lemma combine_fst {A B} (P : A -> B -> Prop) l r : Forall2 P l r -> map fst (combine l r) = l /\ map snd (combine l r) = r.
Proof. induction 1 as [|a b l r _ _ [IH1 IH2]]; [split; reflexivity|]. cbn [combine map fst snd]. rewrite IH1, IH2. split; reflexivity. Qed.

Theorem nuget_parses s nv0 : parse_nuget s = Some nv0 ->
  exists v, parse SNuGet s = Ok v /\ abs_nuget v = Some nv0.
Proof.
  unfold parse_nuget.
  destruct (cut 43 s []) as [main build] eqn:C1. destruct (cut 45 main []) as [core pre] eqn:C2.
  destruct (spec_shape s main build core pre C1 C2) as (e & es & prel & bll & Sp & Es & P2 & B2).
  rewrite (P2 _ label), (B2 _ build_ident), Sp.
  destruct (sequence (map component (e :: es))) as [ns|] eqn:Sq; [|discriminate].
  destruct (pad4 ns) as [ns4|] eqn:P4; [|discriminate].
  destruct (sequence (map label prel)) as [p|] eqn:Sl; [|discriminate].
  destruct (sequence (map build_ident bll)) as [bl|] eqn:Sb; [|discriminate].
  intros H; inversion H; subst nv0. clear H.
  apply sequence_Forall2 in Sq.
  inversion Sq as [|? n1 ? ns' Hc Hr]; subst.
  assert (L4 : (length ns' <= 3)%nat) by (destruct ns' as [|? [|? [|? [|? ?]]]]; cbn [length]; try lia; discriminate P4).
  pose proof (Forall2_len _ _ _ Hr) as Ln.
  destruct (component_numtok e n1 Hc) as [T1 P1].
  destruct (combine_fst _ _ _ Hr) as [Ef Es'].
  assert (F : family SNuGet) by (unfold family; auto 10).
  assert (Hok : toks_ok SNuGet [] ((e, n1) :: combine es ns')).
  { cbn [toks_ok app length]. split; [exact T1|]. split; [reflexivity|]. split; [reflexivity|].
    apply (toks_ok_components es ns' [n1] Hr); [constructor; [exact P1 | constructor] | cbn [length]; lia]. }
  pose proof (parse_rendered SNuGet e n1 (combine es ns') prel bll F Hok
                (sequence_map_Forall label _ label_elemb prel _ Sl)
                (sequence_map_Forall build_ident _ (build_ident_elemb SNuGet) bll _ Sb)
                ltac:(intros _; reflexivity)) as PR.
  cbv zeta in PR. cbn [r_nums] in PR. rewrite Ef, Es' in PR. change (e ++ dots es) with (joind e es) in PR.
  change (pfx SNuGet) with (@nil N) in PR. cbn [app] in PR.
  eexists. split; [exact PR|].
  unfold abs_nuget, rendered_version. cbn [v_num v_pre]. rewrite Sl.
  unfold finish_nums, nuget_trim. change (sys_eqb SNuGet SRubyGems) with false. change (sys_eqb SNuGet SNuGet) with true.
  cbn [orb andb].
  destruct ns' as [|b [|c [|d [|? ?]]]]; cbn [pad4] in P4; inversion P4; subst ns4; cbn [length Nat.eqb andb pad3 Nat.ltb Nat.leb app].
  - reflexivity.
  - reflexivity.
  - reflexivity.
  - cbn [get_num]. destruct (Z.eqb_spec d 0) as [->|Hd]; cbn [firstn pad3 length Nat.ltb Nat.leb]; reflexivity.
Qed.

Theorem nuget_strings a b na nb : parse_nuget a = Some na -> parse_nuget b = Some nb ->
  exists va vb, parse SNuGet a = Ok va /\ parse SNuGet b = Ok vb /\
                generic_compare SNuGet va vb = nuget_precedence na nb.
Proof.
  intros Pa Pb. destruct (nuget_parses a na Pa) as (va & Va & Aa). destruct (nuget_parses b nb Pb) as (vb & Vb & Ab).
  exists va, vb. split; [exact Va|]. split; [exact Vb|]. exact (generic_compare_nuget va vb na nb Aa Ab).
Qed.
