(* Model of semver.Maven.Parse (util/semver/maven.go): possibleVersionString is constant true
   for Maven and versionParser.version goes straight to mavenExtension.init, which is
   modelled here step by step: strings.ToLower, nextMavenElem / mavenCategory splitting,
   separators, the a/b/m shortcut that rewrites the previous element, the trimming loop
   as written (index arithmetic included), parseNum on the numeric elements.
   Definitions only.

   Modelled fragment: ASCII bytes plus the infinity sign (E2 88 9E).  strings.ToLower
   folds other runes and rewrites invalid UTF-8; such inputs return None (the harness
   prints the oom marker for them).  Inside the fragment mavenCategory of the rune at a
   rune boundary coincides with the per-byte class used below, the three bytes of the
   infinity sign all being numeric. *)
From DepsDev Require Import Lib.Base Semver.Version Semver.Maven Gen.SemverTables Gen.MavenVariants.
Local Open Scope Z_scope.

(* ---------- the modelled fragment ---------- *)
(* st = 0: at a rune boundary; 1: after E2; 2: after E2 88 *)
Fixpoint mvn_fragment_from (st : nat) (s : bytes) : bool :=
  match s with
  | [] => match st with O => true | _ => false end
  | c :: t =>
      match st with
      | O => if (c <? 128)%N then mvn_fragment_from 0 t
             else if N.eqb c 226 then mvn_fragment_from 1 t else false
      | S O => if N.eqb c 136 then mvn_fragment_from 2 t else false
      | _ => if N.eqb c 158 then mvn_fragment_from 0 t else false
      end
  end.
Definition mvn_fragment (s : bytes) : bool := mvn_fragment_from 0 s.

(* ---------- mavenCategory per byte ---------- *)
Definition bcat (c : N) : Z :=
  if is_digit c then cat_numeric
  else if (N.eqb c 46) || (N.eqb c 45) then cat_separator
  else if (N.eqb c 226) || (N.eqb c 136) || (N.eqb c 158) then cat_numeric
  else cat_qualifier.

(* the loop of nextMavenElem: advance while the category equals prev and is not a separator *)
Fixpoint span_cat (prev : Z) (s : bytes) : bytes * bytes :=
  match s with
  | [] => ([], [])
  | c :: t =>
      if (bcat c =? prev) && negb (bcat c =? cat_separator)
      then let '(a, b) := span_cat prev t in (c :: a, b)
      else ([], s)
  end.

(* nextMavenElem *)
Definition next_maven_elem (s : bytes) : bytes * bytes :=
  match s with
  | [] => ([], [])
  | [c] => ([c], [])
  | c :: ((d :: _) as t) =>
      if bcat c =? cat_separator
      then let '(a, b) := span_cat (bcat d) t in (c :: a, b)
      else span_cat (bcat c) s
  end.

(* the alpha/beta/milestone shortcut applied to the previous element *)
Definition s_alpha : bytes := [97; 108; 112; 104; 97]%N.
Definition s_beta : bytes := [98; 101; 116; 97]%N.
Definition s_milestone : bytes := [109; 105; 108; 101; 115; 116; 111; 110; 101]%N.

Definition shortcut (e : mvn_elem) : mvn_elem :=
  match me_str e with
  | [97%N] => {| me_sep := me_sep e; me_str := s_alpha; me_int := me_int e |}
  | [98%N] => {| me_sep := me_sep e; me_str := s_beta; me_int := me_int e |}
  | [109%N] => {| me_sep := me_sep e; me_str := s_milestone; me_int := me_int e |}
  | _ => e
  end.

Definition mk_elem (sep : N) (s : bytes) : mvn_elem := {| me_sep := sep; me_str := s; me_int := 0 |}.

(* The first loop of init.  racc holds the elements so far, last one first. *)
Fixpoint mvn_scan (fuel : nat) (s : bytes) (first : bool) (prev_cat : Z) (racc : list mvn_elem)
  : res (list mvn_elem) :=
  match s with
  | [] => Ok (rev racc)
  | _ :: _ =>
      match fuel with
      | O => OutOfFuel
      | S f =>
          let '(str, rest) := next_maven_elem s in
          let cat := maven_category str in
          if cat =? cat_unknown then Err 1%N
          else if cat =? cat_separator then
            match str with
            | [] => Panic PIndex
            | c :: str1 =>
                let str2 := match str1 with [] => [48%N] | _ => str1 end in
                mvn_scan f rest false (maven_category str2) (mk_elem c str2 :: racc)
            end
          else if first then mvn_scan f rest false cat (mk_elem 0 str :: racc)
          else if cat =? cat_numeric then
            if prev_cat =? cat_numeric then mvn_scan f rest false cat (mk_elem 46 str :: racc)
            else if prev_cat =? cat_qualifier then
              match racc with
              | [] => Panic PIndex
              | p :: r => mvn_scan f rest false cat (mk_elem 45 str :: shortcut p :: r)
              end
            else mvn_scan f rest false cat (mk_elem 45 str :: racc)
          else mvn_scan f rest false cat (mk_elem 45 str :: racc)
      end
  end.

(* isEmptyMavenElem tests s == "0": a zero spelled with several digits (00) is not empty and is
   not trimmed, whereas ComparableVersion reads it as the null item 0 (finding F-C02-11).
   The switch selects the repaired test (every all-zero numeral is empty); gotables reads from
   maven.go which of the two forms the tree has. *)
Definition mvn_fix_zero_spelling : bool := go_mvn_zero_spelling_fixed.
Definition all_zeros (s : bytes) : bool :=
  match s with [] => false | _ => forallb (fun c => N.eqb c 48) s end.
Definition is_empty_elem_with (zfix : bool) (s : bytes) : bool :=
  (if zfix then all_zeros s else bytes_eqb s [48%N]) || (qualifier_order s =? maven_empty_qualifier).
Definition is_empty_elem (s : bytes) : bool := is_empty_elem_with mvn_fix_zero_spelling s.

(* copy(elements[i:], elements[i+1:]); elements = elements[:len-1] *)
Definition remove_at {A} (l : list A) (i : nat) : list A := firstn i l ++ skipn (S i) l.

(* for i > 0 && isEmptyMavenElem(elements[i].str) { remove i; i-- } *)
Fixpoint trim_inner_with (zfix : bool) (fuel : nat) (l : list mvn_elem) (i : nat) : res (list mvn_elem * nat) :=
  match fuel with
  | O => OutOfFuel
  | S f =>
      match i with
      | O => Ok (l, i)
      | S i' =>
          e <- idx l i ;;
          if is_empty_elem_with zfix (me_str e) then trim_inner_with zfix f (remove_at l i) i' else Ok (l, i)
      end
  end.

(* for i := 1; i < len(elements); i++ { if i < len-1 && elements[i+1].sep != '-' { continue }; inner } *)
Fixpoint trim_outer_with (zfix : bool) (fuel : nat) (l : list mvn_elem) (i : nat) : res (list mvn_elem) :=
  match fuel with
  | O => OutOfFuel
  | S f =>
      if Nat.ltb i (length l) then
        let inner :=
          r <- trim_inner_with zfix (S (length l)) l i ;;
          trim_outer_with zfix f (fst r) (S (snd r)) in
        if Nat.ltb i (length l - 1) then
          e <- idx l (S i) ;;
          if negb (N.eqb (me_sep e) 45) then trim_outer_with zfix f l (S i) else inner
        else inner
      else Ok l
  end.

Definition mvn_trim_with (zfix : bool) (l : list mvn_elem) : res (list mvn_elem) :=
  trim_outer_with zfix (2 * length l + 2) l 1.
Definition trim_inner := trim_inner_with mvn_fix_zero_spelling.
Definition trim_outer := trim_outer_with mvn_fix_zero_spelling.
Definition mvn_trim (l : list mvn_elem) : res (list mvn_elem) := mvn_trim_with mvn_fix_zero_spelling l.

(* parseNum *)
Definition parse_num (s : bytes) : option Z :=
  match s with
  | [c] => if is_digit c then Some (Z.of_N (c - 48)%N) else None
  | _ =>
      match parse_int s 64 with
      | Some n => if (n <? 0) || (infinity <=? n) then None else Some n
      | None => None
      end
  end.

(* the final loop: integers for numbers; reports whether some element is not numeric *)
Fixpoint mvn_ints (l : list mvn_elem) : res (list mvn_elem * bool) :=
  match l with
  | [] => Ok ([], false)
  | e :: t =>
      if maven_category (me_str e) =? cat_numeric then
        if bytes_eqb (me_str e) s_inf then
          r <- mvn_ints t ;;
          Ok ({| me_sep := me_sep e; me_str := me_str e; me_int := infinity |} :: fst r, snd r)
        else
          match parse_num (me_str e) with
          | None => Err 2%N
          | Some n =>
              r <- mvn_ints t ;;
              Ok ({| me_sep := me_sep e; me_str := me_str e; me_int := n |} :: fst r, snd r)
          end
      else
        r <- mvn_ints t ;; Ok (e :: fst r, true)
  end.

(* mavenExtension.init on an input inside the fragment: elements and isPrerelease *)
Definition mvn_init_with (zfix : bool) (s : bytes) : res (list mvn_elem * bool) :=
  let low := to_lower s in
  l <- mvn_scan (S (length low)) low true cat_unknown [] ;;
  l' <- mvn_trim_with zfix l ;;
  mvn_ints l'.
Definition mvn_init (s : bytes) : res (list mvn_elem * bool) := mvn_init_with mvn_fix_zero_spelling s.

(* semver.Maven.Parse; None = outside the modelled fragment *)
Definition mvn_parse_with (zfix : bool) (s : bytes) : option (res version) :=
  if mvn_fragment s then
    Some (r <- mvn_init_with zfix s ;;
          Ok {| v_sys := SMaven; v_user_num_count := 0; v_is_prerelease := snd r; v_str := s;
                v_num := []; v_pre := []; v_build := []; v_ext := MavenExt (fst r) |})
  else None.
Definition mvn_parse (s : bytes) : option (res version) := mvn_parse_with mvn_fix_zero_spelling s.

(* the element list of an accepted string *)
Definition mvn_elems_of (s : bytes) : option (list mvn_elem) :=
  match mvn_parse s with
  | Some (Ok v) => match v_ext v with MavenExt l => Some l | _ => None end
  | _ => None
  end.
