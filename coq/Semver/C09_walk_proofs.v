(* C09: matchVersion walks over ALL spans of a set (whether canon has unified them or not);
   Union with a single version keeps the version; worked examples. *)
From Coq Require Import List ZArith Bool String.
From DepsDev Require Import Lib.Base Semver.Version Semver.Compare Semver.Span Semver.Interval Semver.Set Semver.Constraint
     Semver.Witness.
Import ListNotations.
Local Open Scope Z_scope.

(* the answer of one span, read as a boolean *)
Definition span_says (v : version) (pre : bool) (s : span) : bool :=
  match match_span v pre s with Ok true => true | _ => false end.

(* when every span gives an answer, the walk is the disjunction over all of them *)
Lemma match_spans_all v pre : forall l,
  (forall s, In s l -> exists b0, match_span v pre s = Ok b0) ->
  match_spans v pre l = Ok (existsb (span_says v pre) l).
Proof.
  induction l as [|s l IH]; intros H; [reflexivity|].
  cbn [match_spans existsb]. unfold span_says at 1.
  destruct (H s (or_introl eq_refl)) as [b0 E]. rewrite E. cbn [bind].
  destruct b0; [reflexivity|]. cbn [orb]. apply IH. intros s0 I. apply H. right. exact I.
Qed.

Lemma match_spans_iff v pre l :
  (forall s, In s l -> exists b0, match_span v pre s = Ok b0) ->
  exists b0, match_spans v pre l = Ok b0 /\
    (b0 = true <-> exists s, In s l /\ match_span v pre s = Ok true).
Proof.
  intros H. exists (existsb (span_says v pre) l). split; [apply match_spans_all; exact H|].
  rewrite existsb_exists. split.
  - intros (s & I & S). exists s. split; [exact I|]. unfold span_says in S.
    destruct (match_span v pre s) as [[|]| | |]; try discriminate. reflexivity.
  - intros (s & I & E). exists s. split; [exact I|]. unfold span_says. rewrite E. reflexivity.
Qed.

(* the mode matchVersion really uses: RubyGems candidates are always matched prerelease-inclusive *)
Definition eff_pre (v : version) (pre : bool) : bool := if sys_eqb (v_sys v) SRubyGems then true else pre.

Theorem set_match_all st v pre : set_span st <> [] ->
  (forall s, In s (set_span st) -> exists b0, match_span v (eff_pre v pre) s = Ok b0) ->
  set_match_version st v pre = Ok (existsb (span_says v (eff_pre v pre)) (set_span st)).
Proof.
  intros N H. unfold set_match_version. destruct (set_span st) as [|s l] eqn:E; [congruence|].
  apply match_spans_all. exact H.
Qed.

Theorem set_match_iff st v pre : set_span st <> [] ->
  (forall s, In s (set_span st) -> exists b0, match_span v (eff_pre v pre) s = Ok b0) ->
  exists b0, set_match_version st v pre = Ok b0 /\
    (b0 = true <-> exists s, In s (set_span st) /\ match_span v (eff_pre v pre) s = Ok true).
Proof.
  intros N H. unfold set_match_version. destruct (set_span st) as [|s l] eqn:E; [congruence|].
  apply match_spans_iff. exact H.
Qed.

(* the order of the spans does not matter, nor whether two of them overlap: a set whose LAST span
   is the only one that contains v still matches v *)
Theorem set_match_last st v pre l s : set_span st = l ++ [s] ->
  (forall s0, In s0 (l ++ [s]) -> exists b0, match_span v (eff_pre v pre) s0 = Ok b0) ->
  match_span v (eff_pre v pre) s = Ok true -> set_match_version st v pre = Ok true.
Proof.
  intros E H M. assert (N : set_span st <> []) by (rewrite E; destruct l; discriminate).
  destruct (set_match_iff st v pre N) as (b0 & Eb & I); [rewrite E; exact H|].
  rewrite Eb. f_equal. apply I. exists s. split; [rewrite E; apply in_or_app; right; left; reflexivity | exact M].
Qed.

(* ---------------------------------------------------------------- worked examples (npm) *)
Local Open Scope string_scope.
Definition v100 := mkv SNPM "1.0.0" [1;0;0] [].
Definition v200 := mkv SNPM "2.0.0" [2;0;0] [].
Definition v150b := mkv SNPM "1.5.0-beta" [1;5;0] ["beta"].
Definition v300 := mkv SNPM "3.0.0" [3;0;0] [].
Definition v400 := mkv SNPM "4.0.0" [4;0;0] [].
Definition v350 := mkv SNPM "3.5.0" [3;5;0] [].

Fixpoint seq_res (l : list (res span)) : res (list span) :=
  match l with
  | nil => Ok nil
  | x :: t => a <- x;; r <- seq_res t;; Ok (a :: r)
  end.
Definition set_of (l : list (res span)) : res set :=
  sp <- seq_res l;; Ok {| set_sys := SNPM; set_span := sp |}.

(* >=1.0.0 <2.0.0 united with the single version 1.5.0-beta: the result matches 1.5.0-beta under
   MatchVersion (prerelease-exclusive), although 1.5.0-beta lies inside [1.0.0,2.0.0) under
   prerelease-inclusive containment *)
Definition union_unit_check : res (bool * bool * bool) :=
  a <- set_of [new_span v100 false v200 true];;
  u1 <- set_of [new_span_same v150b false false];;
  before <- set_match_version a v150b false;;
  inside <- set_match_version a v150b true;;
  r <- set_union a u1;;
  after <- set_match_version r v150b false;;
  Ok (before, inside, after).

Lemma union_unit_keeps : union_unit_check = Ok (false, true, true).
Proof. vm_compute. reflexivity. Qed.

(* the same with the operands exchanged *)
Definition union_unit_check' : res bool :=
  a <- set_of [new_span v100 false v200 true];;
  u1 <- set_of [new_span_same v150b false false];;
  r <- set_union u1 a;;
  set_match_version r v150b false.

Lemma union_unit_keeps' : union_unit_check' = Ok true.
Proof. vm_compute. reflexivity. Qed.

(* a set of three spans in which only the last contains 3.5.0, and one in which only the first does *)
Definition walk_check : res (bool * bool) :=
  s <- set_of [new_span v100 false v200 true; new_span_same v150b false false; new_span v300 false v400 true];;
  t <- set_of [new_span v300 false v400 true; new_span v100 false v200 true; new_span_same v150b false false];;
  x <- set_match_version s v350 false;;
  y <- set_match_version t v350 false;;
  Ok (x, y).

Lemma walk_finds_any_position : walk_check = Ok (true, true).
Proof. vm_compute. reflexivity. Qed.
