(* Lemmas about the parser model Pep440Parse.v: totality (never a panic, never out of
   fuel), shape of the result.  The lemmas about parsing a printed version are in
   Pep440Print_proofs.v. *)
From Coq Require Import List ZArith NArith Lia Bool.
From DepsDev Require Import Lib.Base Lib.Order Semver.Version Semver.Pep440 Semver.Pep440Parse Semver.Compare Semver.Pep440_proofs.
Import ListNotations.
Local Open Scope Z_scope.

(* strong induction on the length of a byte string *)
Lemma bytes_len_ind (P : bytes -> Prop) :
  (forall s, (forall t, (length t < length s)%nat -> P t) -> P s) -> forall s, P s.
Proof.
  intros H s. remember (length s) as n eqn:E. revert s E.
  induction n as [n IH] using lt_wf_ind. intros s E. apply H. intros t Ht. apply (IH (length t)); auto; lia.
Qed.

Lemma num_run_app s : s = fst (num_run s) ++ snd (num_run s).
Proof.
  induction s as [s IH] using bytes_len_ind.
  destruct s as [|c t]; simpl; auto.
  destruct (is_digit c).
  - specialize (IH t ltac:(simpl; lia)). destruct (num_run t) as [a r]. simpl in *. congruence.
  - destruct t as [|c2 [|c3 t']]; simpl; auto.
    destruct (N.eqb c 226 && N.eqb c2 136 && N.eqb c3 158); simpl; auto.
    specialize (IH t' ltac:(simpl; lia)). destruct (num_run t') as [a r]. simpl in *. congruence.
Qed.

Lemma segment_app s : s = fst (segment s) ++ snd (segment s).
Proof.
  unfold segment. pose proof (num_run_app s) as H. destruct (num_run s) as [run rest]. simpl in H.
  destruct run as [|x run]; simpl; auto.
  destruct s as [|c t]; simpl; auto. destruct (N.eqb c 42) eqn:E; simpl; auto.
  apply N.eqb_eq in E. subst. reflexivity.
Qed.

Definition good {A} (r : res A) : Prop :=
  match r with Ok _ | Err _ => True | _ => False end.

Lemma release_good f : forall s first, (length s < f)%nat -> good (release f s first).
Proof.
  induction f as [|f IH]; intros s first Hf; [lia|].
  simpl. destruct s as [|c0 s0]; [exact I|].
  pose proof (segment_app (c0 :: s0)) as Happ.
  destruct (segment (c0 :: s0)) as [seg rest]. simpl in Happ.
  destruct seg as [|x seg]; [exact I|].
  destruct (seg_value (x :: seg) first); [|exact I].
  destruct rest as [|c rest']; [exact I|].
  destruct (N.eqb c 46); [|exact I].
  destruct rest' as [|c' rest'']; [exact I|].
  assert (Hl : (length (c' :: rest'') < f)%nat).
  { apply (f_equal (@length N)) in Happ. rewrite app_length in Happ. simpl in *. lia. }
  specialize (IH (c' :: rest'') false Hl).
  destruct (release f (c' :: rest'') false); simpl in *; auto.
Qed.

Lemma parse_local_good e s : good (parse_local e s).
Proof.
  unfold parse_local. destruct s as [|c0 [|c1 t]]; try exact I.
  destruct (negb (N.eqb c0 43)); [exact I|].
  destruct (negb (forallb local_char (c1 :: t))); [exact I|].
  destruct (negb (is_alnum c1) || negb (is_alnum (last (c1 :: t) 0%N))); exact I.
Qed.

Lemma parse_epoch_good s : good (parse_epoch s).
Proof.
  unfold parse_epoch. destruct (split_at_byte 33 s) as [[[|c b] a]|]; try exact I.
  destruct (digits_val (c :: b) 0); [|exact I]. destruct (z <=? 255); exact I.
Qed.

Local Arguments release : simpl never.
Local Arguments trim_space : simpl never.
Local Arguments parse_pre : simpl never.
Local Arguments parse_post : simpl never.
Local Arguments parse_dev : simpl never.
Local Arguments parse_local : simpl never.
Local Arguments parse_epoch : simpl never.

Lemma pep_init_good s : good (pep_init s).
Proof.
  unfold pep_init. destruct (negb (chars_ok (trim_space s))); [exact I|].
  pose proof (parse_epoch_good (trim_space s)) as H0.
  destruct (parse_epoch (trim_space s)) as [[e0 input1]| | |]; cbn [bind good] in *; auto.
  pose proof (release_good (S (length (strip_v input1))) (strip_v input1) true ltac:(lia)) as H1.
  destruct (release (S (length (strip_v input1))) (strip_v input1) true) as [[nums rest]| | |]; cbn [bind good] in *; auto.
  destruct nums as [|n nums]; [exact I|].
  destruct (parse_pre e0 rest) as [[e1 vpre] rest1].
  destruct (parse_post e1 rest1) as [e2 rest2].
  destruct (parse_dev e2 rest2) as [e3 rest3].
  pose proof (parse_local_good e3 rest3) as H4.
  destruct (parse_local e3 rest3) as [[e4 rest4]| | |]; cbn [bind good] in *; auto.
  destruct rest4; exact I.
Qed.

(* Parse never panics and never runs out of fuel. *)
Lemma parse_pypi_good s : good (parse_pypi s).
Proof.
  unfold parse_pypi. destruct (negb (possible_pypi s)); [exact I|].
  pose proof (pep_init_good s) as H. destruct (pep_init s) as [[[[[nums unc] vpre] ispre] e]| | |]; cbn [bind good] in *; auto.
Qed.

(* Shape of every accepted version. *)
Lemma parse_pypi_shape s v : parse_pypi s = Ok v ->
  v_sys v = SPyPI /\ v_build v = [] /\ v_str v = s /\ exists e, v_ext v = Pep440Ext e.
Proof.
  unfold parse_pypi. destruct (negb (possible_pypi s)); [discriminate|].
  destruct (pep_init s) as [[[[[nums unc] vpre] ispre] e]| | |]; cbn [bind]; try discriminate.
  intros H. inversion H; subst; simpl. repeat split; auto. eexists; reflexivity.
Qed.

(* ---------- C01 on versions ---------- *)
(* What Parse delivers: a PyPI version carrying a PEP 440 extension. *)
Definition is_pypi (v : version) : Prop :=
  v_sys v = SPyPI /\ exists e, v_ext v = Pep440Ext e.

Lemma parse_pypi_is_pypi s v : parse_pypi s = Ok v -> is_pypi v /\ v_build v = [].
Proof. intros H. destruct (parse_pypi_shape s v H) as (A & B & _ & C). repeat split; auto. Qed.

Lemma parse_pypi_total s : exists r, parse_pypi s = Ok r \/ exists e, parse_pypi s = Err e.
Proof.
  pose proof (parse_pypi_good s) as H. destruct (parse_pypi s) as [v|e|p|]; simpl in H; try contradiction.
  - exists v; auto.
  - exists {| v_sys := SPyPI; v_user_num_count := 0; v_is_prerelease := false; v_str := []; v_num := [];
              v_pre := []; v_build := []; v_ext := NoExt |}. right. exists e; reflexivity.
Qed.

Definition ext_of (v : version) : option pep440 := match v_ext v with Pep440Ext e => e | _ => None end.

Lemma compare_pypi a b : is_pypi a -> is_pypi b ->
  compare a b = Ok (pypi_cmp (v_num a, ext_of a) (v_num b, ext_of b)).
Proof.
  intros [Sa [ea Ea]] [Sb [eb Eb]].
  unfold compare, ext_of. rewrite Sa, Sb, Ea, Eb. reflexivity.
Qed.

(* the integer returned by compare() (always Ok on PyPI versions, see compare_pypi) *)
Definition vcmp (a b : version) : Z := match compare a b with Ok z => z | _ => 0 end.

Lemma vcmp_pypi a b : is_pypi a -> is_pypi b -> vcmp a b = pypi_cmp (v_num a, ext_of a) (v_num b, ext_of b).
Proof. intros Pa Pb. unfold vcmp. rewrite (compare_pypi a b Pa Pb). reflexivity. Qed.

Lemma vcmp_core : cmp_core is_pypi vcmp.
Proof.
  eapply core_ext with (c := fun a b => pypi_cmp (v_num a, ext_of a) (v_num b, ext_of b)).
  - intros; symmetry; apply vcmp_pypi; auto.
  - apply (core_pullback (fun a : version => (v_num a, ext_of a)) is_pypi (fun _ => True) pypi_cmp); auto.
    apply pypi_cmp_core.
Qed.

Lemma vcmp_laws : cmp_laws is_pypi vcmp.
Proof. apply core_laws, vcmp_core. Qed.

Lemma vcmp_strings s1 s2 s3 v1 v2 v3 :
  parse_pypi s1 = Ok v1 -> parse_pypi s2 = Ok v2 -> parse_pypi s3 = Ok v3 ->
  vcmp v1 v1 = 0 /\
  Z.sgn (vcmp v1 v2) = - Z.sgn (vcmp v2 v1) /\
  (vcmp v1 v2 <= 0 -> vcmp v2 v3 <= 0 -> vcmp v1 v3 <= 0) /\
  (vcmp v1 v2 = 0 -> Z.sgn (vcmp v1 v3) = Z.sgn (vcmp v2 v3)).
Proof.
  intros H1 H2 H3.
  destruct (parse_pypi_is_pypi _ _ H1) as [P1 _], (parse_pypi_is_pypi _ _ H2) as [P2 _],
           (parse_pypi_is_pypi _ _ H3) as [P3 _].
  destruct vcmp_laws as [R S T C].
  split; [apply R; auto|]. split; [apply S; auto|]. split; [apply (T v1 v2 v3); auto | apply C; auto].
Qed.

Definition with_build (v : version) (x : bytes) : version :=
  {| v_sys := v_sys v; v_user_num_count := v_user_num_count v; v_is_prerelease := v_is_prerelease v;
     v_str := v_str v; v_num := v_num v; v_pre := v_pre v; v_build := x; v_ext := v_ext v |}.

Lemma vcmp_build a b x y : is_pypi a -> is_pypi b -> vcmp (with_build a x) (with_build b y) = vcmp a b.
Proof. intros [Sa [ea Ea]] [Sb [eb Eb]]. unfold vcmp, compare. simpl. rewrite Sa, Sb, Ea, Eb. reflexivity. Qed.

(* ---------- C10: the round trip through the canonical string ---------- *)
(* observable of the round trip on one string: canonical string, comparison of the
   original with the re-parsed version, canonical string of the re-parsed version *)
Definition round_trip (s : bytes) : option (bytes * Z * bytes) :=
  match parse_pypi s with
  | Ok v => match parse_pypi (canon true v) with
            | Ok v' => Some (canon true v, vcmp v v', canon true v')
            | _ => None
            end
  | _ => None
  end.


Lemma round_trip_inv s c z c' : round_trip s = Some (c, z, c') ->
  exists v v', parse_pypi s = Ok v /\ parse_pypi (canon true v) = Ok v' /\ c = canon true v /\ z = vcmp v v' /\ c' = canon true v'.
Proof.
  unfold round_trip. destruct (parse_pypi s) as [v| | |] eqn:E1; try discriminate.
  destruct (parse_pypi (canon true v)) as [v'| | |] eqn:E2; try discriminate.
  intros H; inversion H; subst. exists v, v'. repeat split; auto.
Qed.

