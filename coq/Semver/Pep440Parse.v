(* Model of semver.PyPI.Parse (util/semver/version.go: Parse, possibleVersionString;
   util/semver/pep440.go: pep440Extension.init and its helpers; extension.go: versionNext).
   Definitions only.  A Go string is a list of bytes; every place where Go decodes
   UTF-8 is written out on bytes (the only non-ASCII rune that matters is the
   infinity sign E2 88 9E; every other byte >= 0x80 behaves like the rune Go decodes).
   The tables (lettersInPyPI, pre and post spellings) come from Gen/SemverTables.v,
   regenerated from the Go sources on every run. *)
From DepsDev Require Import Lib.Base Semver.Version Semver.Pep440 Gen.SemverTables.
Local Open Scope Z_scope.

(* ---------- small byte helpers ---------- *)
Definition is_alpha (c : N) : bool :=
  (N.leb 97 c && N.leb c 122) || (N.leb 65 c && N.leb c 90).
Definition is_alnum (c : N) : bool := is_digit c || is_alpha c.
Definition mem_byte (c : N) (l : bytes) : bool := existsb (N.eqb c) l.

Fixpoint strip_prefix (p s : bytes) : option bytes :=
  match p, s with
  | [], _ => Some s
  | x :: p', y :: s' => if N.eqb x y then strip_prefix p' s' else None
  | _ :: _, [] => None
  end.

Fixpoint strip_any (ps : list bytes) (s : bytes) : option bytes :=
  match ps with
  | [] => None
  | p :: ps' => match strip_prefix p s with Some r => Some r | None => strip_any ps' s end
  end.

(* ---------- possibleVersionString, PyPI branch ---------- *)
(* i = index of the byte, n = how many of the first three bytes are left *)
Fixpoint possible_scan (s : bytes) (i n : nat) : bool :=
  match n with
  | O => true
  | S n' =>
      match s with
      | [] => true
      | c :: t =>
          if N.eqb c 46 || N.eqb c 45 || N.eqb c 43 then negb (Nat.eqb i 0)
          else if is_digit c || N.eqb c 42 || N.eqb c 120 || N.eqb c 88 then possible_scan t (S i) n'
          else if N.eqb c 33 || N.eqb c 95 then possible_scan t (S i) n'
          else if negb (Nat.eqb i 0) && mem_byte c letters_in_pypi then possible_scan t (S i) n'
          else false
      end
  end.

Definition strip_v (s : bytes) : bytes :=
  match s with
  | c :: t => if N.eqb c 118 || N.eqb c 86 then t else s
  | [] => s
  end.

Definition possible_pypi (s : bytes) : bool :=
  match strip_v s with
  | [] => false
  | s' => possible_scan s' 0 3
  end.

(* ---------- strings.TrimSpace ---------- *)
(* UTF-8 encodings of the runes for which unicode.IsSpace holds. *)
Definition space_seqs : list bytes :=
  [[9]; [10]; [11]; [12]; [13]; [32];
   [194; 133]; [194; 160]; [225; 154; 128];
   [226; 128; 128]; [226; 128; 129]; [226; 128; 130]; [226; 128; 131]; [226; 128; 132];
   [226; 128; 133]; [226; 128; 134]; [226; 128; 135]; [226; 128; 136]; [226; 128; 137];
   [226; 128; 138]; [226; 128; 168]; [226; 128; 169]; [226; 128; 175]; [226; 129; 159];
   [227; 128; 128]]%N.

Fixpoint trim_left (pats : list bytes) (fuel : nat) (s : bytes) : bytes :=
  match fuel with
  | O => s
  | S f => match strip_any pats s with Some r => trim_left pats f r | None => s end
  end.

(* linear-time reversal (List.rev is quadratic) *)
Definition frev (s : bytes) : bytes := rev_append s [].

Definition trim_space (s : bytes) : bytes :=
  let a := trim_left space_seqs (length s) s in
  frev (trim_left (map (@rev N) space_seqs) (length a) (frev a)).

(* ---------- the character check of init ---------- *)
Fixpoint chars_ok (s : bytes) : bool :=
  match s with
  | [] => true
  | c :: t =>
      if N.leb c 32 then false
      else if N.ltb c 127 then chars_ok t
      else match t with
           | c2 :: c3 :: t' =>
               if N.eqb c 226 && N.eqb c2 136 && N.eqb c3 158 then chars_ok t' else false
           | _ => false
           end
  end.

(* strings.IndexByte followed by the two slices input[:i], input[i+1:] *)
Fixpoint split_at_byte (b : N) (s : bytes) : option (bytes * bytes) :=
  match s with
  | [] => None
  | c :: t =>
      if N.eqb c b then Some ([], t)
      else match split_at_byte b t with
           | Some (x, y) => Some (c :: x, y)
           | None => None
           end
  end.

(* ---------- versionNext: the maximal run of numeric runes (digits, infinity sign) ---------- *)
Fixpoint num_run (s : bytes) : bytes * bytes :=
  match s with
  | [] => ([], [])
  | c :: t =>
      if is_digit c then let '(a, r) := num_run t in (c :: a, r)
      else match t with
           | c2 :: c3 :: t' =>
               if N.eqb c 226 && N.eqb c2 136 && N.eqb c3 158
               then let '(a, r) := num_run t' in (c :: c2 :: c3 :: a, r)
               else ([], s)
           | _ => ([], s)
           end
  end.

(* one release segment: a numeric run, or a single star when no numeric rune is first *)
Definition segment (s : bytes) : bytes * bytes :=
  match num_run s with
  | ([], _) => match s with
               | c :: t => if N.eqb c 42 then ([42%N], t) else ([], s)
               | [] => ([], s)
               end
  | (run, rest) => (run, rest)
  end.

(* parseNum *)
Definition parse_num (s : bytes) : option Z :=
  match s with
  | [c] => if is_digit c then Some (Z.of_N (c - 48)%N) else None
  | _ =>
      match parse_int s 64 with
      | None => None
      | Some n => if (n <? 0) || (infinity <=? n) then None else Some n
      end
  end.

Definition E_syntax : N := 1%N.

(* the value added for one release segment; [first] = no number has been added yet *)
Definition seg_value (seg : bytes) (first : bool) : option Z :=
  if bytes_eqb seg s_inf then Some infinity
  else if bytes_eqb seg [42%N] then (if first then None else Some wildcard)
  else parse_num seg.

(* the release loop of init; returns the numbers added and input[i:] *)
Fixpoint release (fuel : nat) (s : bytes) (first : bool) : res (list Z * bytes) :=
  match fuel with
  | O => OutOfFuel
  | S f =>
      match s with
      | [] => Ok ([], [])
      | _ =>
          let '(seg, rest) := segment s in
          match seg with
          | [] => Ok ([], s)
          | _ =>
              match seg_value seg first with
              | None => Err E_syntax
              | Some n =>
                  match rest with
                  | c :: rest' =>
                      if N.eqb c 46 then
                        match rest' with
                        | [] => Err E_syntax            (* trailing period *)
                        | _ => r <- release f rest' false ;; Ok (n :: fst r, snd r)
                        end
                      else Ok ([n], rest)
                  | [] => Ok ([n], rest)
                  end
              end
          end
      end
  end.

Fixpoint last_is_wildcard (l : list Z) : bool :=
  match l with
  | [] => false
  | [x] => x =? wildcard
  | _ :: t => last_is_wildcard t
  end.

(* for len(num) < 3 && num[len-1] != wildcard { addNum(0) } *)
Definition pad3 (l : list Z) : list Z :=
  if last_is_wildcard l then l
  else l ++ repeat 0 (3 - length l)%nat.

(* int16(len(num)) *)
Definition wrap16 (z : Z) : Z :=
  let m := z mod 65536 in if m <? 32768 then m else m - 65536.

(* int(uint64) *)
Definition to_int64 (z : Z) : Z :=
  let m := z mod 18446744073709551616 in
  if m <? 9223372036854775808 then m else m - 18446744073709551616.

Definition allow_sep (s : bytes) : bytes :=
  match s with
  | c :: t => if N.eqb c 46 || N.eqb c 45 || N.eqb c 95 then t else s
  | [] => s
  end.

(* strconv.ParseUint(s, 10, 64) with the error ignored: the scan stops at the first
   byte that is not a digit with result 0, or as soon as the value read so far exceeds
   2^64-1 with result 2^64-1 -- whichever comes first. *)
Definition max_uint64 : Z := 18446744073709551615.
Fixpoint parse_uint64_go (s : bytes) (acc : Z) : Z :=
  match s with
  | [] => acc
  | c :: t =>
      if is_digit c then
        let acc' := 10 * acc + Z.of_N (c - 48)%N in
        if max_uint64 <? acc' then max_uint64 else parse_uint64_go t acc'
      else 0
  end.

(* pep440Extension.number *)
Definition pep_number (s : bytes) : Z * bytes :=
  let s1 := allow_sep s in
  match num_run s1 with
  | ([], _) => (0, s1)
  | (run, rest) => (to_int64 (parse_uint64_go run 0), rest)
  end.

Fixpoint has_ascii_prefix (s pat : bytes) : bool :=
  match pat, s with
  | [], _ => true
  | p :: pat', c :: s' => N.eqb (N.lor c 32) p && has_ascii_prefix s' pat'
  | _ :: _, [] => false
  end.

Definition make_ext (e : option pep440) : pep440 :=
  match e with Some x => x | None => zero_pep440 end.

Definition set_epoch (x : pep440) (n : Z) : pep440 :=
  {| p_epoch := n; p_pre := p_pre x; p_prenum := p_prenum x; p_post := p_post x;
     p_postnum := p_postnum x; p_dev := p_dev x; p_devnum := p_devnum x; p_local := p_local x |}.
Definition set_pre (x : pep440) (s : bytes) (n : Z) : pep440 :=
  {| p_epoch := p_epoch x; p_pre := s; p_prenum := n; p_post := p_post x;
     p_postnum := p_postnum x; p_dev := p_dev x; p_devnum := p_devnum x; p_local := p_local x |}.
Definition set_post (x : pep440) (n : Z) : pep440 :=
  {| p_epoch := p_epoch x; p_pre := p_pre x; p_prenum := p_prenum x; p_post := true;
     p_postnum := n; p_dev := p_dev x; p_devnum := p_devnum x; p_local := p_local x |}.
Definition set_dev (x : pep440) (n : Z) : pep440 :=
  {| p_epoch := p_epoch x; p_pre := p_pre x; p_prenum := p_prenum x; p_post := p_post x;
     p_postnum := p_postnum x; p_dev := true; p_devnum := n; p_local := p_local x |}.
Definition set_local (x : pep440) (l : bytes) : pep440 :=
  {| p_epoch := p_epoch x; p_pre := p_pre x; p_prenum := p_prenum x; p_post := p_post x;
     p_postnum := p_postnum x; p_dev := p_dev x; p_devnum := p_devnum x; p_local := l |}.

(* first entry of pep440PreStrings that is a case-folded prefix *)
Fixpoint find_pre (l : list (bytes * bytes)) (s : bytes) : option (bytes * bytes) :=
  match l with
  | [] => None
  | (text, can) :: l' => if has_ascii_prefix s text then Some (text, can) else find_pre l' s
  end.

Fixpoint find_post (l : list bytes) (s : bytes) : option bytes :=
  match l with
  | [] => None
  | text :: l' => if has_ascii_prefix s text then Some text else find_post l' s
  end.

(* parsePre: returns the extension, v.pre, v.isPrerelease (only when a tag was found) and the rest *)
Definition parse_pre (e : option pep440) (orig : bytes) : option pep440 * option (list bytes) * bytes :=
  match orig with
  | [] => (e, None, orig)
  | _ =>
      let input := allow_sep orig in
      match find_pre pep440_pre_strings input with
      | None => (e, None, orig)
      | Some (text, can) =>
          let '(n, rest) := pep_number (skipn (length text) input) in
          (Some (set_pre (make_ext e) can n), Some [can; Z_to_dec n], rest)
      end
  end.

Definition parse_post (e : option pep440) (orig : bytes) : option pep440 * bytes :=
  match orig with
  | [] => (e, orig)
  | c0 :: _ =>
      let dash := N.eqb c0 45 in
      let input := allow_sep orig in
      let len := match find_post pep440_post_strings input with Some t => length t | None => O end in
      let implicit_ok :=
        match input with
        | d :: _ => dash && is_digit d
        | [] => false
        end in
      if Nat.eqb len 0 && negb implicit_ok then (e, orig)
      else
        let '(n, rest) := pep_number (skipn len input) in
        (Some (set_post (make_ext e) n), rest)
  end.

Definition s_dev : bytes := [100; 101; 118]%N.

Definition parse_dev (e : option pep440) (orig : bytes) : option pep440 * bytes :=
  match orig with
  | [] => (e, orig)
  | _ =>
      let input := allow_sep orig in
      if has_ascii_prefix input s_dev then
        let '(n, rest) := pep_number (skipn 3 input) in
        (Some (set_dev (make_ext e) n), rest)
      else (e, orig)
  end.

Definition local_char (c : N) : bool :=
  N.eqb c 46 || N.eqb c 45 || N.eqb c 95 || is_alnum c.

Definition dash_to_dot (c : N) : N := if N.eqb c 45 || N.eqb c 95 then 46%N else c.

(* parseLocal *)
Definition parse_local (e : option pep440) (input : bytes) : res (option pep440 * bytes) :=
  match input with
  | c0 :: c1 :: t =>
      if negb (N.eqb c0 43) then Ok (e, input)
      else if negb (forallb local_char (c1 :: t)) then Err E_syntax
      else if negb (is_alnum c1) || negb (is_alnum (last (c1 :: t) 0%N)) then Err E_syntax
      else Ok (Some (set_local (make_ext e) (map dash_to_dot (c1 :: t))), [])
  | _ => Ok (e, input)
  end.

(* the epoch part: bang > 0 => ParseUint(input[:bang], 10, 8) *)
Definition parse_epoch (input : bytes) : res (option pep440 * bytes) :=
  match split_at_byte 33 input with
  | Some (c :: before, after) =>
      match digits_val (c :: before) 0 with
      | Some n => if n <=? 255 then Ok (Some (set_epoch zero_pep440 n), after) else Err E_syntax
      | None => Err E_syntax
      end
  | _ => Ok (None, input)
  end.

(* pep440Extension.init on the (untrimmed) string; returns
   (num, userNumCount, pre, isPrerelease, ext) *)
Definition pep_init (str : bytes) : res (list Z * Z * list bytes * bool * option pep440) :=
  let input := trim_space str in
  if negb (chars_ok input) then Err E_syntax
  else
    r0 <- parse_epoch input ;;
    let '(e0, input1) := r0 in
    let input2 := strip_v input1 in
    r1 <- release (S (length input2)) input2 true ;;
    let '(nums, rest) := r1 in
    match nums with
    | [] => Err E_syntax
    | _ =>
        let unc := wrap16 (Z.of_nat (length nums)) in
        let nums3 := pad3 nums in
        let '(e1, vpre, rest1) := parse_pre e0 rest in
        let '(e2, rest2) := parse_post e1 rest1 in
        let '(e3, rest3) := parse_dev e2 rest2 in
        r4 <- parse_local e3 rest3 ;;
        let '(e4, rest4) := r4 in
        match rest4 with
        | [] => Ok (nums3, unc,
                    match vpre with Some l => l | None => [] end,
                    match vpre with Some _ => true | None => false end,
                    e4)
        | _ => Err E_syntax
        end
    end.

(* semver.PyPI.Parse *)
Definition parse_pypi (str : bytes) : res version :=
  if negb (possible_pypi str) then Err E_syntax
  else
    r <- pep_init str ;;
    let '(nums, unc, vpre, ispre, e) := r in
    Ok {| v_sys := SPyPI; v_user_num_count := unc; v_is_prerelease := ispre; v_str := str;
          v_num := nums; v_pre := vpre; v_build := []; v_ext := Pep440Ext e |}.

(* pypi.CanonVersion (util/pypi/metadata.go) *)
Definition canon_version (str : bytes) : bytes :=
  match parse_pypi str with
  | Ok v => pep_canon (v_num v) (match v_ext v with Pep440Ext e => e | _ => None end)
  | _ => str
  end.
