(* C02, RubyGems: the comparator model against Gem::Version (Spec/GemSpec.v) on the
   segments a parsed version stands for. *)
From Coq Require Import Lia.
From DepsDev Require Import Lib.Base Lib.Order Lib.PadLex Lib.BytesFacts Semver.Version Semver.Maven Semver.Gem
  Semver.GemDomain Semver.GemSegments Semver.GemParse Semver.Compare Semver.Generic_proofs Semver.Gem_proofs Spec.GemSpec.
Local Open Scope Z_scope.

(* ------------------------------------------------------------------ the reference loop is a padded lex *)
Definition gpad : seg := GInt 0.

Lemma seg_eqb_cmp x y : seg_eqb x y = (g_cmp_seg x y =? 0).
Proof.
  destruct x as [a|a], y as [b|b]; simpl; auto.
  - destruct (N.compare_spec a b); subst; simpl; [apply N.eqb_refl | |]; apply N.eqb_neq; lia.
  - symmetry. apply bcmp_eqb.
Qed.

Lemma g_cmp_l_pad l : g_cmp_l l = pad_l g_cmp_seg gpad l.
Proof. induction l as [|x t IH]; auto. cbn [g_cmp_l pad_l]. rewrite seg_eqb_cmp, IH. reflexivity. Qed.
Lemma g_cmp_r_pad l : g_cmp_r l = pad_r g_cmp_seg gpad l.
Proof. induction l as [|x t IH]; auto. cbn [g_cmp_r pad_r]. rewrite seg_eqb_cmp, IH. reflexivity. Qed.
Lemma g_cmp_pad a : forall b, g_cmp a b = pad_lex g_cmp_seg gpad a b.
Proof.
  induction a as [|x a IH]; intros b.
  - destruct b; [reflexivity|]. apply (g_cmp_r_pad (s :: b)).
  - destruct b as [|y b].
    + apply (g_cmp_l_pad (x :: a)).
    + cbn [g_cmp pad_lex]. rewrite seg_eqb_cmp, IH. reflexivity.
Qed.

(* ------------------------------------------------------------------ segment comparator laws *)
Definition seg_class (x : seg) : Z := match x with GStr _ => 0 | GInt _ => 1 end.
Definition seg_num (x : seg) : N := match x with GInt n => n | GStr _ => 0%N end.
Definition seg_str (x : seg) : bytes := match x with GStr s => s | GInt _ => [] end.

Lemma g_cmp_seg_lex x y :
  g_cmp_seg x y = lex (fun a b => cmpZ (seg_class a) (seg_class b))
                      (lex (fun a b => cmpN (seg_num a) (seg_num b)) (fun a b => bytes_compare (seg_str a) (seg_str b))) x y.
Proof.
  destruct x as [a|a], y as [b|b]; unfold lex; simpl; auto.
  - unfold cmpN. destruct (N.compare a b); reflexivity.
Qed.

Lemma sc_core : cmp_core (fun _ : seg => True) g_cmp_seg.
Proof.
  eapply core_ext; [intros; symmetry; apply g_cmp_seg_lex|].
  apply core_lex; [|apply core_lex].
  - apply (core_pullback seg_class (fun _ => True) (fun _ => True) cmpZ); auto. apply cmpZ_core.
  - apply (core_pullback seg_num (fun _ => True) (fun _ => True) cmpN); auto. apply cmpN_core.
  - apply (core_pullback seg_str (fun _ => True) (fun _ => True) bytes_compare); auto. apply bytes_core.
Qed.

(* padding a list with the padding value changes nothing *)
Lemma pad_lex_neutral_l l k l' :
  pad_lex g_cmp_seg gpad (l ++ repeat gpad k) l' = pad_lex g_cmp_seg gpad l l'.
Proof.
  set (n := Nat.max (length l + k) (length l')).
  rewrite (pad_lex_ext g_cmp_seg gpad (fun _ => True) sc_core I 1 (l ++ repeat gpad k) l' n)
    by (rewrite ?app_length, ?repeat_length; lia).
  rewrite (pad_lex_ext g_cmp_seg gpad (fun _ => True) sc_core I 1 l l' n) by lia.
  f_equal. unfold padto. rewrite <- app_assoc, <- repeat_app, app_length, repeat_length. f_equal. f_equal. lia.
Qed.
Lemma pad_lex_neutral_r l k l' :
  pad_lex g_cmp_seg gpad l' (l ++ repeat gpad k) = pad_lex g_cmp_seg gpad l' l.
Proof.
  set (n := Nat.max (length l + k) (length l')).
  rewrite (pad_lex_ext g_cmp_seg gpad (fun _ => True) sc_core I 1 l' (l ++ repeat gpad k) n)
    by (rewrite ?app_length, ?repeat_length; lia).
  rewrite (pad_lex_ext g_cmp_seg gpad (fun _ => True) sc_core I 1 l' l n) by lia.
  f_equal. unfold padto. rewrite <- app_assoc, <- repeat_app, app_length, repeat_length. f_equal. f_equal. lia.
Qed.

Lemma dtz_repeat l : exists k, l = drop_trailing_zeros l ++ repeat gpad k.
Proof.
  induction l as [|x t [k IH]]; [exists 0%nat; reflexivity|].
  simpl. destruct (drop_trailing_zeros t) as [|y t'] eqn:E.
  - simpl in IH. destruct (is_zero x) eqn:Z.
    + exists (S k). destruct x as [n|s]; simpl in Z; [|discriminate]. apply N.eqb_eq in Z. subst. reflexivity.
    + exists k. simpl. f_equal. auto.
  - exists k. simpl. f_equal. auto.
Qed.

Lemma pad_lex_dtz a b :
  pad_lex g_cmp_seg gpad (drop_trailing_zeros a) (drop_trailing_zeros b) = pad_lex g_cmp_seg gpad a b.
Proof.
  destruct (dtz_repeat a) as [k Ha], (dtz_repeat b) as [j Hb].
  rewrite Ha at 2. rewrite Hb at 2. rewrite pad_lex_neutral_l, pad_lex_neutral_r. reflexivity.
Qed.

(* ------------------------------------------------------------------ integer part, then the rest *)
(* a list of integers that does not end in 0 *)
Fixpoint nz_ints (l : list seg) : bool :=
  match l with
  | [] => true
  | x :: t =>
      match x with
      | GStr _ => false
      | GInt n => match t with [] => negb (N.eqb n 0) | _ => nz_ints t end
      end
  end.

Definition starts_str (l : list seg) : Prop := match l with GInt _ :: _ => False | _ => True end.

Lemma sc_pad_int n : g_cmp_seg gpad (GInt n) = if N.eqb n 0 then 0 else -1.
Proof. simpl. destruct n; reflexivity. Qed.
Lemma sc_int_pad n : g_cmp_seg (GInt n) gpad = if N.eqb n 0 then 0 else 1.
Proof. simpl. destruct n; reflexivity. Qed.

Lemma pad_r_nz a b : nz_ints a = true -> a <> [] -> pad_r g_cmp_seg gpad (a ++ b) = -1.
Proof.
  induction a as [|x t IH]; intros H Hn; [congruence|].
  destruct x as [n|s]; [|discriminate]. cbn [app pad_r]. rewrite sc_pad_int.
  destruct t as [|y t'].
  - simpl in H. apply negb_true_iff in H. rewrite H. reflexivity.
  - destruct (N.eqb n 0); auto. apply IH; [exact H | discriminate].
Qed.
Lemma pad_l_nz a b : nz_ints a = true -> a <> [] -> pad_l g_cmp_seg gpad (a ++ b) = 1.
Proof.
  induction a as [|x t IH]; intros H Hn; [congruence|].
  destruct x as [n|s]; [|discriminate]. cbn [app pad_l]. rewrite sc_int_pad.
  destruct t as [|y t'].
  - simpl in H. apply negb_true_iff in H. rewrite H. reflexivity.
  - destruct (N.eqb n 0); auto. apply IH; [exact H | discriminate].
Qed.

Lemma nz_ints_tail x t : nz_ints (x :: t) = true -> nz_ints t = true.
Proof. destruct x; [|discriminate]. destruct t; auto. Qed.
Lemma nz_ints_head x t : nz_ints (x :: t) = true -> exists n, x = GInt n.
Proof. destruct x; [eauto|discriminate]. Qed.

Lemma app_nil_r' {A} (l : list A) : l = l ++ []. Proof. symmetry; apply app_nil_r. Qed.

Lemma concat_lex a1 : forall a2 b1 b2,
  nz_ints a1 = true -> nz_ints a2 = true -> starts_str b1 -> starts_str b2 ->
  pad_lex g_cmp_seg gpad (a1 ++ b1) (a2 ++ b2) =
  lex (fun _ _ => pad_lex g_cmp_seg gpad a1 a2) (fun _ _ => pad_lex g_cmp_seg gpad b1 b2) tt tt.
Proof.
  unfold lex.
  induction a1 as [|x a1 IH]; intros a2 b1 b2 N1 N2 S1 S2.
  - destruct a2 as [|y a2]; [reflexivity|].
    assert (R : pad_lex g_cmp_seg gpad [] (y :: a2) = -1).
    { change (pad_r g_cmp_seg gpad (y :: a2) = -1). rewrite (app_nil_r' (y :: a2)). apply pad_r_nz; auto. discriminate. }
    rewrite R. simpl (-1 =? 0). cbv iota.
    destruct b1 as [|s b1].
    + change (pad_r g_cmp_seg gpad ((y :: a2) ++ b2) = -1). apply pad_r_nz; auto. discriminate.
    + destruct s as [n|s]; [contradiction|]. destruct (nz_ints_head _ _ N2) as [m ->]. reflexivity.
  - destruct a2 as [|y a2].
    + assert (R : pad_lex g_cmp_seg gpad (x :: a1) [] = 1).
      { change (pad_l g_cmp_seg gpad (x :: a1) = 1). rewrite (app_nil_r' (x :: a1)). apply pad_l_nz; auto. discriminate. }
      rewrite R. simpl (1 =? 0). cbv iota.
      destruct b2 as [|s b2].
      * change (pad_l g_cmp_seg gpad ((x :: a1) ++ b1) = 1). apply pad_l_nz; auto. discriminate.
      * destruct s as [n|s]; [contradiction|]. destruct (nz_ints_head _ _ N1) as [m ->]. reflexivity.
    + cbn [app pad_lex]. destruct (g_cmp_seg x y =? 0) eqn:E.
      * apply IH; eauto using nz_ints_tail.
      * rewrite E. reflexivity.
Qed.

Lemma nz_ints_dtz l : Forall (fun x => is_gstr x = false) l -> nz_ints (drop_trailing_zeros l) = true.
Proof.
  induction 1 as [|x t Hx Ht IH]; auto.
  simpl. destruct x as [n|s]; [|discriminate].
  destruct (drop_trailing_zeros t) as [|y t'] eqn:E.
  - simpl. destruct (N.eqb n 0) eqn:Z; simpl; auto. rewrite Z. reflexivity.
  - exact IH.
Qed.

(* ------------------------------------------------------------------ from the parsed structure to segments *)

(* elements as the parser builds them: numerals (value not negative) or words *)
Definition gwf (e : gem_elem) : Prop :=
  (gcat e = cat_numeric /\ 0 <= ge_int e) \/ gcat e = cat_qualifier.

Lemma pad_lex_map {A B} (c : A -> A -> Z) (c' : B -> B -> Z) (f : A -> B) (pad : A) (P : A -> Prop) :
  P pad -> (forall a b, P a -> P b -> c a b = c' (f a) (f b)) ->
  forall l1 l2, Forall P l1 -> Forall P l2 ->
  pad_lex c pad l1 l2 = pad_lex c' (f pad) (map f l1) (map f l2).
Proof.
  intros Hp H.
  assert (L : forall l, Forall P l -> pad_l c pad l = pad_l c' (f pad) (map f l)).
  { induction 1 as [|x t Hx _ IH]; simpl; auto. rewrite <- H, IH by auto. reflexivity. }
  assert (R : forall l, Forall P l -> pad_r c pad l = pad_r c' (f pad) (map f l)).
  { induction 1 as [|x t Hx _ IH]; simpl; auto. rewrite <- H, IH by auto. reflexivity. }
  induction l1 as [|x l1 IH]; intros l2 H1 H2.
  - destruct l2; simpl; auto. apply (R (a :: l2)); auto.
  - destruct l2 as [|y l2]; [apply (L (x :: l1)); auto|].
    inversion H1; inversion H2; subst. simpl. rewrite <- H, IH by auto. reflexivity.
Qed.

Lemma compare_nums_pad_lex a : forall b, compare_nums a b = pad_lex sgnZ 0 a b.
Proof.
  assert (L : forall l, cmp_zero_l l = pad_l sgnZ 0 l).
  { induction l as [|x t IH]; simpl; [reflexivity | rewrite IH; reflexivity]. }
  assert (R : forall l, cmp_zero_r l = pad_r sgnZ 0 l).
  { induction l as [|x t IH]; simpl; [reflexivity | rewrite IH; reflexivity]. }
  induction a as [|x a IH]; intros [|y b].
  - reflexivity.
  - apply (R (y :: b)).
  - apply (L (x :: a)).
  - simpl. rewrite IH. reflexivity.
Qed.

Lemma sgnZ_zint x y : 0 <= x -> 0 <= y -> sgnZ x y = g_cmp_seg (zint x) (zint y).
Proof.
  intros Hx Hy. unfold sgnZ, zint. simpl. rewrite <- (Z2N.inj_compare x y) by auto. reflexivity.
Qed.

Lemma compare_nums_segs a b : Forall (fun z => 0 <= z) a -> Forall (fun z => 0 <= z) b ->
  compare_nums a b = pad_lex g_cmp_seg gpad (map zint a) (map zint b).
Proof.
  intros Ha Hb. rewrite compare_nums_pad_lex.
  apply (pad_lex_map sgnZ g_cmp_seg zint 0 (fun z => 0 <= z)); auto; [lia|]. intros; apply sgnZ_zint; auto.
Qed.

Lemma ge_cmp_seg a b : gwf a -> gwf b -> ge_cmp a b = g_cmp_seg (seg_of a) (seg_of b).
Proof.
  intros Ha Hb. unfold ge_cmp, lex, seg_of, gnum, gstr.
  destruct Ha as [[Ca Ia]|Ca], Hb as [[Cb Ib]|Cb]; rewrite Ca, Cb; simpl.
  - change cmpZ with sgnZ. rewrite (sgnZ_zint _ _ Ia Ib). unfold zint. simpl.
    destruct (N.compare (Z.to_N (ge_int a)) (Z.to_N (ge_int b))); reflexivity.
  - reflexivity.
  - reflexivity.
  - reflexivity.
Qed.

Lemma gwf_pad : gwf gem_pad.
Proof. left. split; [reflexivity | simpl; lia]. Qed.

Lemma pre_segs xs ys : Forall gwf xs -> Forall gwf ys ->
  pad_lex ge_cmp gem_pad xs ys = pad_lex g_cmp_seg gpad (map seg_of xs) (map seg_of ys).
Proof.
  intros Hx Hy. apply (pad_lex_map ge_cmp g_cmp_seg seg_of gem_pad gwf gwf_pad ge_cmp_seg); auto.
Qed.

(* ------------------------------------------------------------------ agreement on structures *)
Definition first_word (l : list gem_elem) : Prop :=
  match l with [] => True | e :: _ => gcat e = cat_qualifier end.

(* what a parsed version looks like: numbers not negative; elements numerals or words, the
   first one a word (the prerelease starts at a letter or at the dash, which reads pre) *)
Definition gem_c02_wf (nums : list Z) (l : list gem_elem) : Prop :=
  Forall (fun z => 0 <= z) nums /\ Forall gwf l /\ first_word l.

Lemma seg_of_word e : gcat e = cat_qualifier -> seg_of e = GStr (ge_str e).
Proof. unfold seg_of. intros ->. reflexivity. Qed.

Lemma g_split_segs nums l : first_word l -> g_split (segs_of nums l) = (map zint nums, map seg_of l).
Proof.
  intros F. unfold segs_of. induction nums as [|n nums IH]; simpl.
  - destruct l as [|e t]; auto. simpl in *. rewrite (seg_of_word e F). reflexivity.
  - rewrite IH. reflexivity.
Qed.

Lemma starts_str_dtz b : starts_str b -> starts_str (drop_trailing_zeros b).
Proof.
  destruct b as [|x t]; simpl; auto. destruct x as [n|s0]; [contradiction|]. intros _.
  destruct (drop_trailing_zeros t); simpl; auto.
Qed.

Lemma zint_not_str nums : Forall (fun x => is_gstr x = false) (map zint nums).
Proof. induction nums; constructor; auto. Qed.

Lemma starts_str_segs l : first_word l -> starts_str (map seg_of l).
Proof. destruct l as [|e t]; simpl; auto. intros F. rewrite (seg_of_word e F). exact I. Qed.

Lemma pre_opt_segs xs ys : Forall gwf xs -> Forall gwf ys -> first_word xs -> first_word ys ->
  opt_cmp (pad_lex ge_cmp gem_pad) 1 (pre_opt xs) (pre_opt ys) =
  pad_lex g_cmp_seg gpad (map seg_of xs) (map seg_of ys).
Proof.
  intros Wx Wy Fx Fy. destruct xs as [|x xs], ys as [|y ys].
  - reflexivity.
  - simpl in Fy. simpl map. rewrite (seg_of_word y Fy). reflexivity.
  - simpl in Fx. simpl map. rewrite (seg_of_word x Fx). reflexivity.
  - change (pad_lex ge_cmp gem_pad (x :: xs) (y :: ys) = pad_lex g_cmp_seg gpad (map seg_of (x :: xs)) (map seg_of (y :: ys))).
    apply pre_segs; auto.
Qed.

Theorem gem_compare_spec na nb xs ys : gem_c02_wf na xs -> gem_c02_wf nb ys ->
  gem_compare na nb xs ys = g_cmp (g_canonical (segs_of na xs)) (g_canonical (segs_of nb ys)).
Proof.
  intros [Na [Wx Fx]] [Nb [Wy Fy]].
  rewrite (gem_compare_key na nb xs ys). unfold g_canonical.
  rewrite (g_split_segs na xs Fx), (g_split_segs nb ys Fy), g_cmp_pad.
  rewrite concat_lex; auto using nz_ints_dtz, zint_not_str, starts_str_segs, starts_str_dtz.
  unfold gem_key_cmp, lex. simpl fst. simpl snd.
  rewrite !pad_lex_dtz, <- (compare_nums_segs na nb Na Nb), (pre_opt_segs xs ys) by auto. reflexivity.
Qed.

(* on versions *)
Definition gem_c02_dom (v : version) : Prop :=
  v_sys v = SRubyGems /\ v_ext v = GemExt (gem_elems v) /\ gem_c02_wf (v_num v) (gem_elems v).


Theorem gem_compare_spec_v a b : gem_c02_dom a -> gem_c02_dom b ->
  compare a b = Ok (g_cmp (g_canonical (gem_segments a)) (g_canonical (gem_segments b))).
Proof.
  intros [Sa [Ea Wa]] [Sb [Eb Wb]]. unfold compare. rewrite Sa, Sb. simpl. rewrite Ea, Eb.
  f_equal. apply gem_compare_spec; auto.
Qed.

(* ------------------------------------------------------------------ witnesses *)
Definition s_123a0b : bytes := [49; 46; 50; 46; 51; 46; 97; 46; 48; 46; 98]%N.
Definition s_123a : bytes := [49; 46; 50; 46; 51; 46; 97]%N.

Definition cmp_strings (fixed : bool) (a b : bytes) : option Z :=
  match gem_parse_with fixed a, gem_parse_with fixed b with
  | Ok va, Ok vb => match compare va vb with Ok z => Some z | _ => None end
  | _, _ => None
  end.

(* F-C02-1: 1.2.3.a.0.b against 1.2.3.a; with the repaired trimming loop the two agree *)
Lemma gem_trim_witness :
  cmp_strings false s_123a0b s_123a = Some 0 /\ gspec_compare s_123a0b s_123a = Some (-1) /\
  cmp_strings true s_123a0b s_123a = Some (-1).
Proof. vm_compute. repeat split; reflexivity. Qed.

(* letters keep their case in Gem::Version *)
Definition s_10A : bytes := [49; 46; 48; 46; 65]%N.
Definition s_10a : bytes := [49; 46; 48; 46; 97]%N.
Lemma gem_case_witness :
  cmp_strings true s_10A s_10a = Some 0 /\ gspec_compare s_10A s_10a = Some (-1).
Proof. vm_compute. repeat split; reflexivity. Qed.

(* a segment that starts with a dash right after a dot *)
Definition s_1a0a : bytes := [49; 45; 97; 46; 48; 46; 97]%N.        (* 1-a.0.a *)
Definition s_1a_b : bytes := [49; 45; 97; 46; 45; 98]%N.            (* 1-a.-b *)
Lemma gem_dotdash_witness :
  cmp_strings true s_1a0a s_1a_b = Some (-1) /\ cmp_strings false s_1a0a s_1a_b = Some 0 /\
  gspec_compare s_1a0a s_1a_b = Some 1.
Proof. vm_compute. repeat split; reflexivity. Qed.

(* the pair of the repaired finding F-C01-3 agrees with the reference: 1.a = 1.a.00 *)
Lemma gem_tail_witness :
  cmp_strings true s_1a s_1a00 = Some 0 /\ gspec_compare s_1a s_1a00 = Some 0.
Proof. vm_compute. repeat split; reflexivity. Qed.

(* non-vacuity of the agreement theorem: 1.2.3.a.1 and 1.2.3 parse into its domain *)
Definition s_123a1 : bytes := [49; 46; 50; 46; 51; 46; 97; 46; 49]%N.
Definition s_123 : bytes := [49; 46; 50; 46; 51]%N.
(* the boolean form of the domain, shared with the harness *)
Lemma c02_wf_b_sound v : v_sys v = SRubyGems -> (exists l, v_ext v = GemExt l) -> c02_wf_b v = true -> gem_c02_dom v.
Proof.
  intros S [l E] H. unfold c02_wf_b in H.
  repeat (apply andb_true_iff in H; destruct H as [H ?]).
  split; auto. split; [unfold gem_elems; rewrite E; reflexivity|].
  split; [|split]; auto.
  - apply Forall_forall. intros z Hz. rewrite forallb_forall in H. apply Z.leb_le. auto.
  - apply Forall_forall. intros e He. rewrite forallb_forall in H1. specialize (H1 e He).
    apply orb_true_iff in H1. destruct H1 as [H1|H1].
    + apply andb_true_iff in H1. destruct H1 as [A B]. left. split; [apply Z.eqb_eq | apply Z.leb_le]; auto.
    + right. apply Z.eqb_eq; auto.
  - destruct (gem_elems v); simpl; auto. apply Z.eqb_eq; auto.
Qed.
Lemma gem_c02_nonvacuous :
  match gem_parse s_123a1, gem_parse s_123 with
  | Ok a, Ok b => c02_wf_b a = true /\ c02_wf_b b = true /\ compare a b = Ok (-1) /\
                  gspec_compare s_123a1 s_123 = Some (-1) /\
                  g_canonical (gem_segments a) = gspec_canonical s_123a1
  | _, _ => False
  end.
Proof. vm_compute. repeat split; reflexivity. Qed.
