(* The link between the two parsers: for every string that both semver.PyPI.Parse (model
   Pep440Parse.v) and the PEP 440 reference (Spec/Pep440Spec.v) accept, what Parse stores
   is what the reference version denotes (abs_rel), provided the pre/post/dev numbers
   fit 63 bits.  Proved by running both scanners on the same, arbitrary, string stage
   by stage. *)
From Coq Require Import List ZArith NArith Lia Bool.
From DepsDev Require Import Lib.Base Lib.Order Semver.Version Semver.Pep440 Semver.Pep440Parse
  Spec.Pep440Spec Semver.Pep440Abs Semver.Pep440_proofs Semver.Pep440Parse_proofs Semver.Pep440C02_proofs
  Gen.SemverTables.
Import ListNotations.
Local Open Scope Z_scope.

Local Arguments is_digit : simpl never.
Local Arguments sp_alpha : simpl never.
Local Arguments is_alpha : simpl never.
Local Arguments sp_sep : simpl never.

(* ---------- the two scanners share their character classes ---------- *)
Lemma opt_sep_allow_sep s : opt_sep s = allow_sep s.
Proof. destruct s; reflexivity. Qed.

Lemma sp_strip_v_strip_v s : sp_strip_v s = strip_v s.
Proof. destruct s; reflexivity. Qed.

Lemma sp_alnum_is_alnum c : sp_alnum c = is_alnum c.
Proof. reflexivity. Qed.

Definition ascii (s : bytes) : Prop := Forall (fun c => (c < 128)%N) s.

Lemma num_run_ascii s : ascii s -> num_run s = span_digits s.
Proof.
  induction 1 as [|c t Hc Ht IH]; simpl; auto.
  destruct (is_digit c); [rewrite IH; reflexivity|].
  destruct t as [|c2 [|c3 t']]; auto.
  destruct (N.eqb_spec c 226); [lia|]. reflexivity.
Qed.

Lemma span_digits_app s : s = fst (span_digits s) ++ snd (span_digits s).
Proof.
  induction s as [|c t IH]; simpl; auto. destruct (is_digit c); simpl; auto.
  destruct (span_digits t); simpl in *. congruence.
Qed.

Lemma span_digits_digits s : forallb is_digit (fst (span_digits s)) = true.
Proof.
  induction s as [|c t IH]; cbn [span_digits]; auto. destruct (is_digit c) eqn:E; auto.
  destruct (span_digits t) as [d r]; cbn [fst forallb] in *. rewrite E. auto.
Qed.

Lemma span_digits_rest s : match snd (span_digits s) with c :: _ => is_digit c = false | [] => True end.
Proof.
  induction s as [|c t IH]; simpl; auto. destruct (is_digit c) eqn:E; simpl; auto.
  destruct (span_digits t); simpl in *. auto.
Qed.

(* span_digits of digits followed by a non-digit *)
Lemma span_digits_split d r : forallb is_digit d = true ->
  match r with c :: _ => is_digit c = false | [] => True end ->
  span_digits (d ++ r) = (d, r).
Proof.
  intros Hd Hr. induction d as [|c d IH]; simpl in *.
  - destruct r as [|c r]; auto. simpl. rewrite Hr. reflexivity.
  - apply andb_true_iff in Hd. destruct Hd as [Hc Hd]. rewrite Hc. rewrite (IH Hd). reflexivity.
Qed.

(* ---------- case folding: str[i]|0x20 == pat[i] vs lower-casing ---------- *)
Fixpoint nrange (n : nat) : list N :=
  match n with O => [] | S k => nrange k ++ [N.of_nat k] end.

Lemma in_nrange n c : (c < N.of_nat n)%N -> In c (nrange n).
Proof.
  induction n as [|k IH]; intros H; [lia|].
  simpl. apply in_or_app. destruct (N.eq_dec c (N.of_nat k)) as [->|Hne].
  - right. left. reflexivity.
  - left. apply IH. lia.
Qed.

Definition letters : list N := map (fun k => (97 + N.of_nat k)%N) (seq 0 26).

Lemma fold_table :
  forallb (fun c => forallb (fun p => Bool.eqb (N.eqb (N.lor c 32) p) (N.eqb (ascii_lower c) p)) letters) (nrange 128) = true.
Proof. vm_compute. reflexivity. Qed.

Lemma in_letters p : (97 <= p <= 122)%N -> In p letters.
Proof.
  intros H. unfold letters. apply in_map_iff. exists (N.to_nat (p - 97)). split; [lia|].
  apply in_seq. lia.
Qed.

Lemma fold_eq c p : (97 <= p <= 122)%N -> N.eqb (N.lor c 32) p = N.eqb (ascii_lower c) p.
Proof.
  intros Hp. destruct (N.lt_ge_cases c 128) as [Hc|Hc].
  - pose proof fold_table as T. rewrite forallb_forall in T.
    specialize (T c (in_nrange 128 c Hc)). rewrite forallb_forall in T.
    specialize (T p (in_letters p Hp)). apply Bool.eqb_prop in T. exact T.
  - assert (L : (128 <= N.lor c 32)%N).
    { assert (7 <= N.log2 (N.lor c 32))%N.
      { rewrite N.log2_lor. apply N.max_le_iff. left.
        change 7%N with (N.log2 128). apply N.log2_le_mono. auto. }
      destruct (N.lt_ge_cases (N.lor c 32) 128) as [Hlt|]; auto.
      assert (N.lor c 32 <> 0)%N by (intros E; rewrite E in H; simpl in H; lia).
      change 128%N with (2 ^ 7)%N in Hlt. apply N.log2_lt_pow2 in Hlt; lia. }
    unfold ascii_lower.
    assert (N.leb c 90 = false) by (apply N.leb_gt; lia). rewrite H, andb_false_r.
    destruct (N.eqb_spec (N.lor c 32) p), (N.eqb_spec c p); auto; lia.
Qed.

Definition lower_word (w : bytes) : Prop := Forall (fun p => (97 <= p <= 122)%N) w.

Lemma has_ascii_prefix_ci w : lower_word w -> forall s,
  has_ascii_prefix s w = match ci_prefix w s with Some _ => true | None => false end.
Proof.
  induction 1 as [|p w Hp Hw IH]; intros s.
  - destruct s; reflexivity.
  - destruct s as [|c s]; simpl; auto. rewrite (fold_eq c p Hp).
    destruct (N.eqb (ascii_lower c) p); simpl; auto.
Qed.

Lemma ci_prefix_skipn w : forall s r, ci_prefix w s = Some r -> r = skipn (length w) s.
Proof.
  induction w as [|p w IH]; intros s r H; simpl in *.
  - congruence.
  - destruct s as [|c s]; [discriminate|]. destruct (N.eqb (ascii_lower c) p); [|discriminate]. auto.
Qed.

Lemma ci_prefix_alpha p w s r : (97 <= p <= 122)%N -> ci_prefix (p :: w) s = Some r ->
  exists c t, s = c :: t /\ sp_alpha c = true.
Proof.
  intros Hp H. simpl in H. destruct s as [|c s]; [discriminate|].
  destruct (N.eqb_spec (ascii_lower c) p) as [E|]; [|discriminate].
  exists c, s. split; auto. unfold sp_alpha, ascii_lower in *.
  destruct (N.leb_spec 65 c), (N.leb_spec c 90); simpl in *; auto;
    destruct (N.leb_spec 97 c), (N.leb_spec c 122); simpl; auto; lia.
Qed.

(* ---------- the spelling tables ---------- *)
Lemma c_rc_excl i r1 r2 : ci_prefix [99%N] i = Some r1 -> ci_prefix [114; 99]%N i = Some r2 -> False.
Proof.
  destruct i as [|c i]; simpl; [discriminate|].
  destruct (N.eqb_spec (ascii_lower c) 99) as [E|]; [|discriminate].
  rewrite E. simpl. discriminate.
Qed.

Ltac ci_step i :=
  match goal with
  | |- context [ci_prefix ?w i] =>
      let E := fresh "E" in destruct (ci_prefix w i) eqn:E; cbn [find_pre find_post first_word]
  end.

Ltac ci_done :=
  first [ exact I
        | exfalso; eapply c_rc_excl; eassumption
        | repeat split; try reflexivity; try lia;
          match goal with E : ci_prefix ?w ?i = Some ?b |- ?b = _ => exact (ci_prefix_skipn w i b E) end ].

Lemma find_pre_first_word i :
  match find_pre pep440_pre_strings i, first_word pre_words i with
  | Some (t, c), Some (k, r) => r = skipn (length t) i /\ c = pre_letter k /\ 0 <= k <= 2
  | None, None => True
  | _, _ => False
  end.
Proof.
  unfold pep440_pre_strings, pre_words. cbn [find_pre first_word].
  rewrite !has_ascii_prefix_ci by (repeat constructor; lia).
  repeat (ci_step i; try ci_done).
Qed.

Lemma find_post_first_word i :
  match find_post pep440_post_strings i, first_word post_words i with
  | Some t, Some (_, r) => r = skipn (length t) i
  | None, None => True
  | _, _ => False
  end.
Proof.
  unfold pep440_post_strings, post_words. cbn [find_post first_word].
  rewrite !has_ascii_prefix_ci by (repeat constructor; lia).
  repeat (ci_step i; try ci_done).
Qed.

Lemma dev_first_word i :
  match has_ascii_prefix i Pep440Parse.s_dev, first_word dev_words i with
  | true, Some (_, r) => r = skipn 3 i
  | false, None => True
  | _, _ => False
  end.
Proof.
  unfold Pep440Parse.s_dev, dev_words. cbn [first_word].
  rewrite !has_ascii_prefix_ci by (repeat constructor; lia).
  repeat (ci_step i; try ci_done).
Qed.

(* a matched word starts with a letter *)
Lemma first_word_alpha {X} (ws : list (bytes * X)) i x r :
  Forall (fun wx => exists p w, fst wx = p :: w /\ (97 <= p <= 122)%N) ws ->
  first_word ws i = Some (x, r) -> exists c t, i = c :: t /\ sp_alpha c = true.
Proof.
  induction 1 as [|[w y] ws (p & w' & Hw & Hp) Hws IH]; simpl; [discriminate|].
  simpl in Hw. subst w. destruct (ci_prefix (p :: w') i) eqn:E.
  - intros _. eapply ci_prefix_alpha; eauto.
  - auto.
Qed.

Lemma pre_words_alpha : Forall (fun wx : bytes * Z => exists p w, fst wx = p :: w /\ (97 <= p <= 122)%N) pre_words.
Proof. unfold pre_words. repeat constructor; simpl; eexists; eexists; split; try reflexivity; lia. Qed.
Lemma post_words_alpha : Forall (fun wx : bytes * unit => exists p w, fst wx = p :: w /\ (97 <= p <= 122)%N) post_words.
Proof. unfold post_words. repeat constructor; simpl; eexists; eexists; split; try reflexivity; lia. Qed.
Lemma dev_words_alpha : Forall (fun wx : bytes * unit => exists p w, fst wx = p :: w /\ (97 <= p <= 122)%N) dev_words.
Proof. unfold dev_words. repeat constructor; simpl; eexists; eexists; split; try reflexivity; lia. Qed.

(* ---------- numbers ---------- *)
Lemma dec_val_ge d : forall a, 0 <= a -> a <= dec_val d a.
Proof.
  induction d as [|c d IH]; intros a Ha; cbn [dec_val]; [lia|].
  assert (0 <= Z.of_N (c - 48)) by apply N2Z.is_nonneg.
  specialize (IH (10 * a + Z.of_N (c - 48)) ltac:(lia)). lia.
Qed.

Lemma sp_int_nonneg d : 0 <= sp_int d.
Proof. unfold sp_int. apply (dec_val_ge d 0). lia. Qed.

Lemma parse_uint64_go_dec d : forall a, 0 <= a -> forallb is_digit d = true -> dec_val d a <= max_uint64 ->
  parse_uint64_go d a = dec_val d a.
Proof.
  induction d as [|c d IH]; intros a Ha Hd Hm; cbn [parse_uint64_go dec_val] in *; auto.
  cbn [forallb] in Hd. apply andb_true_iff in Hd. destruct Hd as [Hc Hd]. rewrite Hc.
  assert (0 <= Z.of_N (c - 48)) by apply N2Z.is_nonneg.
  pose proof (dec_val_ge d (10 * a + Z.of_N (c - 48)) ltac:(lia)).
  destruct (Z.ltb_spec max_uint64 (10 * a + Z.of_N (c - 48))); [lia|].
  apply IH; auto; lia.
Qed.

Lemma to_int64_small v : 0 <= v < two63 -> to_int64 v = v.
Proof.
  unfold to_int64, two63. intros H. rewrite Z.mod_small by lia.
  destruct (Z.ltb_spec v 9223372036854775808); lia.
Qed.

(* pep440Extension.number on ASCII input *)
Lemma pep_number_spec i : ascii i ->
  pep_number i =
  (match fst (span_digits (opt_sep i)) with
   | [] => 0
   | d => to_int64 (parse_uint64_go d 0)
   end, snd (span_digits (opt_sep i))).
Proof.
  intros A. unfold pep_number. rewrite <- opt_sep_allow_sep.
  assert (A' : ascii (opt_sep i)).
  { destruct i as [|c t]; simpl; auto. inversion A; subst. destruct (sp_sep c); auto. }
  rewrite (num_run_ascii _ A').
  pose proof (span_digits_app (opt_sep i)) as E.
  destruct (span_digits (opt_sep i)) as [d r]. simpl in *.
  destruct d; simpl in *; congruence.
Qed.

Lemma go_number_value d : forallb is_digit d = true -> sp_int d < two63 ->
  match d with [] => 0 | n :: l => to_int64 (parse_uint64_go (n :: l) 0) end = sp_int d.
Proof.
  intros Hd Hw. destruct d as [|c d']; [reflexivity|].
  rewrite parse_uint64_go_dec; auto; try lia.
  - apply to_int64_small. split; [apply sp_int_nonneg | exact Hw].
  - unfold sp_int, two63, max_uint64 in *. lia.
Qed.

(* ---------- white space ---------- *)
Definition go_ws (c : N) : bool := (N.leb 9 c && N.leb c 13) || N.eqb c 32.

Lemma go_ws_sp_ws c : go_ws c = true -> sp_ws c = true.
Proof.
  unfold go_ws, sp_ws. intros H. apply orb_true_iff in H. destruct H as [H|H].
  - rewrite H. reflexivity.
  - apply N.eqb_eq in H. subst. reflexivity.
Qed.

Lemma dwe_app_last f s c : drop_while_end f (s ++ [c]) = if f c then drop_while_end f s else s ++ [c].
Proof.
  induction s as [|a s IH]; simpl.
  - destruct (f c); reflexivity.
  - rewrite IH. destruct (f c); auto.
    destruct (s ++ [c]) eqn:E; auto. apply app_eq_nil in E. destruct E; discriminate.
Qed.

Lemma rev_drop_while f s : rev (drop_while f (rev s)) = drop_while_end f s.
Proof.
  induction s as [|c x IH] using rev_ind; [reflexivity|].
  rewrite rev_unit. simpl. rewrite dwe_app_last. destruct (f c); auto.
  simpl. rewrite rev_involutive. reflexivity.
Qed.

Lemma dwe_sub f g s : (forall c, f c = true -> g c = true) ->
  drop_while_end g (drop_while_end f s) = drop_while_end g s.
Proof.
  intros Hfg. induction s as [|c t IH]; simpl; auto.
  destruct (drop_while_end f t) as [|a A] eqn:EA.
  - simpl in IH. rewrite <- IH.
    destruct (f c) eqn:Fc; simpl.
    + rewrite (Hfg c Fc). reflexivity.
    + reflexivity.
  - simpl. simpl in IH. rewrite IH. reflexivity.
Qed.

Lemma dwe_id g s : Forall (fun c => g c = false) s -> drop_while_end g s = s.
Proof.
  induction 1 as [|c t Hc Ht IH]; simpl; auto. rewrite IH. destruct t; auto. rewrite Hc. reflexivity.
Qed.

Lemma chars_ok_gt32 s : chars_ok s = true -> Forall (fun c => (32 < c)%N) s.
Proof.
  induction s as [s IH] using bytes_len_ind.
  destruct s as [|c t]; simpl; [constructor|].
  destruct (N.leb_spec c 32); [discriminate|].
  destruct (N.ltb_spec c 127).
  - intros H'. constructor; [assumption | apply IH; [simpl; lia | assumption]].
  - destruct t as [|c2 [|c3 t']]; try discriminate.
    destruct (N.eqb_spec c 226); [|discriminate]. destruct (N.eqb_spec c2 136); [|discriminate].
    destruct (N.eqb_spec c3 158); [|discriminate]. simpl. intros H'. subst.
    constructor; [lia|]. constructor; [lia|]. constructor; [lia|]. apply IH; [simpl; lia | assumption].
Qed.

(* strip_any on the space table, for an ASCII first byte *)
Lemma strip_any_spaces c t : (c < 128)%N ->
  strip_any space_seqs (c :: t) = if go_ws c then Some t else None.
Proof.
  intros Hc. pose proof (in_nrange 128 c Hc) as H. cbv [nrange app N.of_nat Pos.of_succ_nat Pos.succ] in H.
  repeat (destruct H as [<-|H]; [reflexivity|]). destruct H.
Qed.

Lemma strip_any_rev_spaces c t : (c < 128)%N ->
  strip_any (map (@rev N) space_seqs) (c :: t) = if go_ws c then Some t else None.
Proof.
  intros Hc. pose proof (in_nrange 128 c Hc) as H. cbv [nrange app N.of_nat Pos.of_succ_nat Pos.succ] in H.
  repeat (destruct H as [<-|H]; [reflexivity|]). destruct H.
Qed.

Lemma trim_left_rev_ascii n : forall r, ascii r -> (length r <= n)%nat ->
  trim_left (map (@rev N) space_seqs) n r = drop_while go_ws r.
Proof.
  induction n as [|n IH]; intros r A L.
  - destruct r; [reflexivity | simpl in L; lia].
  - destruct r as [|c t]; [reflexivity|]. inversion A; subst.
    cbn [trim_left]. rewrite strip_any_rev_spaces by auto. simpl.
    destruct (go_ws c); auto. apply IH; auto. simpl in L. lia.
Qed.

Lemma frev_rev s : frev s = rev s.
Proof. unfold frev. rewrite rev_append_rev. apply app_nil_r. Qed.

Lemma ascii_rev s : ascii s -> ascii (rev s).
Proof. apply Forall_rev. Qed.

(* TrimSpace on an ASCII string that does not start with white space *)
Lemma trim_space_ascii c t : ascii (c :: t) -> go_ws c = false ->
  trim_space (c :: t) = drop_while_end go_ws (c :: t).
Proof.
  intros A Hc. unfold trim_space. inversion A; subst.
  assert (E : trim_left space_seqs (length (c :: t)) (c :: t) = c :: t).
  { cbn [length trim_left]. rewrite strip_any_spaces by auto. rewrite Hc. reflexivity. }
  rewrite E. rewrite !frev_rev.
  rewrite trim_left_rev_ascii; [apply rev_drop_while | apply ascii_rev; auto | rewrite rev_length; lia].
Qed.

(* ---------- the core string is the same for both ---------- *)
Lemma possible_first s : possible_pypi s = true -> exists c t, s = c :: t /\ sp_ws c = false.
Proof.
  unfold possible_pypi. destruct s as [|c t]; [discriminate|].
  unfold strip_v.
  destruct (N.eqb_spec c 118) as [->|N1]; [intros _; exists 118%N, t; split; reflexivity|].
  destruct (N.eqb_spec c 86) as [->|N2]; [intros _; exists 86%N, t; split; reflexivity|].
  cbn [orb possible_scan]. intros H. exists c, t. split; auto.
  revert H. unfold is_digit, sp_ws.
  destruct (N.eqb_spec c 46); [subst; discriminate|].
  destruct (N.eqb_spec c 45); [subst; discriminate|].
  destruct (N.eqb_spec c 43); [subst; discriminate|]. cbn [orb].
  destruct (N.leb_spec 9 c), (N.leb_spec c 13), (N.leb_spec 28 c), (N.leb_spec c 32); cbn [andb orb]; auto; try lia;
    destruct (N.leb_spec 48 c), (N.leb_spec c 57); cbn [andb orb]; try lia;
    destruct (N.eqb_spec c 42), (N.eqb_spec c 120), (N.eqb_spec c 88), (N.eqb_spec c 33), (N.eqb_spec c 95);
    cbn [orb andb negb Nat.eqb]; try lia; try discriminate.
Qed.

Lemma is_ascii_ascii s : is_ascii s = true -> ascii s.
Proof.
  unfold is_ascii, ascii. intros H. apply Forall_forall. intros c Hc. rewrite forallb_forall in H.
  apply N.ltb_lt. auto.
Qed.

Lemma cores_equal s : is_ascii s = true -> possible_pypi s = true -> chars_ok (trim_space s) = true ->
  sp_strip s = trim_space s.
Proof.
  intros A P C. apply is_ascii_ascii in A.
  destruct (possible_first s P) as (c & t & -> & Hc).
  assert (Hg : go_ws c = false).
  { destruct (go_ws c) eqn:E; auto. apply go_ws_sp_ws in E. congruence. }
  rewrite (trim_space_ascii c t A Hg) in *.
  unfold sp_strip. cbn [drop_while]. rewrite Hc.
  rewrite <- (dwe_sub go_ws sp_ws (c :: t) go_ws_sp_ws).
  apply dwe_id. apply chars_ok_gt32 in C.
  eapply Forall_impl; [|exact C]. intros a Ha. cbv beta in Ha. unfold sp_ws.
  destruct (N.leb_spec 9 a), (N.leb_spec a 13), (N.leb_spec 28 a), (N.leb_spec a 32); simpl; auto; lia.
Qed.

Lemma ascii_dwe f s : ascii s -> ascii (drop_while_end f s).
Proof.
  induction 1 as [|c t Hc Ht IH]; simpl; [constructor|].
  destruct (drop_while_end f t); [destruct (f c); constructor; auto | constructor; auto].
Qed.

(* ---------- suffixes stay ASCII ---------- *)
Lemma ascii_skipn n s : ascii s -> ascii (skipn n s).
Proof. revert s. induction n; intros s A; simpl; auto. destruct s; auto. inversion A; auto. Qed.

Lemma ascii_opt_sep s : ascii s -> ascii (opt_sep s).
Proof. intros A. destruct s as [|c t]; simpl; auto. inversion A; subst. destruct (sp_sep c); auto. Qed.

Lemma ascii_span_digits s : ascii s -> ascii (snd (span_digits s)).
Proof.
  induction 1 as [|c t Hc Ht IH]; simpl; [constructor|].
  destruct (is_digit c); [|constructor; auto]. destruct (span_digits t); simpl in *; auto.
Qed.

Lemma ascii_app_r a b : ascii (a ++ b) -> ascii b.
Proof. intros H. apply Forall_app in H. tauto. Qed.

(* ---------- epoch and the optional v ---------- *)
Lemma split_at_byte_spec b s : match split_at_byte b s with
  | Some (x, y) => s = x ++ b :: y /\ ~ In b x
  | None => ~ In b s
  end.
Proof.
  induction s as [|c t IH]; simpl; auto.
  destruct (N.eqb_spec c b) as [->|Hne].
  - split; auto.
  - destruct (split_at_byte b t) as [[x y]|].
    + destruct IH as [-> Hn]. split; auto. simpl. intros [E|E]; auto.
    + intros [E|E]; auto.
Qed.

Lemma digits_val_some d : forall a n, digits_val d a = Some n -> forallb is_digit d = true /\ n = dec_val d a.
Proof.
  induction d as [|c d IH]; intros a n H; cbn [digits_val dec_val forallb] in *.
  - inversion H. auto.
  - destruct (is_digit c); [|discriminate]. apply IH in H. simpl. exact H.
Qed.

Lemma sp_release_digit f s rel s2 : sp_release f s = Some (rel, s2) ->
  exists c t, s = c :: t /\ is_digit c = true.
Proof.
  destruct f; [discriminate|]. simpl.
  pose proof (span_digits_app s) as A. pose proof (span_digits_digits s) as D.
  destruct (span_digits s) as [[|c d] r]; [discriminate|]. intros _.
  simpl in *. apply andb_true_iff in D. destruct D as [D _]. exists c, (d ++ r). split; auto.
Qed.

Lemma digit_not_v c : is_digit c = true -> N.eqb c 118 || N.eqb c 86 = false.
Proof.
  unfold is_digit. intros H. apply andb_true_iff in H. destruct H as [H1 H2].
  apply N.leb_le in H1, H2. destruct (N.eqb_spec c 118), (N.eqb_spec c 86); auto; lia.
Qed.

Lemma strip_v_digit c t : is_digit c = true -> strip_v (c :: t) = c :: t.
Proof. intros H. unfold strip_v. rewrite (digit_not_v c H). reflexivity. Qed.

Lemma epoch_stage c e0 input1 ep s1 f rel s2 g nums rest :
  parse_epoch c = Ok (e0, input1) ->
  sp_epoch (strip_v c) = (ep, s1) ->
  sp_release f s1 = Some (rel, s2) ->
  release g (strip_v input1) true = Ok (nums, rest) -> nums <> [] ->
  strip_v input1 = s1 /\ make_ext e0 = set_epoch zero_pep440 ep /\ 0 <= ep.
Proof.
  unfold parse_epoch. pose proof (split_at_byte_spec 33 c) as Sp.
  destruct (split_at_byte 33 c) as [[[|c0 before] after]|].
  - (* the string starts with a bang: Go finds no number *)
    destruct Sp as [-> _]. intros E _ _ R Hn. inversion E; subst.
    exfalso. apply Hn. destruct g; [discriminate|].
    change (strip_v (33%N :: after)) with (33%N :: after) in R.
    cbn [release] in R. unfold segment in R. cbn [num_run] in R.
    change (is_digit 33) with false in R. cbv iota in R.
    destruct after as [|c2 [|c3 t']]; cbn in R; inversion R; reflexivity.
  - destruct Sp as [-> Hn33].
    destruct (digits_val (c0 :: before) 0) as [n|] eqn:Dv; [|discriminate].
    destruct (n <=? 255); [|discriminate]. intros E Se Sr R Hn. inversion E; subst.
    destruct (digits_val_some _ _ _ Dv) as [Dg ->].
    assert (D0 : is_digit c0 = true) by (cbn [forallb] in Dg; apply andb_true_iff in Dg; tauto).
    change ((c0 :: before) ++ 33%N :: input1) with (c0 :: (before ++ 33%N :: input1)) in Se.
    rewrite (strip_v_digit c0 _ D0) in Se.
    unfold sp_epoch in Se.
    change (c0 :: before ++ 33%N :: input1) with ((c0 :: before) ++ 33%N :: input1) in Se.
    rewrite (span_digits_split (c0 :: before) (33%N :: input1) Dg eq_refl) in Se.
    cbn in Se. inversion Se; subst.
    destruct (sp_release_digit _ _ _ _ Sr) as (d & t & -> & Hd).
    rewrite (strip_v_digit d t Hd). repeat split; auto.
    pose proof (dec_val_ge before (Z.of_N (c0 - 48)) (N2Z.is_nonneg _)).
    pose proof (N2Z.is_nonneg (c0 - 48)). lia.
  - intros E Se Sr R Hn. inversion E; subst.
    assert (Se' : sp_epoch (strip_v input1) = (0, strip_v input1)).
    { unfold sp_epoch. pose proof (span_digits_app (strip_v input1)) as A.
      destruct (span_digits (strip_v input1)) as [[|d0 d] r]; auto.
      destruct r as [|b r']; auto. destruct (N.eqb_spec b 33) as [->|]; auto.
      exfalso. apply Sp. simpl in A.
      assert (In 33%N (strip_v input1)) by (rewrite A; simpl; right; apply in_or_app; right; left; reflexivity).
      unfold strip_v in H. destruct input1 as [|x y]; auto.
      destruct (N.eqb x 118 || N.eqb x 86); auto. right; auto. }
    rewrite Se' in Se. inversion Se; subst. repeat split; auto. lia.
Qed.

(* ---------- release segments ---------- *)
Lemma digit_cases c : is_digit c = true ->
  In c [48; 49; 50; 51; 52; 53; 54; 55; 56; 57]%N.
Proof.
  unfold is_digit. intros H. apply andb_true_iff in H. destruct H as [H1 H2]. apply N.leb_le in H1, H2.
  assert (E : (c = 48 \/ c = 49 \/ c = 50 \/ c = 51 \/ c = 52 \/ c = 53 \/ c = 54 \/ c = 55 \/ c = 56 \/ c = 57)%N) by lia.
  simpl. intuition.
Qed.

Lemma parse_num_digits d n : d <> [] -> forallb is_digit d = true -> parse_num d = Some n -> n = sp_int d.
Proof.
  intros Hne Hd. destruct d as [|c0 d']; [congruence|].
  assert (D0 : is_digit c0 = true) by (cbn [forallb] in Hd; apply andb_true_iff in Hd; tauto).
  unfold parse_num. destruct d' as [|c1 d''].
  - rewrite D0. intros H. inversion H. unfold sp_int. cbn [dec_val]. lia.
  - assert (P : parse_int (c0 :: c1 :: d'') 64 =
                match digits_val (c0 :: c1 :: d'') 0 with
                | None => None
                | Some n0 => if (n0 <? - 2 ^ (64 - 1)) || (2 ^ (64 - 1) - 1 <? n0) then None else Some n0
                end).
    { pose proof (digit_cases c0 D0) as I. simpl in I.
      repeat (destruct I as [<-|I]; [reflexivity|]). destruct I. }
    rewrite P. rewrite (digits_val_dec _ 0 Hd).
    destruct ((dec_val (c0 :: c1 :: d'') 0 <? - 2 ^ (64 - 1)) || (2 ^ (64 - 1) - 1 <? dec_val (c0 :: c1 :: d'') 0)); [discriminate|].
    destruct ((dec_val (c0 :: c1 :: d'') 0 <? 0) || (infinity <=? dec_val (c0 :: c1 :: d'') 0)); [discriminate|].
    intros H. inversion H. reflexivity.
Qed.

Lemma digits_not_special d : d <> [] -> forallb is_digit d = true ->
  bytes_eqb d s_inf = false /\ bytes_eqb d [42%N] = false.
Proof.
  intros Hne Hd. destruct d as [|c0 d']; [congruence|].
  assert (D0 : is_digit c0 = true) by (cbn [forallb] in Hd; apply andb_true_iff in Hd; tauto).
  pose proof (digit_cases c0 D0) as I. simpl in I.
  repeat (destruct I as [<-|I]; [split; reflexivity|]). destruct I.
Qed.

Lemma segment_digits s : ascii s -> fst (span_digits s) <> [] -> segment s = span_digits s.
Proof.
  intros A H. unfold segment. rewrite (num_run_ascii s A).
  destruct (span_digits s) as [[|c d] r]; [simpl in H; congruence | reflexivity].
Qed.

Lemma segment_nodigit c t : ascii (c :: t) -> is_digit c = false ->
  segment (c :: t) = if N.eqb c 42 then ([42%N], t) else ([], c :: t).
Proof.
  intros A H. unfold segment. rewrite (num_run_ascii _ A). cbn [span_digits]. rewrite H. reflexivity.
Qed.

Lemma sp_release_unfold f s :
  sp_release (S f) s =
  match span_digits s with
  | ([], _) => None
  | (d, r) =>
      match r with
      | c :: r' =>
          if N.eqb c 46 then
            match sp_release f r' with
            | Some (l, r'') => Some (sp_int d :: l, r'')
            | None => Some ([sp_int d], r)
            end
          else Some ([sp_int d], r)
      | [] => Some ([sp_int d], r)
      end
  end.
Proof. reflexivity. Qed.

(* Both release loops on the same ASCII string.  Either they stop at the same place, or
   the reference stops before a dot that Go swallows, or Go goes on into a wildcard. *)
Lemma release_stage f : forall g s first rel s2 nums rest,
  ascii s -> (length s <= f)%nat ->
  sp_release (S f) s = Some (rel, s2) -> release g s first = Ok (nums, rest) ->
  (nums = rel /\ nonneg rel /\ (rest = s2 \/ (s2 = 46%N :: rest /\ rest <> []))) \/
  (exists t, s2 = 46%N :: 42%N :: t).
Proof.
  induction f as [|f IH]; intros g s first rel s2 nums rest A L HS R.
  - destruct s; [|simpl in L; lia]. discriminate.
  - rewrite sp_release_unfold in HS.
    pose proof (span_digits_app s) as App. pose proof (span_digits_digits s) as Dg.
    pose proof (span_digits_rest s) as Rs.
    destruct (span_digits s) as [d r] eqn:Sd. cbn [fst snd] in *.
    destruct d as [|c0 d']; [discriminate|].
    set (d := c0 :: d') in *.
    assert (Hne : d <> []) by (unfold d; discriminate).
    destruct g as [|g]; [discriminate|]. cbn [release] in R.
    destruct s as [|x s']; [discriminate|].
    rewrite (segment_digits (x :: s') A) in R by (rewrite Sd; auto).
    rewrite Sd in R. fold d in R. unfold d at 1 in R. fold d in R.
    unfold seg_value in R. destruct (digits_not_special d Hne Dg) as [E1 E2]. rewrite E1, E2 in R.
    destruct (parse_num d) as [n|] eqn:Pn; [|discriminate].
    apply (parse_num_digits d n Hne Dg) in Pn. subst n.
    assert (Ar : ascii r) by (rewrite App in A; apply ascii_app_r in A; auto).
    assert (Lr : (length r < length (x :: s'))%nat).
    { rewrite App. rewrite app_length. unfold d. simpl. lia. }
    destruct r as [|c r'].
    + inversion HS; subst. inversion R; subst. left. repeat split; auto.
      constructor; [apply sp_int_nonneg | constructor].
    + destruct (N.eqb_spec c 46) as [->|Hc].
      * destruct r' as [|c' r'']; [discriminate|].
        assert (Ar' : ascii (c' :: r'')) by (inversion Ar; auto).
        destruct (release g (c' :: r'') false) as [[l rr]| | |] eqn:R'; cbn [bind fst snd] in R; try discriminate.
        inversion R; subst nums rest.
        destruct (sp_release (S f) (c' :: r'')) as [[l' r''']|] eqn:S'.
        -- inversion HS; subst rel s2.
           destruct (IH g (c' :: r'') false l' r''' l rr Ar' ltac:(simpl in *; lia) S' R') as [(E & N & D)|X].
           ++ left. subst l'. repeat split; auto. constructor; [apply sp_int_nonneg | auto].
           ++ right. exact X.
        -- inversion HS; subst rel s2.
           (* the reference stops here: no digit follows the dot *)
           cbn [sp_release] in S'.
           destruct (is_digit c') eqn:Dc'.
           { exfalso. cbn [span_digits] in S'. rewrite Dc' in S'.
             destruct (span_digits r'') as [d2 r2].
             destruct r2 as [|c2 r2']; [discriminate|].
             destruct (N.eqb c2 46); [|discriminate].
             destruct (sp_release f r2') as [[? ?]|]; discriminate. }
           destruct g as [|g]; [discriminate|]. cbn [release] in R'.
           rewrite (segment_nodigit c' r'' Ar' Dc') in R'.
           destruct (N.eqb_spec c' 42) as [->|Hs].
           ++ right. exists r''. reflexivity.
           ++ inversion R'; subst l rr. left. repeat split; auto.
              ** constructor; [apply sp_int_nonneg | constructor].
              ** right. split; [reflexivity | discriminate].
      * inversion HS; subst. inversion R; subst. left. repeat split; auto.
        constructor; [apply sp_int_nonneg | constructor].
Qed.

(* ---------- pre, post, dev ---------- *)
Definition alpha_start (s : bytes) : Prop := exists c t, s = c :: t /\ sp_alpha c = true.

(* the reference may still hold a dot that Go has already swallowed *)
Definition Rrel (rs rg : bytes) : Prop := rg = rs \/ (rs = 46%N :: rg /\ alpha_start rg).

Lemma alpha_props c : sp_alpha c = true -> sp_sep c = false /\ is_digit c = false /\ N.eqb c 45 = false /\ N.eqb c 43 = false.
Proof.
  unfold sp_alpha, sp_sep, is_digit. intros H.
  destruct (N.leb_spec 97 c), (N.leb_spec c 122), (N.leb_spec 65 c), (N.leb_spec c 90); simpl in H; try discriminate;
    destruct (N.eqb_spec c 46), (N.eqb_spec c 45), (N.eqb_spec c 95), (N.eqb_spec c 43), (N.leb_spec 48 c), (N.leb_spec c 57);
    simpl; repeat split; auto; lia.
Qed.

Lemma Rrel_input rs rg : Rrel rs rg -> opt_sep rs = allow_sep rg.
Proof.
  intros [->|[-> (c & t & -> & Hc)]].
  - apply opt_sep_allow_sep.
  - destruct (alpha_props c Hc) as (Hs & _). rewrite <- (opt_sep_allow_sep (c :: t)). simpl. rewrite Hs. reflexivity.
Qed.

Lemma Rrel_nil rs : Rrel rs [] -> rs = [].
Proof. intros [E|[_ (c & t & E & _)]]; [auto | discriminate]. Qed.

Lemma tagged_number r : ascii r ->
  sp_int (fst (span_digits (opt_sep r))) < two63 ->
  pep_number r = (sp_int (fst (span_digits (opt_sep r))), snd (span_digits (opt_sep r))).
Proof.
  intros A W. rewrite (pep_number_spec r A). f_equal.
  apply go_number_value; auto. apply span_digits_digits.
Qed.

Lemma ascii_allow_sep s : ascii s -> ascii (allow_sep s).
Proof. rewrite <- opt_sep_allow_sep. apply ascii_opt_sep. Qed.

Lemma first_word_nil {X} (ws : list (bytes * X)) :
  Forall (fun wx => exists p w, fst wx = p :: w /\ (97 <= p <= 122)%N) ws -> first_word ws [] = None.
Proof.
  induction 1 as [|[w y] ws (p & w' & Hw & Hp) Hws IH]; simpl; auto.
  simpl in Hw. subst w. simpl. auto.
Qed.

Lemma pre_stage e rs rg e1 vpre rest1 pre s3 :
  Rrel rs rg -> ascii rg ->
  parse_pre e rg = (e1, vpre, rest1) -> sp_pre rs = (pre, s3) ->
  match pre with Some (_, n) => n < two63 | None => True end ->
  Rrel s3 rest1 /\ ascii rest1 /\
  make_ext e1 = match pre with Some (k, n) => set_pre (make_ext e) (pre_letter k) n | None => make_ext e end /\
  match pre with Some (k, n) => 0 <= k <= 2 /\ 0 <= n | None => True end.
Proof.
  intros R A G Sp W. unfold sp_pre, sp_tagged in Sp. rewrite (Rrel_input rs rg R) in Sp.
  unfold parse_pre in G.
  destruct rg as [|g0 gt].
  - apply Rrel_nil in R. subst rs. inversion G; subst.
    change (allow_sep []) with (@nil N) in Sp. rewrite (first_word_nil _ pre_words_alpha) in Sp.
    inversion Sp; subst. repeat split; auto. left; reflexivity.
  - set (input := allow_sep (g0 :: gt)) in *.
    pose proof (find_pre_first_word input) as T.
    destruct (find_pre pep440_pre_strings input) as [[text can]|];
      destruct (first_word pre_words input) as [[k r]|]; try contradiction.
    + destruct T as (Er & Ec & Hk). subst r can.
      assert (Ar : ascii (skipn (length text) input)) by (apply ascii_skipn, ascii_allow_sep; auto).
      destruct (span_digits (opt_sep (skipn (length text) input))) as [d s4] eqn:Sd.
      inversion Sp; subst pre s3. cbv beta iota in W.
      pose proof (tagged_number _ Ar) as Tn. rewrite Sd in Tn. cbn [fst snd] in Tn. rewrite (Tn W) in G.
      inversion G; subst. repeat split; auto.
      * left; reflexivity.
      * pose proof (ascii_span_digits _ (ascii_opt_sep _ Ar)) as X. rewrite Sd in X. exact X.
      * lia.
      * lia.
      * apply sp_int_nonneg.
    + inversion G; subst. inversion Sp; subst. repeat split; auto.
Qed.

Lemma first_word_digit_none {X} (ws : list (bytes * X)) c t :
  Forall (fun wx => exists p w, fst wx = p :: w /\ (97 <= p <= 122)%N) ws ->
  sp_alpha c = false -> first_word ws (c :: t) = None.
Proof.
  intros Hws Hc. destruct (first_word ws (c :: t)) as [[x r]|] eqn:E; auto.
  destruct (first_word_alpha ws _ _ _ Hws E) as (c' & t' & E' & Ha). inversion E'; subst. congruence.
Qed.

Lemma digit_not_alpha c : is_digit c = true -> sp_alpha c = false /\ sp_sep c = false.
Proof.
  unfold sp_alpha, sp_sep, is_digit. intros H. apply andb_true_iff in H. destruct H as [H1 H2].
  apply N.leb_le in H1, H2.
  destruct (N.leb_spec 97 c), (N.leb_spec c 122), (N.leb_spec 65 c), (N.leb_spec c 90),
    (N.eqb_spec c 46), (N.eqb_spec c 45), (N.eqb_spec c 95); simpl; split; auto; lia.
Qed.

Lemma find_post_nonempty i text : find_post pep440_post_strings i = Some text -> Nat.eqb (length text) 0 = false.
Proof.
  unfold pep440_post_strings. cbn [find_post].
  repeat match goal with |- context [has_ascii_prefix i ?w] => destruct (has_ascii_prefix i w) end;
    intros H; inversion H; reflexivity.
Qed.

Lemma post_stage e rs rg e2 rest2 post s4 :
  Rrel rs rg -> ascii rg ->
  parse_post e rg = (e2, rest2) -> sp_post rs = (post, s4) ->
  match post with Some n => n < two63 | None => True end ->
  Rrel s4 rest2 /\ ascii rest2 /\
  make_ext e2 = match post with Some n => set_post (make_ext e) n | None => make_ext e end /\
  match post with Some n => 0 <= n | None => True end.
Proof.
  intros R A G Sp W. unfold parse_post in G.
  destruct rg as [|g0 gt].
  - apply Rrel_nil in R. subst rs. inversion G; subst.
    unfold sp_post, sp_tagged in Sp. change (opt_sep []) with (@nil N) in Sp.
    rewrite (first_word_nil _ post_words_alpha) in Sp. inversion Sp; subst. repeat split; auto. left; reflexivity.
  - set (input := allow_sep (g0 :: gt)) in *.
    (* the explicit form, common to all sub-cases *)
    assert (Explicit :
      (match input with d :: _ => N.eqb g0 45 && is_digit d | [] => false end) = false ->
      sp_tagged post_words rs = (match post with Some n => Some (tt, n) | None => None end, s4) ->
      Rrel s4 rest2 /\ ascii rest2 /\
      make_ext e2 = match post with Some n => set_post (make_ext e) n | None => make_ext e end /\
      match post with Some n => 0 <= n | None => True end).
    { intros Imp St. rewrite Imp in G. unfold sp_tagged in St. rewrite (Rrel_input rs _ R) in St. fold input in St.
      pose proof (find_post_first_word input) as T.
      destruct (find_post pep440_post_strings input) as [text|] eqn:Fp;
        destruct (first_word post_words input) as [[u r]|]; try contradiction.
      - subst r.
        assert (Ar : ascii (skipn (length text) input)) by (apply ascii_skipn, ascii_allow_sep; auto).
        destruct (span_digits (opt_sep (skipn (length text) input))) as [d s4'] eqn:Sd.
        destruct post as [n|]; [|discriminate]. inversion St; subst n s4'. cbv beta iota in W.
        pose proof (tagged_number _ Ar) as Tn. rewrite Sd in Tn. cbn [fst snd] in Tn.
        rewrite (find_post_nonempty _ _ Fp) in G. cbn [andb] in G. rewrite (Tn W) in G. inversion G; subst. repeat split; auto.
        + left; reflexivity.
        + pose proof (ascii_span_digits _ (ascii_opt_sep _ Ar)) as X. rewrite Sd in X. exact X.
        + apply sp_int_nonneg.
      - destruct post; [discriminate|]. inversion St; subst. cbn in G. inversion G; subst. repeat split; auto. }
    unfold sp_post in Sp.
    destruct R as [<-|[-> (c & t & Ec & Hc)]].
    + (* both look at the same text *)
      destruct (N.eqb_spec g0 45) as [->|Hd].
      * change (allow_sep (45%N :: gt)) with gt in *.
        destruct (span_digits gt) as [[|d0 d] r] eqn:Sd.
        -- (* no digit after the dash: explicit form *)
           apply Explicit.
           ++ unfold input. destruct gt as [|x y]; auto. cbn [span_digits] in Sd.
              destruct (is_digit x); auto. destruct (span_digits y); discriminate.
           ++ destruct (sp_tagged post_words (45%N :: gt)) as [[[[] n]|] r']; inversion Sp; subst; reflexivity.
        -- (* -N *)
           inversion Sp; subst post s4. cbv beta iota in W.
           pose proof (span_digits_app gt) as App. pose proof (span_digits_digits gt) as Dg. rewrite Sd in App, Dg.
           cbn [fst snd] in App, Dg.
           assert (D0 : is_digit d0 = true) by (cbn [forallb] in Dg; apply andb_true_iff in Dg; tauto).
           destruct (digit_not_alpha d0 D0) as [Na Ns].
           assert (Agt : ascii gt) by (inversion A; auto).
           assert (Egt : gt = d0 :: (d ++ r)) by (rewrite App; reflexivity).
           assert (Fp : find_post pep440_post_strings gt = None).
           { pose proof (find_post_first_word gt) as T.
             assert (Fw : first_word post_words gt = None)
               by (rewrite Egt; apply (first_word_digit_none post_words d0 _ post_words_alpha Na)).
             rewrite Fw in T.
             destruct (find_post pep440_post_strings gt); [contradiction | reflexivity]. }
           assert (F2 : match gt with d' :: _ => true && is_digit d' | [] => false end = true).
           { rewrite Egt. cbn [andb]. exact D0. }
           subst input. rewrite Fp, F2 in G. cbn [Nat.eqb andb negb skipn] in G.
           pose proof (tagged_number gt Agt) as Tn.
           assert (Eo : opt_sep gt = gt) by (rewrite App; cbn [app opt_sep]; rewrite Ns; reflexivity).
           rewrite Eo, Sd in Tn. cbn [fst snd] in Tn. rewrite (Tn W) in G. inversion G; subst.
           repeat split; auto.
           ++ left; reflexivity.
           ++ eapply ascii_app_r; eauto.
           ++ apply sp_int_nonneg.
      * apply Explicit.
        -- destruct input; reflexivity.
        -- destruct (sp_tagged post_words (g0 :: gt)) as [[[[] n]|] r']; inversion Sp; subst; reflexivity.
    + (* the reference still holds the dot *)
      inversion Ec; subst c t. destruct (alpha_props g0 Hc) as (_ & _ & Hd & _).
      apply Explicit.
      * rewrite Hd. destruct input; reflexivity.
      * change (N.eqb 46 45) with false in Sp. cbv iota in Sp.
        destruct (sp_tagged post_words (46%N :: g0 :: gt)) as [[[[] n]|] r']; inversion Sp; subst; reflexivity.
Qed.

Lemma dev_stage e rs rg e3 rest3 dev s5 :
  Rrel rs rg -> ascii rg ->
  parse_dev e rg = (e3, rest3) -> sp_dev rs = (dev, s5) ->
  match dev with Some n => n < two63 | None => True end ->
  Rrel s5 rest3 /\ ascii rest3 /\
  make_ext e3 = match dev with Some n => set_dev (make_ext e) n | None => make_ext e end /\
  match dev with Some n => 0 <= n | None => True end.
Proof.
  intros R A G Sp W. unfold sp_dev, sp_tagged in Sp. rewrite (Rrel_input rs rg R) in Sp.
  unfold parse_dev in G.
  destruct rg as [|g0 gt].
  - apply Rrel_nil in R. subst rs. inversion G; subst.
    change (allow_sep []) with (@nil N) in Sp. rewrite (first_word_nil _ dev_words_alpha) in Sp.
    inversion Sp; subst. repeat split; auto. left; reflexivity.
  - set (input := allow_sep (g0 :: gt)) in *.
    pose proof (dev_first_word input) as T.
    destruct (has_ascii_prefix input Pep440Parse.s_dev);
      destruct (first_word dev_words input) as [[[] r]|]; try contradiction.
    + subst r.
      assert (Ar : ascii (skipn 3 input)) by (apply ascii_skipn, ascii_allow_sep; auto).
      destruct (span_digits (opt_sep (skipn 3 input))) as [d s4] eqn:Sd.
      inversion Sp; subst dev s5. cbv beta iota in W.
      pose proof (tagged_number _ Ar) as Tn. rewrite Sd in Tn. cbn [fst snd] in Tn. rewrite (Tn W) in G.
      inversion G; subst. repeat split; auto.
      * left; reflexivity.
      * pose proof (ascii_span_digits _ (ascii_opt_sep _ Ar)) as X. rewrite Sd in X. exact X.
      * apply sp_int_nonneg.
    + inversion G; subst. inversion Sp; subst. repeat split; auto.
Qed.

(* ---------- local ---------- *)
Lemma span_alnum_app s : s = fst (span_alnum s) ++ snd (span_alnum s).
Proof.
  induction s as [|c t IH]; simpl; auto. destruct (sp_alnum c); simpl; auto.
  destruct (span_alnum t); simpl in *. congruence.
Qed.

Lemma span_alnum_alnum s : forallb sp_alnum (fst (span_alnum s)) = true.
Proof.
  induction s as [|c t IH]; cbn [span_alnum]; auto. destruct (sp_alnum c) eqn:E; auto.
  destruct (span_alnum t) as [d r]; cbn [fst forallb] in *. rewrite E. auto.
Qed.

Lemma alnum_local_char c : sp_alnum c = true -> local_char c = true /\ dash_to_dot c = c.
Proof.
  unfold sp_alnum, local_char, is_alnum, dash_to_dot, is_digit, sp_alpha, is_alpha. intros H.
  destruct (N.eqb_spec c 46), (N.eqb_spec c 45), (N.eqb_spec c 95); subst; try discriminate; simpl; auto.
Qed.

Lemma sep_local_char c : sp_sep c = true -> local_char c = true /\ dash_to_dot c = 46%N.
Proof.
  unfold sp_sep, local_char, dash_to_dot.
  destruct (N.eqb_spec c 46), (N.eqb_spec c 45), (N.eqb_spec c 95); subst; try discriminate; simpl; auto.
Qed.

Lemma map_dash_alnum a : forallb sp_alnum a = true -> map dash_to_dot a = a /\ forallb local_char a = true.
Proof.
  induction a as [|c a IH]; simpl; auto. intros H. apply andb_true_iff in H. destruct H as [Hc Ha].
  destruct (alnum_local_char c Hc) as [L D]. destruct (IH Ha) as [M F]. rewrite D, M, L, F. auto.
Qed.

Lemma last_app_cons {A} (a : list A) x b d : last (a ++ x :: b) d = last (x :: b) d.
Proof. induction a as [|y a IH]; auto. simpl app. simpl last. destruct (a ++ x :: b) eqn:E; auto.
  apply app_eq_nil in E. destruct E; discriminate. Qed.

Lemma last_alnum y : forall x, forallb sp_alnum (x :: y) = true -> is_alnum (last (x :: y) 0%N) = true.
Proof.
  induction y as [|z y IH]; intros x H; cbn [last].
  - cbn [forallb] in H. apply andb_true_iff in H. tauto.
  - apply IH. cbn [forallb] in H. apply andb_true_iff in H. tauto.
Qed.

Lemma sp_segs_inv f : forall t l, sp_segs f t = Some (l, []) ->
  t <> [] /\ forallb local_char t = true /\
  is_alnum (hd 0%N t) = true /\ is_alnum (last t 0%N) = true /\
  map dash_to_dot t = join_dots l /\ l <> [] /\ Forall (fun x => seg_ok x = true) l.
Proof.
  induction f as [|f IH]; intros t l H; [discriminate|].
  cbn [sp_segs] in H.
  pose proof (span_alnum_app t) as App. pose proof (span_alnum_alnum t) as Al.
  destruct (span_alnum t) as [a r]. cbn [fst snd] in *.
  destruct a as [|a0 a']; [discriminate|]. set (a := a0 :: a') in *.
  assert (Hseg : seg_ok a = true) by (unfold seg_ok; rewrite Al; reflexivity).
  destruct (map_dash_alnum a Al) as [Ma Fa].
  assert (Ha0 : is_alnum a0 = true) by (cbn [forallb] in Al; apply andb_true_iff in Al; tauto).
  destruct r as [|c r'].
  - inversion H; subst l. rewrite app_nil_r in App. subst t.
    repeat split; auto; try discriminate.
    + apply last_alnum; auto.
    + rewrite Ma. symmetry. apply join_dots_one.
  - destruct (sp_sep c) eqn:Sc; [|inversion H].
    destruct (sp_segs f r') as [[l' r'']|] eqn:S'; [|inversion H].
    inversion H; subst l r''.
    destruct (IH r' l' S') as (Hne & Fr & Hh & Hl & Mr & Ll & Ok).
    destruct (sep_local_char c Sc) as [Lc Dc].
    subst t. repeat split; try discriminate.
    + rewrite forallb_app. rewrite Fa. cbn [forallb]. rewrite Lc, Fr. reflexivity.
    + exact Ha0.
    + rewrite last_app_cons. destruct r' as [|x y]; [congruence|]. exact Hl.
    + rewrite map_app. cbn [map]. rewrite Ma, Dc, Mr.
      destruct l' as [|y l'']; [congruence|]. reflexivity.
    + constructor; auto.
Qed.

Lemma local_stage e x e4 r4 loc :
  parse_local e x = Ok (e4, r4) -> sp_local x = Some (loc, []) ->
  r4 = [] /\
  make_ext e4 = match loc with Some l => set_local (make_ext e) (join_dots l) | None => make_ext e end /\
  match loc with Some l => l <> [] /\ Forall (fun t => seg_ok t = true) l | None => True end.
Proof.
  unfold parse_local, sp_local.
  destruct x as [|c0 t].
  - intros G S. inversion G; inversion S; subst. auto.
  - destruct (N.eqb_spec c0 43) as [->|Hc]; [|intros _ S; inversion S].
    destruct (sp_segs (S (length t)) t) as [[l r]|] eqn:Sg; [|discriminate].
    intros G S. inversion S; subst loc r.
    destruct (sp_segs_inv _ _ _ Sg) as (Hne & Fl & Hh & Hl & Mp & Ll & Ok).
    destruct t as [|c1 t']; [congruence|].
    cbn [negb N.eqb Pos.eqb] in G. rewrite Fl in G. cbn [hd] in Hh. rewrite Hh, Hl in G. cbn in G.
    change (dash_to_dot c1 :: map dash_to_dot t') with (map dash_to_dot (c1 :: t')) in G. rewrite Mp in G.
    inversion G; subst. auto.
Qed.

(* ---------- when the reference still holds a dot, a letter must follow ---------- *)
Lemma tagged_dot_none {X} (ws : list (bytes * X)) rg :
  Forall (fun wx => exists p w, fst wx = p :: w /\ (97 <= p <= 122)%N) ws ->
  ~ alpha_start rg -> sp_tagged ws (46%N :: rg) = (None, 46%N :: rg).
Proof.
  intros Hws Hn. unfold sp_tagged. change (opt_sep (46%N :: rg)) with rg.
  destruct (first_word ws rg) as [[x r]|] eqn:E; auto.
  exfalso. apply Hn. eapply first_word_alpha; eauto.
Qed.

Lemma spec_tail_dot rg pre s3 post s4 dev s5 loc :
  sp_pre (46%N :: rg) = (pre, s3) -> sp_post s3 = (post, s4) -> sp_dev s4 = (dev, s5) ->
  sp_local s5 = Some (loc, []) -> alpha_start rg.
Proof.
  intros Hp Hq Hd Hl.
  destruct rg as [|c t].
  - exfalso. assert (N : ~ alpha_start []) by (intros (c & t & E & _); discriminate).
    unfold sp_pre in Hp. rewrite (tagged_dot_none _ _ pre_words_alpha N) in Hp. inversion Hp; subst.
    unfold sp_post in Hq. rewrite (tagged_dot_none _ _ post_words_alpha N) in Hq.
    change (N.eqb 46 45) with false in Hq. cbv iota in Hq. inversion Hq; subst.
    unfold sp_dev in Hd. rewrite (tagged_dot_none _ _ dev_words_alpha N) in Hd. inversion Hd; subst.
    discriminate Hl.
  - destruct (sp_alpha c) eqn:Ac; [exists c, t; auto|].
    exfalso. assert (N : ~ alpha_start (c :: t)) by (intros (c' & t' & E & A'); inversion E; subst; congruence).
    unfold sp_pre in Hp. rewrite (tagged_dot_none _ _ pre_words_alpha N) in Hp. inversion Hp; subst.
    unfold sp_post in Hq. rewrite (tagged_dot_none _ _ post_words_alpha N) in Hq.
    change (N.eqb 46 45) with false in Hq. cbv iota in Hq. inversion Hq; subst.
    unfold sp_dev in Hd. rewrite (tagged_dot_none _ _ dev_words_alpha N) in Hd. inversion Hd; subst.
    discriminate Hl.
Qed.

Lemma release_ascii g : forall s first nums rest, ascii s -> release g s first = Ok (nums, rest) -> ascii rest.
Proof.
  induction g as [|g IH]; intros s first nums rest A R; [discriminate|].
  cbn [release] in R. destruct s as [|x s']; [inversion R; constructor|].
  pose proof (segment_app (x :: s')) as App.
  destruct (segment (x :: s')) as [seg rest0]. cbn [fst snd] in App.
  assert (A0 : ascii rest0) by (rewrite App in A; eapply ascii_app_r; eauto).
  destruct seg as [|y seg']; [inversion R; subst; auto|].
  destruct (seg_value (y :: seg') first); [|discriminate].
  destruct rest0 as [|c rest']; [inversion R; subst; auto|].
  destruct (N.eqb c 46); [|inversion R; subst; auto].
  destruct rest' as [|c' r'']; [discriminate|].
  destruct (release g (c' :: r'') false) as [[l rr]| | |] eqn:R'; cbn [bind fst snd] in R; try discriminate.
  inversion R; subst. assert (A1 : ascii (c' :: r'')) by (inversion A0; auto).
  apply (IH _ _ _ _ A1 R').
Qed.

Lemma parse_epoch_ascii c e0 i1 : ascii c -> parse_epoch c = Ok (e0, i1) -> ascii i1.
Proof.
  unfold parse_epoch. intros A. pose proof (split_at_byte_spec 33 c) as Sp.
  destruct (split_at_byte 33 c) as [[[|c0 before] after]|].
  - intros E; inversion E; subst; auto.
  - destruct Sp as [-> _]. destruct (digits_val (c0 :: before) 0); [|discriminate].
    destruct (z <=? 255); [|discriminate]. intros E; inversion E; subst.
    apply ascii_app_r in A. inversion A; auto.
  - intros E; inversion E; subst; auto.
Qed.

Lemma ascii_strip_v s : ascii s -> ascii (strip_v s).
Proof. intros A. destruct s as [|c t]; simpl; auto. destruct (N.eqb c 118 || N.eqb c 86); auto. inversion A; auto. Qed.

Lemma dom_width_inv p : c02_dom_width p = true ->
  match s_pre p with Some (_, n) => n < two63 | None => True end /\
  match s_post p with Some n => n < two63 | None => True end /\
  match s_dev p with Some n => n < two63 | None => True end.
Proof.
  unfold c02_dom_width. intros H. repeat (apply andb_true_iff in H; destruct H as [H ?]).
  repeat split.
  - destruct (s_pre p) as [[k n]|]; auto. apply Z.ltb_lt; auto.
  - destruct (s_post p); auto. apply Z.ltb_lt; auto.
  - destruct (s_dev p); auto. apply Z.ltb_lt; auto.
Qed.

(* ---------- the link ---------- *)
Theorem parse_link s v p :
  parse_pypi s = Ok v -> spec_parse s = Some p -> c02_dom_width p = true ->
  abs_rel (v_num v, ext_of v) p /\ pv_wf p.
Proof.
  intros G Sp W.
  unfold parse_pypi in G. destruct (possible_pypi s) eqn:P; [|discriminate]. cbn [negb] in G.
  destruct (pep_init s) as [[[[[nums3 unc] vpre] ispre] e4]| | |] eqn:Init; cbn [bind] in G; try discriminate.
  inversion G; subst v. clear G. unfold ext_of. cbn [v_num v_ext].
  unfold spec_parse in Sp. destruct (is_ascii s) eqn:As; [|discriminate].
  unfold pep_init in Init.
  destruct (chars_ok (trim_space s)) eqn:Ck; [|discriminate]. cbn [negb] in Init.
  rewrite (cores_equal s As P Ck) in Sp.
  assert (Ac : ascii (trim_space s)).
  { destruct (possible_first s P) as (c & t & -> & Hc).
    assert (Hg : go_ws c = false) by (destruct (go_ws c) eqn:E; auto; apply go_ws_sp_ws in E; congruence).
    rewrite (trim_space_ascii c t (is_ascii_ascii _ As) Hg). apply ascii_dwe. apply is_ascii_ascii; auto. }
  set (c := trim_space s) in *.
  destruct (parse_epoch c) as [[e0 input1]| | |] eqn:Ep; cbn [bind] in Init; try discriminate.
  destruct (release (S (length (strip_v input1))) (strip_v input1) true) as [[nums rest]| | |] eqn:Rl;
    cbn [bind] in Init; try discriminate.
  destruct nums as [|n0 nums']; [discriminate|]. set (nums := n0 :: nums') in *.
  destruct (parse_pre e0 rest) as [[e1 vpre'] rest1] eqn:Gpre.
  destruct (parse_post e1 rest1) as [e2 rest2] eqn:Gpost.
  destruct (parse_dev e2 rest2) as [e3 rest3] eqn:Gdev.
  destruct (parse_local e3 rest3) as [[e4' rest4]| | |] eqn:Gloc; cbn [bind] in Init; try discriminate.
  destruct rest4; [|discriminate]. inversion Init; subst nums3 unc vpre ispre e4. clear Init.
  (* the reference *)
  unfold spec_core in Sp. rewrite sp_strip_v_strip_v in Sp.
  destruct (sp_epoch (strip_v c)) as [ep s1] eqn:Sep.
  destruct (sp_release (S (length s1)) s1) as [[rel s2]|] eqn:Srel; [|discriminate].
  destruct (sp_pre s2) as [pre s3] eqn:Spre.
  destruct (sp_post s3) as [post s4] eqn:Spost.
  destruct (sp_dev s4) as [dev s5] eqn:Sdev.
  destruct (sp_local s5) as [[loc [|x5 r5]]|] eqn:Sloc; try discriminate.
  inversion Sp; subst p. clear Sp.
  destruct (dom_width_inv _ W) as (Wpre & Wpost & Wdev). cbn [s_pre s_post s_dev] in Wpre, Wpost, Wdev.
  (* epoch *)
  destruct (epoch_stage c e0 input1 ep s1 _ rel s2 _ nums rest Ep Sep Srel Rl ltac:(discriminate)) as (E1 & Eep & Hep).
  assert (A1 : ascii s1).
  { rewrite <- E1. apply ascii_strip_v. eapply parse_epoch_ascii; eauto. }
  rewrite E1 in Rl.
  (* release *)
  assert (Arest : ascii rest) by (eapply release_ascii; eauto).
  destruct (release_stage (length s1) _ s1 true rel s2 nums rest A1 (le_n _) Srel Rl) as [(En & Nrel & Hrest)|(t & Es2)].
  2:{ exfalso. subst s2.
      assert (N : ~ alpha_start (42%N :: t)) by (intros (c' & t' & E & A'); inversion E; subst; discriminate).
      pose proof (spec_tail_dot _ _ _ _ _ _ _ _ Spre Spost Sdev Sloc). contradiction. }
  assert (R2 : Rrel s2 rest).
  { destruct Hrest as [->|[-> Hne]]; [left; reflexivity|].
    right. split; auto. eapply spec_tail_dot; eauto. }
  (* pre, post, dev *)
  destruct (pre_stage e0 s2 rest e1 vpre' rest1 pre s3 R2 Arest Gpre Spre Wpre) as (R3 & A3 & Epre & Wfpre).
  destruct (post_stage e1 s3 rest1 e2 rest2 post s4 R3 A3 Gpost Spost Wpost) as (R4 & A4 & Epost & Wfpost).
  destruct (dev_stage e2 s4 rest2 e3 rest3 dev s5 R4 A4 Gdev Sdev Wdev) as (R5 & A5 & Edev & Wfdev).
  (* local *)
  assert (E5 : rest3 = s5).
  { destruct R5 as [->|[E5 _]]; auto. exfalso. subst s5. discriminate Sloc. }
  subst s5.
  destruct (local_stage e3 rest3 e4' [] loc Gloc Sloc) as (_ & Eloc & Wfloc).
  split.
  - split; cbn [fst snd].
    + unfold go_nums. cbn [s_release]. rewrite En. reflexivity.
    + rewrite Eloc, Edev, Epost, Epre, Eep. unfold go_ext. cbn [s_epoch s_pre s_post s_dev s_local].
      destruct loc, dev, post, pre as [[k n]|]; reflexivity.
  - split; cbn [s_epoch s_release s_pre s_post s_dev s_local]; auto.
    + intros k n E; inversion E; subst. exact Wfpre.
    + intros n E; inversion E; subst. exact Wfpost.
    + intros n E; inversion E; subst. exact Wfdev.
    + intros l E; inversion E; subst. exact Wfloc.
Qed.

Lemma dom_width_of p : c02_pypi_dom p = true -> c02_dom_width p = true.
Proof. unfold c02_pypi_dom. intros H. apply andb_true_iff in H. tauto. Qed.

(* On the domain, Go orders any two strings that both accept exactly as the reference does. *)
Theorem c02_strings a b va vb pa pb :
  parse_pypi a = Ok va -> parse_pypi b = Ok vb ->
  spec_parse a = Some pa -> spec_parse b = Some pb ->
  c02_pypi_dom pa = true -> c02_pypi_dom pb = true ->
  Z.sgn (vcmp va vb) = spec_compare pa pb.
Proof.
  intros Ga Gb Sa Sb Da Db.
  destruct (parse_link a va pa Ga Sa (dom_width_of pa Da)) as [Ra Wa].
  destruct (parse_link b vb pb Gb Sb (dom_width_of pb Db)) as [Rb Wb].
  destruct (parse_pypi_is_pypi _ _ Ga) as [Pa _], (parse_pypi_is_pypi _ _ Gb) as [Pb _].
  rewrite (vcmp_pypi va vb Pa Pb).
  apply c02_compare_abs; auto.
Qed.

(* every version of the grammar is well formed *)
Lemma spec_parse_wf_when_go s v p :
  parse_pypi s = Ok v -> spec_parse s = Some p -> c02_dom_width p = true -> pv_wf p.
Proof. intros G S W. apply (parse_link s v p G S W). Qed.
