(* The link between the two parsers: for every string that both semver.PyPI.Parse (model
   Pep440Parse.v) and the PEP 440 reference (Spec/Pep440Spec.v) accept, what Parse stores
   is what the reference version denotes (abs_rel), provided the pre/post/dev numbers
   fit 63 bits.  Proved by running both scanners on the same, arbitrary, string stage
   by stage. *)
From Coq Require Import List ZArith NArith Lia Bool.
From DepsDev Require Import Lib.Base Lib.Order Semver.Version Semver.Pep440 Semver.Pep440Parse
  Spec.Pep440Spec Semver.Pep440Abs Semver.Pep440_proofs Semver.Pep440Parse_proofs Semver.Pep440C02_proofs
  Semver.Pep440Scan_proofs Gen.SemverTables.
Import ListNotations.
Local Open Scope Z_scope.

Local Arguments is_digit : simpl never.
Local Arguments sp_alpha : simpl never.
Local Arguments is_alpha : simpl never.
Local Arguments sp_sep : simpl never.

(* ---------- the spelling tables ---------- *)
Lemma c_rc_excl i r1 r2 : ci_prefix [99%N] i = Some r1 -> ci_prefix [114; 99]%N i = Some r2 -> False.
Proof.
  destruct i as [|c i]; simpl; [discriminate|].
  destruct (N.eqb_spec (ascii_lower c) 99) as [E|]; [|discriminate].
  rewrite E. simpl. discriminate.
Qed.

(* two words that both match start with the same letter *)
Lemma ci_first_excl p w q w' i r1 r2 :
  ci_prefix (p :: w) i = Some r1 -> ci_prefix (q :: w') i = Some r2 -> p = q.
Proof.
  destruct i as [|c i]; simpl; [discriminate|].
  destruct (N.eqb_spec (ascii_lower c) p); [|discriminate].
  destruct (N.eqb_spec (ascii_lower c) q); [|discriminate]. congruence.
Qed.

Ltac ci_step i :=
  match goal with
  | |- context [ci_prefix ?w i] =>
      let E := fresh "E" in destruct (ci_prefix w i) eqn:E; cbn [find_pre find_post first_word]
  end.

Ltac ci_done :=
  first [ exact I
        | exfalso; eapply c_rc_excl; eassumption
        | exfalso;
          match goal with
          | E1 : ci_prefix (?p :: _) ?i = Some _, E2 : ci_prefix (?q :: _) ?i = Some _ |- _ =>
              let H := fresh in pose proof (ci_first_excl _ _ _ _ _ _ _ E1 E2) as H; discriminate H
          end
        | repeat split; try reflexivity; try lia;
          match goal with E : ci_prefix ?w ?i = Some ?b |- ?b = _ => exact (ci_prefix_skipn w i b E) end ].

Lemma find_pre_first_word i :
  match find_pre pep440_pre_strings i, first_word pre_words i with
  | Some (t, c), Some (k, r) => r = skipn (length t) i /\ c = pre_letter k /\ 0 <= k <= 2
  | None, None => True
  | _, _ => False
  end.
Proof.
  unfold pep440_pre_strings, pre_words. cbn [find_pre first_word].
  rewrite !has_ascii_prefix_ci by (repeat constructor; lia).
  repeat (ci_step i; try ci_done).
Qed.

Lemma find_post_first_word i :
  match find_post pep440_post_strings i, first_word post_words i with
  | Some t, Some (_, r) => r = skipn (length t) i
  | None, None => True
  | _, _ => False
  end.
Proof.
  unfold pep440_post_strings, post_words. cbn [find_post first_word].
  rewrite !has_ascii_prefix_ci by (repeat constructor; lia).
  repeat (ci_step i; try ci_done).
Qed.

Lemma dev_first_word i :
  match has_ascii_prefix i Pep440Parse.s_dev, first_word dev_words i with
  | true, Some (_, r) => r = skipn 3 i
  | false, None => True
  | _, _ => False
  end.
Proof.
  unfold Pep440Parse.s_dev, dev_words. cbn [first_word].
  rewrite !has_ascii_prefix_ci by (repeat constructor; lia).
  repeat (ci_step i; try ci_done).
Qed.

(* a matched word starts with a letter *)
Lemma first_word_alpha {X} (ws : list (bytes * X)) i x r :
  Forall (fun wx => exists p w, fst wx = p :: w /\ (97 <= p <= 122)%N) ws ->
  first_word ws i = Some (x, r) -> exists c t, i = c :: t /\ sp_alpha c = true.
Proof.
  induction 1 as [|[w y] ws (p & w' & Hw & Hp) Hws IH]; simpl; [discriminate|].
  simpl in Hw. subst w. destruct (ci_prefix (p :: w') i) eqn:E.
  - intros _. eapply ci_prefix_alpha; eauto.
  - auto.
Qed.

Lemma pre_words_alpha : Forall (fun wx : bytes * Z => exists p w, fst wx = p :: w /\ (97 <= p <= 122)%N) pre_words.
Proof. unfold pre_words. repeat constructor; simpl; eexists; eexists; split; try reflexivity; lia. Qed.
Lemma post_words_alpha : Forall (fun wx : bytes * unit => exists p w, fst wx = p :: w /\ (97 <= p <= 122)%N) post_words.
Proof. unfold post_words. repeat constructor; simpl; eexists; eexists; split; try reflexivity; lia. Qed.
Lemma dev_words_alpha : Forall (fun wx : bytes * unit => exists p w, fst wx = p :: w /\ (97 <= p <= 122)%N) dev_words.
Proof. unfold dev_words. repeat constructor; simpl; eexists; eexists; split; try reflexivity; lia. Qed.

(* ---------- pre, post, dev ---------- *)
Definition alpha_start (s : bytes) : Prop := exists c t, s = c :: t /\ sp_alpha c = true.

(* the reference may still hold a dot that Go has already swallowed *)
Definition Rrel (rs rg : bytes) : Prop := rg = rs \/ (rs = 46%N :: rg /\ alpha_start rg).

Lemma alpha_props c : sp_alpha c = true -> sp_sep c = false /\ is_digit c = false /\ N.eqb c 45 = false /\ N.eqb c 43 = false.
Proof.
  unfold sp_alpha, sp_sep, is_digit. intros H.
  destruct (N.leb_spec 97 c), (N.leb_spec c 122), (N.leb_spec 65 c), (N.leb_spec c 90); simpl in H; try discriminate;
    destruct (N.eqb_spec c 46), (N.eqb_spec c 45), (N.eqb_spec c 95), (N.eqb_spec c 43), (N.leb_spec 48 c), (N.leb_spec c 57);
    simpl; repeat split; auto; lia.
Qed.

Lemma Rrel_input rs rg : Rrel rs rg -> opt_sep rs = allow_sep rg.
Proof.
  intros [->|[-> (c & t & -> & Hc)]].
  - apply opt_sep_allow_sep.
  - destruct (alpha_props c Hc) as (Hs & _). rewrite <- (opt_sep_allow_sep (c :: t)). simpl. rewrite Hs. reflexivity.
Qed.

Lemma Rrel_nil rs : Rrel rs [] -> rs = [].
Proof. intros [E|[_ (c & t & E & _)]]; [auto | discriminate]. Qed.

Lemma tagged_number r : ascii r ->
  sp_int (fst (span_digits (opt_sep r))) < two63 ->
  pep_number r = (sp_int (fst (span_digits (opt_sep r))), snd (span_digits (opt_sep r))).
Proof.
  intros A W. rewrite (pep_number_spec r A). f_equal.
  apply go_number_value; auto. apply span_digits_digits.
Qed.

Lemma ascii_allow_sep s : ascii s -> ascii (allow_sep s).
Proof. rewrite <- opt_sep_allow_sep. apply ascii_opt_sep. Qed.

Lemma first_word_nil {X} (ws : list (bytes * X)) :
  Forall (fun wx => exists p w, fst wx = p :: w /\ (97 <= p <= 122)%N) ws -> first_word ws [] = None.
Proof.
  induction 1 as [|[w y] ws (p & w' & Hw & Hp) Hws IH]; simpl; auto.
  simpl in Hw. subst w. simpl. auto.
Qed.

Lemma pre_stage e rs rg e1 vpre rest1 pre s3 :
  Rrel rs rg -> ascii rg ->
  parse_pre e rg = (e1, vpre, rest1) -> sp_pre rs = (pre, s3) ->
  match pre with Some (_, n) => n < two63 | None => True end ->
  Rrel s3 rest1 /\ ascii rest1 /\
  make_ext e1 = match pre with Some (k, n) => set_pre (make_ext e) (pre_letter k) n | None => make_ext e end /\
  match pre with Some (k, n) => 0 <= k <= 2 /\ 0 <= n | None => True end.
Proof.
  intros R A G Sp W. unfold sp_pre, sp_tagged in Sp. rewrite (Rrel_input rs rg R) in Sp.
  unfold parse_pre in G.
  destruct rg as [|g0 gt].
  - apply Rrel_nil in R. subst rs. inversion G; subst.
    change (allow_sep []) with (@nil N) in Sp. rewrite (first_word_nil _ pre_words_alpha) in Sp.
    inversion Sp; subst. repeat split; auto. left; reflexivity.
  - set (input := allow_sep (g0 :: gt)) in *.
    pose proof (find_pre_first_word input) as T.
    destruct (find_pre pep440_pre_strings input) as [[text can]|];
      destruct (first_word pre_words input) as [[k r]|]; try contradiction.
    + destruct T as (Er & Ec & Hk). subst r can.
      assert (Ar : ascii (skipn (length text) input)) by (apply ascii_skipn, ascii_allow_sep; auto).
      destruct (span_digits (opt_sep (skipn (length text) input))) as [d s4] eqn:Sd.
      inversion Sp; subst pre s3. cbv beta iota in W.
      pose proof (tagged_number _ Ar) as Tn. rewrite Sd in Tn. cbn [fst snd] in Tn. rewrite (Tn W) in G.
      inversion G; subst. repeat split; auto.
      * left; reflexivity.
      * pose proof (ascii_span_digits _ (ascii_opt_sep _ Ar)) as X. rewrite Sd in X. exact X.
      * lia.
      * lia.
      * apply sp_int_nonneg.
    + inversion G; subst. inversion Sp; subst. repeat split; auto.
Qed.

Lemma first_word_digit_none {X} (ws : list (bytes * X)) c t :
  Forall (fun wx => exists p w, fst wx = p :: w /\ (97 <= p <= 122)%N) ws ->
  sp_alpha c = false -> first_word ws (c :: t) = None.
Proof.
  intros Hws Hc. destruct (first_word ws (c :: t)) as [[x r]|] eqn:E; auto.
  destruct (first_word_alpha ws _ _ _ Hws E) as (c' & t' & E' & Ha). inversion E'; subst. congruence.
Qed.


Lemma find_post_nonempty i text : find_post pep440_post_strings i = Some text -> Nat.eqb (length text) 0 = false.
Proof.
  unfold pep440_post_strings. cbn [find_post].
  repeat match goal with |- context [has_ascii_prefix i ?w] => destruct (has_ascii_prefix i w) end;
    intros H; inversion H; reflexivity.
Qed.

Lemma post_stage e rs rg e2 rest2 post s4 :
  Rrel rs rg -> ascii rg ->
  parse_post e rg = (e2, rest2) -> sp_post rs = (post, s4) ->
  match post with Some n => n < two63 | None => True end ->
  Rrel s4 rest2 /\ ascii rest2 /\
  make_ext e2 = match post with Some n => set_post (make_ext e) n | None => make_ext e end /\
  match post with Some n => 0 <= n | None => True end.
Proof.
  intros R A G Sp W. unfold parse_post in G.
  destruct rg as [|g0 gt].
  - apply Rrel_nil in R. subst rs. inversion G; subst.
    unfold sp_post, sp_tagged in Sp. change (opt_sep []) with (@nil N) in Sp.
    rewrite (first_word_nil _ post_words_alpha) in Sp. inversion Sp; subst. repeat split; auto. left; reflexivity.
  - set (input := allow_sep (g0 :: gt)) in *.
    (* the explicit form, common to all sub-cases *)
    assert (Explicit :
      (match input with d :: _ => N.eqb g0 45 && is_digit d | [] => false end) = false ->
      sp_tagged post_words rs = (match post with Some n => Some (tt, n) | None => None end, s4) ->
      Rrel s4 rest2 /\ ascii rest2 /\
      make_ext e2 = match post with Some n => set_post (make_ext e) n | None => make_ext e end /\
      match post with Some n => 0 <= n | None => True end).
    { intros Imp St. rewrite Imp in G. unfold sp_tagged in St. rewrite (Rrel_input rs _ R) in St. fold input in St.
      pose proof (find_post_first_word input) as T.
      destruct (find_post pep440_post_strings input) as [text|] eqn:Fp;
        destruct (first_word post_words input) as [[u r]|]; try contradiction.
      - subst r.
        assert (Ar : ascii (skipn (length text) input)) by (apply ascii_skipn, ascii_allow_sep; auto).
        destruct (span_digits (opt_sep (skipn (length text) input))) as [d s4'] eqn:Sd.
        destruct post as [n|]; [|discriminate]. inversion St; subst n s4'. cbv beta iota in W.
        pose proof (tagged_number _ Ar) as Tn. rewrite Sd in Tn. cbn [fst snd] in Tn.
        rewrite (find_post_nonempty _ _ Fp) in G. cbn [andb] in G. rewrite (Tn W) in G. inversion G; subst. repeat split; auto.
        + left; reflexivity.
        + pose proof (ascii_span_digits _ (ascii_opt_sep _ Ar)) as X. rewrite Sd in X. exact X.
        + apply sp_int_nonneg.
      - destruct post; [discriminate|]. inversion St; subst. cbn in G. inversion G; subst. repeat split; auto. }
    unfold sp_post in Sp.
    destruct R as [<-|[-> (c & t & Ec & Hc)]].
    + (* both look at the same text *)
      destruct (N.eqb_spec g0 45) as [->|Hd].
      * change (allow_sep (45%N :: gt)) with gt in *.
        destruct (span_digits gt) as [[|d0 d] r] eqn:Sd.
        -- (* no digit after the dash: explicit form *)
           apply Explicit.
           ++ unfold input. destruct gt as [|x y]; auto. cbn [span_digits] in Sd.
              destruct (is_digit x); auto. destruct (span_digits y); discriminate.
           ++ destruct (sp_tagged post_words (45%N :: gt)) as [[[[] n]|] r']; inversion Sp; subst; reflexivity.
        -- (* -N *)
           inversion Sp; subst post s4. cbv beta iota in W.
           pose proof (span_digits_app gt) as App. pose proof (span_digits_digits gt) as Dg. rewrite Sd in App, Dg.
           cbn [fst snd] in App, Dg.
           assert (D0 : is_digit d0 = true) by (cbn [forallb] in Dg; apply andb_true_iff in Dg; tauto).
           destruct (digit_not_alpha d0 D0) as [Na Ns].
           assert (Agt : ascii gt) by (inversion A; auto).
           assert (Egt : gt = d0 :: (d ++ r)) by (rewrite App; reflexivity).
           assert (Fp : find_post pep440_post_strings gt = None).
           { pose proof (find_post_first_word gt) as T.
             assert (Fw : first_word post_words gt = None)
               by (rewrite Egt; apply (first_word_digit_none post_words d0 _ post_words_alpha Na)).
             rewrite Fw in T.
             destruct (find_post pep440_post_strings gt); [contradiction | reflexivity]. }
           assert (F2 : match gt with d' :: _ => true && is_digit d' | [] => false end = true).
           { rewrite Egt. cbn [andb]. exact D0. }
           subst input. rewrite Fp, F2 in G. cbn [Nat.eqb andb negb skipn] in G.
           pose proof (tagged_number gt Agt) as Tn.
           assert (Eo : opt_sep gt = gt) by (rewrite App; cbn [app opt_sep]; rewrite Ns; reflexivity).
           rewrite Eo, Sd in Tn. cbn [fst snd] in Tn. rewrite (Tn W) in G. inversion G; subst.
           repeat split; auto.
           ++ left; reflexivity.
           ++ eapply ascii_app_r; eauto.
           ++ apply sp_int_nonneg.
      * apply Explicit.
        -- destruct input; reflexivity.
        -- destruct (sp_tagged post_words (g0 :: gt)) as [[[[] n]|] r']; inversion Sp; subst; reflexivity.
    + (* the reference still holds the dot *)
      inversion Ec; subst c t. destruct (alpha_props g0 Hc) as (_ & _ & Hd & _).
      apply Explicit.
      * rewrite Hd. destruct input; reflexivity.
      * change (N.eqb 46 45) with false in Sp. cbv iota in Sp.
        destruct (sp_tagged post_words (46%N :: g0 :: gt)) as [[[[] n]|] r']; inversion Sp; subst; reflexivity.
Qed.

Lemma dev_stage e rs rg e3 rest3 dev s5 :
  Rrel rs rg -> ascii rg ->
  parse_dev e rg = (e3, rest3) -> sp_dev rs = (dev, s5) ->
  match dev with Some n => n < two63 | None => True end ->
  Rrel s5 rest3 /\ ascii rest3 /\
  make_ext e3 = match dev with Some n => set_dev (make_ext e) n | None => make_ext e end /\
  match dev with Some n => 0 <= n | None => True end.
Proof.
  intros R A G Sp W. unfold sp_dev, sp_tagged in Sp. rewrite (Rrel_input rs rg R) in Sp.
  unfold parse_dev in G.
  destruct rg as [|g0 gt].
  - apply Rrel_nil in R. subst rs. inversion G; subst.
    change (allow_sep []) with (@nil N) in Sp. rewrite (first_word_nil _ dev_words_alpha) in Sp.
    inversion Sp; subst. repeat split; auto. left; reflexivity.
  - set (input := allow_sep (g0 :: gt)) in *.
    pose proof (dev_first_word input) as T.
    destruct (has_ascii_prefix input Pep440Parse.s_dev);
      destruct (first_word dev_words input) as [[[] r]|]; try contradiction.
    + subst r.
      assert (Ar : ascii (skipn 3 input)) by (apply ascii_skipn, ascii_allow_sep; auto).
      destruct (span_digits (opt_sep (skipn 3 input))) as [d s4] eqn:Sd.
      inversion Sp; subst dev s5. cbv beta iota in W.
      pose proof (tagged_number _ Ar) as Tn. rewrite Sd in Tn. cbn [fst snd] in Tn. rewrite (Tn W) in G.
      inversion G; subst. repeat split; auto.
      * left; reflexivity.
      * pose proof (ascii_span_digits _ (ascii_opt_sep _ Ar)) as X. rewrite Sd in X. exact X.
      * apply sp_int_nonneg.
    + inversion G; subst. inversion Sp; subst. repeat split; auto.
Qed.

(* ---------- local ---------- *)
Lemma span_alnum_app s : s = fst (span_alnum s) ++ snd (span_alnum s).
Proof.
  induction s as [|c t IH]; simpl; auto. destruct (sp_alnum c); simpl; auto.
  destruct (span_alnum t); simpl in *. congruence.
Qed.

Lemma span_alnum_alnum s : forallb sp_alnum (fst (span_alnum s)) = true.
Proof.
  induction s as [|c t IH]; cbn [span_alnum]; auto. destruct (sp_alnum c) eqn:E; auto.
  destruct (span_alnum t) as [d r]; cbn [fst forallb] in *. rewrite E. auto.
Qed.

Lemma alnum_local_char c : sp_alnum c = true -> local_char c = true /\ dash_to_dot c = c.
Proof.
  unfold sp_alnum, local_char, is_alnum, dash_to_dot, is_digit, sp_alpha, is_alpha. intros H.
  destruct (N.eqb_spec c 46), (N.eqb_spec c 45), (N.eqb_spec c 95); subst; try discriminate; simpl; auto.
Qed.

Lemma sep_local_char c : sp_sep c = true -> local_char c = true /\ dash_to_dot c = 46%N.
Proof.
  unfold sp_sep, local_char, dash_to_dot.
  destruct (N.eqb_spec c 46), (N.eqb_spec c 45), (N.eqb_spec c 95); subst; try discriminate; simpl; auto.
Qed.

Lemma map_dash_alnum a : forallb sp_alnum a = true -> map dash_to_dot a = a /\ forallb local_char a = true.
Proof.
  induction a as [|c a IH]; simpl; auto. intros H. apply andb_true_iff in H. destruct H as [Hc Ha].
  destruct (alnum_local_char c Hc) as [L D]. destruct (IH Ha) as [M F]. rewrite D, M, L, F. auto.
Qed.

Lemma last_app_cons {A} (a : list A) x b d : last (a ++ x :: b) d = last (x :: b) d.
Proof. induction a as [|y a IH]; auto. simpl app. simpl last. destruct (a ++ x :: b) eqn:E; auto.
  apply app_eq_nil in E. destruct E; discriminate. Qed.


Lemma sp_segs_inv f : forall t l, sp_segs f t = Some (l, []) ->
  t <> [] /\ forallb local_char t = true /\
  is_alnum (hd 0%N t) = true /\ is_alnum (last t 0%N) = true /\
  map dash_to_dot t = join_dots l /\ l <> [] /\ Forall (fun x => seg_ok x = true) l.
Proof.
  induction f as [|f IH]; intros t l H; [discriminate|].
  cbn [sp_segs] in H.
  pose proof (span_alnum_app t) as App. pose proof (span_alnum_alnum t) as Al.
  destruct (span_alnum t) as [a r]. cbn [fst snd] in *.
  destruct a as [|a0 a']; [discriminate|]. set (a := a0 :: a') in *.
  assert (Hseg : seg_ok a = true) by (unfold seg_ok; rewrite Al; reflexivity).
  destruct (map_dash_alnum a Al) as [Ma Fa].
  assert (Ha0 : is_alnum a0 = true) by (cbn [forallb] in Al; apply andb_true_iff in Al; tauto).
  destruct r as [|c r'].
  - inversion H; subst l. rewrite app_nil_r in App. subst t.
    repeat split; auto; try discriminate.
    + apply last_alnum; auto.
    + rewrite Ma. symmetry. apply join_dots_one.
  - destruct (sp_sep c) eqn:Sc; [|inversion H].
    destruct (sp_segs f r') as [[l' r'']|] eqn:S'; [|inversion H].
    inversion H; subst l r''.
    destruct (IH r' l' S') as (Hne & Fr & Hh & Hl & Mr & Ll & Ok).
    destruct (sep_local_char c Sc) as [Lc Dc].
    subst t. repeat split; try discriminate.
    + rewrite forallb_app. rewrite Fa. cbn [forallb]. rewrite Lc, Fr. reflexivity.
    + exact Ha0.
    + rewrite last_app_cons. destruct r' as [|x y]; [congruence|]. exact Hl.
    + rewrite map_app. cbn [map]. rewrite Ma, Dc, Mr.
      destruct l' as [|y l'']; [congruence|]. reflexivity.
    + constructor; auto.
Qed.

Lemma local_stage e x e4 r4 loc :
  parse_local e x = Ok (e4, r4) -> sp_local x = Some (loc, []) ->
  r4 = [] /\
  make_ext e4 = match loc with Some l => set_local (make_ext e) (join_dots l) | None => make_ext e end /\
  match loc with Some l => l <> [] /\ Forall (fun t => seg_ok t = true) l | None => True end.
Proof.
  unfold parse_local, sp_local.
  destruct x as [|c0 t].
  - intros G S. inversion G; inversion S; subst. auto.
  - destruct (N.eqb_spec c0 43) as [->|Hc]; [|intros _ S; inversion S].
    destruct (sp_segs (S (length t)) t) as [[l r]|] eqn:Sg; [|discriminate].
    intros G S. inversion S; subst loc r.
    destruct (sp_segs_inv _ _ _ Sg) as (Hne & Fl & Hh & Hl & Mp & Ll & Ok).
    destruct t as [|c1 t']; [congruence|].
    cbn [negb N.eqb Pos.eqb] in G. rewrite Fl in G. cbn [hd] in Hh. rewrite Hh, Hl in G. cbn in G.
    change (dash_to_dot c1 :: map dash_to_dot t') with (map dash_to_dot (c1 :: t')) in G. rewrite Mp in G.
    inversion G; subst. auto.
Qed.

(* ---------- when the reference still holds a dot, a letter must follow ---------- *)
Lemma tagged_dot_none {X} (ws : list (bytes * X)) rg :
  Forall (fun wx => exists p w, fst wx = p :: w /\ (97 <= p <= 122)%N) ws ->
  ~ alpha_start rg -> sp_tagged ws (46%N :: rg) = (None, 46%N :: rg).
Proof.
  intros Hws Hn. unfold sp_tagged. change (opt_sep (46%N :: rg)) with rg.
  destruct (first_word ws rg) as [[x r]|] eqn:E; auto.
  exfalso. apply Hn. eapply first_word_alpha; eauto.
Qed.

Lemma spec_tail_dot rg pre s3 post s4 dev s5 loc :
  sp_pre (46%N :: rg) = (pre, s3) -> sp_post s3 = (post, s4) -> sp_dev s4 = (dev, s5) ->
  sp_local s5 = Some (loc, []) -> alpha_start rg.
Proof.
  intros Hp Hq Hd Hl.
  destruct rg as [|c t].
  - exfalso. assert (N : ~ alpha_start []) by (intros (c & t & E & _); discriminate).
    unfold sp_pre in Hp. rewrite (tagged_dot_none _ _ pre_words_alpha N) in Hp. inversion Hp; subst.
    unfold sp_post in Hq. rewrite (tagged_dot_none _ _ post_words_alpha N) in Hq.
    change (N.eqb 46 45) with false in Hq. cbv iota in Hq. inversion Hq; subst.
    unfold sp_dev in Hd. rewrite (tagged_dot_none _ _ dev_words_alpha N) in Hd. inversion Hd; subst.
    discriminate Hl.
  - destruct (sp_alpha c) eqn:Ac; [exists c, t; auto|].
    exfalso. assert (N : ~ alpha_start (c :: t)) by (intros (c' & t' & E & A'); inversion E; subst; congruence).
    unfold sp_pre in Hp. rewrite (tagged_dot_none _ _ pre_words_alpha N) in Hp. inversion Hp; subst.
    unfold sp_post in Hq. rewrite (tagged_dot_none _ _ post_words_alpha N) in Hq.
    change (N.eqb 46 45) with false in Hq. cbv iota in Hq. inversion Hq; subst.
    unfold sp_dev in Hd. rewrite (tagged_dot_none _ _ dev_words_alpha N) in Hd. inversion Hd; subst.
    discriminate Hl.
Qed.

Lemma release_ascii g : forall s first nums rest, ascii s -> release g s first = Ok (nums, rest) -> ascii rest.
Proof.
  induction g as [|g IH]; intros s first nums rest A R; [discriminate|].
  cbn [release] in R. destruct s as [|x s']; [inversion R; constructor|].
  pose proof (segment_app (x :: s')) as App.
  destruct (segment (x :: s')) as [seg rest0]. cbn [fst snd] in App.
  assert (A0 : ascii rest0) by (rewrite App in A; eapply ascii_app_r; eauto).
  destruct seg as [|y seg']; [inversion R; subst; auto|].
  destruct (seg_value (y :: seg') first); [|discriminate].
  destruct rest0 as [|c rest']; [inversion R; subst; auto|].
  destruct (N.eqb c 46); [|inversion R; subst; auto].
  destruct rest' as [|c' r'']; [discriminate|].
  destruct (release g (c' :: r'') false) as [[l rr]| | |] eqn:R'; cbn [bind fst snd] in R; try discriminate.
  inversion R; subst. assert (A1 : ascii (c' :: r'')) by (inversion A0; auto).
  apply (IH _ _ _ _ A1 R').
Qed.

Lemma parse_epoch_ascii c e0 i1 : ascii c -> parse_epoch c = Ok (e0, i1) -> ascii i1.
Proof.
  unfold parse_epoch. intros A. pose proof (split_at_byte_spec 33 c) as Sp.
  destruct (split_at_byte 33 c) as [[[|c0 before] after]|].
  - intros E; inversion E; subst; auto.
  - destruct Sp as [-> _]. destruct (digits_val (c0 :: before) 0); [|discriminate].
    destruct (z <=? 255); [|discriminate]. intros E; inversion E; subst.
    apply ascii_app_r in A. inversion A; auto.
  - intros E; inversion E; subst; auto.
Qed.

Lemma ascii_strip_v s : ascii s -> ascii (strip_v s).
Proof. intros A. destruct s as [|c t]; simpl; auto. destruct (N.eqb c 118 || N.eqb c 86); auto. inversion A; auto. Qed.

Lemma dom_width_inv p : c02_dom_width p = true ->
  match s_pre p with Some (_, n) => n < two63 | None => True end /\
  match s_post p with Some n => n < two63 | None => True end /\
  match s_dev p with Some n => n < two63 | None => True end.
Proof.
  unfold c02_dom_width. intros H. repeat (apply andb_true_iff in H; destruct H as [H ?]).
  repeat split.
  - destruct (s_pre p) as [[k n]|]; auto. apply Z.ltb_lt; auto.
  - destruct (s_post p); auto. apply Z.ltb_lt; auto.
  - destruct (s_dev p); auto. apply Z.ltb_lt; auto.
Qed.

(* ---------- the link ---------- *)
Theorem parse_link s v p :
  parse_pypi s = Ok v -> spec_parse s = Some p -> c02_dom_width p = true ->
  abs_rel (v_num v, ext_of v) p /\ pv_wf p.
Proof.
  intros G Sp W.
  unfold parse_pypi in G. destruct (possible_pypi s) eqn:P; [|discriminate]. cbn [negb] in G.
  destruct (pep_init s) as [[[[[nums3 unc] vpre] ispre] e4]| | |] eqn:Init; cbn [bind] in G; try discriminate.
  inversion G; subst v. clear G. unfold ext_of. cbn [v_num v_ext].
  unfold spec_parse in Sp. destruct (is_ascii s) eqn:As; [|discriminate].
  unfold pep_init in Init.
  destruct (chars_ok (trim_space s)) eqn:Ck; [|discriminate]. cbn [negb] in Init.
  rewrite (cores_equal s As P Ck) in Sp.
  assert (Ac : ascii (trim_space s)).
  { destruct (possible_first s P) as (c & t & -> & Hc).
    assert (Hg : go_ws c = false) by (destruct (go_ws c) eqn:E; auto; apply go_ws_sp_ws in E; congruence).
    rewrite (trim_space_ascii c t (is_ascii_ascii _ As) Hg). apply ascii_dwe. apply is_ascii_ascii; auto. }
  set (c := trim_space s) in *.
  destruct (parse_epoch c) as [[e0 input1]| | |] eqn:Ep; cbn [bind] in Init; try discriminate.
  destruct (release (S (length (strip_v input1))) (strip_v input1) true) as [[nums rest]| | |] eqn:Rl;
    cbn [bind] in Init; try discriminate.
  destruct nums as [|n0 nums']; [discriminate|]. set (nums := n0 :: nums') in *.
  destruct (parse_pre e0 rest) as [[e1 vpre'] rest1] eqn:Gpre.
  destruct (parse_post e1 rest1) as [e2 rest2] eqn:Gpost.
  destruct (parse_dev e2 rest2) as [e3 rest3] eqn:Gdev.
  destruct (parse_local e3 rest3) as [[e4' rest4]| | |] eqn:Gloc; cbn [bind] in Init; try discriminate.
  destruct rest4; [|discriminate]. inversion Init; subst nums3 unc vpre ispre e4. clear Init.
  (* the reference *)
  unfold spec_core in Sp. rewrite sp_strip_v_strip_v in Sp.
  destruct (sp_epoch (strip_v c)) as [ep s1] eqn:Sep.
  destruct (sp_release (S (length s1)) s1) as [[rel s2]|] eqn:Srel; [|discriminate].
  destruct (sp_pre s2) as [pre s3] eqn:Spre.
  destruct (sp_post s3) as [post s4] eqn:Spost.
  destruct (sp_dev s4) as [dev s5] eqn:Sdev.
  destruct (sp_local s5) as [[loc [|x5 r5]]|] eqn:Sloc; try discriminate.
  inversion Sp; subst p. clear Sp.
  destruct (dom_width_inv _ W) as (Wpre & Wpost & Wdev). cbn [s_pre s_post s_dev] in Wpre, Wpost, Wdev.
  (* epoch *)
  destruct (epoch_stage c e0 input1 ep s1 _ rel s2 _ nums rest Ep Sep Srel Rl ltac:(discriminate)) as (E1 & Eep & Hep).
  assert (A1 : ascii s1).
  { rewrite <- E1. apply ascii_strip_v. eapply parse_epoch_ascii; eauto. }
  rewrite E1 in Rl.
  (* release *)
  assert (Arest : ascii rest) by (eapply release_ascii; eauto).
  destruct (release_stage (length s1) _ s1 true rel s2 nums rest A1 (le_n _) Srel Rl) as [(En & Nrel & Hrest)|(t & Es2)].
  2:{ exfalso. subst s2.
      assert (N : ~ alpha_start (42%N :: t)) by (intros (c' & t' & E & A'); inversion E; subst; discriminate).
      pose proof (spec_tail_dot _ _ _ _ _ _ _ _ Spre Spost Sdev Sloc). contradiction. }
  assert (R2 : Rrel s2 rest).
  { destruct Hrest as [->|[-> Hne]]; [left; reflexivity|].
    right. split; auto. eapply spec_tail_dot; eauto. }
  (* pre, post, dev *)
  destruct (pre_stage e0 s2 rest e1 vpre' rest1 pre s3 R2 Arest Gpre Spre Wpre) as (R3 & A3 & Epre & Wfpre).
  destruct (post_stage e1 s3 rest1 e2 rest2 post s4 R3 A3 Gpost Spost Wpost) as (R4 & A4 & Epost & Wfpost).
  destruct (dev_stage e2 s4 rest2 e3 rest3 dev s5 R4 A4 Gdev Sdev Wdev) as (R5 & A5 & Edev & Wfdev).
  (* local *)
  assert (E5 : rest3 = s5).
  { destruct R5 as [->|[E5 _]]; auto. exfalso. subst s5. discriminate Sloc. }
  subst s5.
  destruct (local_stage e3 rest3 e4' [] loc Gloc Sloc) as (_ & Eloc & Wfloc).
  split.
  - split; cbn [fst snd].
    + unfold go_nums. cbn [s_release]. rewrite En. reflexivity.
    + rewrite Eloc, Edev, Epost, Epre, Eep. unfold go_ext. cbn [s_epoch s_pre s_post s_dev s_local].
      destruct loc, dev, post, pre as [[k n]|]; reflexivity.
  - split; cbn [s_epoch s_release s_pre s_post s_dev s_local]; auto.
    + intros k n E; inversion E; subst. exact Wfpre.
    + intros n E; inversion E; subst. exact Wfpost.
    + intros n E; inversion E; subst. exact Wfdev.
    + intros l E; inversion E; subst. exact Wfloc.
Qed.

Lemma dom_width_of p : c02_pypi_dom p = true -> c02_dom_width p = true.
Proof. unfold c02_pypi_dom. intros H. apply andb_true_iff in H. tauto. Qed.

(* On the domain, Go orders any two strings that both accept exactly as the reference does. *)
Theorem c02_strings a b va vb pa pb :
  parse_pypi a = Ok va -> parse_pypi b = Ok vb ->
  spec_parse a = Some pa -> spec_parse b = Some pb ->
  c02_pypi_dom pa = true -> c02_pypi_dom pb = true ->
  Z.sgn (vcmp va vb) = spec_compare pa pb.
Proof.
  intros Ga Gb Sa Sb Da Db.
  destruct (parse_link a va pa Ga Sa (dom_width_of pa Da)) as [Ra Wa].
  destruct (parse_link b vb pb Gb Sb (dom_width_of pb Db)) as [Rb Wb].
  destruct (parse_pypi_is_pypi _ _ Ga) as [Pa _], (parse_pypi_is_pypi _ _ Gb) as [Pb _].
  rewrite (vcmp_pypi va vb Pa Pb).
  apply c02_compare_abs; auto.
Qed.

(* every version of the grammar is well formed *)
Lemma spec_parse_wf_when_go s v p :
  parse_pypi s = Ok v -> spec_parse s = Some p -> c02_dom_width p = true -> pv_wf p.
Proof. intros G S W. apply (parse_link s v p G S W). Qed.

(* ---------- every version of the grammar is well formed ---------- *)
Lemma first_word_pre_values i k r : first_word pre_words i = Some (k, r) -> 0 <= k <= 2.
Proof.
  unfold pre_words. cbn [first_word].
  repeat match goal with |- context [ci_prefix ?w i] => destruct (ci_prefix w i) end;
    intros H; inversion H; lia.
Qed.

Lemma sp_tagged_nonneg {X} (ws : list (bytes * X)) s x n r : sp_tagged ws s = (Some (x, n), r) -> 0 <= n.
Proof.
  unfold sp_tagged. destruct (first_word ws (opt_sep s)) as [[y s2]|]; [|discriminate].
  destruct (span_digits (opt_sep s2)) as [d s4]. intros H; inversion H; subst. apply sp_int_nonneg.
Qed.

Lemma sp_release_wf f : forall s rel r, sp_release f s = Some (rel, r) -> nonneg rel /\ rel <> [].
Proof.
  induction f as [|f IH]; intros s rel r H; [discriminate|].
  rewrite sp_release_unfold in H. destruct (span_digits s) as [[|c d] r0]; [discriminate|].
  assert (One : nonneg [sp_int (c :: d)]) by (constructor; [apply sp_int_nonneg | constructor]).
  destruct r0 as [|b r']; [inversion H; subst; split; [exact One | discriminate]|].
  destruct (N.eqb b 46); [|inversion H; subst; split; [exact One | discriminate]].
  destruct (sp_release f r') as [[l r'']|] eqn:E; inversion H; subst.
  - destruct (IH _ _ _ E) as [N _]. split; [constructor; [apply sp_int_nonneg | exact N] | discriminate].
  - split; [exact One | discriminate].
Qed.

Theorem spec_parse_wf s p : spec_parse s = Some p -> pv_wf p /\ s_release p <> [].
Proof.
  unfold spec_parse. destruct (is_ascii s); [|discriminate]. unfold spec_core.
  destruct (sp_epoch (sp_strip_v (sp_strip s))) as [ep s1] eqn:Ep.
  destruct (sp_release (S (length s1)) s1) as [[rel s2]|] eqn:Rl; [|discriminate].
  destruct (sp_pre s2) as [pre s3] eqn:Pr. destruct (sp_post s3) as [post s4] eqn:Po.
  destruct (sp_dev s4) as [dev s5] eqn:Dv.
  destruct (sp_local s5) as [[loc [|x r]]|] eqn:Lc; try discriminate.
  intros H; inversion H; subst p; clear H.
  destruct (sp_release_wf _ _ _ _ Rl) as [Nr Ner].
  split; [|exact Ner]. split; cbn [s_epoch s_release s_pre s_post s_dev s_local]; auto.
  - unfold sp_epoch in Ep. destruct (span_digits (sp_strip_v (sp_strip s))) as [[|c d] r0]; [inversion Ep; lia|].
    destruct r0 as [|b r']; [inversion Ep; lia|]. destruct (N.eqb b 33); inversion Ep; subst; [apply sp_int_nonneg | lia].
  - intros k n E. subst pre. unfold sp_pre in Pr. split; [|eapply sp_tagged_nonneg; eauto].
    unfold sp_tagged in Pr. destruct (first_word pre_words (opt_sep s2)) as [[k' s2']|] eqn:Fw; [|discriminate].
    destruct (span_digits (opt_sep s2')) as [d s4']. inversion Pr; subst. eapply first_word_pre_values; eauto.
  - intros n E. subst post. unfold sp_post in Po.
    assert (Ex : forall t, (match sp_tagged post_words t with (Some (_, n0), r0) => (Some n0, r0) | (None, r0) => (None, r0) end)
                           = (Some n, s4) -> 0 <= n).
    { intros t Ht. destruct (sp_tagged post_words t) as [[[u m]|] r0] eqn:St; inversion Ht; subst.
      eapply sp_tagged_nonneg; eauto. }
    destruct s3 as [|c t]; [eapply Ex; eauto|].
    destruct (N.eqb c 45); [|eapply Ex; eauto].
    destruct (span_digits t) as [[|c0 d0] r0]; [eapply Ex; eauto|]. inversion Po; subst. apply sp_int_nonneg.
  - intros n E. subst dev. unfold sp_dev in Dv.
    destruct (sp_tagged dev_words s4) as [[[u m]|] r0] eqn:St; inversion Dv; subst. eapply sp_tagged_nonneg; eauto.
  - intros l E. subst loc. unfold sp_local in Lc. destruct s5 as [|c t]; [discriminate|].
    destruct (N.eqb c 43); [|discriminate].
    destruct (sp_segs (S (length t)) t) as [[l' r']|] eqn:Sg; [|discriminate]. inversion Lc; subst.
    destruct (sp_segs_inv _ _ _ Sg) as (_ & _ & _ & _ & _ & Ll & Ok). split; auto.
Qed.
