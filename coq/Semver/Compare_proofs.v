(* compare() of Compare.v on versions without extension (the SemVer family). *)
From Coq Require Import Lia.
From DepsDev Require Import Lib.Base Lib.Order Semver.Version Semver.Maven Semver.Gem Semver.Pep440
  Semver.Compare Semver.Generic_proofs.
Local Open Scope Z_scope.

(* Versions of system S as the family parsers produce them: no extension. *)
Definition fam_version (S : system) (v : version) : Prop := v_sys v = S /\ v_ext v = NoExt.

Lemma sys_eqb_refl s : sys_eqb s s = true.
Proof. unfold sys_eqb. apply Z.eqb_refl. Qed.

Lemma compare_family S a b : fam_version S a -> fam_version S b ->
  compare a b = Ok (generic_compare S a b).
Proof.
  intros (Sa & Ea) (Sb & Eb). unfold compare. rewrite Sa, Sb, sys_eqb_refl. simpl.
  rewrite Ea. reflexivity.
Qed.

Lemma family_laws S : exists c : version -> version -> Z,
  (forall a b, fam_version S a -> fam_version S b -> compare a b = Ok (c a b)) /\
  cmp_laws (fam_version S) c.
Proof.
  exists (generic_compare S). split.
  - apply compare_family.
  - apply core_laws. apply (core_weaken (fun _ => True) (fam_version S)); [auto | apply generic_compare_core].
Qed.

Lemma family_build S v b : fam_version S v -> compare v (with_build v b) = Ok 0.
Proof.
  intros H. rewrite (compare_family S) by (auto; destruct H; split; auto).
  rewrite generic_compare_build. reflexivity.
Qed.

(* Versions of different systems are ordered by system, whatever their content. *)
Lemma compare_cross a b : v_sys a <> v_sys b ->
  compare a b = Ok (sgnZ (sys_index (v_sys a)) (sys_index (v_sys b))).
Proof.
  intros H. unfold compare.
  assert (E : sys_eqb (v_sys a) (v_sys b) = false).
  { unfold sys_eqb. apply Z.eqb_neq. intros E. apply H.
    destruct (v_sys a), (v_sys b); simpl in E; congruence || lia. }
  rewrite E. reflexivity.
Qed.
