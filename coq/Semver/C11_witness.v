(* C11: the round trip as a check over the model, the two recorded counterexamples, and an
   instance of the hypothesis of the round-trip theorem. *)
From Coq Require Import String Lia.
From DepsDev Require Import Lib.Base Semver.Version Semver.Compare Semver.Span Semver.Interval Semver.Set Semver.Constraint
     Semver.C11_proofs Semver.Witness.
Local Open Scope Z_scope.

Definition c11_sys (S : system) : bool :=
  match S with SDefault | SNPM | SCargo | SGo | SNuGet => true | _ => false end.

(* None: the requirement is rejected (nothing to check); Some false: the printed set is rejected
   by ParseSetConstraint, or prints differently, or matches v differently under interval matching *)
Definition c11_check (pv : system -> bool -> bytes -> res parse_out) (S : system) (text : bytes) (v : version) : option bool :=
  match parse_constraint pv S text with
  | Ok c =>
      match set_string (c_set c) with
      | Ok s1 =>
          match parse_set_constraint pv S s1 with
          | Ok c2 =>
              match set_string (c_set c2), match_version_prerelease c v, match_version_prerelease c2 v with
              | Ok s2, Ok m1, Ok m2 => Some (bytes_eqb s1 s2 && Bool.eqb m1 m2)
              | _, _, _ => None
              end
          | Err _ => Some false
          | _ => None
          end
      | _ => None
      end
  | _ => None
  end.

Definition C11_full_for (pv : system -> bool -> bytes -> res parse_out) : Prop :=
  forall S text v, c11_sys S = true -> v_sys v = S -> c11_check pv S text v <> Some false.

(* F-C11-1: NuGet drops the fourth component 0 of the printed lower bound *)
Lemma nuget_text_witness : c11_check pv_w SNuGet (b "1.2.3.*") (mkv SNuGet "1.2.3.1" [1;2;3;1] []) = Some false.
Proof. vm_compute. reflexivity. Qed.

(* F-C11-2: an infinite component in a lower bound is not accepted back *)
Lemma inf_lower_witness : c11_check pv_w SCargo (b ">10.10.9223372036854775806") (mkv SCargo "10.10.1" [10;10;1] []) = Some false.
Proof. vm_compute. reflexivity. Qed.

Theorem nuget_text_refuted : ~ C11_full_for pv_w.
Proof. intros H. refine (H SNuGet _ _ _ _ nuget_text_witness); reflexivity. Qed.

Theorem inf_lower_refuted : ~ C11_full_for pv_w.
Proof. intros H. refine (H SCargo _ _ _ _ inf_lower_witness); reflexivity. Qed.

(* ---------------------------------------------------------------- the hypothesis is satisfiable *)
Lemma reparses_fields r v v' :
  r = Ok {| po_v := Some v'; po_err := false |} -> canon false v' = canon false v ->
  v_sys v' = v_sys v -> v_ext v' = NoExt -> v_ext v = NoExt -> v_num v' = v_num v -> v_pre v' = v_pre v ->
  reparses r v v'.
Proof.
  intros Er Ec Es E1 E2 En Ep. repeat split; auto.
  - intros x. unfold compare. rewrite Es, E1, E2. unfold generic_compare. rewrite En, Ep. reflexivity.
  - intros x. unfold compare. rewrite Es, E1, E2. unfold generic_compare. rewrite En, Ep. reflexivity.
Qed.

(* ^1.2.0 = {[1.2.0:1.inf.inf]}: both bounds are read back by the table parser *)
Example span_ok_inhabited :
  exists c l', parse_constraint pv_w SNPM (b "^1.2.0") = Ok c /\ set_span (c_set c) <> [] /\
               Forall2 (span_ok pv_w SNPM) (set_span (c_set c)) l'.
Proof.
  eexists. eexists. split; [vm_compute; reflexivity|]. split; [discriminate|].
  constructor; [|constructor].
  unfold span_ok. cbn [sp_rank].
  do 4 eexists. split; [reflexivity|]. split; [reflexivity|].
  split; [vm_compute; reflexivity|]. split; [vm_compute; reflexivity|].
  split; [apply reparses_fields; vm_compute; reflexivity|].
  split; [apply reparses_fields; vm_compute; reflexivity|].
  reflexivity.
Qed.
