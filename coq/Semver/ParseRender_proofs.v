(* The SemVer-family parser on rendered text, stage by stage: number tokens, dotted numbers,
   elements, metadata lists.  Forward direction only (text of a given shape is accepted and
   yields the expected fields); all lexers are error-free and without the infinity sign. *)
From Coq Require Import Lia.
From DepsDev Require Import Lib.Base Semver.Version Gen.SemverTables Semver.Parse Spec.SemverSpec
  Semver.SemverSpec_proofs Semver.ParseLex_proofs.
Local Open Scope Z_scope.

Local Arguments infinity : simpl never.
Local Arguments byte_type_of : simpl never.

Definition family (sy : system) : Prop :=
  sy = SDefault \/ sy = SCargo \/ sy = SGo \/ sy = SNPM \/ sy = SNuGet \/ sy = SComposer.

Notation PS l nums pre ip b :=
  {| ps_lex := l; ps_num := nums; ps_pre := pre; ps_is_pre := ip; ps_build := b |}.

(* ------------------------------------------------------------------ number tokens *)
Definition lz_ok (sy : system) : bool :=
  match sy with SNPM | SNuGet | SRubyGems | SComposer => true | _ => false end.

Definition lead_zero (t : bytes) : bool :=
  match t with d0 :: dt => N.eqb d0 48 && negb (Nat.eqb (length dt) 0) | [] => false end.

(* a token of the dotted number list and its value *)
Definition numtok (sy : system) (t : bytes) (v : Z) : Prop :=
  (t = [42%N] /\ valid_wildcard sy 42 = true /\ v = wildcard) \/
  (t <> [] /\ forallb is_digit t = true /\ lead_zero t && negb (lz_ok sy) = false /\
   dec_val t 0 < infinity /\ v = dec_val t 0).

(* how many numbers may still be added *)
Definition room (sy : system) (n : nat) : bool :=
  match sy with
  | SNuGet => Nat.ltb n 4
  | SComposer | SPyPI | SRubyGems => true
  | _ => Nat.ltb n 3
  end.

Lemma parser_add_num_ok sy l nums pre ip b v : family sy -> room sy (length nums) = true -> v <= infinity ->
  parser_add_num sy (PS l nums pre ip b) v = (true, PS l (nums ++ [v]) pre ip b).
Proof.
  intros F R V. unfold parser_add_num. cbn [ps_num].
  assert (E : (infinity <? v) = false) by (apply Z.ltb_ge; exact V).
  destruct F as [F|[F|[F|[F|[F|F]]]]]; subst sy; cbn [room] in R; cbn [sys_eqb sys_index Z.eqb andb];
    try (apply Nat.ltb_lt in R);
    destruct (Nat.eqb_spec (length nums) 3) as [E3|E3]; try lia;
    cbn [ps_num set_err with_lex ps_lex ps_pre ps_is_pre ps_build];
    try (destruct (Nat.eqb_spec (length nums) 4) as [E4|E4]; try lia);
    cbn [andb]; rewrite E; reflexivity.
Qed.

Lemma dec_val_nonneg s : forall acc, 0 <= acc -> 0 <= dec_val s acc.
Proof. intros acc H. pose proof (dec_val_mono s acc H). lia. Qed.

Lemma parse_number_tok sy t v rest pos la nums pre ip b :
  family sy -> numtok sy t v -> stopc is_digit rest -> room sy (length nums) = true ->
  sys_eqb sy SNuGet && is_wildcard nums = false ->
  parse_number sy (PS (LX (t ++ rest) pos la) nums pre ip b) =
  (true, PS (LX rest (pos + length t) []) (nums ++ [v]) pre ip b).
Proof.
  intros F T St R W. unfold parse_number.
  cbn [ps_lex]. destruct (lex_peek (LX (t ++ rest) pos la)) as [pk lpk].
  cbn [LX l_inf andb l_rest].
  destruct T as [(Et & VW & Ev)|(Ne & Dg & LZ & Rg & Ev)]; subst v; [subst t|].
  - rewrite (take_digits_run [] _ pos la [] ([42%N] ++ rest)); [|cbn; lia|reflexivity|split; [exact vs_42|reflexivity]].
    cbn [rev app length l_rest LX with_lex ps_num]. rewrite VW, W.
    cbn [with_lex ps_lex l_pos l_last l_err l_inf ps_num ps_pre ps_is_pre ps_build].
    rewrite Nat.add_0_r.
    replace (pos + 1)%nat with (S pos) by lia.
    apply (parser_add_num_ok sy _ nums pre ip b wildcard F R). unfold wildcard, infinity. lia.
  - rewrite (take_digits_run t _ pos la [] rest); [|rewrite app_length; lia|exact Dg|exact St].
    cbn [rev app].
    destruct t as [|d0 dt]; [congruence|].
    cbn [lead_zero] in LZ. fold (lz_ok sy). rewrite LZ.
    unfold parse_num_digits. rewrite (digits_val_dec (d0 :: dt) 0 Dg).
    assert (E : (infinity <=? dec_val (d0 :: dt) 0) = false) by (apply Z.leb_gt; exact Rg).
    rewrite E. cbn [with_lex ps_num]. rewrite W.
    cbn [with_lex ps_lex ps_num ps_pre ps_is_pre ps_build].
    apply (parser_add_num_ok sy _ nums pre ip b _ F R). lia.
Qed.

(* ------------------------------------------------------------------ dotted numbers *)
Definition dots (ts : list bytes) : bytes := flat_map (fun t => 46%N :: t) ts.

(* successive tokens fit: room for each, and for NuGet no number after a wildcard *)
Fixpoint toks_ok (sy : system) (nums : list Z) (tvs : list (bytes * Z)) : Prop :=
  match tvs with
  | [] => True
  | (t, v) :: r => numtok sy t v /\ room sy (length nums) = true /\
                   sys_eqb sy SNuGet && is_wildcard nums = false /\ toks_ok sy (nums ++ [v]) r
  end.

(* what follows the numbers: nothing, - or + *)
Definition tailstart (rest : bytes) : Prop :=
  match rest with [] => True | c :: _ => c = 45%N \/ c = 43%N end.

Lemma lex_next_la r p la : lex_next (LX r p la) = lex_next (LX r p []).
Proof. reflexivity. Qed.

Lemma tailstart_stop_digit rest : tailstart rest -> stopc is_digit rest.
Proof. destruct rest as [|c t]; [auto|]. intros [E|E]; subst c; split; vm_compute; reflexivity. Qed.

Lemma dots_stop_digit ts rest : tailstart rest -> stopc is_digit (dots ts ++ rest).
Proof.
  intros H. destruct ts as [|t ts]; [apply tailstart_stop_digit; exact H|].
  cbn [dots flat_map app]. split; [exact vs_46 | reflexivity].
Qed.

Lemma numbers_loop_run sy rest : family sy -> tailstart rest -> forall tvs fuel pos la nums pre ip b,
  (length tvs < fuel)%nat -> toks_ok sy nums tvs ->
  (let '(r, l) := lex_next (LX (dots (map fst tvs) ++ rest) pos la) in
   numbers_loop sy fuel (PS l nums pre ip b) r) =
  (let '(r', l') := lex_next (LX rest (pos + length (dots (map fst tvs))) []) in
   (r', PS l' (nums ++ map snd tvs) pre ip b)).
Proof.
  intros F Tl. induction tvs as [|[t v] tvs IH]; intros fuel pos la nums pre ip b Hf Hok.
  - cbn [map dots flat_map app length]. rewrite Nat.add_0_r, app_nil_r, (lex_next_la rest pos la).
    destruct fuel as [|f]; [lia|].
    destruct rest as [|c r].
    + rewrite lex_next_nil. reflexivity.
    + assert (Hv : vs c = true) by (destruct Tl as [E|E]; subst c; vm_compute; reflexivity).
      rewrite (lex_next_vs c r pos [] Hv). cbn [numbers_loop].
      assert (E : (Z.of_N c =? 46) = false) by (destruct Tl as [E0|E0]; subst c; reflexivity).
      rewrite E. reflexivity.
  - destruct fuel as [|f]; [cbn in Hf; lia|].
    destruct Hok as (Ht & Hr & Hw & Hok).
    cbn [map fst snd dots flat_map]. fold (dots (map fst tvs)).
    rewrite <- !app_assoc. cbn [app].
    rewrite (lex_next_vs 46 _ pos la vs_46). cbn [numbers_loop]. change (Z.of_N 46 =? 46) with true. cbv iota.
    rewrite (parse_number_tok sy t v (dots (map fst tvs) ++ rest) (S pos) [46%N] nums pre ip b F Ht
               (dots_stop_digit _ _ Tl) Hr Hw).
    cbn [ps_lex with_lex ps_num ps_pre ps_is_pre ps_build].
    specialize (IH f (S pos + length t)%nat [] (nums ++ [v]) pre ip b ltac:(cbn [length] in Hf; lia) Hok).
    destruct (lex_next (LX (dots (map fst tvs) ++ rest) (S pos + length t) [])) as [r1 l1].
    unfold with_lex. cbn [ps_lex ps_num ps_pre ps_is_pre ps_build].
    rewrite IH. cbn [length]. rewrite app_length.
    replace (S pos + length t + length (dots (map fst tvs)))%nat
      with (pos + S (length t + length (dots (map fst tvs))))%nat by lia.
    rewrite <- app_assoc. reflexivity.
Qed.

(* ------------------------------------------------------------------ elements and metadata *)
Lemma parse_elem_run sy e rest pos la nums pre ip b :
  elemb sy e = true -> stopc estop rest ->
  parse_elem sy (PS (LX (e ++ rest) pos la) nums pre ip b) =
  (Some e, PS (LX rest (pos + length e) []) nums pre ip b).
Proof.
  intros He Hs. unfold parse_elem. cbn [ps_lex].
  destruct e as [|c e]; [discriminate|]. unfold elemb in He.
  rewrite (elem_loop_run sy (c :: e) _ pos la false [] rest); [|cbn [LX l_rest]; rewrite app_length; lia|exact He|exact Hs].
  reflexivity.
Qed.

(* first element, then dot-separated elements *)
Definition joind (e : bytes) (es : list bytes) : bytes := e ++ dots es.

(* what may follow a metadata list: nothing, or an accepted byte that is not part of an element and not a dot *)
Definition mstop (rest : bytes) : Prop :=
  match rest with [] => True | c :: _ => vs c = true /\ estop c = false /\ c <> 46%N end.

Lemma mstop_estop rest : mstop rest -> stopc estop rest.
Proof. destruct rest; [auto|]. intros (H1 & H2 & _). split; auto. Qed.

Lemma dots_estop es rest : mstop rest -> stopc estop (dots es ++ rest).
Proof.
  intros H. destruct es as [|e es]; [apply mstop_estop; exact H|].
  cbn [dots flat_map app]. split; [exact vs_46 | reflexivity].
Qed.

Lemma metadata_loop_run sy keep rest : mstop rest -> forall es e fuel pos la nums pre ip b n r,
  (length es < fuel)%nat -> Forall (fun x => elemb sy x = true) (e :: es) ->
  metadata_loop sy fuel (PS (LX (joind e es ++ rest) pos la) nums pre ip b) keep n r =
  (let '(r', l') := lex_next (LX rest (pos + length (joind e es)) []) in
   (r', PS l' nums (if keep then pre ++ e :: es else pre) ip b, (n + S (length es))%nat)).
Proof.
  intros Hm. induction es as [|e2 es IH]; intros e fuel pos la nums pre ip b n r Hf Hall.
  - destruct fuel as [|f]; [lia|].
    inversion Hall as [|? ? He _]; subst.
    unfold joind. cbn [dots flat_map]. rewrite app_nil_r.
    cbn [metadata_loop].
    rewrite (parse_elem_run sy e rest pos la nums pre ip b He (mstop_estop _ Hm)).
    assert (L : forall p', ps_lex (if keep then {| ps_lex := ps_lex p'; ps_num := ps_num p'; ps_pre := ps_pre p' ++ [e];
                ps_is_pre := ps_is_pre p'; ps_build := ps_build p' |} else p') = ps_lex p') by (intros; destruct keep; reflexivity).
    rewrite L. cbn [ps_lex].
    destruct rest as [|c t].
    + rewrite lex_next_nil. cbn [r_eof Z.eqb]. cbn [length]. rewrite Nat.add_1_r. destruct keep; reflexivity.
    + destruct Hm as (Hv & _ & Hd). rewrite (lex_next_vs c t _ [] Hv).
      assert (E : (Z.of_N c =? 46) = false) by (apply Z.eqb_neq; lia).
      rewrite E. cbn [length]. rewrite Nat.add_1_r. destruct keep; reflexivity.
  - destruct fuel as [|f]; [cbn in Hf; lia|].
    inversion Hall as [|? ? He Hall']; subst.
    unfold joind. cbn [dots flat_map]. fold (dots es). rewrite <- !app_assoc. cbn [app].
    cbn [metadata_loop].
    assert (Hst : stopc estop (46%N :: e2 ++ dots es ++ rest)) by (split; [exact vs_46 | reflexivity]).
    rewrite (parse_elem_run sy e _ pos la nums pre ip b He Hst).
    assert (L : forall p', ps_lex (if keep then {| ps_lex := ps_lex p'; ps_num := ps_num p'; ps_pre := ps_pre p' ++ [e];
                ps_is_pre := ps_is_pre p'; ps_build := ps_build p' |} else p') = ps_lex p') by (intros; destruct keep; reflexivity).
    rewrite L. cbn [ps_lex].
    rewrite (lex_next_vs 46 _ _ [] vs_46). change (Z.of_N 46 =? 46) with true. cbv iota.
    specialize (IH e2 f (S (pos + length e)) [46%N] nums (if keep then pre ++ [e] else pre) ip b (S n) 46
                  ltac:(cbn [length] in Hf; lia) Hall').
    unfold joind in IH. rewrite <- app_assoc in IH.
    replace (with_lex _ (LX (e2 ++ dots es ++ rest) (S (pos + length e)) [46%N]))
      with (PS (LX (e2 ++ dots es ++ rest) (S (pos + length e)) [46%N]) nums (if keep then pre ++ [e] else pre) ip b)
      by (destruct keep; reflexivity).
    change (Z.of_N 46) with 46. rewrite IH.
    rewrite !app_length. cbn [length]. rewrite ?app_length.
    replace (S (pos + length e) + (length e2 + length (dots es)))%nat
      with (pos + (length e + S (length e2 + length (dots es))))%nat by lia.
    destruct (lex_next _) as [r' l'].
    replace (S n + S (length es))%nat with (n + S (S (length es)))%nat by lia.
    destruct keep; [rewrite <- app_assoc|]; reflexivity.
Qed.

Lemma elemb_nonempty sy e : elemb sy e = true -> (1 <= length e)%nat.
Proof. destruct e; [discriminate|]. cbn [length]. lia. Qed.

Lemma dots_length_ge sy es : Forall (fun x => elemb sy x = true) es -> (length es <= length (dots es))%nat.
Proof.
  induction 1 as [|e es He _ IH]; [cbn; lia|].
  cbn [dots flat_map length]. fold (dots es). rewrite app_length. cbn [length]. lia.
Qed.

Lemma parse_metadata_run sy keep rest e es pos la nums pre ip b :
  mstop rest -> Forall (fun x => elemb sy x = true) (e :: es) ->
  parse_metadata sy (PS (LX (joind e es ++ rest) pos la) nums pre ip b) keep =
  (let '(r', l') := lex_next (LX rest (pos + length (joind e es)) []) in
   (r', PS l' nums (if keep then pre ++ e :: es else pre) ip b)).
Proof.
  intros Hm Hall. unfold parse_metadata.
  rewrite (metadata_loop_run sy keep rest Hm es e _ pos la nums pre ip b 0%nat 0); [| |exact Hall].
  - destruct (lex_next _) as [r' l']. cbn [Nat.add Nat.eqb]. reflexivity.
  - cbn [ps_lex LX l_rest]. unfold joind. rewrite !app_length.
    inversion Hall; subst. pose proof (dots_length_ge sy es ltac:(assumption)). lia.
Qed.

(* ------------------------------------------------------------------ the stages of parse_front *)
Definition r_pre (pre : list bytes) : bytes := match pre with [] => [] | e :: es => 45%N :: joind e es end.
Definition r_build (bl : list bytes) : bytes := match bl with [] => [] | e :: es => 43%N :: joind e es end.
Definition r_nums (tvs : list (bytes * Z)) : bytes :=
  match tvs with [] => [] | (t, _) :: r => t ++ dots (map fst r) end.

Definition null {A} (l : list A) : bool := match l with [] => true | _ => false end.

Lemma family_not_gems sy : family sy -> sys_eqb sy SRubyGems = false.
Proof. intros F. destruct F as [F|[F|[F|[F|[F|F]]]]]; subst sy; reflexivity. Qed.

Lemma r_build_mstop bl : mstop (r_build bl).
Proof. destruct bl as [|b bs]; [exact I|]. cbn [r_build]. split; [exact vs_43|]. split; [reflexivity|discriminate]. Qed.

Lemma pf_pre_run sy pre bl p la nums :
  family sy -> Forall (fun x => elemb sy x = true) pre ->
  (pre <> [] -> sys_eqb sy SGo && Nat.ltb (length nums) 3 = false) ->
  (let '(r, l) := lex_next (LX (r_pre pre ++ r_build bl) p la) in pf_pre sy r (PS l nums [] false [])) =
  (let '(r5, l5) := lex_next (LX (r_build bl) (p + length (r_pre pre)) []) in
   Ok (r5, PS l5 nums pre (negb (null pre)) [])).
Proof.
  intros F Hall Hgo. destruct pre as [|e es].
  - cbn [r_pre app length null negb]. rewrite Nat.add_0_r, (lex_next_la _ p la).
    destruct bl as [|b bs].
    + cbn [r_build]. rewrite lex_next_nil. unfold pf_pre. cbn [r_eof Z.eqb andb].
      rewrite (family_not_gems sy F). reflexivity.
    + cbn [r_build]. rewrite (lex_next_vs 43 _ p [] vs_43). change (Z.of_N 43) with 43.
      unfold pf_pre. cbn [Z.eqb Pos.eqb andb]. rewrite (family_not_gems sy F). reflexivity.
  - cbn [r_pre app null negb]. rewrite (lex_next_vs 45 _ p la vs_45). change (Z.of_N 45) with 45.
    unfold pf_pre. cbn [Z.eqb Pos.eqb ps_num]. rewrite (Hgo ltac:(discriminate)).
    unfold mark_pre. cbn [ps_lex ps_num ps_pre ps_is_pre ps_build].
    rewrite (parse_metadata_run sy true (r_build bl) e es (S p) [45%N] nums [] true [] (r_build_mstop bl) Hall).
    cbn [length app]. replace (S p + length (joind e es))%nat with (p + S (length (joind e es)))%nat by lia.
    destruct (lex_next _) as [r' l']. reflexivity.
Qed.

Lemma skipn_firstn_suffix {A} (a x : list A) :
  firstn (length (a ++ x) - length a) (skipn (length a) (a ++ x)) = x.
Proof.
  rewrite skipn_app, skipn_all, Nat.sub_diag. cbn [skipn app].
  rewrite app_length. replace (length a + length x - length a)%nat with (length x) by lia.
  apply firstn_all.
Qed.

Lemma pf_build_run sy str a bl la nums pre ip :
  family sy -> str = a ++ r_build bl -> Forall (fun x => elemb sy x = true) bl ->
  (bl <> [] -> sys_eqb sy SGo && Nat.ltb (length nums) 3 = false) ->
  (let '(r5, l5) := lex_next (LX (r_build bl) (length a) la) in pf_build sy str r5 (PS l5 nums pre ip [])) =
  Ok (r_eof, PS (LX [] (length str) []) nums pre ip (r_build bl)).
Proof.
  intros F Hs Hall Hgo. destruct bl as [|b bs].
  - cbn [r_build] in *. rewrite app_nil_r in Hs. subst a. rewrite lex_next_nil. reflexivity.
  - cbn [r_build] in *. rewrite (lex_next_vs 43 _ _ la vs_43). change (Z.of_N 43) with 43.
    unfold pf_build. cbn [Z.eqb Pos.eqb andb ps_num ps_lex]. rewrite (family_not_gems sy F). cbn [negb].
    rewrite (Hgo ltac:(discriminate)).
    pose proof (parse_metadata_run sy false [] b bs (S (length a)) [43%N] nums pre ip [] I Hall) as M.
    rewrite app_nil_r in M. rewrite M.
    rewrite lex_next_nil. cbn [ps_lex ps_num ps_pre ps_is_pre ps_build LX l_pos].
    rewrite Nat.sub_succ, Nat.sub_0_r.
    assert (E : (S (length a) + length (joind b bs))%nat = length str).
    { subst str. rewrite app_length. cbn [length]. lia. }
    rewrite E. subst str. rewrite skipn_firstn_suffix. reflexivity.
Qed.

Definition nuget_trim (sy : system) (nums : list Z) : list Z :=
  if sys_eqb sy SNuGet && Nat.eqb (length nums) 4 && (get_num nums 3 =? 0) then firstn 3 nums else nums.
Definition finish_nums (sy : system) (nums : list Z) : list Z :=
  if sys_eqb sy SRubyGems || sys_eqb sy SNuGet then pad3 nums 3 else nums.

(* the version read from rendered text *)
Definition rendered_version (sy : system) (str : bytes) (nums : list Z) (pre bl : list bytes) : version :=
  {| v_sys := sy; v_user_num_count := Z.of_nat (length nums); v_is_prerelease := negb (null pre);
     v_str := str; v_num := finish_nums sy nums; v_pre := pre; v_build := r_build bl; v_ext := NoExt |}.

Lemma pf_finish_run sy str nums pre ip b :
  pf_finish sy str r_eof (PS (LX [] (length str) []) nums pre ip b) =
  Ok ({| v_sys := sy; v_user_num_count := Z.of_nat (length nums); v_is_prerelease := ip;
         v_str := str; v_num := finish_nums sy nums; v_pre := pre; v_build := b; v_ext := NoExt |}, false).
Proof. reflexivity. Qed.

(* ------------------------------------------------------------------ prefix and possibleVersionString *)
Definition pfx (sy : system) : bytes := if sys_eqb sy SGo then [118%N] else [].

Definition numhead (c : N) : Prop := is_digit c = true \/ c = 42%N.

Lemma numtok_head sy t v : numtok sy t v -> exists c t', t = c :: t' /\ numhead c.
Proof.
  intros [(E & _)|(Ne & Dg & _)].
  - subst t. exists 42%N, []. split; [reflexivity | right; reflexivity].
  - destruct t as [|c t']; [congruence|]. exists c, t'. split; [reflexivity|].
    cbn [forallb] in Dg. apply andb_true_iff in Dg. left. tauto.
Qed.

Lemma numtok_chars sy t v : numtok sy t v -> forall c, In c t -> is_digit c || is_wild_char c = true.
Proof.
  intros [(E & _)|(Ne & Dg & _)] c Hin.
  - subst t. destruct Hin as [<-|[]]. reflexivity.
  - rewrite forallb_forall in Dg. rewrite (Dg c Hin). reflexivity.
Qed.

Lemma digit_range c : is_digit c = true -> (48 <= c <= 57)%N.
Proof. unfold is_digit. intros H. apply andb_true_iff in H. destruct H as [H1 H2]. apply N.leb_le in H1, H2. lia. Qed.

Lemma numhead_vs c : numhead c -> vs c = true.
Proof. intros [H|H]; [apply digit_vs; exact H | subst c; exact vs_42]. Qed.

Lemma numhead_not_v c : numhead c -> (Z.of_N c =? 118) = false /\ (Z.of_N c =? 86) = false /\ c <> 118%N /\ c <> 86%N.
Proof.
  intros [H|H].
  - apply digit_range in H. repeat split; try (apply Z.eqb_neq); lia.
  - subst c. repeat split; try reflexivity; discriminate.
Qed.

Lemma trim_left_v_other c t : c <> 118%N -> trim_left_v (c :: t) = c :: t.
Proof.
  intros H. cbn [trim_left_v]. destruct c as [|p]; [reflexivity|].
  do 7 (try (destruct p as [p|p|]; try reflexivity)). congruence.
Qed.

Lemma pf_prefix_run sy c rest : family sy -> numhead c ->
  pf_prefix sy false (pfx sy ++ c :: rest) = LX (c :: rest) (length (pfx sy)) (pfx sy).
Proof.
  intros F Hc. pose proof (numhead_vs c Hc) as Hv. destruct (numhead_not_v c Hc) as (N1 & N2 & _).
  destruct F as [F|[F|[F|[F|[F|F]]]]]; subst sy; unfold pfx;
    cbn [sys_eqb sys_index Z.eqb Pos.eqb app length pf_prefix].
  - reflexivity.
  - reflexivity.
  - fold (LX (118%N :: c :: rest) 0 []). rewrite (lex_next_vs 118 _ 0%nat [] vs_118). reflexivity.
  - fold (LX (c :: rest) 0 []). cbn [skip_v]. rewrite (lex_peek_vs c rest 0%nat [] Hv), N1. reflexivity.
  - reflexivity.
  - fold (LX (c :: rest) 0 []). rewrite (lex_peek_vs c rest 0%nat [] Hv), N1, N2. reflexivity.
Qed.

Lemma numchar_not_sep c : is_digit c || is_wild_char c = true -> sepc c = false.
Proof.
  intros H. apply orb_true_iff in H. destruct H as [H|H].
  - apply digit_range in H. unfold sepc.
    destruct (N.eqb_spec c 46), (N.eqb_spec c 45), (N.eqb_spec c 43); try lia; try reflexivity.
  - unfold is_wild_char in H. apply orb_true_iff in H. destruct H as [H|H];
      [apply orb_true_iff in H; destruct H as [H|H]|]; apply N.eqb_eq in H; subst c; reflexivity.
Qed.

Lemma pvs_loop_tok sy : forall ds k i rest,
  (forall c, In c ds -> is_digit c || is_wild_char c = true) -> (ds <> [] \/ i <> 0%nat) ->
  match rest with [] => True | c :: _ => sepc c = true end ->
  pvs_loop sy (firstn k (ds ++ rest)) i = true.
Proof.
  induction ds as [|d ds IH]; intros k i rest Hds Hne Hr.
  - destruct Hne as [Hne|Hne]; [congruence|]. cbn [app].
    destruct k as [|k]; [reflexivity|]. destruct rest as [|c t]; [reflexivity|].
    cbn [firstn pvs_loop]. fold (sepc c). rewrite Hr.
    destruct i; [congruence|reflexivity].
  - destruct k as [|k]; [reflexivity|]. cbn [app firstn pvs_loop].
    pose proof (Hds d (or_introl eq_refl)) as Hd. fold (sepc d). rewrite (numchar_not_sep d Hd), Hd.
    apply IH; [intros c Hc; apply Hds; right; exact Hc | right; discriminate | exact Hr].
Qed.

Lemma pvs_rendered sy t v rest : family sy -> numtok sy t v ->
  match rest with [] => True | c :: _ => sepc c = true end ->
  possible_version_string sy (pfx sy ++ t ++ rest) = true.
Proof.
  intros F T Hr. destruct (numtok_head sy t v T) as (c & t' & E & Hc).
  destruct (numhead_not_v c Hc) as (_ & _ & N1 & N2).
  assert (L : pvs_loop sy (firstn 3 (t ++ rest)) 0 = true).
  { apply pvs_loop_tok; [exact (numtok_chars sy t v T) | left; subst t; discriminate | exact Hr]. }
  unfold possible_version_string.
  destruct F as [F|[F|[F|[F|[F|F]]]]]; subst sy; unfold pfx in *; cbn [sys_eqb sys_index Z.eqb Pos.eqb app orb];
    subst t; cbn [app] in *.
  - exact L.
  - exact L.
  - exact L.
  - rewrite (trim_left_v_other c _ N1). exact L.
  - exact L.
  - apply N.eqb_neq in N1, N2. rewrite N1, N2. exact L.
Qed.

(* ------------------------------------------------------------------ the whole parser *)
Lemma tail_r_not_dot pre bl p la : (fst (lex_next (LX (r_pre pre ++ r_build bl) p la)) =? 46) = false.
Proof.
  destruct pre as [|e es]; [destruct bl as [|b bs]|]; cbn [r_pre r_build app].
  - reflexivity.
  - rewrite (lex_next_vs 43 _ p la vs_43). reflexivity.
  - rewrite (lex_next_vs 45 _ p la vs_45). reflexivity.
Qed.

Lemma tail_tailstart pre bl : tailstart (r_pre pre ++ r_build bl).
Proof.
  destruct pre as [|e es]; [destruct bl as [|b bs]|]; cbn [r_pre r_build app tailstart]; auto.
Qed.

Lemma tail_sep pre bl : match r_pre pre ++ r_build bl with [] => True | c :: _ => sepc c = true end.
Proof. destruct pre as [|e es]; [destruct bl as [|b bs]|]; cbn [r_pre r_build app]; auto. Qed.

Lemma numtok_len sy t v : numtok sy t v -> (1 <= length t)%nat.
Proof. intros T. destruct (numtok_head sy t v T) as (c & t' & -> & _). cbn [length]. lia. Qed.

Lemma dots_len_toks sy : forall tvs nums, toks_ok sy nums tvs -> (length tvs <= length (dots (map fst tvs)))%nat.
Proof.
  induction tvs as [|[t v] tvs IH]; intros nums H; [cbn; lia|].
  destruct H as (_ & _ & _ & H). specialize (IH _ H).
  cbn [map fst]. change (dots (t :: map fst tvs)) with (46%N :: t ++ dots (map fst tvs)).
  cbn [length]. rewrite app_length. lia.
Qed.

Lemma room_nil sy : family sy -> room sy 0 = true.
Proof. intros F. destruct F as [F|[F|[F|[F|[F|F]]]]]; subst sy; reflexivity. Qed.

Theorem parse_rendered sy t1 v1 tvs pre bl :
  family sy -> toks_ok sy [] ((t1, v1) :: tvs) ->
  Forall (fun x => elemb sy x = true) pre -> Forall (fun x => elemb sy x = true) bl ->
  (pre <> [] \/ bl <> [] -> sys_eqb sy SGo && Nat.ltb (S (length tvs)) 3 = false) ->
  let str := pfx sy ++ r_nums ((t1, v1) :: tvs) ++ r_pre pre ++ r_build bl in
  parse sy str = Ok (rendered_version sy str (nuget_trim sy (v1 :: map snd tvs)) pre bl).
Proof.
  intros F Hok Hpre Hbl Hgo str.
  destruct Hok as (T1 & R1 & W1 & Hok). cbn [app] in Hok.
  set (tail := r_pre pre ++ r_build bl).
  assert (Estr : str = pfx sy ++ t1 ++ dots (map fst tvs) ++ tail).
  { unfold str, tail. cbn [r_nums]. rewrite <- !app_assoc. reflexivity. }
  unfold parse.
  assert (Hpvs : possible_version_string sy str = true).
  { rewrite Estr. apply (pvs_rendered sy t1 v1 _ F T1).
    destruct (map fst tvs) as [|t2 ts]; cbn [dots flat_map app]; [apply tail_sep | reflexivity]. }
  rewrite Hpvs. unfold parse_internal, parse_front. cbn [andb].
  destruct (numtok_head sy t1 v1 T1) as (c & t1' & Et1 & Hc).
  assert (Epf : pf_prefix sy false str = LX (t1 ++ dots (map fst tvs) ++ tail) (length (pfx sy)) (pfx sy)).
  { rewrite Estr, Et1. cbn [app]. apply (pf_prefix_run sy c _ F Hc). }
  rewrite Epf. unfold pf_numbers.
  rewrite (parse_number_tok sy t1 v1 (dots (map fst tvs) ++ tail) (length (pfx sy)) (pfx sy) [] [] false [] F T1
             (dots_stop_digit _ _ (tail_tailstart pre bl)) R1 W1).
  cbn [negb app ps_lex].
  pose proof (numbers_loop_run sy tail F (tail_tailstart pre bl) tvs (S (length str))
                (length (pfx sy) + length t1)%nat [] [v1] [] false []) as NL.
  assert (Hfuel : (length tvs < S (length str))%nat).
  { pose proof (dots_len_toks sy tvs [v1] Hok). rewrite Estr, !app_length. lia. }
  specialize (NL Hfuel Hok).
  destruct (lex_next (LX (dots (map fst tvs) ++ tail) (length (pfx sy) + length t1) [])) as [r1 l1].
  unfold with_lex at 1. cbn [ps_lex ps_num ps_pre ps_is_pre ps_build].
  rewrite NL. clear NL. cbn [app].
  set (pN := (length (pfx sy) + length t1 + length (dots (map fst tvs)))%nat).
  pose proof (tail_r_not_dot pre bl pN []) as Hdot. fold tail in Hdot.
  pose proof (pf_pre_run sy pre bl pN [] (nuget_trim sy (v1 :: map snd tvs)) F Hpre) as PP. fold tail in PP.
  destruct (lex_next (LX tail pN [])) as [r2 l2]. cbn [fst] in Hdot.
  cbn [ps_num ps_lex ps_pre ps_is_pre ps_build].
  assert (Etrim : (if sys_eqb sy SNuGet && Nat.eqb (length (v1 :: map snd tvs)) 4 && (get_num (v1 :: map snd tvs) 3 =? 0)
                   then PS l2 (firstn 3 (v1 :: map snd tvs)) [] false [] else PS l2 (v1 :: map snd tvs) [] false [])
                  = PS l2 (nuget_trim sy (v1 :: map snd tvs)) [] false []).
  { unfold nuget_trim. destruct (sys_eqb sy SNuGet && Nat.eqb (length (v1 :: map snd tvs)) 4 && (get_num (v1 :: map snd tvs) 3 =? 0)); reflexivity. }
  rewrite Etrim. clear Etrim. rewrite Hdot. cbn [andb]. rewrite (family_not_gems sy F). cbn [andb].
  assert (Hgo' : pre <> [] \/ bl <> [] -> sys_eqb sy SGo && Nat.ltb (length (nuget_trim sy (v1 :: map snd tvs))) 3 = false).
  { intros H. specialize (Hgo H). destruct (sys_eqb sy SGo) eqn:EG; [|reflexivity].
    assert (sy = SGo) by (destruct F as [F|[F|[F|[F|[F|F]]]]]; subst sy; try discriminate; reflexivity).
    subst sy. unfold nuget_trim. change (sys_eqb SGo SNuGet) with false. cbn [andb length]. rewrite map_length. exact Hgo. }
  rewrite (PP (fun H => Hgo' (or_introl H))). clear PP.
  set (a := pfx sy ++ (t1 ++ dots (map fst tvs)) ++ r_pre pre).
  assert (Ea : (pN + length (r_pre pre))%nat = length a).
  { unfold a, pN. rewrite !app_length. lia. }
  rewrite Ea.
  assert (Estr2 : str = a ++ r_build bl).
  { unfold a. rewrite Estr. unfold tail. rewrite <- !app_assoc. reflexivity. }
  pose proof (pf_build_run sy str a bl [] (nuget_trim sy (v1 :: map snd tvs)) pre (negb (null pre)) F Estr2 Hbl
                (fun H => Hgo' (or_intror H))) as PB.
  destruct (lex_next (LX (r_build bl) (length a) [])) as [r5 l5].
  rewrite PB. rewrite pf_finish_run. reflexivity.
Qed.
