(* Decimal rendering (Lib/Base.v Z_to_dec, strconv.Itoa) read back by dec_val: digits only, no
   leading zero, same value.  Self-contained (the PyPI files have their own copy of the first half). *)
From Coq Require Import Lia.
From DepsDev Require Import Lib.Base Spec.SemverSpec.
Local Open Scope Z_scope.

Local Arguments is_digit : simpl never.

Lemma dec_val_app' x : forall y a, dec_val (x ++ y) a = dec_val y (dec_val x a).
Proof. induction x as [|c x IH]; intros y a; cbn [app dec_val]; auto. Qed.

Lemma digit_48_plus r : (r < 10)%N -> is_digit (48 + r) = true /\ (48 + r - 48)%N = r.
Proof.
  intros H. unfold is_digit. split; [|lia].
  apply andb_true_iff. split; apply N.leb_le; lia.
Qed.

Lemma pos_digits_S f n acc :
  pos_digits (S f) n acc =
  if N.eqb (n / 10) 0 then (48 + n mod 10)%N :: acc else pos_digits f (n / 10) ((48 + n mod 10)%N :: acc).
Proof. reflexivity. Qed.

Definition head_nonzero (ds : bytes) : Prop := match ds with d :: _ => d <> 48%N | [] => False end.

Lemma pos_digits_sound fuel : forall n acc, (0 < n)%N -> (n < 2 ^ N.of_nat (S fuel))%N ->
  exists ds, pos_digits (S fuel) n acc = ds ++ acc /\ forallb is_digit ds = true /\ head_nonzero ds /\
             forall a, dec_val ds a = a * 10 ^ Z.of_nat (length ds) + Z.of_N n.
Proof.
  induction fuel as [|f IH]; intros n acc Hp Hn.
  - assert (Hn' : (n < 2)%N) by (simpl in Hn; lia).
    cbn [pos_digits]. assert (E : (n / 10 = 0)%N) by (apply N.div_small; lia). rewrite E. cbn [N.eqb].
    assert (M : (n mod 10 = n)%N) by (apply N.mod_small; lia). rewrite M.
    destruct (digit_48_plus n ltac:(lia)) as [D Sb].
    exists [(48 + n)%N]. split; [reflexivity|]. split; [cbn [forallb]; rewrite D; reflexivity|].
    split; [cbn [head_nonzero]; lia|].
    intros a. cbn [dec_val length]. rewrite Sb. change (10 ^ Z.of_nat 1) with 10. lia.
  - rewrite pos_digits_S.
    assert (R : (n mod 10 < 10)%N) by (apply N.mod_lt; lia).
    destruct (digit_48_plus (n mod 10) R) as [D Sb].
    destruct (N.eqb_spec (n / 10) 0) as [E|E].
    + assert (Hm : (n mod 10 = n)%N).
      { pose proof (N.div_mod n 10 ltac:(lia)) as DM. rewrite E in DM. lia. }
      exists [(48 + n mod 10)%N]. split; [reflexivity|]. split; [cbn [forallb]; rewrite D; reflexivity|].
      split; [cbn [head_nonzero]; lia|].
      intros a. cbn [dec_val length]. rewrite Sb. change (10 ^ Z.of_nat 1) with 10. rewrite Hm. lia.
    + assert (Hq : (n / 10 < 2 ^ N.of_nat (S f))%N).
      { replace (N.of_nat (S (S f))) with (N.succ (N.of_nat (S f))) in Hn by lia.
        rewrite N.pow_succ_r' in Hn.
        apply N.div_lt_upper_bound; lia. }
      destruct (IH (n / 10)%N ((48 + n mod 10)%N :: acc) (proj1 (N.neq_0_lt_0 _) E) Hq) as (ds & Eds & Dg & Hd & Val).
      exists (ds ++ [(48 + n mod 10)%N]). split; [rewrite Eds, <- app_assoc; reflexivity|].
      split; [rewrite forallb_app, Dg; cbn [forallb]; rewrite D; reflexivity|].
      split; [destruct ds; [contradiction | exact Hd]|].
      intros a. rewrite dec_val_app'. cbn [dec_val]. rewrite Val, Sb.
      rewrite app_length. cbn [length]. rewrite Nat2Z.inj_add. change (Z.of_nat 1) with 1.
      rewrite Z.pow_add_r by lia. change (10 ^ 1) with 10.
      pose proof (N.div_mod n 10 ltac:(lia)) as DM.
      assert (Z.of_N n = 10 * Z.of_N (n / 10) + Z.of_N (n mod 10)) by lia.
      lia.
Qed.

(* strconv.Itoa of a non-negative number *)
Lemma Z_to_dec_sound n : 0 <= n ->
  forallb is_digit (Z_to_dec n) = true /\ Z_to_dec n <> [] /\ dec_val (Z_to_dec n) 0 = n /\
  (match Z_to_dec n with d0 :: dt => N.eqb d0 48 && negb (Nat.eqb (length dt) 0) | [] => false end) = false.
Proof.
  intros Hn. destruct n as [|p|p]; [| |lia].
  - repeat split; try reflexivity; discriminate.
  - unfold Z_to_dec, N_to_dec.
    assert (Hlt : (N.pos p < 2 ^ N.of_nat (S (N.to_nat (N.log2 (N.pos p)))))%N).
    { rewrite Nat2N.inj_succ, N2Nat.id. apply N.log2_spec. lia. }
    destruct (pos_digits_sound _ (N.pos p) [] ltac:(lia) Hlt) as (ds & E & D & Hd & V).
    rewrite E, app_nil_r. split; [exact D|]. split; [destruct ds; [contradiction | discriminate]|].
    split; [rewrite V; simpl; lia|].
    destruct ds as [|d0 dt]; [reflexivity|]. cbn [head_nonzero] in Hd.
    apply N.eqb_neq in Hd. rewrite Hd. reflexivity.
Qed.
