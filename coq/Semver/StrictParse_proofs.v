(* The strict SemVer 2.0.0 grammar of Spec/SemverSpec.v tied to the model parser at the string
   level (C02): a string accepted by parse_strict is a rendering of its parse (cut/split
   inversion on the spec side), hence accepted by the family parser (ParseRender_proofs.v),
   which reads the same numbers and the same prerelease identifiers. *)
From Coq Require Import Lia.
From DepsDev Require Import Lib.Base Semver.Version Gen.SemverTables Semver.Parse Spec.SemverSpec
  Semver.SemverSpec_proofs Semver.ParseLex_proofs Semver.ParseRender_proofs.
Local Open Scope Z_scope.

Local Arguments infinity : simpl never.

(* ------------------------------------------------------------------ cut / split inversion *)
Lemma cut_spec sep : forall s acc a o, cut sep s acc = (a, o) ->
  rev acc ++ s = a ++ match o with None => [] | Some t => sep :: t end.
Proof.
  induction s as [|c t IH]; intros acc a o H; cbn [cut] in H.
  - inversion H; subst. reflexivity.
  - destruct (N.eqb_spec c sep) as [->|Hc].
    + inversion H; subst. reflexivity.
    + apply IH in H. cbn [rev] in H. rewrite <- app_assoc in H. exact H.
Qed.

Lemma split_on_joind : forall s cur, exists e es, split_on 46 s cur = e :: es /\ rev cur ++ s = joind e es.
Proof.
  induction s as [|c t IH]; intros cur; cbn [split_on].
  - exists (rev cur), []. split; [reflexivity|]. unfold joind. reflexivity.
  - destruct (N.eqb_spec c 46) as [->|Hc].
    + destruct (IH []) as (e' & es' & E1 & E2). exists (rev cur), (e' :: es'). split; [rewrite E1; reflexivity|].
      unfold joind in *. cbn [dots flat_map rev app] in *. fold (dots es'). rewrite E2. reflexivity.
    + destruct (IH (c :: cur)) as (e & es & E1 & E2). exists e, es. split; [exact E1|].
      cbn [rev] in E2. rewrite <- app_assoc in E2. exact E2.
Qed.

Lemma sequence_Forall2 {A B} (f : A -> option B) : forall l r, sequence (map f l) = Some r ->
  Forall2 (fun x y => f x = Some y) l r.
Proof.
  induction l as [|x l IH]; intros r H.
  - cbn in H. inversion H. constructor.
  - cbn [map] in H. apply sequence_cons in H. destruct H as (y & r' & Hx & Hs & ->). constructor; auto.
Qed.

Lemma Forall2_three {A B} (P : A -> B -> Prop) l a b c : Forall2 P l [a; b; c] ->
  exists t1 t2 t3, l = [t1; t2; t3] /\ P t1 a /\ P t2 b /\ P t3 c.
Proof.
  intros H. inversion H as [|x1 ? l1 ? H1 R1]; subst. inversion R1 as [|x2 ? l2 ? H2 R2]; subst.
  inversion R2 as [|x3 ? l3 ? H3 R3]; subst. inversion R3; subst. exists x1, x2, x3. auto.
Qed.

(* ------------------------------------------------------------------ identifiers are elements / tokens *)
Lemma is_ident_char_identc c : is_ident_char c = identc c.
Proof.
  destruct (N.lt_ge_cases c 128) as [H|H].
  - assert (F : forallb (fun c => Bool.eqb (is_ident_char c) (identc c)) all128 = true) by (vm_compute; reflexivity).
    apply Bool.eqb_prop. exact (finite128 _ F c H).
  - assert (E : identc c = false).
    { destruct (identc c) eqn:E; [|reflexivity]. apply identc_small in E. lia. }
    rewrite E. unfold is_ident_char, is_digit.
    destruct (N.leb_spec c 57); [lia|]. destruct (N.leb_spec c 90); [lia|]. destruct (N.leb_spec c 122); [lia|].
    destruct (N.eqb_spec c 45); [lia|]. rewrite !andb_false_r. reflexivity.
Qed.

Lemma ident_elem_chars ng e : forall seen, forallb is_ident_char e = true -> elem_chars ng seen e = true.
Proof.
  induction e as [|c e IH]; intros seen H; [reflexivity|]. cbn [forallb] in H. apply andb_true_iff in H.
  destruct H as [H1 H2]. cbn [elem_chars]. rewrite <- is_ident_char_identc, H1. exact (IH seen H2).
Qed.

Lemma ident_elemb sy e : e <> [] -> forallb is_ident_char e = true -> elemb sy e = true.
Proof. intros Ne H. destruct e; [congruence|]. unfold elemb. apply ident_elem_chars. exact H. Qed.

Lemma pre_ident_elemb sy e i : pre_ident e = Some i -> elemb sy e = true.
Proof.
  unfold pre_ident. destruct e as [|c t]; [discriminate|].
  destruct (forallb is_ident_char (c :: t)) eqn:I; cbn [negb]; [|discriminate]. intros _.
  apply ident_elemb; [discriminate | exact I].
Qed.

Lemma build_ident_elemb sy e i : build_ident e = Some i -> elemb sy e = true.
Proof.
  unfold build_ident. destruct e as [|c t]; [discriminate|].
  destruct (forallb is_ident_char (c :: t)) eqn:I; [|discriminate]. intros _.
  apply ident_elemb; [discriminate | exact I].
Qed.

Lemma numeric_ident_numtok sy t v : numeric_ident t = Some v -> v < infinity -> numtok sy t v.
Proof.
  intros H R. destruct (numeric_ident_spec t v H) as (D & V & LZ). right.
  split; [destruct t; [discriminate H | discriminate]|]. split; [exact D|].
  split; [unfold lead_zero; rewrite LZ; reflexivity|]. split; [rewrite <- V; exact R | exact V].
Qed.

(* ------------------------------------------------------------------ a strict string is a rendering of its parse *)
Lemma parse_strict_shape s sv : parse_strict s = Some sv ->
  exists t1 t2 t3 a b c prel bll,
    s = joind t1 [t2; t3] ++ r_pre prel ++ r_build bll /\ sv_nums sv = [a; b; c] /\
    numeric_ident t1 = Some a /\ numeric_ident t2 = Some b /\ numeric_ident t3 = Some c /\
    sequence (map pre_ident prel) = Some (sv_pre sv) /\
    sequence (map build_ident bll) = Some (sv_build sv).
Proof.
  unfold parse_strict.
  destruct (cut 43 s []) as [main build] eqn:C1. destruct (cut 45 main []) as [core pre] eqn:C2.
  apply cut_spec in C1. apply cut_spec in C2. cbn [rev app] in C1, C2.
  destruct (split_on_joind core []) as (e & es & Sp & J). cbn [rev app] in J.
  destruct (sequence (map numeric_ident (split_on 46 core []))) as [ns|] eqn:Sq; [|discriminate].
  destruct ns as [|a [|b [|c [|? ?]]]]; try discriminate.
  rewrite Sp in Sq. apply sequence_Forall2 in Sq.
  apply Forall2_three in Sq. destruct Sq as (t1 & t2 & t3 & El & H1 & H2 & H3).
  injection El as -> ->.
  assert (Pre : exists prel, (match pre with None => [] | Some t => 45%N :: t end) = r_pre prel /\
                 (match pre with None => Some [] | Some p => sequence (map pre_ident (split_on 46 p [])) end)
                 = sequence (map pre_ident prel)).
  { destruct pre as [p|]; [|exists []; split; reflexivity].
    destruct (split_on_joind p []) as (e1 & es1 & Sp1 & J1). cbn [rev app] in J1.
    exists (e1 :: es1). rewrite Sp1. cbn [r_pre]. rewrite J1. split; reflexivity. }
  assert (Bld : exists bll, (match build with None => [] | Some t => 43%N :: t end) = r_build bll /\
                 (match build with None => Some [] | Some p => sequence (map build_ident (split_on 46 p [])) end)
                 = sequence (map build_ident bll)).
  { destruct build as [p|]; [|exists []; split; reflexivity].
    destruct (split_on_joind p []) as (e1 & es1 & Sp1 & J1). cbn [rev app] in J1.
    exists (e1 :: es1). rewrite Sp1. cbn [r_build]. rewrite J1. split; reflexivity. }
  destruct Pre as (prel & P1 & P2). destruct Bld as (bll & B1 & B2). rewrite P2, B2.
  destruct (sequence (map pre_ident prel)) as [p|] eqn:Sp'; [|discriminate].
  destruct (sequence (map build_ident bll)) as [bl|] eqn:Sb'; [|discriminate].
  intros H; inversion H; subst sv. cbn [sv_nums sv_pre sv_build].
  exists t1, t2, t3, a, b, c, prel, bll.
  split; [rewrite C1, C2, J, P1, B1, <- app_assoc; reflexivity|]. repeat (split; [assumption || reflexivity|]). exact Sb'.
Qed.

(* ------------------------------------------------------------------ strict strings are parsed, to the same structure *)
Definition semver_sys (sy : system) : Prop := sy = SDefault \/ sy = SCargo \/ sy = SNPM \/ sy = SGo.

Lemma sequence_map_Forall {A B} (f : A -> option B) (P : A -> Prop) :
  (forall x y, f x = Some y -> P x) -> forall l r, sequence (map f l) = Some r -> Forall P l.
Proof.
  intros H l r S. apply sequence_Forall2 in S. induction S; constructor; eauto.
Qed.

Theorem strict_parses sy s sv : semver_sys sy -> parse_strict s = Some sv ->
  Forall (fun n => n < infinity) (sv_nums sv) ->
  exists v, parse sy (pfx sy ++ s) = Ok v /\
            abs_version v = Some {| sv_nums := sv_nums sv; sv_pre := sv_pre sv; sv_build := [] |}.
Proof.
  intros HS P R. destruct (parse_strict_shape s sv P) as (t1 & t2 & t3 & a & b & c & prel & bll & Es & En & N1 & N2 & N3 & Sp & Sb).
  rewrite En in R. pose proof (Forall_inv R) as Ra. pose proof (Forall_inv (Forall_inv_tail R)) as Rb.
  pose proof (Forall_inv (Forall_inv_tail (Forall_inv_tail R))) as Rc. cbv beta in Ra, Rb, Rc.
  assert (F : family sy) by (unfold family; destruct HS as [->|[->|[->| ->]]]; auto 10).
  assert (NN : sys_eqb sy SNuGet = false) by (destruct HS as [->|[->|[->| ->]]]; reflexivity).
  assert (Hok : toks_ok sy [] [(t1, a); (t2, b); (t3, c)]).
  { cbn [toks_ok app length]. rewrite NN. cbn [andb].
    repeat split; try (apply numeric_ident_numtok; assumption); destruct HS as [->|[->|[->| ->]]]; reflexivity. }
  pose proof (parse_rendered sy t1 a [(t2, b); (t3, c)] prel bll F Hok
                (sequence_map_Forall pre_ident _ (pre_ident_elemb sy) prel _ Sp)
                (sequence_map_Forall build_ident _ (build_ident_elemb sy) bll _ Sb)
                ltac:(intros _; cbn [length Nat.ltb Nat.leb]; apply andb_false_r)) as PR.
  cbv zeta in PR. cbn [r_nums map fst snd] in PR. change (t1 ++ dots [t2; t3]) with (joind t1 [t2; t3]) in PR.
  rewrite <- Es in PR. eexists. split; [exact PR|].
  unfold abs_version, rendered_version, finish_nums, nuget_trim. cbn [v_num v_pre].
  rewrite NN, (family_not_gems sy F). cbn [andb orb]. rewrite Sp, En. reflexivity.
Qed.

(* ------------------------------------------------------------------ ordering of strict strings *)
(* the numeric identifiers fit the library's integers: numbers below 2^63-1 (that value is the
   reserved infinity), numeric prerelease identifiers at most 2^63-1 *)
Definition fits_int64 (sv0 : sv) : Prop :=
  Forall (fun n => n < infinity) (sv_nums sv0) /\ (forall n, In (INum n) (sv_pre sv0) -> n <= max_int64).

Lemma Forall2_In_l {A B} (P : A -> B -> Prop) l r x : Forall2 P l r -> In x l -> exists y, In y r /\ P x y.
Proof.
  induction 1 as [|a b l r Hab _ IH]; intros Hin; [destruct Hin|].
  destruct Hin as [<-|Hin]; [exists b; split; [left; reflexivity | exact Hab]|].
  destruct (IH Hin) as (y & Hy & Py). exists y. split; [right; exact Hy | exact Py].
Qed.

Lemma abs_in_range v sv0 : abs_version v = Some sv0 -> (forall n, In (INum n) (sv_pre sv0) -> n <= max_int64) -> in_range v.
Proof.
  unfold abs_version. destruct (v_num v) as [|a [|b [|c [|? ?]]]]; try discriminate.
  destruct (sequence (map pre_ident (v_pre v))) as [p|] eqn:Sq; [|discriminate].
  intros H R; inversion H; subst sv0. cbn [sv_pre] in R. apply sequence_Forall2 in Sq.
  intros e n He Hn. destruct (Forall2_In_l _ _ _ e Sq He) as (y & Hy & Py). rewrite Hn in Py. inversion Py; subst y.
  exact (R n Hy).
Qed.

Theorem semver_strings sy a b sa sb : semver_sys sy ->
  parse_strict a = Some sa -> parse_strict b = Some sb -> fits_int64 sa -> fits_int64 sb ->
  exists va vb, parse sy (pfx sy ++ a) = Ok va /\ parse sy (pfx sy ++ b) = Ok vb /\
                generic_compare sy va vb = precedence sa sb.
Proof.
  intros HS Pa Pb (Na & Ra) (Nb & Rb).
  destruct (strict_parses sy a sa HS Pa Na) as (va & Va & Aa).
  destruct (strict_parses sy b sb HS Pb Nb) as (vb & Vb & Ab).
  exists va, vb. split; [exact Va|]. split; [exact Vb|].
  assert (NN : not_nuget sy) by (unfold not_nuget; destruct HS as [->|[->|[->| ->]]]; reflexivity).
  rewrite (generic_compare_semver sy va vb _ _ NN Aa Ab (abs_in_range va _ Aa Ra) (abs_in_range vb _ Ab Rb)).
  reflexivity.
Qed.
