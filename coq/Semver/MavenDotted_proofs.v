(* C02, Maven, qualifier attached by '.' (1.1.RC1, 2.5.SP, 3.2.jre8): among versions that are
   numbers only or carry their qualifier after a '.', with no zero component right before it,
   the library orders as it orders the same versions written with '-', hence (C02_maven_partial)
   as ComparableVersion does. *)
From Coq Require Import Lia.
From DepsDev Require Import Lib.Base Lib.Order Lib.PadLex Lib.BytesFacts Semver.Version Semver.Maven Semver.MavenParse
  Semver.MavenDomain Semver.MavenItems Semver.Compare Semver.Generic_proofs Semver.Maven_proofs Semver.MavenSpec_proofs
  Spec.MavenSpec Gen.SemverTables.
Local Open Scope Z_scope.

Local Arguments maven_step : simpl never.
Local Arguments kcmp : simpl never.
Local Arguments key_of : simpl never.
Local Arguments cmpZ : simpl never.

(* a qualifier attached by '.', not release-equivalent *)
Definition dotq (q : mvn_elem) : Prop := me_sep q = 46%N /\ isQ q /\ me_int q = 0 /\ qorder q <> -2.

(* the part after the numeric prefix: nothing, or a dotted qualifier followed by tail elements *)
Definition dtail (t : list mvn_elem) : Prop :=
  t = [] \/ exists q t', t = q :: t' /\ dotq q /\ Forall td t'.

Lemma dash1_Q q : isQ q -> isQ (dash1 q). Proof. auto. Qed.

(* the loop body looks at the two separators only through their equality *)
Lemma mstep_dash a b : me_sep a = me_sep b ->
  mstep a b cat_qualifier cat_qualifier = mstep (dash1 a) (dash1 b) cat_qualifier cat_qualifier.
Proof.
  intros S. unfold mstep, maven_unknown_qualifier_compare, mvn_elem_eqb, dash1. simpl.
  rewrite S, !N.eqb_refl. reflexivity.
Qed.

Lemma order_zero_str : qualifier_order [48%N] = 0.
Proof. reflexivity. Qed.

(* a dotted qualifier against the end of the other list *)
Lemma step_dotq_pad a : dotq a ->
  mstep a (maven_pad 46) cat_qualifier cat_eof = Return (cmpZ (qorder a) (-2)) /\
  mstep (dash1 a) (maven_pad 45) cat_qualifier cat_eof = Return (cmpZ (qorder a) (-2)).
Proof.
  intros [Sa [Qa [Ia NQ]]].
  assert (NE : me_str a <> []) by (intros E; unfold isQ, cat_of in Qa; rewrite E in Qa; discriminate).
  assert (NZ : cmpZ (qorder a) (-2) <> 0) by (intros E; apply cmpZ_eq0 in E; contradiction).
  split.
  - unfold mstep. destruct (mvn_elem_eqb a (maven_pad 46)) eqn:E.
    { apply mvn_elem_eqb_eq in E. rewrite E in Qa. discriminate. }
    unfold qorder in *. rewrite empty_q. simpl (cat_qualifier =? cat_qualifier). cbv iota. simpl andb.
    set (oa := qualifier_order (me_str a)) in *.
    destruct (-2 <? oa) eqn:Ua.
    + unfold maven_unknown_qualifier_compare. simpl (cat_eof =? cat_qualifier). cbv iota.
      simpl (cat_eof =? cat_eof). cbv iota. rewrite empty_q. reflexivity.
    + simpl (cat_eof =? cat_qualifier). cbv iota. simpl andb. cbv iota.
      simpl (cat_qualifier =? cat_eof). simpl (cat_eof =? cat_eof). cbv iota.
      change (cat_qualifier <? cat_qualifier) with false. cbv iota. simpl (cat_qualifier =? cat_numeric). cbv iota.
      rewrite Sa. simpl (me_sep (maven_pad 46)). rewrite N.eqb_refl. simpl negb. cbv iota.
      unfold compare_maven_qualifier. simpl (me_str (maven_pad 46)). rewrite order_zero_str. fold oa.
      apply Z.ltb_ge in Ua. assert (L : (oa <? 0) = true) by (apply Z.ltb_lt; lia). rewrite L. simpl orb. cbv iota.
      change sgnZ with cmpZ. rewrite (cmpZ_lt oa 0) by lia. simpl (-1 =? 0). cbv iota.
      rewrite (cmpZ_lt oa (-2)) by lia. reflexivity.
  - pose proof (step_Qpad (dash1 a) (dash1_Q a Qa) eq_refl) as H. rewrite H.
    rewrite (key_of_Q (dash1 a) (dash1_Q a Qa)), kcmp_unfold. unfold key_pad.
    unfold k_class, k_ord, k_str, k_int; simpl fst; simpl snd. rewrite (cmpZ_refl 0). simpl (0 =? 0). cbv iota.
    rewrite empty_q. change (qorder (dash1 a)) with (qorder a).
    destruct (Z.eqb_spec (cmpZ (qorder a) (-2)) 0); [contradiction|]. rewrite ret_nz by auto. reflexivity.
Qed.

Lemma step_pad_dotq b : dotq b ->
  mstep (maven_pad 46) b cat_eof cat_qualifier = Return (cmpZ (-2) (qorder b)) /\
  mstep (maven_pad 45) (dash1 b) cat_eof cat_qualifier = Return (cmpZ (-2) (qorder b)).
Proof.
  intros [Sb [Qb [Ib NQ]]].
  assert (NZ : cmpZ (-2) (qorder b) <> 0) by (intros E; apply cmpZ_eq0 in E; congruence).
  split.
  - unfold mstep. destruct (mvn_elem_eqb (maven_pad 46) b) eqn:E.
    { apply mvn_elem_eqb_eq in E. rewrite <- E in Qb. discriminate. }
    unfold qorder in *. rewrite empty_q. simpl (cat_eof =? cat_qualifier). cbv iota. simpl andb. cbv iota.
    simpl (cat_qualifier =? cat_qualifier). simpl andb.
    set (ob := qualifier_order (me_str b)) in *.
    destruct (-2 <? ob) eqn:Ub.
    + unfold maven_unknown_qualifier_compare. simpl (cat_eof =? cat_qualifier). cbv iota.
      simpl (cat_eof =? cat_eof). cbv iota. rewrite empty_q. change sgnZ with cmpZ. rewrite cmpZ_antisym. reflexivity.
    + simpl (cat_eof =? cat_eof). simpl (cat_qualifier =? cat_eof). cbv iota.
      change (cat_qualifier <? cat_qualifier) with false. cbv iota. simpl (cat_qualifier =? cat_numeric). cbv iota.
      rewrite Sb. simpl (me_sep (maven_pad 46)). rewrite N.eqb_refl. simpl negb. cbv iota.
      unfold compare_maven_qualifier. simpl (me_str (maven_pad 46)). rewrite order_zero_str. fold ob.
      apply Z.ltb_ge in Ub. assert (L : (ob <? 0) = true) by (apply Z.ltb_lt; lia). rewrite L. rewrite orb_true_r.
      change sgnZ with cmpZ. rewrite (cmpZ_gt 0 ob) by lia. simpl (1 =? 0). cbv iota.
      rewrite (cmpZ_gt (-2) ob) by lia. reflexivity.
  - pose proof (step_padQ (dash1 b) (dash1_Q b Qb) eq_refl) as H. rewrite H.
    rewrite (key_of_Q (dash1 b) (dash1_Q b Qb)), kcmp_unfold. unfold key_pad.
    unfold k_class, k_ord, k_str, k_int; simpl fst; simpl snd. rewrite (cmpZ_refl 0). simpl (0 =? 0). cbv iota.
    rewrite empty_q. change (qorder (dash1 b)) with (qorder b).
    destruct (Z.eqb_spec (cmpZ (-2) (qorder b)) 0); [contradiction|]. rewrite ret_nz by auto. reflexivity.
Qed.

Lemma loop_cons x xs y ys :
  maven_loop (x :: xs) (y :: ys) =
  match maven_step (Some x) (Some y) with
  | Continue => maven_loop xs ys | Return r => Ok (Some r) | PanicStep => Panic PExplicit end.
Proof. reflexivity. Qed.
Lemma loop_nil_l y ys :
  maven_loop [] (y :: ys) =
  match maven_step None (Some y) with
  | Continue => maven_loop_r ys | Return r => Ok (Some r) | PanicStep => Panic PExplicit end.
Proof. reflexivity. Qed.
Lemma loop_nil_r x xs :
  maven_loop (x :: xs) [] =
  match maven_step (Some x) None with
  | Continue => maven_loop_l xs | Return r => Ok (Some r) | PanicStep => Panic PExplicit end.
Proof. reflexivity. Qed.

(* the two tails against each other *)
Lemma loop_dtails t1 t2 : dtail t1 -> dtail t2 ->
  maven_loop t1 t2 = maven_loop (dash_tail t1) (dash_tail t2).
Proof.
  intros [->|[q1 [t1' [-> [D1 T1]]]]] [->|[q2 [t2' [-> [D2 T2]]]]]; simpl dash_tail.
  - reflexivity.
  - rewrite !loop_nil_l, step_right, step_right.
    destruct D2 as [S2 [Q2 R2]]. simpl (me_sep (dash1 q2)). rewrite S2.
    change (cat_of (dash1 q2)) with (cat_of q2). rewrite Q2.
    destruct (step_pad_dotq q2 (conj S2 (conj Q2 R2))) as [A B]. rewrite A, B. reflexivity.
  - rewrite !loop_nil_r, step_left, step_left.
    destruct D1 as [S1 [Q1 R1]]. simpl (me_sep (dash1 q1)). rewrite S1.
    change (cat_of (dash1 q1)) with (cat_of q1). rewrite Q1.
    destruct (step_dotq_pad q1 (conj S1 (conj Q1 R1))) as [A B]. rewrite A, B. reflexivity.
  - rewrite !loop_cons, !step_both.
    destruct D1 as [S1 [Q1 R1]], D2 as [S2 [Q2 R2]].
    change (cat_of (dash1 q1)) with (cat_of q1). change (cat_of (dash1 q2)) with (cat_of q2). rewrite Q1, Q2.
    rewrite (mstep_dash q1 q2) by congruence. reflexivity.
Qed.

Lemma dtail_head_QN q y : dotq q -> pre y ->
  maven_step (Some q) (Some y) = Return (-1) /\ maven_step (Some (dash1 q)) (Some y) = Return (-1) /\
  maven_step (Some y) (Some q) = Return 1 /\ maven_step (Some y) (Some (dash1 q)) = Return 1.
Proof.
  intros [S [Q R]] P. destruct (pre_cases y P) as [Sy Ny]. rewrite !step_both.
  change (cat_of (dash1 q)) with (cat_of q).
  assert (E1 : mvn_elem_eqb q y = false) by (apply diff_cat_neq; rewrite Q, Ny; discriminate).
  assert (E2 : mvn_elem_eqb (dash1 q) y = false) by (apply diff_cat_neq; change (cat_of (dash1 q)) with (cat_of q); rewrite Q, Ny; discriminate).
  assert (E3 : mvn_elem_eqb y q = false) by (rewrite mvn_elem_eqb_sym; auto).
  assert (E4 : mvn_elem_eqb y (dash1 q) = false) by (rewrite mvn_elem_eqb_sym; auto).
  repeat split; [apply step_QN | apply step_QN | apply step_NQ | apply step_NQ]; auto.
Qed.

(* prefix ++ tail against prefix ++ tail: dotted and dashed spellings give the same result *)
Lemma loop_dot p1 : forall p2 t1 t2,
  Forall pre p1 -> Forall pre p2 -> last_not_zero p1 = true -> last_not_zero p2 = true ->
  dtail t1 -> dtail t2 ->
  maven_loop (p1 ++ t1) (p2 ++ t2) = maven_loop (p1 ++ dash_tail t1) (p2 ++ dash_tail t2).
Proof.
  induction p1 as [|x p1 IH]; intros p2 t1 t2 P1 P2 L1 L2 D1 D2.
  - destruct p2 as [|y p2].
    + apply loop_dtails; auto.
    + inversion P2; subst. simpl app.
      destruct D1 as [->|[q1 [t1' [-> [Dq T1]]]]]; simpl dash_tail.
      * change (maven_loop [] (y :: p2 ++ t2)) with (maven_loop_r ((y :: p2) ++ t2)).
        change (maven_loop [] (y :: p2 ++ dash_tail t2)) with (maven_loop_r ((y :: p2) ++ dash_tail t2)).
        rewrite !loop_r_prefix; auto; discriminate.
      * destruct (dtail_head_QN q1 y Dq H1) as [A [B _]]. rewrite !loop_cons, A, B. reflexivity.
  - destruct p2 as [|y p2].
    + inversion P1; subst. simpl app.
      destruct D2 as [->|[q2 [t2' [-> [Dq T2]]]]]; simpl dash_tail.
      * change (maven_loop (x :: p1 ++ t1) []) with (maven_loop_l ((x :: p1) ++ t1)).
        change (maven_loop (x :: p1 ++ dash_tail t1) []) with (maven_loop_l ((x :: p1) ++ dash_tail t1)).
        rewrite !loop_l_prefix; auto; discriminate.
      * destruct (dtail_head_QN q2 x Dq H1) as [_ [_ [A B]]]. rewrite !loop_cons, A, B. reflexivity.
    + inversion P1; inversion P2; subst. simpl app. rewrite !loop_cons.
      destruct (maven_step (Some x) (Some y)); auto.
      apply IH; auto.
      * destruct p1; [reflexivity | rewrite last_nz_cons in L1; [auto | discriminate]].
      * destruct p2; [reflexivity | rewrite last_nz_cons in L2; [auto | discriminate]].
Qed.

(* ------------------------------------------------------------------ on whole lists *)
(* numeric prefix (first separator 0, last element not spelled 0), then nothing or a dotted qualifier
   and tail elements *)
Definition d_dot (l : list mvn_elem) : Prop :=
  exists e0 p t, l = e0 :: p ++ t /\ me_sep e0 = 0%N /\ isN e0 /\ Forall pre p /\ last_not_zero p = true /\ dtail t.

(* the same version with the qualifier attached by '-' *)
Definition dashed (e0 : mvn_elem) (p t : list mvn_elem) : list mvn_elem := e0 :: p ++ dash_tail t.

Theorem dotted_as_dashed e0 p1 t1 f0 p2 t2 :
  Forall pre p1 -> Forall pre p2 -> last_not_zero p1 = true -> last_not_zero p2 = true -> dtail t1 -> dtail t2 ->
  maven_compare (e0 :: p1 ++ t1) (f0 :: p2 ++ t2) = maven_compare (dashed e0 p1 t1) (dashed f0 p2 t2).
Proof.
  intros P1 P2 L1 L2 D1 D2. unfold maven_compare, dashed. rewrite !loop_cons.
  destruct (maven_step (Some e0) (Some f0)); auto.
  rewrite (loop_dot p1 p2 t1 t2); auto.
Qed.

(* ... and therefore as ComparableVersion orders the item trees of the dashed spellings *)
Theorem dotted_spec_agree e0 p1 t1 f0 p2 t2 :
  Forall pre p1 -> Forall pre p2 -> last_not_zero p1 = true -> last_not_zero p2 = true -> dtail t1 -> dtail t2 ->
  c02_wide_b (dashed e0 p1 t1) = true -> c02_wide_b (dashed f0 p2 t2) = true ->
  maven_compare (e0 :: p1 ++ t1) (f0 :: p2 ++ t2) =
  Ok (item_cmp (items_of (dashed e0 p1 t1)) (items_of (dashed f0 p2 t2))).
Proof.
  intros P1 P2 L1 L2 D1 D2 C1 C2. rewrite dotted_as_dashed by auto.
  apply maven_spec_agree; apply c02_wide_b_hyp; auto.
Qed.

(* ------------------------------------------------------------------ the boolean form *)
Lemma dotq_b_sound q : dotq_b q = true -> dotq q.
Proof.
  unfold dotq_b, dotq, is_qual_elem, isQ, qorder. fold (cat_of q). intros H.
  repeat (apply andb_true_iff in H; destruct H as [H ?]).
  apply N.eqb_eq in H. apply Z.eqb_eq in H2. apply Z.eqb_eq in H1. apply negb_true_iff in H0. apply Z.eqb_neq in H0.
  rewrite empty_q in H0. auto.
Qed.

Lemma dtail_b_sound t : dtail_b t = true -> dtail t.
Proof.
  destruct t as [|q t']; [left; reflexivity|]. simpl. intros H. apply andb_true_iff in H. destruct H as [H1 H2].
  right. exists q, t'. split; auto. split; [apply dotq_b_sound; auto|].
  apply Forall_forall. intros e He. rewrite forallb_forall in H2. apply H2; auto.
Qed.

Theorem dotted_spec_agree_b l1 l2 : d_dot_b l1 = true -> d_dot_b l2 = true ->
  c02_wide_b (dashify l1) = true -> c02_wide_b (dashify l2) = true ->
  maven_compare l1 l2 = Ok (item_cmp (items_of (dashify l1)) (items_of (dashify l2))).
Proof.
  destruct l1 as [|e0 r1]; [discriminate|]. destruct l2 as [|f0 r2]; [discriminate|].
  unfold d_dot_b, dashify. intros H1 H2 C1 C2.
  repeat (apply andb_true_iff in H1; destruct H1 as [H1 ?]). repeat (apply andb_true_iff in H2; destruct H2 as [H2 ?]).
  destruct (split_prefix_spec r1) as [E1 P1], (split_prefix_spec r2) as [E2 P2].
  rewrite E1 at 1. rewrite E2 at 1.
  apply dotted_spec_agree; auto using dtail_b_sound.
Qed.

(* non-vacuity: 1.1.RC1 and 1.1.SP (qualifier after a '.') *)
Definition s_1_1_RC1 : bytes := [49; 46; 49; 46; 82; 67; 49]%N.
Definition s_1_1_SP : bytes := [49; 46; 49; 46; 83; 80]%N.
Lemma dotted_nonvacuous :
  match mvn_parse_with false s_1_1_RC1, mvn_parse_with false s_1_1_SP with
  | Some (Ok a), Some (Ok b) =>
      d_dot_b (mvn_elems a) = true /\ d_dot_b (mvn_elems b) = true /\
      c02_wide_b (dashify (mvn_elems a)) = true /\ c02_wide_b (dashify (mvn_elems b)) = true /\
      items_of (dashify (mvn_elems a)) = comparable_version s_1_1_RC1 /\
      items_of (dashify (mvn_elems b)) = comparable_version s_1_1_SP /\
      compare a b = Ok (-1) /\ mspec_compare s_1_1_RC1 s_1_1_SP = -1
  | _, _ => False
  end.
Proof. vm_compute. repeat split; reflexivity. Qed.
