(* C09: the laws as checks over the model, their refutation by the recorded witnesses, and the
   partial laws on the domains delimited in Set_proofs.v / Inter_proofs.v. *)
From Coq Require Import Lia String.
From DepsDev Require Import Lib.Base Lib.Order Semver.Version Semver.Maven Semver.Gem Semver.Pep440 Semver.Compare
     Semver.Generic_proofs Semver.Compare_proofs Semver.Span Semver.Interval Semver.Set Semver.Constraint
     Semver.Span_proofs Semver.Inc_proofs Semver.Set_proofs Semver.Inter_proofs Semver.Witness.
Local Open Scope Z_scope.

(* the four three-component SemVer systems of the property *)
Definition c09_sys (S : system) : bool :=
  match S with SDefault | SNPM | SCargo | SGo => true | _ => false end.

Lemma c09_sys_plain S : c09_sys S = true ->
  sys_eqb S SMaven = false /\ sys_eqb S SPyPI = false /\ sys_eqb S SNuGet = false /\ sys_eqb S SRubyGems = false.
Proof. destruct S; simpl; intros H; try discriminate; repeat split; reflexivity. Qed.

Section Laws.
Variable pv : system -> bool -> bytes -> res parse_out.

(* each check returns None when some step does not produce a value (a rejected requirement, a
   failed operation), Some true when the law holds for v and Some false when it is violated *)
Definition union_check (S : system) (ta tb : bytes) (v : version) (incl : bool) : option bool :=
  match parse_constraint pv S ta, parse_constraint pv S tb with
  | Ok cA, Ok cB =>
      match set_union (c_set cA) (c_set cB) with
      | Ok U =>
          match set_match_version (c_set cA) v incl, set_match_version (c_set cB) v incl, set_match_version U v incl with
          | Ok a, Ok b', Ok u => Some (Bool.eqb u (a || b'))
          | _, _, _ => None
          end
      | _ => None
      end
  | _, _ => None
  end.

Definition inter_check (S : system) (ta tb : bytes) (v : version) (incl : bool) : option bool :=
  match parse_constraint pv S ta, parse_constraint pv S tb with
  | Ok cA, Ok cB =>
      match set_intersect (c_set cA) (c_set cB) with
      | Ok J =>
          match set_match_version (c_set cA) v incl, set_match_version (c_set cB) v incl, set_match_version J v incl with
          | Ok a, Ok b', Ok i => Some (Bool.eqb i (a && b'))
          | _, _, _ => None
          end
      | _ => None
      end
  | _, _ => None
  end.

(* operand order: A op B and B op A match v alike and are empty alike *)
Definition comm_check (op : set -> set -> res set) (S : system) (ta tb : bytes) (v : version) (incl : bool) : option bool :=
  match parse_constraint pv S ta, parse_constraint pv S tb with
  | Ok cA, Ok cB =>
      match op (c_set cA) (c_set cB), op (c_set cB) (c_set cA) with
      | Ok X, Ok Y =>
          match set_match_version X v incl, set_match_version Y v incl with
          | Ok x, Ok y => Some (Bool.eqb x y && Bool.eqb (set_empty X) (set_empty Y))
          | _, _ => None
          end
      | _, _ => None
      end
  | _, _ => None
  end.
End Laws.

(* ---------------------------------------------------------------- the full statements *)
Definition release (v : version) : Prop := v_is_prerelease v = false.

Definition C09_union_full : Prop :=
  forall pv S ta tb v, c09_sys S = true -> v_sys v = S -> union_check pv S ta tb v false <> Some false.
Definition C09_inter_release_full : Prop :=
  forall pv S ta tb v, c09_sys S = true -> v_sys v = S -> release v -> inter_check pv S ta tb v false <> Some false.
Definition C09_inter_incl_full : Prop :=
  forall pv S ta tb v, c09_sys S = true -> v_sys v = S -> inter_check pv S ta tb v true <> Some false.
Definition C09_comm_full : Prop :=
  forall pv S ta tb v incl, c09_sys S = true -> v_sys v = S ->
    comm_check pv set_union S ta tb v incl <> Some false /\ comm_check pv set_intersect S ta tb v incl <> Some false.

(* ---------------------------------------------------------------- refutations *)
Definition v_npm (s : string) (nums : list Z) (pre : list string) : version := mkv SNPM s nums pre.

(* F-C09-2: canon merges spans that do not touch *)
Lemma union_adjacent_witness :
  union_check pv_w SNPM (b ">=0.1.1 <1") (b "~>2") (v_npm "1.3.3" [1;3;3] []) false = Some false.
Proof. vm_compute. reflexivity. Qed.

(* F-C09-3: the skip of a merge drops a span *)
Lemma union_drop_witness :
  union_check pv_w SNPM (b "1.0 - 10.2.0-1 || 1 ~1.2") (b "~1") (v_npm "3.1.10" [3;1;10] []) false = Some false.
Proof. vm_compute. reflexivity. Qed.

(* F-C09-5: a merge at a prerelease bound loses the admission of that bound's prereleases *)
Lemma union_prerelease_witness :
  union_check pv_w SGo (b "v1.10.9-alpha.1") (b "v2.0.0-alpha.1") (mkv SGo "v2.0.0-alpha.1" [2;0;0] ["alpha"; "1"]%string) false = Some false.
Proof. vm_compute. reflexivity. Qed.

Theorem union_refuted : ~ C09_union_full.
Proof. intros H. refine (H pv_w SNPM _ _ _ _ _ union_adjacent_witness); reflexivity. Qed.

Theorem union_drop_refuted : ~ C09_union_full.
Proof. intros H. refine (H pv_w SNPM _ _ _ _ _ union_drop_witness); reflexivity. Qed.

Theorem union_prerelease_refuted : ~ C09_union_full.
Proof. intros H. refine (H pv_w SGo _ _ _ _ _ union_prerelease_witness); reflexivity. Qed.

(* F-C09-1: a unit span ignores its open ends *)
Lemma inter_point_witness incl :
  inter_check pv_w SNPM (b ">=1.2.0 <2.0.0") (b ">=2.0.0 <3.0.0") (v_npm "2.0.0" [2;0;0] []) incl = Some false.
Proof. destruct incl; vm_compute; reflexivity. Qed.

Lemma inter_point_witness2 :
  inter_check pv_w SNPM (b "<0.2") (b "^0.2") (v_npm "0.2.0" [0;2;0] []) false = Some false.
Proof. vm_compute. reflexivity. Qed.

Theorem inter_release_refuted : ~ C09_inter_release_full.
Proof. intros H. refine (H pv_w SNPM _ _ _ _ _ _ (inter_point_witness false)); reflexivity. Qed.

Theorem inter_incl_refuted : ~ C09_inter_incl_full.
Proof. intros H. refine (H pv_w SNPM _ _ _ _ _ (inter_point_witness true)); reflexivity. Qed.

(* operand order: the same pair, and the hidden isPrerelease flag of the minimum version *)
Lemma comm_point_witness :
  comm_check pv_w set_intersect SNPM (b ">=1.2.0 <2.0.0") (b ">=2.0.0 <3.0.0") (v_npm "2.0.0" [2;0;0] []) false = Some false.
Proof. vm_compute. reflexivity. Qed.

Lemma comm_flag_witness :
  comm_check pv_w set_intersect SNPM (b "<1.2") (b ">=0.0.0-0") (v_npm "0.0.0-rc.1" [0;0;0] ["rc"; "1"]%string) false = Some false.
Proof. vm_compute. reflexivity. Qed.

Theorem comm_refuted : ~ C09_comm_full.
Proof.
  intros H. destruct (H pv_w SNPM (b ">=1.2.0 <2.0.0") (b ">=2.0.0 <3.0.0") (v_npm "2.0.0" [2;0;0] []) false eq_refl eq_refl) as [_ H2].
  apply H2. exact comm_point_witness.
Qed.

Theorem comm_flag_refuted : ~ C09_comm_full.
Proof.
  intros H. destruct (H pv_w SNPM (b "<1.2") (b ">=0.0.0-0") (v_npm "0.0.0-rc.1" [0;0;0] ["rc"; "1"]%string) false eq_refl eq_refl) as [_ H2].
  apply H2. exact comm_flag_witness.
Qed.

(* ---------------------------------------------------------------- Empty: holds as stated *)
Lemma match_spans_empty v incl l : forallb (fun x => rank_is_empty (sp_rank x)) l = true -> match_spans v incl l = Ok false.
Proof.
  induction l as [|s t IH]; simpl; auto. intros H. apply andb_prop in H. destruct H as [Hs Ht].
  rewrite match_span_empty by auto. simpl. auto.
Qed.

Theorem empty_matches_nothing st v incl : set_span st <> [] -> set_empty st = true ->
  set_match_version st v incl = Ok false.
Proof.
  unfold set_empty, set_match_version. intros Hne He. destruct (set_span st) eqn:E; [congruence|].
  apply match_spans_empty. exact He.
Qed.

(* ---------------------------------------------------------------- partial laws *)
Section Partial.
Variable S : system.
Hypothesis HS : c09_sys S = true.
Notation fam := (fam_version S).

Let nm := proj1 (c09_sys_plain S HS).
Let np := proj1 (proj2 (c09_sys_plain S HS)).
Let nn := proj1 (proj2 (proj2 (c09_sys_plain S HS))).
Let ng := proj2 (proj2 (proj2 (c09_sys_plain S HS))).

Lemma dom_all_fam l : Forall (fun s => dom_span_b S s = true) l -> Forall (fam_span S) l.
Proof. intros H. eapply Forall_impl; [|exact H]. intros s. apply dom_fam_span. Qed.

Theorem union_partial A B :
  c09_dom_b S (set_span A ++ set_span B) = true -> set_span A <> [] -> set_span B <> [] ->
  exists U, set_union A B = Ok U /\
    forall v, fam v -> exists a b',
      set_match_version A v true = Ok a /\ set_match_version B v true = Ok b' /\ set_match_version U v true = Ok (a || b') /\
      (release v -> set_match_version A v false = Ok a /\ set_match_version B v false = Ok b' /\
                    set_match_version U v false = Ok (a || b')).
Proof.
  intros Hd HA HB.
  destruct (union_dom S nm A B Hd HA) as (U & EU & NU & DU & Den).
  exists U. split; [exact EU|]. intros v Fv.
  assert (Dall : Forall (fun s => dom_span_b S s = true) (set_span A ++ set_span B)).
  { unfold c09_dom_b in Hd. apply andb_prop in Hd. destruct Hd as [Hd _]. apply forallb_dom. exact Hd. }
  apply Forall_app in Dall. destruct Dall as [DA DB].
  exists (in_spans S true (set_span A) v), (in_spans S true (set_span B) v).
  rewrite !(set_match_red S nm np nn ng) by (auto using dom_all_fam).
  rewrite Den. repeat split; auto.
  all: rewrite !in_spans_release by auto; rewrite ?Den; reflexivity.
Qed.

(* operand order does not matter for Union inside the domain *)
Theorem union_comm_partial A B :
  c09_dom_b S (set_span A ++ set_span B) = true -> c09_dom_b S (set_span B ++ set_span A) = true ->
  set_span A <> [] -> set_span B <> [] ->
  exists U U', set_union A B = Ok U /\ set_union B A = Ok U' /\
    forall v, fam v -> forall incl, (incl = true \/ release v) ->
      exists x, set_match_version U v incl = Ok x /\ set_match_version U' v incl = Ok x.
Proof.
  intros H1 H2 HA HB.
  destruct (union_dom S nm A B H1 HA) as (U & EU & NU & DU & Den).
  destruct (union_dom S nm B A H2 HB) as (U' & EU' & NU' & DU' & Den').
  exists U, U'. split; [exact EU|]. split; [exact EU'|].
  intros v Fv incl Hi. exists (in_spans S true (set_span U) v).
  rewrite !(set_match_red S nm np nn ng) by (auto using dom_all_fam).
  destruct Hi as [-> | R].
  - rewrite Den, Den'. split; [reflexivity|]. rewrite orb_comm. reflexivity.
  - destruct incl; [rewrite Den, Den'; split; [reflexivity | rewrite orb_comm; reflexivity]|].
    rewrite !in_spans_release by auto. rewrite Den, Den'. split; [reflexivity|]. rewrite orb_comm. reflexivity.
Qed.

Lemma good_fam_span s : good_span_b S s = true -> fam_span S s.
Proof.
  intros G. destruct (good_span_spec S s G) as (mn & mx & F). unfold fam_span.
  pose proof (gf_rank _ _ _ _ F) as R.
  destruct (sp_rank s); [tauto| |]; exists mn, mx;
    (split; [apply F|]; split; [apply F|]; split; [apply F | apply F]).
Qed.

(* Intersect of two one-span sets that do not meet in a single excluded point *)
Theorem inter_partial A B s t :
  set_span A = [s] -> set_span B = [t] -> good_span_b S s = true -> good_span_b S t = true ->
  no_point_contact_b S s t = true ->
  exists J, set_intersect A B = Ok J /\
    forall v, fam v -> exists a b',
      set_match_version A v true = Ok a /\ set_match_version B v true = Ok b' /\ set_match_version J v true = Ok (a && b') /\
      (release v -> set_match_version A v false = Ok a /\ set_match_version B v false = Ok b' /\
                    set_match_version J v false = Ok (a && b')).
Proof.
  intros EA EB Gs Gt Np.
  destruct (inter_pair S s t Gs Gt Np) as (r & Er & Gr & Den).
  assert (Rs : rank_is_empty (sp_rank s) = false).
  { destruct (good_span_spec S s Gs) as (mn & mx & F). pose proof (gf_rank _ _ _ _ F). destruct (sp_rank s); simpl; tauto. }
  unfold set_intersect. rewrite EA, EB. cbn [inter_rows]. rewrite Rs, Er. cbn [bind app]. rewrite app_nil_r.
  assert (Hr : r = [] \/ exists p, r = [p]).
  { unfold inter_row in Er.
    destruct (rank_is_empty (sp_rank t)); [inversion Er; auto|].
    repeat match type of Er with
           | (bind ?x _) = _ => destruct x; cbn [bind] in Er; try discriminate
           | (if ?c then _ else _) = _ => destruct c
           | (let '(_, _) := ?p in _) = _ => destruct p
           end; inversion Er; eauto. }
  destruct Hr as [-> | (p & ->)].
  - cbn [canon_spans length Nat.leb bind]. eexists. split; [reflexivity|]. cbn [set_span].
    intros v Fv. exists (in_span S true s v), (in_span S true t v).
    assert (F1 : Forall (fam_span S) [s]) by (constructor; [apply good_fam_span; auto | constructor]).
    assert (F2 : Forall (fam_span S) [t]) by (constructor; [apply good_fam_span; auto | constructor]).
    assert (F3 : Forall (fam_span S) [empty_span]) by (constructor; [exact I | constructor]).
    rewrite !(set_match_red S nm np nn ng) by (rewrite ?EA, ?EB; cbn [set_span]; auto; discriminate).
    rewrite EA, EB. cbn [set_span]. unfold in_spans at 1 2. cbn [existsb]. rewrite !orb_false_r.
    specialize (Den v). unfold in_spans in Den. cbn [existsb] in Den.
    repeat split; auto.
    + unfold in_spans. cbn. rewrite <- Den. reflexivity.
    + rewrite in_spans_release by auto. unfold in_spans. cbn [existsb]. rewrite orb_false_r. reflexivity.
    + rewrite in_spans_release by auto. unfold in_spans. cbn [existsb]. rewrite orb_false_r. reflexivity.
    + unfold in_spans. cbn. rewrite <- Den. reflexivity.
  - cbn [canon_spans length Nat.leb bind]. eexists. split; [reflexivity|]. cbn [set_span].
    intros v Fv. exists (in_span S true s v), (in_span S true t v).
    assert (F1 : Forall (fam_span S) [s]) by (constructor; [apply good_fam_span; auto | constructor]).
    assert (F2 : Forall (fam_span S) [t]) by (constructor; [apply good_fam_span; auto | constructor]).
    assert (F3 : Forall (fam_span S) [p]).
    { inversion Gr; subst. constructor; [apply good_fam_span; auto | constructor]. }
    rewrite !(set_match_red S nm np nn ng) by (rewrite ?EA, ?EB; cbn [set_span]; auto; discriminate).
    rewrite EA, EB. cbn [set_span]. unfold in_spans at 1 2. cbn [existsb]. rewrite !orb_false_r.
    specialize (Den v).
    repeat split; auto.
    + rewrite Den. reflexivity.
    + rewrite in_spans_release by auto. unfold in_spans. cbn [existsb]. rewrite orb_false_r. reflexivity.
    + rewrite in_spans_release by auto. unfold in_spans. cbn [existsb]. rewrite orb_false_r. reflexivity.
    + rewrite in_spans_release by auto. rewrite Den. reflexivity.
Qed.

End Partial.
