(* C11: Set.String / span.String against parseSet / parseSpan.

   The version printer (Canon) and the version parser are not proved here: that a bound is read
   back correctly from its canonical text is property C10, and enters as the hypothesis
   reparses (checked on every generated bound by the correspondence run).  What IS proved is
   everything the set and span level adds: brackets, separators, the <empty> form, the split on
   commas and colons, the braces, TrimSpace, and that matching only looks at the bounds through
   compare. *)
From Coq Require Import Lia.
From DepsDev Require Import Lib.Base Lib.Order Semver.Version Semver.Maven Semver.Gem Semver.Pep440 Semver.Compare
     Semver.Parse Semver.Span Semver.Interval Semver.Set Semver.Constraint.
Local Open Scope Z_scope.

(* ---------------------------------------------------------------- strings.Split *)
Lemma split_on_nosep sep a : forall cur, ~ In sep a -> forall rest,
  split_on sep (a ++ rest) cur = split_on sep rest (rev a ++ cur).
Proof.
  induction a as [|c a IH]; intros cur H rest; simpl; auto.
  destruct (N.eqb_spec c sep) as [E|E]; [exfalso; apply H; left; auto|].
  rewrite IH by (intros I; apply H; right; auto). rewrite <- app_assoc. reflexivity.
Qed.

Lemma split_on_last sep a cur : ~ In sep a -> split_on sep a cur = [rev cur ++ a].
Proof.
  intros H. rewrite <- (app_nil_r a) at 1. rewrite split_on_nosep by auto. simpl.
  rewrite rev_app_distr, rev_involutive. reflexivity.
Qed.

(* join with a one-byte separator, as Set.String does *)
Fixpoint join (sep : N) (l : list bytes) : bytes :=
  match l with
  | [] => []
  | [x] => x
  | x :: t => x ++ sep :: join sep t
  end.

Lemma split_on_join sep l : l <> [] -> Forall (fun x => ~ In sep x) l -> split_on sep (join sep l) [] = l.
Proof.
  induction l as [|x t IH]; intros Hne Hl; [congruence|].
  inversion Hl as [|? ? Hx Ht]; subst.
  destruct t as [|y t'].
  - simpl. rewrite split_on_last by auto. reflexivity.
  - change (join sep (x :: y :: t')) with (x ++ sep :: join sep (y :: t')).
    rewrite split_on_nosep by auto. simpl. rewrite N.eqb_refl. rewrite app_nil_r, rev_involutive.
    f_equal. apply IH; auto. discriminate.
Qed.

Lemma removelast_app_one {A} (l : list A) x : removelast (l ++ [x]) = l.
Proof. apply removelast_last. Qed.

Lemma last_opt_app_one {A} (l : list A) x : last_opt (l ++ [x]) = Some x.
Proof.
  induction l as [|a l IH]; simpl; auto. rewrite IH. destruct (l ++ [x]) eqn:E; auto.
  destruct l; discriminate.
Qed.

(* ---------------------------------------------------------------- TrimSpace on a braced text *)
Lemma trim_left_id c t : is_space c = false -> trim_left (c :: t) = c :: t.
Proof. intros H. simpl. rewrite H. reflexivity. Qed.

Lemma trim_space_braces inner : trim_space (123%N :: inner ++ [125%N]) = 123%N :: inner ++ [125%N].
Proof.
  unfold trim_space.
  assert (E1 : trim_left (123%N :: inner ++ [125%N]) = 123%N :: inner ++ [125%N]) by reflexivity.
  rewrite E1.
  assert (E2 : rev (123%N :: inner ++ [125%N]) = 125%N :: rev inner ++ [123%N]).
  { simpl. rewrite rev_app_distr. reflexivity. }
  rewrite E2.
  assert (E3 : trim_left (125%N :: rev inner ++ [123%N]) = 125%N :: rev inner ++ [123%N]) by reflexivity.
  rewrite E3, <- E2. apply rev_involutive.
Qed.

Section RoundTrip.
Variable pv : system -> bool -> bytes -> res parse_out.
Variable S : system.

(* ---------------------------------------------------------------- the hypothesis on bounds (C10) *)
(* the canonical text contains neither separator, does not look like a span, is not empty *)
Definition clean_b (s : bytes) : bool :=
  negb (existsb (fun c => N.eqb c 44 || N.eqb c 58) s)
  && match s with [] => false | c :: _ => negb (N.eqb c 91 || N.eqb c 40) end
  && negb (bytes_eqb s s_empty_span).

(* v is read back from its canonical text as v', which prints alike and compares alike *)
Definition reparses (r : res parse_out) (v v' : version) : Prop :=
  r = Ok {| po_v := Some v'; po_err := false |} /\
  canon false v' = canon false v /\
  (forall x, compare v' x = compare v x) /\ (forall x, compare x v' = compare x v).

Definition unit_span (v : version) : span :=
  {| sp_rank := RUnit; sp_min_open := false; sp_max_open := false; sp_min := Some v; sp_max := Some v |}.

(* s' is what parseSpan returns for the text of s, provided the bounds are read back *)
Definition span_ok (s s' : span) : Prop :=
  match sp_rank s with
  | REmpty => s' = empty_span
  | RUnit => exists v v', sp_min s = Some v /\ clean_b (canon false v) = true /\
                          reparses (parse_public pv S (canon false v)) v v' /\ s' = unit_span v'
  | RVector => exists mn mx mn' mx', sp_min s = Some mn /\ sp_max s = Some mx /\
                 clean_b (canon false mn) = true /\ clean_b (canon false mx) = true /\
                 reparses (pv S false (canon false mn)) mn mn' /\ reparses (pv S true (canon false mx)) mx mx' /\
                 s' = {| sp_rank := RVector; sp_min_open := sp_min_open s; sp_max_open := sp_max_open s;
                         sp_min := Some mn'; sp_max := Some mx' |}
  end.

Lemma clean_b_spec s : clean_b s = true ->
  ~ In 44%N s /\ ~ In 58%N s /\ (exists c t, s = c :: t /\ N.eqb c 91 || N.eqb c 40 = false) /\ bytes_eqb s s_empty_span = false.
Proof.
  unfold clean_b. intros H. apply andb_prop in H. destruct H as [H H3]. apply andb_prop in H. destruct H as [H1 H2].
  apply negb_true_iff in H1. apply negb_true_iff in H3.
  assert (N1 : forall c, In c s -> N.eqb c 44 || N.eqb c 58 = false).
  { intros c Ic. destruct (N.eqb c 44 || N.eqb c 58) eqn:E; auto.
    assert (existsb (fun c => N.eqb c 44 || N.eqb c 58) s = true) by (apply existsb_exists; exists c; auto). congruence. }
  repeat split; auto.
  - intros I. specialize (N1 _ I). simpl in N1. discriminate.
  - intros I. specialize (N1 _ I). simpl in N1. discriminate.
  - destruct s as [|c t]; [discriminate|]. exists c, t. split; auto. apply negb_true_iff in H2. auto.
Qed.

(* ---------------------------------------------------------------- one span *)
Lemma parse_span_vector c0 c1 a b' : (c0 = 91 \/ c0 = 40)%N -> (c1 = 93 \/ c1 = 41)%N -> ~ In 58%N a -> ~ In 58%N b' ->
  parse_span pv S (c0 :: a ++ 58%N :: b' ++ [c1]) =
  (mn <- parse_ok (pv S false a);; mx <- parse_ok (pv S true b');;
   Ok ({| sp_rank := RVector; sp_min_open := N.eqb c0 40; sp_max_open := N.eqb c1 41; sp_min := Some mn; sp_max := Some mx |}, false)).
Proof.
  intros H0 H1 Ha Hb. unfold parse_span.
  assert (Ne : bytes_eqb (c0 :: a ++ 58%N :: b' ++ [c1]) s_empty_span = false).
  { unfold s_empty_span. destruct H0; subst; reflexivity. }
  assert (Hc0 : (N.eqb c0 91 || N.eqb c0 40) = true) by (destruct H0; subst; reflexivity).
  assert (Hc1 : (N.eqb c1 93 || N.eqb c1 41) = true) by (destruct H1; subst; reflexivity).
  rewrite Ne, Hc0.
  replace (c0 :: a ++ 58%N :: b' ++ [c1]) with ((c0 :: a ++ 58%N :: b') ++ [c1])
    by (simpl; rewrite <- app_assoc; reflexivity).
  rewrite last_opt_app_one, Hc1. cbn [negb skipn app]. rewrite removelast_app_one.
  rewrite split_on_nosep by auto. simpl. rewrite app_nil_r, rev_involutive.
  rewrite split_on_last by auto. reflexivity.
Qed.

Lemma span_round_trip s s' : span_ok s s' ->
  exists str simple, span_string s = Ok str /\ parse_span pv S str = Ok (s', simple) /\ span_string s' = Ok str /\
    ~ In 44%N str /\ str <> [] /\
    forall v, span_contains s' v true = span_contains s v true.
Proof.
  unfold span_ok, span_string, span_contains. destruct (sp_rank s) eqn:R.
  - intros ->. exists s_empty_span, false. simpl. repeat split; auto.
    + intros I. simpl in I. repeat (destruct I as [I|I]; [discriminate|]). destruct I.
    + discriminate.
  - intros (v & v' & Emn & Cl & (Ep & Ec & C1 & C2) & ->).
    destruct (clean_b_spec _ Cl) as (N44 & N58 & (c & t & Es & Eb) & Ne).
    exists (canon false v), (negb (is_wildcard_v v')). rewrite Emn. cbn [opt_version bind].
    split; [reflexivity|]. split.
    { unfold parse_span. rewrite Es in Ne, Ep |- *. rewrite Ne, Eb.
      unfold parse_ok. rewrite Ep. reflexivity. }
    split; [cbn; rewrite Ec; reflexivity|]. split; [auto|]. split; [rewrite Es; discriminate|].
    intros x. cbn [unit_span sp_rank sp_min compare_opt]. rewrite C1. reflexivity.
  - intros (mn & mx & mn' & mx' & Emn & Emx & Cl1 & Cl2 & (Ep1 & Ec1 & C1 & C2) & (Ep2 & Ec2 & C3 & C4) & ->).
    destruct (clean_b_spec _ Cl1) as (A44 & A58 & _ & _). destruct (clean_b_spec _ Cl2) as (B44 & B58 & _ & _).
    rewrite Emn, Emx. cbn [opt_version bind].
    assert (Hlb : exists c0, (if sp_min_open s then [40%N] else [91%N]) = [c0] /\ (c0 = 91 \/ c0 = 40)%N /\ N.eqb c0 40 = sp_min_open s /\ c0 <> 44%N).
    { destruct (sp_min_open s); eexists; repeat split; auto; discriminate. }
    assert (Hrb : exists c1, (if sp_max_open s then [41%N] else [93%N]) = [c1] /\ (c1 = 93 \/ c1 = 41)%N /\ N.eqb c1 41 = sp_max_open s /\ c1 <> 44%N).
    { destruct (sp_max_open s); eexists; repeat split; auto; discriminate. }
    destruct Hlb as (c0 & Elb & Hc0 & Oc0 & N0). destruct Hrb as (c1 & Erb & Hc1 & Oc1 & N1).
    rewrite Elb, Erb.
    exists ([c0] ++ canon false mn ++ [58%N] ++ canon false mx ++ [c1]), false.
    split; [reflexivity|].
    split.
    { cbn [app]. rewrite parse_span_vector by auto. unfold parse_ok. rewrite Ep1, Ep2.
      cbn [bind po_err po_v opt_version]. rewrite Oc0, Oc1. reflexivity. }
    split; [cbn; rewrite Ec1, Ec2, Elb, Erb; reflexivity|].
    split.
    { rewrite !in_app_iff. simpl. intros H. repeat (destruct H as [H|H]); try discriminate; try congruence; auto. }
    split; [discriminate|].
    intros x. cbn [sp_rank sp_min sp_max sp_min_open sp_max_open compare_opt]. rewrite C2, C3. reflexivity.
Qed.

(* ---------------------------------------------------------------- a list of spans *)
Lemma spans_string_join l : forall strs, Forall2 (fun s str => span_string s = Ok str) l strs ->
  spans_string true l = Ok (join 44 strs) /\
  (forall s0 str0, span_string s0 = Ok str0 -> spans_string false (s0 :: l) = Ok (44%N :: join 44 (str0 :: strs))).
Proof.
  induction l as [|s t IH]; intros strs H; inversion H as [|? str ? strs' Hs Ht]; subst.
  - split; [reflexivity|]. intros s0 str0 E. simpl. rewrite E. simpl. rewrite app_nil_r. reflexivity.
  - destruct (IH strs' Ht) as (I1 & I2). split.
    + simpl. rewrite Hs. cbn [bind]. destruct t as [|s2 t'].
      * inversion Ht; subst. simpl. rewrite app_nil_r. reflexivity.
      * inversion Ht as [|? str2 ? strs2 Hs2 Ht2]; subst.
        assert (J := proj2 (IH (str2 :: strs2) Ht) s str Hs).
        (* spans_string false (s2 :: t') in terms of the join *)
        assert (K : spans_string false (s2 :: t') = Ok (44%N :: join 44 (str2 :: strs2))).
        { destruct (IH (str2 :: strs2) Ht) as (K1 & _).
          clear - K1 Hs2. simpl in *. rewrite Hs2 in *. cbn [bind] in *.
          destruct (spans_string false t'); cbn [bind] in *; try discriminate.
          inversion K1. simpl. reflexivity. }
        rewrite K. cbn [bind]. simpl. reflexivity.
    + intros s0 str0 E. simpl. rewrite E. cbn [bind]. rewrite Hs. cbn [bind].
      destruct t as [|s2 t'].
      * inversion Ht; subst. simpl. rewrite app_nil_r. reflexivity.
      * inversion Ht as [|? str2 ? strs2 Hs2 Ht2]; subst.
        assert (K : spans_string false (s2 :: t') = Ok (44%N :: join 44 (str2 :: strs2))).
        { destruct (IH (str2 :: strs2) Ht) as (K1 & _).
          clear - K1 Hs2. simpl in *. rewrite Hs2 in *. cbn [bind] in *.
          destruct (spans_string false t'); cbn [bind] in *; try discriminate.
          inversion K1. simpl. reflexivity. }
        rewrite K. cbn [bind]. simpl. reflexivity.
Qed.

Lemma parse_spans_ok strs : forall l', Forall2 (fun str s' => exists simple, parse_span pv S str = Ok (s', simple)) strs l' ->
  exists w, parse_spans pv S strs = Ok (l', w).
Proof.
  induction strs as [|str t IH]; intros l' H; inversion H as [|? s' ? l2 (simple & E) Ht]; subst.
  - exists 0. reflexivity.
  - destruct (IH l2 Ht) as (w & Ew). simpl. rewrite E, Ew. cbn [bind fst snd]. eexists. reflexivity.
Qed.

(* matching under the prerelease-inclusive mode reads a span only through span.contains, for
   every version that is not a PyPI version *)
Lemma match_span_incl v s : sys_eqb (v_sys v) SPyPI = false -> match_span v true s = span_contains s v true.
Proof.
  intros H. unfold match_span. rewrite H. cbn [andb bind negb]. rewrite andb_false_r. cbn [andb]. reflexivity.
Qed.

Lemma match_spans_same v l l' : sys_eqb (v_sys v) SPyPI = false ->
  Forall2 (fun s s' => forall x, span_contains s' x true = span_contains s x true) l l' ->
  match_spans v true l' = match_spans v true l.
Proof.
  intros Hv H. induction H as [|s s' l l' Hs Hl IH]; simpl; auto.
  rewrite !match_span_incl by auto. rewrite Hs. destruct (span_contains s v true); simpl; auto.
  destruct a; auto.
Qed.

(* ---------------------------------------------------------------- the set and the constraint *)
Theorem set_round_trip (c : constraint) (l' : list span) :
  set_span (c_set c) <> [] -> Forall2 span_ok (set_span (c_set c)) l' ->
  exists str c', set_string (c_set c) = Ok str /\ parse_set_constraint pv S str = Ok c' /\
    set_string (c_set c') = Ok str /\
    forall v, sys_eqb (v_sys v) SPyPI = false -> match_version_prerelease c' v = match_version_prerelease c v.
Proof.
  intros Hne Hok.
  set (l := set_span (c_set c)) in *.
  (* texts of the spans *)
  assert (T : exists strs, Forall2 (fun s str => span_string s = Ok str) l strs /\
                 Forall2 (fun str s' => exists simple, parse_span pv S str = Ok (s', simple)) strs l' /\
                 Forall2 (fun s' str => span_string s' = Ok str) l' strs /\
                 Forall (fun x => ~ In 44%N x) strs /\ Forall (fun x => x <> []) strs /\
                 Forall2 (fun s s' => forall x, span_contains s' x true = span_contains s x true) l l').
  { clear Hne. induction Hok as [|s s' t t' Hs Ht IH].
    - exists []. repeat split; constructor.
    - destruct IH as (strs & A1 & A2 & A3 & A4 & A5 & A6).
      destruct (span_round_trip s s' Hs) as (str & simple & B1 & B2 & B3 & B4 & B5 & B6).
      exists (str :: strs). repeat split; constructor; eauto. }
  destruct T as (strs & A1 & A2 & A3 & A4 & A5 & A6).
  assert (Hs : strs <> []).
  { intros ->. inversion A1; subst. unfold l in *. congruence. }
  destruct (spans_string_join l strs A1) as (J1 & _).
  destruct (spans_string_join l' strs A3) as (J2 & _).
  exists (123%N :: join 44 strs ++ [125%N]).
  unfold set_string. fold l. rewrite J1. cbn [bind app].
  destruct (parse_spans_ok strs l' A2) as (w & Ew).
  assert (P : parse_set pv S (123%N :: join 44 strs ++ [125%N]) = Ok ({| set_sys := S; set_span := l' |}, w =? 1)).
  { unfold parse_set.
    assert (Ne : join 44 strs <> []).
    { destruct strs as [|x t]; [congruence|]. inversion A5; subst. destruct t; simpl; auto.
      destruct x; [congruence|discriminate]. }
    destruct (join 44 strs) as [|j0 jt] eqn:EJ; [congruence|].
    cbn [app].
    assert (L : last_opt (123%N :: j0 :: jt ++ [125%N]) = Some 125%N).
    { change (123%N :: j0 :: jt ++ [125%N]) with ((123%N :: j0 :: jt) ++ [125%N]). apply last_opt_app_one. }
    rewrite L. cbn [N.eqb andb negb Pos.eqb].
    assert (B : bytes_eqb (123%N :: j0 :: jt ++ [125%N]) [123%N; 125%N] = false).
    { simpl. destruct (N.eqb j0 125); auto. destruct jt; reflexivity. }
    rewrite B. cbn [skipn].
    change (j0 :: jt ++ [125%N]) with ((j0 :: jt) ++ [125%N]). rewrite removelast_app_one.
    rewrite <- EJ. rewrite split_on_join by auto. rewrite Ew. reflexivity. }
  eexists. split; [reflexivity|]. split.
  { unfold parse_set_constraint. rewrite trim_space_braces. cbn [app]. rewrite P. cbn [bind fst snd]. reflexivity. }
  cbn [c_set set_span]. rewrite J2. cbn [bind app]. split; [reflexivity|].
  intros v Hv. unfold match_version_prerelease. destruct (is_wildcard_v v); [reflexivity|].
  unfold set_match_version. cbn [c_set set_span]. fold l.
  assert (M : match_spans v true l' = match_spans v true l) by (apply match_spans_same; auto).
  clear - M A6 Hne. clearbody l.
  destruct (sys_eqb (v_sys v) SRubyGems); (destruct l as [|a t], l' as [|a' t']; try (inversion A6; fail); [congruence | exact M]).
Qed.

End RoundTrip.
