(* Facts about the canonical printer of versions without extension (C10, SemVer family). *)
From Coq Require Import Lia.
From DepsDev Require Import Lib.Base Lib.Order Semver.Version Semver.Compare Semver.Generic_proofs Semver.Compare_proofs.
Local Open Scope Z_scope.

(* The canonical string is a function of the system, the numbers, the prerelease elements
   and (when shown) the build string: not of the original spelling. *)
Lemma generic_canon_fields sb a b :
  v_sys a = v_sys b -> v_num a = v_num b -> v_pre a = v_pre b -> v_build a = v_build b ->
  generic_canon sb a = generic_canon sb b.
Proof. unfold generic_canon. intros -> -> -> ->. reflexivity. Qed.

(* NuGet never prints build metadata. *)
Lemma generic_canon_nuget v : v_sys v = SNuGet -> generic_canon true v = generic_canon false v.
Proof. unfold generic_canon. intros ->. reflexivity. Qed.

(* A wildcard version prints its numbers only. *)
Lemma generic_canon_wildcard sb v : is_wildcard (v_num v) = true ->
  generic_canon sb v = (if sys_eqb (v_sys v) SGo then [118%N] else []) ++ print_nums (v_num v).
Proof. unfold generic_canon. intros ->. reflexivity. Qed.

(* Clause 4 of C10 from clauses 1 and 2: if two versions have one canonical string, that
   string parses to v' and both compare equal to v', they compare equal to each other. *)
Lemma same_canon_equal S v1 v2 v' :
  fam_version S v1 -> fam_version S v2 -> fam_version S v' ->
  compare v1 v' = Ok 0 -> compare v2 v' = Ok 0 -> compare v1 v2 = Ok 0.
Proof.
  intros F1 F2 F' H1 H2.
  rewrite (compare_family S) in * by auto.
  inversion H1 as [E1]; inversion H2 as [E2]. f_equal.
  pose proof (generic_compare_core S) as [R Sy T C].
  assert (E3 : generic_compare S v' v2 = 0).
  { pose proof (Sy v2 v' I I) as H. rewrite E2 in H. simpl in H. lia. }
  pose proof (C v1 v' v2 I I I E1) as H. rewrite E3 in H. simpl in H. lia.
Qed.
