(* Lexer lemmas for the SemVer-family parser (Parse.v), forward direction: what the lexer and
   the token loops (take_digits, elem_loop) do on text made of accepted bytes.  Used by the
   print/parse inversion (ParseRoundtrip_proofs.v, C10) and by the strict-grammar tie
   (StrictParse_proofs.v, C02).  The backward direction (what an error-free run consumed) is
   in ParseSound_proofs.v. *)
From Coq Require Import Lia.
From DepsDev Require Import Lib.Base Semver.Version Gen.SemverTables Semver.Parse.
Local Open Scope Z_scope.

Local Arguments byte_type_of : simpl never.
Local Arguments infinity : simpl never.

(* ------------------------------------------------------------------ byte classes *)
(* a byte the lexer accepts (ASCII, class tVS of the table generated from lex.go) *)
Definition vs (c : N) : bool := (c <? 127)%N && N.eqb (byte_type_of c) go_tVS.
(* alphanumericOrHyphen, on the byte *)
Definition identc (c : N) : bool := (Z.of_N c =? 45) || z_is_alnum (Z.of_N c).

Definition all128 : list N := map N.of_nat (seq 0 128).

Lemma in_all128 c : (c < 128)%N -> In c all128.
Proof.
  intros H. unfold all128. rewrite <- (N2Nat.id c). apply in_map. apply in_seq. lia.
Qed.

Lemma finite128 (f : N -> bool) : forallb f all128 = true -> forall c, (c < 128)%N -> f c = true.
Proof. intros H c Hc. rewrite forallb_forall in H. apply H. apply in_all128. exact Hc. Qed.

Lemma identc_small c : identc c = true -> (c < 128)%N.
Proof.
  unfold identc, z_is_alnum, z_is_digit, z_is_alpha. intros H.
  repeat (apply orb_true_iff in H; destruct H as [H|H]);
    try (apply andb_true_iff in H; destruct H as [H1 H2]; apply Z.leb_le in H1, H2; lia).
  apply Z.eqb_eq in H. lia.
Qed.

Lemma identc_vs c : identc c = true -> vs c = true.
Proof.
  intros H. pose proof (identc_small c H) as Hs.
  assert (F : forallb (fun c => implb (identc c) (vs c)) all128 = true) by (vm_compute; reflexivity).
  pose proof (finite128 _ F c Hs) as G. cbv beta in G. rewrite H in G. exact G.
Qed.

Lemma z_digit_of_N c : z_is_digit (Z.of_N c) = is_digit c.
Proof.
  unfold z_is_digit, is_digit.
  destruct (N.leb_spec 48 c), (N.leb_spec c 57), (Z.leb_spec 48 (Z.of_N c)), (Z.leb_spec (Z.of_N c) 57);
    try reflexivity; lia.
Qed.

Lemma digit_identc c : is_digit c = true -> identc c = true.
Proof.
  intros H. unfold identc, z_is_alnum. rewrite z_digit_of_N, H. cbn [orb]. apply orb_true_r.
Qed.

Lemma digit_vs c : is_digit c = true -> vs c = true.
Proof. intros H. apply identc_vs, digit_identc, H. Qed.

Lemma vs_46 : vs 46 = true. Proof. vm_compute. reflexivity. Qed.
Lemma vs_45 : vs 45 = true. Proof. vm_compute. reflexivity. Qed.
Lemma vs_43 : vs 43 = true. Proof. vm_compute. reflexivity. Qed.
Lemma vs_42 : vs 42 = true. Proof. vm_compute. reflexivity. Qed.
Lemma vs_118 : vs 118 = true. Proof. vm_compute. reflexivity. Qed.

(* a separator that may follow a number or an element in a version: . - + *)
Definition sepc (c : N) : bool := N.eqb c 46 || N.eqb c 45 || N.eqb c 43.

Lemma sepc_cases c : sepc c = true -> c = 46%N \/ c = 45%N \/ c = 43%N.
Proof.
  unfold sepc. intros H. apply orb_true_iff in H. destruct H as [H|H].
  - apply orb_true_iff in H. destruct H as [H|H]; apply N.eqb_eq in H; auto.
  - apply N.eqb_eq in H; auto.
Qed.

Lemma sepc_vs c : sepc c = true -> vs c = true.
Proof. intros H. destruct (sepc_cases c H) as [ -> | [ -> | -> ] ]; vm_compute; reflexivity. Qed.
Lemma sepc_not_digit c : sepc c = true -> is_digit c = false.
Proof. intros H. destruct (sepc_cases c H) as [ -> | [ -> | -> ] ]; vm_compute; reflexivity. Qed.

(* the text after a token: nothing, or a byte the lexer accepts that does not continue the token *)
Definition stopc (P : N -> bool) (rest : bytes) : Prop :=
  match rest with [] => True | c :: _ => vs c = true /\ P c = false end.

(* ------------------------------------------------------------------ the lexer, forward *)
(* an error-free lexer of the public parser (no infinity sign) *)
Definition LX (r : bytes) (p : nat) (la : bytes) : lexer :=
  {| l_rest := r; l_pos := p; l_last := la; l_err := false; l_inf := false |}.

Lemma lex_next_vs c t p la : vs c = true ->
  lex_next (LX (c :: t) p la) = (Z.of_N c, LX t (S p) [c]).
Proof.
  intros H. unfold vs in H. apply andb_true_iff in H. destruct H as [H1 H2].
  unfold lex_next, LX. cbn [l_rest l_pos l_last l_err l_inf]. rewrite H1, H2. reflexivity.
Qed.

Lemma lex_next_nil p la : lex_next (LX [] p la) = (r_eof, LX [] p []).
Proof. reflexivity. Qed.

Lemma lex_back_one c t p : lex_back (LX t (S p) [c]) = LX (c :: t) p [].
Proof. unfold lex_back, LX. cbn [l_rest l_pos l_last l_err l_inf length app]. rewrite Nat.sub_succ, Nat.sub_0_r. reflexivity. Qed.

Lemma lex_back_none r p : lex_back (LX r p []) = LX r p [].
Proof. unfold lex_back, LX. cbn [l_rest l_pos l_last l_err l_inf length app]. rewrite Nat.sub_0_r. reflexivity. Qed.

Lemma lex_peek_vs c t p la : vs c = true -> lex_peek (LX (c :: t) p la) = (Z.of_N c, LX (c :: t) p []).
Proof. intros H. unfold lex_peek. rewrite (lex_next_vs c t p la H), lex_back_one. reflexivity. Qed.

Lemma lex_peek_nil p la : lex_peek (LX [] p la) = (r_eof, LX [] p []).
Proof. unfold lex_peek. rewrite lex_next_nil, lex_back_none. reflexivity. Qed.

Lemma lex_digit_yes c t p la : is_digit c = true -> lex_digit (LX (c :: t) p la) = (true, LX t (S p) [c]).
Proof.
  intros H. unfold lex_digit. rewrite (lex_next_vs c t p la (digit_vs c H)), z_digit_of_N, H. reflexivity.
Qed.

Lemma lex_digit_stop rest p la : stopc is_digit rest -> lex_digit (LX rest p la) = (false, LX rest p []).
Proof.
  destruct rest as [|c t]; intros H.
  - unfold lex_digit. rewrite lex_next_nil. cbn [z_is_digit r_eof Z.leb Z.compare andb]. rewrite lex_back_none. reflexivity.
  - destruct H as [H1 H2]. unfold lex_digit. rewrite (lex_next_vs c t p la H1), z_digit_of_N, H2, lex_back_one. reflexivity.
Qed.

Lemma lex_alnum_yes c t p la : identc c = true -> lex_alnum_hyphen (LX (c :: t) p la) = (true, LX t (S p) [c]).
Proof.
  intros H. unfold lex_alnum_hyphen. rewrite (lex_next_vs c t p la (identc_vs c H)).
  fold (identc c). rewrite H. reflexivity.
Qed.

Lemma lex_alnum_stop rest p la : stopc identc rest -> lex_alnum_hyphen (LX rest p la) = (false, LX rest p []).
Proof.
  destruct rest as [|c t]; intros H.
  - unfold lex_alnum_hyphen. rewrite lex_next_nil. cbn. rewrite lex_back_none. reflexivity.
  - destruct H as [H1 H2]. unfold lex_alnum_hyphen. rewrite (lex_next_vs c t p la H1).
    fold (identc c). rewrite H2, lex_back_one. reflexivity.
Qed.

(* ------------------------------------------------------------------ digits *)
Lemma take_digits_run ds : forall fuel p la acc rest,
  (length ds < fuel)%nat -> forallb is_digit ds = true -> stopc is_digit rest ->
  take_digits fuel (LX (ds ++ rest) p la) acc = (rev acc ++ ds, LX rest (p + length ds) []).
Proof.
  induction ds as [|d ds IH]; intros fuel p la acc rest Hf Hd Hs.
  - destruct fuel as [|f]; [cbn in Hf; lia|].
    cbn [take_digits app length]. rewrite (lex_digit_stop rest p la Hs).
    rewrite app_nil_r, Nat.add_0_r. reflexivity.
  - destruct fuel as [|f]; [cbn in Hf; lia|].
    cbn [forallb] in Hd. apply andb_true_iff in Hd. destruct Hd as [Hd1 Hd2].
    cbn [take_digits app]. rewrite (lex_digit_yes d (ds ++ rest) p la Hd1).
    cbn [LX l_last]. rewrite (IH f (S p) [d] (d :: acc) rest); [|cbn [length] in Hf; lia|exact Hd2|exact Hs].
    cbn [rev length]. rewrite <- app_assoc. cbn [app]. f_equal. f_equal. lia.
Qed.

(* ------------------------------------------------------------------ elements *)
(* the bytes elem accepts: identifier bytes and, for NuGet, at most one asterisk *)
Fixpoint elem_chars (nuget seen : bool) (e : bytes) : bool :=
  match e with
  | [] => true
  | c :: t => if identc c then elem_chars nuget seen t
              else if nuget && N.eqb c 42 && negb seen then elem_chars nuget true t
              else false
  end.

Definition elemb (sy : system) (e : bytes) : bool :=
  match e with [] => false | _ => elem_chars (sys_eqb sy SNuGet) false e end.

(* what may follow an element: nothing, or an accepted byte that is neither an identifier byte nor an asterisk *)
Definition estop (c : N) : bool := identc c || N.eqb c 42.

Lemma elem_loop_run sy e : forall fuel p la seen acc rest,
  (length e < fuel)%nat -> elem_chars (sys_eqb sy SNuGet) seen e = true -> stopc estop rest ->
  elem_loop sy fuel (LX (e ++ rest) p la) seen acc = (rev acc ++ e, LX rest (p + length e) []).
Proof.
  induction e as [|c e IH]; intros fuel p la seen acc rest Hf He Hs.
  - destruct fuel as [|f]; [cbn in Hf; lia|].
    assert (Hs' : stopc identc rest).
    { destruct rest as [|c t]; [exact I|]. destruct Hs as [H1 H2]. split; [exact H1|].
      unfold estop in H2. apply orb_false_iff in H2. tauto. }
    cbn [elem_loop app length]. rewrite (lex_alnum_stop rest p la Hs').
    rewrite app_nil_r, Nat.add_0_r.
    destruct (sys_eqb sy SNuGet); [|reflexivity].
    destruct rest as [|c t].
    + rewrite lex_next_nil. cbn. rewrite lex_back_none. reflexivity.
    + destruct Hs as [H1 H2]. rewrite (lex_next_vs c t p [] H1).
      unfold estop in H2. apply orb_false_iff in H2. destruct H2 as [_ H2].
      assert (E : (Z.of_N c =? 42) = false).
      { apply Z.eqb_neq. apply N.eqb_neq in H2. lia. }
      rewrite E. cbn [andb]. rewrite lex_back_one. reflexivity.
  - destruct fuel as [|f]; [cbn in Hf; lia|].
    cbn [elem_chars] in He. cbn [elem_loop app].
    destruct (identc c) eqn:Hc.
    + rewrite (lex_alnum_yes c (e ++ rest) p la Hc). cbn [LX l_last].
      rewrite (IH f (S p) [c] seen (c :: acc) rest); [|cbn [length] in Hf; lia|exact He|exact Hs].
      cbn [rev length]. rewrite <- app_assoc. cbn [app]. f_equal. f_equal. lia.
    + destruct (sys_eqb sy SNuGet) eqn:HN; cbn [andb] in He; [|discriminate].
      destruct (N.eqb_spec c 42) as [->|]; cbn [andb] in He; [|discriminate].
      destruct seen; cbn [negb] in He; [discriminate|].
      assert (Hst : stopc identc (42%N :: e ++ rest)) by (split; [exact vs_42 | exact Hc]).
      rewrite (lex_alnum_stop _ p la Hst).
      rewrite (lex_next_vs 42 (e ++ rest) p [] vs_42).
      change (Z.of_N 42 =? 42) with true. cbn [andb negb].
      rewrite (IH f (S p) [42%N] true (42%N :: acc) rest); [|cbn [length] in Hf; lia|exact He|exact Hs].
      cbn [rev length]. rewrite <- app_assoc. cbn [app]. f_equal. f_equal. lia.
Qed.
