(* C02, Maven: the comparator model against ComparableVersion (Spec/MavenSpec.v) on the item
   tree a parsed element list stands for. *)
From Coq Require Import Lia.
From DepsDev Require Import Lib.Base Lib.Order Lib.PadLex Lib.BytesFacts Semver.Version Semver.Maven Semver.MavenParse
  Semver.MavenDomain Semver.MavenItems Semver.Compare Semver.Generic_proofs Semver.Maven_proofs Spec.MavenSpec
  Gen.SemverTables Gen.MavenVariants.
Local Open Scope Z_scope.

(* ------------------------------------------------------------------ list comparison, named *)
Fixpoint items_cmp (la lb : list item) : Z :=
  match la with
  | [] => nulls_r lb
  | l :: la' =>
      match lb with
      | [] => nulls_l la
      | r :: lb' => let c := item_cmp l r in if c =? 0 then items_cmp la' lb' else c
      end
  end.

Lemma item_cmp_lists la : forall lb, item_cmp (IList la) (IList lb) = items_cmp la lb.
Proof.
  induction la as [|l la IH]; intros lb; [reflexivity|].
  destruct lb as [|r lb]; [reflexivity|].
  simpl. destruct (item_cmp l r =? 0); [apply IH | reflexivity].
Qed.

Lemma items_cmp_single x y : items_cmp [IList x] [IList y] = items_cmp x y.
Proof.
  cbn [items_cmp]. rewrite item_cmp_lists. cbv zeta.
  destruct (Z.eqb_spec (items_cmp x y) 0) as [E|E]; auto.
Qed.

(* ------------------------------------------------------------------ the qualifier table against QUALIFIERS *)
Definition keys : list bytes := map fst maven_qualifier_order.
Definition mrank (q : bytes) : Z :=
  match index_of (alias q) qualifiers 0 with Some i => Z.of_N i | None => 7 end.

Lemma qo_default tbl q : (forall k, In k (map fst tbl) -> bytes_eqb k q = false) -> qualifier_order_in tbl q = 0.
Proof.
  induction tbl as [|[k v] t IH]; intros H; simpl; auto.
  rewrite (H k) by (simpl; auto). apply IH. intros k' Hk. apply H. simpl; auto.
Qed.

Lemma index_none l : forall q i, (forall x, In x l -> bytes_eqb x q = false) -> index_of q l i = None.
Proof.
  induction l as [|x t IH]; intros q i H; simpl; auto.
  rewrite (H x) by (simpl; auto). apply IH. intros y Hy. apply H. simpl; auto.
Qed.

Lemma index_bound l : forall q i j, index_of q l i = Some j -> (j < i + N.of_nat (length l))%N.
Proof.
  induction l as [|x t IH]; intros q i j H; simpl in *; [discriminate|].
  destruct (bytes_eqb x q).
  - inversion H; subst. lia.
  - apply IH in H. lia.
Qed.

Lemma in_keys x : existsb (fun k => bytes_eqb k x) keys = true -> In x keys.
Proof.
  intros H. apply existsb_exists in H. destruct H as [k [Hk E]]. apply beqb_eq in E. subst. auto.
Qed.

(* every key: ComparableVersion's rank is the table's order plus 7 *)
Lemma rank_keys : forallb (fun k => mrank k =? qualifier_order k + 7) keys = true.
Proof. vm_compute. reflexivity. Qed.

(* the aliases and the QUALIFIERS are keys of the table *)
Lemma spec_names_are_keys :
  forallb (fun x => existsb (fun k => bytes_eqb k x) keys) ([q_ga; q_final; q_release; q_cr] ++ qualifiers) = true.
Proof. vm_compute. reflexivity. Qed.

(* the only key of order -1 is sp *)
Lemma order_sp_keys : forallb (fun k => implb (qualifier_order k =? -1) (bytes_eqb k q_sp)) keys = true.
Proof. vm_compute. reflexivity. Qed.

Lemma not_key_false q x : (forall k, In k keys -> bytes_eqb k q = false) ->
  In x ([q_ga; q_final; q_release; q_cr] ++ qualifiers) -> bytes_eqb x q = false.
Proof.
  intros H Hx. apply H. apply in_keys.
  pose proof spec_names_are_keys as F. rewrite forallb_forall in F. apply F; auto.
Qed.

Lemma not_key_default q : (forall k, In k keys -> bytes_eqb k q = false) ->
  qualifier_order q = 0 /\ alias q = q /\ index_of q qualifiers 0 = None.
Proof.
  intros H. split; [|split].
  - apply qo_default. exact H.
  - unfold alias.
    rewrite (beqb_sym q q_ga), (not_key_false q q_ga H) by (simpl; auto).
    rewrite (beqb_sym q q_final), (not_key_false q q_final H) by (simpl; auto).
    rewrite (beqb_sym q q_release), (not_key_false q q_release H) by (simpl; auto).
    rewrite (beqb_sym q q_cr), (not_key_false q q_cr H) by (simpl; auto 6). reflexivity.
  - apply index_none. intros x Hx. apply (not_key_false q x H). apply in_or_app. auto.
Qed.

Lemma key_or_not q : In q keys \/ (forall k, In k keys -> bytes_eqb k q = false).
Proof.
  destruct (existsb (fun k => bytes_eqb k q) keys) eqn:E.
  - left. apply in_keys; auto.
  - right. intros k Hk. destruct (bytes_eqb k q) eqn:F; auto.
    assert (existsb (fun k => bytes_eqb k q) keys = true) by (apply existsb_exists; eauto). congruence.
Qed.

Lemma mrank_order q : mrank q = qualifier_order q + 7.
Proof.
  destruct (key_or_not q) as [H|H].
  - pose proof rank_keys as F. rewrite forallb_forall in F. apply Z.eqb_eq. apply F; auto.
  - destruct (not_key_default q H) as [O [A I]]. unfold mrank. rewrite A, I, O. reflexivity.
Qed.

Lemma order_sp q : qualifier_order q = -1 -> q = q_sp.
Proof.
  intros O. destruct (key_or_not q) as [H|H].
  - pose proof order_sp_keys as F. rewrite forallb_forall in F. specialize (F q H).
    rewrite O in F. simpl in F. symmetry. apply beqb_eq. rewrite beqb_sym. exact F.
  - destruct (not_key_default q H) as [O' _]. lia.
Qed.

Lemma mrank_range q : 0 <= mrank q <= 7.
Proof.
  unfold mrank. destruct (index_of (alias q) qualifiers 0) eqn:E; [|lia].
  apply index_bound in E. simpl in E. lia.
Qed.

(* an unknown qualifier is its own alias *)
Lemma alias_unknown q : mrank q = 7 -> alias q = q.
Proof.
  intros R. unfold alias.
  destruct (bytes_eqb q q_ga) eqn:E1; [apply beqb_eq in E1; subst; discriminate|].
  destruct (bytes_eqb q q_final) eqn:E2; [apply beqb_eq in E2; subst; discriminate|].
  destruct (bytes_eqb q q_release) eqn:E3; [apply beqb_eq in E3; subst; discriminate|].
  destruct (bytes_eqb q q_cr) eqn:E4; [apply beqb_eq in E4; subst; discriminate|].
  reflexivity.
Qed.

(* comparableQualifier of the stored value, compared as strings = compared by rank, then by text *)
Definition utext (q : bytes) : bytes := if mrank q =? 7 then q else [].

Lemma digit_cmp i j : (i < 10)%N -> (j < 10)%N ->
  bytes_compare [(48 + i)%N] [(48 + j)%N] = cmpZ (Z.of_N i) (Z.of_N j).
Proof.
  intros Hi Hj. cbn [bytes_compare]. unfold cmpZ.
  destruct (N.compare_spec (48 + i) (48 + j)), (Z.compare_spec (Z.of_N i) (Z.of_N j)); try reflexivity; lia.
Qed.

Lemma cq_cmp q1 q2 :
  str_cmp (comparable_qualifier (alias q1)) (comparable_qualifier (alias q2)) =
  lex (fun _ _ => cmpZ (mrank q1) (mrank q2)) (fun _ _ => bytes_compare (utext q1) (utext q2)) tt tt.
Proof.
  unfold lex, str_cmp, comparable_qualifier, utext.
  pose proof (mrank_range q1) as R1. pose proof (mrank_range q2) as R2.
  pose proof (alias_unknown q1) as A1. pose proof (alias_unknown q2) as A2.
  unfold mrank in *.
  destruct (index_of (alias q1) qualifiers 0) as [i|] eqn:E1, (index_of (alias q2) qualifiers 0) as [j|] eqn:E2.
  - apply index_bound in E1. apply index_bound in E2. simpl in E1, E2.
    rewrite digit_cmp by lia.
    assert (Z.of_N i =? 7 = false) by (apply Z.eqb_neq; lia).
    assert (Z.of_N j =? 7 = false) by (apply Z.eqb_neq; lia).
    rewrite H, H0. simpl (bytes_compare [] []).
    destruct (cmpZ (Z.of_N i) (Z.of_N j) =? 0) eqn:Z0; auto. apply Z.eqb_eq in Z0. auto.
  - apply index_bound in E1. simpl in E1.
    rewrite (cmpZ_lt (Z.of_N i) 7) by lia. simpl (-1 =? 0). cbv iota.
    change ([55%N; 45%N] ++ alias q2) with (55%N :: 45%N :: alias q2). cbn [bytes_compare].
    destruct (N.compare_spec (48 + i) 55); lia.
  - apply index_bound in E2. simpl in E2.
    rewrite (cmpZ_gt 7 (Z.of_N j)) by lia. simpl (1 =? 0). cbv iota.
    change ([55%N; 45%N] ++ alias q1) with (55%N :: 45%N :: alias q1). cbn [bytes_compare].
    destruct (N.compare_spec 55 (48 + j)); lia.
  - rewrite cmpZ_refl. simpl (0 =? 0). simpl (7 =? 7). cbv iota.
    change ([55%N; 45%N] ++ alias q1) with (55%N :: 45%N :: alias q1).
    change ([55%N; 45%N] ++ alias q2) with (55%N :: 45%N :: alias q2).
    cbn [bytes_compare]. rewrite !N.compare_refl. rewrite (A1 eq_refl), (A2 eq_refl). reflexivity.
Qed.

Lemma cq_null q : str_cmp (comparable_qualifier (alias q)) release_version_index = cmpZ (mrank q) 5.
Proof.
  unfold str_cmp, comparable_qualifier, release_version_index. unfold mrank.
  destruct (index_of (alias q) qualifiers 0) as [i|] eqn:E.
  - apply index_bound in E. simpl in E. change [53%N] with [(48 + 5)%N]. rewrite digit_cmp by lia. reflexivity.
  - reflexivity.
Qed.

(* ------------------------------------------------------------------ elements *)
Local Arguments kcmp : simpl never.
Local Arguments key_of : simpl never.
Local Arguments cmpZ : simpl never.
Local Arguments item_cmp : simpl never.
Local Arguments cmp_null : simpl never.

Lemma item_of_N e : isN e -> item_of e = IInt (Z.to_N (me_int e)).
Proof. unfold isN, item_of, is_num_elem. fold (cat_of e). intros ->. reflexivity. Qed.
Lemma item_of_Q e : isQ e -> item_of e = IStr (alias (me_str e)).
Proof. unfold isQ, item_of, is_num_elem. fold (cat_of e). intros ->. reflexivity. Qed.

Lemma item_cmp_II a b : item_cmp (IInt a) (IInt b) = cmpN3 a b. Proof. reflexivity. Qed.
Lemma item_cmp_IL a l : item_cmp (IInt a) (IList l) = 1. Proof. reflexivity. Qed.
Lemma item_cmp_IS a s : item_cmp (IInt a) (IStr s) = 1. Proof. reflexivity. Qed.
Lemma item_cmp_SI s a : item_cmp (IStr s) (IInt a) = -1. Proof. reflexivity. Qed.
Lemma item_cmp_SL s l : item_cmp (IStr s) (IList l) = -1. Proof. reflexivity. Qed.
Lemma item_cmp_LI l a : item_cmp (IList l) (IInt a) = -1. Proof. reflexivity. Qed.
Lemma item_cmp_LS l s : item_cmp (IList l) (IStr s) = 1. Proof. reflexivity. Qed.
Lemma item_cmp_SS a b : item_cmp (IStr a) (IStr b) = str_cmp (comparable_qualifier a) (comparable_qualifier b).
Proof. reflexivity. Qed.
Lemma cmp_null_I n : cmp_null (IInt n) = if N.eqb n 0 then 0 else 1. Proof. reflexivity. Qed.
Lemma cmp_null_S s : cmp_null (IStr s) = str_cmp (comparable_qualifier s) release_version_index. Proof. reflexivity. Qed.
Lemma cmp_null_L x l : cmp_null x <> 0 -> cmp_null (IList (x :: l)) = cmp_null x.
Proof.
  intros H. change (cmp_null (IList (x :: l))) with (if cmp_null x =? 0 then cmp_null (IList l) else cmp_null x).
  destruct (Z.eqb_spec (cmp_null x) 0); [contradiction | reflexivity].
Qed.

Lemma cmpN3_Z a b : 0 <= a -> 0 <= b -> cmpN3 (Z.to_N a) (Z.to_N b) = cmpZ a b.
Proof. intros Ha Hb. unfold cmpN3, cmpZ. rewrite <- (Z2N.inj_compare a b) by auto. reflexivity. Qed.

Lemma cmpZ_shift a b k : cmpZ (a + k) (b + k) = cmpZ a b.
Proof. unfold cmpZ. destruct (Z.compare_spec (a + k) (b + k)), (Z.compare_spec a b); try reflexivity; lia. Qed.

(* tail elements of the theorem's domain *)
Definition td0 (e : mvn_elem) : Prop := td e /\ num_ok e = true /\ tail_nonnull e = true.

Lemma td0_N e : td0 e -> isN e -> 0 < me_int e.
Proof.
  intros [_ [O T]] Ne. unfold num_ok, tail_nonnull, is_num_elem in *. fold (cat_of e) in *.
  rewrite Ne in *. simpl in *. apply Z.leb_le in O. apply negb_true_iff in T. apply Z.eqb_neq in T. lia.
Qed.
Lemma td0_Q e : td0 e -> isQ e -> qorder e <> -2.
Proof.
  intros [_ [_ T]] Qe. unfold tail_nonnull, is_num_elem in T. fold (cat_of e) in T.
  rewrite Qe in T. simpl in T. apply negb_true_iff in T. apply Z.eqb_neq in T. exact T.
Qed.

Lemma utext_key q : utext q = if -2 <? qualifier_order q then (if qualifier_order q =? -1 then [] else q) else [].
Proof.
  unfold utext. rewrite mrank_order.
  destruct (Z.eqb_spec (qualifier_order q + 7) 7) as [E|E].
  - assert (qualifier_order q = 0) by lia. rewrite H. reflexivity.
  - destruct (Z.ltb_spec (-2) (qualifier_order q)); auto.
    destruct (Z.eqb_spec (qualifier_order q) (-1)); auto.
    pose proof (mrank_range q). rewrite mrank_order in H0. lia.
Qed.

(* two qualifiers: ComparableVersion's string comparison is the key comparison *)
Lemma qq_bridge a b : isQ a -> isQ b ->
  item_cmp (item_of a) (item_of b) = kcmp (key_of a) (key_of b).
Proof.
  intros Qa Qb. rewrite (item_of_Q a Qa), (item_of_Q b Qb), item_cmp_SS, cq_cmp.
  rewrite (key_of_Q a Qa), (key_of_Q b Qb), kcmp_unfold. unfold lex.
  unfold k_class, k_ord, k_str, k_int; simpl fst; simpl snd. rewrite (cmpZ_refl 0). simpl (0 =? 0). cbv iota.
  rewrite !mrank_order. unfold qorder. rewrite empty_q.
  set (oa := qualifier_order (me_str a)). set (ob := qualifier_order (me_str b)).
  rewrite cmpZ_shift.
  destruct (Z.eqb_spec (cmpZ oa ob) 0) as [E|E]; auto.
  apply cmpZ_eq0 in E. rewrite !utext_key. fold oa ob. rewrite <- E.
  destruct (-2 <? oa) eqn:U.
  - destruct (Z.eqb_spec oa (-1)) as [S|S].
    + assert (me_str a = q_sp) by (apply order_sp; exact S).
      assert (me_str b = q_sp) by (apply order_sp; unfold ob in E; rewrite <- E; exact S).
      rewrite H, H0. reflexivity.
    + destruct (bytes_compare (me_str a) (me_str b) =? 0) eqn:Z0; auto.
      apply Z.eqb_eq in Z0. rewrite Z0. reflexivity.
  - reflexivity.
Qed.

(* a qualifier against the end of the other list *)
Lemma q_null a : isQ a -> cmp_null (item_of a) = kcmp (key_of a) key_pad.
Proof.
  intros Qa. rewrite (item_of_Q a Qa), cmp_null_S, cq_null, mrank_order.
  rewrite (key_of_Q a Qa), kcmp_unfold. unfold key_pad.
  unfold k_class, k_ord, k_str, k_int; simpl fst; simpl snd. rewrite (cmpZ_refl 0). simpl (0 =? 0). cbv iota.
  unfold qorder. rewrite empty_q. set (oa := qualifier_order (me_str a)).
  change 5 with (-2 + 7). rewrite cmpZ_shift.
  destruct (Z.eqb_spec (cmpZ oa (-2)) 0) as [E|E]; auto.
  apply cmpZ_eq0 in E. rewrite E. reflexivity.
Qed.

(* two tail elements with the same separator *)
Lemma elem_bridge e f : td0 e -> td0 f -> me_sep e = me_sep f ->
  item_cmp (item_of e) (item_of f) = kcmp (key_of e) (key_of f).
Proof.
  intros Te Tf S.
  destruct (td_cases e (proj1 Te)) as [[Se [Qe Ie]]|[Ne Se]], (td_cases f (proj1 Tf)) as [[Sf [Qf If]]|[Nf Sf]].
  - apply qq_bridge; auto.
  - rewrite (item_of_Q e Qe), (item_of_N f Nf), item_cmp_SI, (kcmp_QN e f Qe Nf). reflexivity.
  - rewrite (item_of_N e Ne), (item_of_Q f Qf), item_cmp_IS, (kcmp_NQ e f Ne Qf). reflexivity.
  - rewrite (item_of_N e Ne), (item_of_N f Nf), item_cmp_II, (kcmp_NN e f Ne Nf), S, cmpZ_refl.
    simpl (0 =? 0). cbv iota. apply cmpN3_Z.
    + pose proof (td0_N e Te Ne). lia.
    + pose proof (td0_N f Tf Nf). lia.
Qed.

(* '.'-attached against '-'-attached *)
Lemma dot_dash_key e f : td e -> td f -> me_sep e = 46%N -> me_sep f = 45%N ->
  isN e /\ kcmp (key_of e) (key_of f) = 1 /\ kcmp (key_of f) (key_of e) = -1.
Proof.
  intros Te Tf Se Sf.
  destruct (td_cases e Te) as [[Se' _]|[Ne _]]; [rewrite Se in Se'; discriminate|].
  split; auto.
  destruct (td_cases f Tf) as [[_ [Qf _]]|[Nf _]].
  - rewrite (kcmp_NQ e f Ne Qf), (kcmp_QN f e Qf Ne). auto.
  - rewrite (kcmp_NN e f Ne Nf), (kcmp_NN f e Nf Ne), Se, Sf. auto.
Qed.

Lemma td_sep e : td e -> me_sep e = 45%N \/ me_sep e = 46%N.
Proof. intros T. destruct (td_cases e T) as [[S _]|[_ [S|[S _]]]]; auto. Qed.

Lemma cont_dash e t : me_sep e = 45%N -> cont (e :: t) = [IList (item_of e :: cont t)].
Proof. intros S. simpl. rewrite S. reflexivity. Qed.
Lemma cont_dot e t : me_sep e = 46%N -> cont (e :: t) = item_of e :: cont t.
Proof. intros S. simpl. rewrite S. reflexivity. Qed.

(* a non-null qualifier against the padding *)
Lemma q_nonnull_kcmp f : td0 f -> isQ f ->
  kcmp (key_of f) key_pad <> 0 /\ kcmp key_pad (key_of f) <> 0 /\ - kcmp (key_of f) key_pad = kcmp key_pad (key_of f).
Proof.
  intros Tf Qf. pose proof (td0_Q f Tf Qf) as NQ.
  rewrite (key_of_Q f Qf), !kcmp_unfold. unfold key_pad.
  unfold k_class, k_ord, k_str, k_int; simpl fst; simpl snd. rewrite (cmpZ_refl 0). simpl (0 =? 0). cbv iota.
  rewrite empty_q.
  destruct (Z.eqb_spec (cmpZ (qorder f) (-2)) 0) as [E|E]; [apply cmpZ_eq0 in E; contradiction|].
  destruct (Z.eqb_spec (cmpZ (-2) (qorder f)) 0) as [E'|E']; [apply cmpZ_eq0 in E'; congruence|].
  repeat split; auto. apply cmpZ_antisym.
Qed.

(* a tail element against the end of the other list: decided at once *)
Lemma null_r_td0 f t : td0 f ->
  nulls_r (cont (f :: t)) = kcmp key_pad (key_of f) /\ kcmp key_pad (key_of f) <> 0.
Proof.
  intros Tf. destruct (td_cases f (proj1 Tf)) as [[Sf [Qf If]]|[Nf Sf]].
  - destruct (q_nonnull_kcmp f Tf Qf) as [N1 [N2 A]].
    rewrite (cont_dash f t Sf). cbn [nulls_r].
    rewrite cmp_null_L by (rewrite (q_null f Qf); exact N1). rewrite (q_null f Qf), A.
    split; auto. destruct (Z.eqb_spec (kcmp key_pad (key_of f)) 0); [contradiction | reflexivity].
  - pose proof (td0_N f Tf Nf) as P. rewrite (kcmp_padN f Nf). split; [|discriminate].
    assert (Z : N.eqb (Z.to_N (me_int f)) 0 = false) by (apply N.eqb_neq; lia).
    assert (NZ : cmp_null (item_of f) <> 0) by (rewrite (item_of_N f Nf), cmp_null_I, Z; discriminate).
    destruct Sf as [Sf|[Sf _]].
    + rewrite (cont_dash f t Sf). cbn [nulls_r]. rewrite cmp_null_L by exact NZ.
      rewrite (item_of_N f Nf), cmp_null_I, Z. reflexivity.
    + rewrite (cont_dot f t Sf). cbn [nulls_r]. rewrite (item_of_N f Nf), cmp_null_I, Z. reflexivity.
Qed.

Lemma null_l_td0 e t : td0 e ->
  nulls_l (cont (e :: t)) = kcmp (key_of e) key_pad /\ kcmp (key_of e) key_pad <> 0.
Proof.
  intros Te. destruct (td_cases e (proj1 Te)) as [[Se [Qe Ie]]|[Ne Se]].
  - destruct (q_nonnull_kcmp e Te Qe) as [N1 [N2 A]].
    rewrite (cont_dash e t Se). cbn [nulls_l].
    rewrite cmp_null_L by (rewrite (q_null e Qe); exact N1). rewrite (q_null e Qe).
    split; auto. destruct (Z.eqb_spec (kcmp (key_of e) key_pad) 0); [contradiction | reflexivity].
  - pose proof (td0_N e Te Ne) as P. rewrite (kcmp_Npad e Ne). split; [|discriminate].
    assert (Z : N.eqb (Z.to_N (me_int e)) 0 = false) by (apply N.eqb_neq; lia).
    assert (NZ : cmp_null (item_of e) <> 0) by (rewrite (item_of_N e Ne), cmp_null_I, Z; discriminate).
    destruct Se as [Se|[Se _]].
    + rewrite (cont_dash e t Se). cbn [nulls_l]. rewrite cmp_null_L by exact NZ.
      rewrite (item_of_N e Ne), cmp_null_I, Z. reflexivity.
    + rewrite (cont_dot e t Se). cbn [nulls_l]. rewrite (item_of_N e Ne), cmp_null_I, Z. reflexivity.
Qed.

(* ------------------------------------------------------------------ tails *)
Lemma tails_bridge t1 : forall t2, Forall td0 t1 -> Forall td0 t2 ->
  items_cmp (cont t1) (cont t2) = pad_lex kcmp key_pad (map key_of t1) (map key_of t2).
Proof.
  induction t1 as [|e t1 IH]; intros t2 H1 H2.
  - destruct t2 as [|f t2]; [reflexivity|]. inversion H2; subst.
    destruct (null_r_td0 f t2 H3) as [A B].
    change (items_cmp (cont []) (cont (f :: t2))) with (nulls_r (cont (f :: t2))). rewrite A.
    cbn [map pad_lex pad_r]. destruct (Z.eqb_spec (kcmp key_pad (key_of f)) 0); [contradiction | reflexivity].
  - inversion H1 as [|? ? Te Tt1]; subst.
    destruct t2 as [|f t2].
    + destruct (null_l_td0 e t1 Te) as [A B].
      assert (X : items_cmp (cont (e :: t1)) (cont []) = nulls_l (cont (e :: t1))).
      { simpl (cont []). destruct (cont (e :: t1)); reflexivity. }
      rewrite X, A. cbn [map pad_lex pad_l].
      destruct (Z.eqb_spec (kcmp (key_of e) key_pad) 0); [contradiction | reflexivity].
    + inversion H2 as [|? ? Tf Tt2]; subst. cbn [map pad_lex].
      destruct (td_sep e (proj1 Te)) as [Se|Se], (td_sep f (proj1 Tf)) as [Sf|Sf].
      * rewrite (cont_dash e t1 Se), (cont_dash f t2 Sf), items_cmp_single. cbn [items_cmp].
        rewrite (elem_bridge e f Te Tf) by congruence. rewrite (IH t2) by auto. reflexivity.
      * destruct (dot_dash_key f e (proj1 Tf) (proj1 Te) Sf Se) as [Nf [K1 K2]].
        rewrite (cont_dash e t1 Se), (cont_dot f t2 Sf), (item_of_N f Nf). cbn [items_cmp].
        rewrite item_cmp_LI, K2. reflexivity.
      * destruct (dot_dash_key e f (proj1 Te) (proj1 Tf) Se Sf) as [Ne [K1 K2]].
        rewrite (cont_dot e t1 Se), (cont_dash f t2 Sf), (item_of_N e Ne). cbn [items_cmp].
        rewrite item_cmp_IL, K1. reflexivity.
      * rewrite (cont_dot e t1 Se), (cont_dot f t2 Sf). cbn [items_cmp].
        rewrite (elem_bridge e f Te Tf) by congruence. rewrite (IH t2) by auto. reflexivity.
Qed.

(* ------------------------------------------------------------------ the numeric prefix *)
Lemma cont_app_pre p t : Forall pre p -> cont (p ++ t) = map item_of p ++ cont t.
Proof.
  induction 1 as [|e p He _ IH]; [reflexivity|].
  destruct (pre_cases e He) as [S _]. change ((e :: p) ++ t) with (e :: p ++ t).
  rewrite (cont_dot e (p ++ t) S), IH. reflexivity.
Qed.

Definition nn (e : mvn_elem) : Prop := num_ok e = true.

Lemma pre_item e : pre e -> nn e -> item_of e = IInt (Z.to_N (me_int e)) /\ 0 <= me_int e.
Proof.
  intros P O. destruct (pre_cases e P) as [_ Ne]. split; [apply item_of_N; auto|].
  unfold nn, num_ok, is_num_elem in O. fold (cat_of e) in O. rewrite Ne in O. simpl in O. apply Z.leb_le; auto.
Qed.

Lemma nulls_r_prefix p rest : Forall pre p -> Forall nn p -> p <> [] -> last_val_nz p = true ->
  nulls_r (map item_of p ++ rest) = -1.
Proof.
  induction 1 as [|e p He Hp IH]; intros O Hn L; [congruence|]. inversion O; subst.
  destruct (pre_item e He H1) as [I P]. cbn [map app nulls_r]. rewrite I, cmp_null_I.
  destruct p as [|e' p'].
  - simpl in L. apply negb_true_iff in L. apply Z.eqb_neq in L.
    assert (Z : N.eqb (Z.to_N (me_int e)) 0 = false) by (apply N.eqb_neq; lia). rewrite Z. reflexivity.
  - destruct (N.eqb (Z.to_N (me_int e)) 0); [|reflexivity]. simpl (- 0 =? 0). cbv iota.
    apply IH; auto. discriminate.
Qed.
Lemma nulls_l_prefix p rest : Forall pre p -> Forall nn p -> p <> [] -> last_val_nz p = true ->
  nulls_l (map item_of p ++ rest) = 1.
Proof.
  induction 1 as [|e p He Hp IH]; intros O Hn L; [congruence|]. inversion O; subst.
  destruct (pre_item e He H1) as [I P]. cbn [map app nulls_l]. rewrite I, cmp_null_I.
  destruct p as [|e' p'].
  - simpl in L. apply negb_true_iff in L. apply Z.eqb_neq in L.
    assert (Z : N.eqb (Z.to_N (me_int e)) 0 = false) by (apply N.eqb_neq; lia). rewrite Z. reflexivity.
  - destruct (N.eqb (Z.to_N (me_int e)) 0); [|reflexivity]. simpl (0 =? 0). cbv iota.
    apply IH; auto. discriminate.
Qed.

Lemma last_val_cons e p : p <> [] -> last_val_nz (e :: p) = last_val_nz p.
Proof. destruct p; [congruence | reflexivity]. Qed.

Lemma items_main p1 : forall p2 t1 t2,
  Forall pre p1 -> Forall pre p2 -> Forall nn p1 -> Forall nn p2 ->
  last_val_nz p1 = true -> last_val_nz p2 = true ->
  Forall td0 t1 -> Forall td0 t2 -> hd_dash t1 -> hd_dash t2 ->
  items_cmp (map item_of p1 ++ cont t1) (map item_of p2 ++ cont t2) =
  mkey_cmp (map me_int p1, map key_of t1) (map me_int p2, map key_of t2).
Proof.
  unfold mkey_cmp, lex. simpl fst. simpl snd.
  induction p1 as [|x p1 IH]; intros p2 t1 t2 P1 P2 O1 O2 L1 L2 T1 T2 D1 D2.
  - destruct p2 as [|y p2].
    + simpl. apply tails_bridge; auto.
    + simpl map at 3. cbn [list_lex]. simpl (-1 =? 0). cbv iota. simpl (map item_of [] ++ cont t1).
      destruct t1 as [|a t1].
      * change (items_cmp (cont []) (map item_of (y :: p2) ++ cont t2)) with (nulls_r (map item_of (y :: p2) ++ cont t2)).
        apply nulls_r_prefix; auto. discriminate.
      * unfold hd_dash in D1. simpl in D1. apply N.eqb_eq in D1. rewrite (cont_dash a t1 D1).
        inversion P2; inversion O2; subst. destruct (pre_item y H1 H5) as [I _].
        cbn [map app items_cmp]. rewrite I, item_cmp_LI. reflexivity.
  - destruct p2 as [|y p2].
    + simpl map at 4. cbn [list_lex]. simpl (- -1 =? 0). cbv iota. simpl (map item_of [] ++ cont t2).
      destruct t2 as [|b t2].
      * assert (X : items_cmp (map item_of (x :: p1) ++ cont t1) (cont []) = nulls_l (map item_of (x :: p1) ++ cont t1)) by reflexivity.
        rewrite X. apply nulls_l_prefix; auto. discriminate.
      * unfold hd_dash in D2. simpl in D2. apply N.eqb_eq in D2. rewrite (cont_dash b t2 D2).
        inversion P1; inversion O1; subst. destruct (pre_item x H1 H5) as [I _].
        cbn [map app items_cmp]. rewrite I, item_cmp_IL. reflexivity.
    + inversion P1; inversion P2; inversion O1; inversion O2; subst.
      destruct (pre_item x H1 H9) as [Ix Px], (pre_item y H5 H13) as [Iy Py].
      cbn [map app items_cmp list_lex]. rewrite Ix, Iy, item_cmp_II, (cmpN3_Z _ _ Px Py).
      destruct (cmpZ (me_int x) (me_int y) =? 0) eqn:E.
      * apply IH; auto.
        -- destruct p1; [reflexivity | rewrite last_val_cons in L1; [auto | discriminate]].
        -- destruct p2; [reflexivity | rewrite last_val_cons in L2; [auto | discriminate]].
      * rewrite E. reflexivity.
Qed.

(* ------------------------------------------------------------------ the theorem *)
Definition c02_hyp (l : list mvn_elem) : Prop :=
  d_mvn_wide l = true /\ Forall nn l /\ last_val_nz (fst (split_prefix (tl l))) = true /\
  Forall (fun e => tail_nonnull e = true) (mvn_tail l).

Lemma c02_wide_b_hyp l : c02_wide_b l = true -> c02_hyp l.
Proof.
  unfold c02_wide_b. intros H. repeat (apply andb_true_iff in H; destruct H as [H ?]).
  split; auto. split; [|split]; auto.
  - apply Forall_forall. intros e He. rewrite forallb_forall in H3. apply H3; auto.
  - apply Forall_forall. intros e He. rewrite forallb_forall in H0. apply H0; auto.
Qed.

Lemma Forall_app_l {A} (P : A -> Prop) l1 l2 : Forall P (l1 ++ l2) -> Forall P l1 /\ Forall P l2.
Proof. apply Forall_app. Qed.

Theorem maven_spec_agree l1 l2 : c02_hyp l1 -> c02_hyp l2 ->
  maven_compare l1 l2 = Ok (item_cmp (items_of l1) (items_of l2)).
Proof.
  intros [D1 [O1 [V1 N1]]] [D2 [O2 [V2 N2]]].
  rewrite (maven_compare_key l1 l2 D1 D2). f_equal.
  destruct (wide_decompose l1 D1) as [e0 [p1 [t1 W1]]], (wide_decompose l2 D2) as [f0 [p2 [t2 W2]]].
  unfold mvn_key. rewrite (wp_prefix _ _ _ _ W1), (wp_prefix _ _ _ _ W2), (wp_mtail _ _ _ _ W1), (wp_mtail _ _ _ _ W2).
  pose proof (wp_mtail _ _ _ _ W1) as M1. pose proof (wp_mtail _ _ _ _ W2) as M2.
  pose proof (wp_prefix _ _ _ _ W1) as Q1. pose proof (wp_prefix _ _ _ _ W2) as Q2.
  rewrite (wp_eq _ _ _ _ W1) in *. rewrite (wp_eq _ _ _ _ W2) in *.
  simpl tl in V1, V2. unfold mvn_prefix in Q1, Q2. inversion Q1 as [Q1']. inversion Q2 as [Q2'].
  rewrite Q1' in V1. rewrite Q2' in V2. rewrite M1 in N1. rewrite M2 in N2.
  inversion O1 as [|? ? Oe0 Or1]; inversion O2 as [|? ? Of0 Or2]; subst.
  apply Forall_app in Or1. apply Forall_app in Or2. destruct Or1 as [Op1 Ot1], Or2 as [Op2 Ot2].
  unfold items_of. rewrite item_cmp_lists. rewrite ?Q1', ?Q2'.
  rewrite (cont_app_pre p1 t1 (wp_pre _ _ _ _ W1)), (cont_app_pre p2 t2 (wp_pre _ _ _ _ W2)).
  assert (Ie : item_of e0 = IInt (Z.to_N (me_int e0)) /\ 0 <= me_int e0).
  { split; [apply item_of_N; apply (wp_num _ _ _ _ W1)|].
    pose proof (wp_num _ _ _ _ W1) as Ne. unfold nn, num_ok, is_num_elem in Oe0. fold (cat_of e0) in Oe0.
    unfold isN in Ne. rewrite Ne in Oe0. simpl in Oe0. apply Z.leb_le; auto. }
  assert (If : item_of f0 = IInt (Z.to_N (me_int f0)) /\ 0 <= me_int f0).
  { split; [apply item_of_N; apply (wp_num _ _ _ _ W2)|].
    pose proof (wp_num _ _ _ _ W2) as Nf. unfold nn, num_ok, is_num_elem in Of0. fold (cat_of f0) in Of0.
    unfold isN in Nf. rewrite Nf in Of0. simpl in Of0. apply Z.leb_le; auto. }
  destruct Ie as [Ie Pe], If as [If Pf].
  cbn [items_cmp]. rewrite Ie, If, item_cmp_II, (cmpN3_Z _ _ Pe Pf).
  assert (T1 : Forall td0 t1).
  { pose proof (wide_tail_td t1 (wp_tail _ _ _ _ W1)) as T. rewrite Forall_forall in *.
    intros e He. unfold td0, nn in *. split; [|split]; auto. }
  assert (T2 : Forall td0 t2).
  { pose proof (wide_tail_td t2 (wp_tail _ _ _ _ W2)) as T. rewrite Forall_forall in *.
    intros e He. unfold td0, nn in *. split; [|split]; auto. }
  rewrite (items_main p1 p2 t1 t2) by (auto; try apply (wp_pre _ _ _ _ W1); try apply (wp_pre _ _ _ _ W2);
                                       try apply (wp_dash _ _ _ _ W1); try apply (wp_dash _ _ _ _ W2)).
  unfold mkey_cmp, lex. simpl fst. simpl snd. cbn [map list_lex].
  destruct (cmpZ (me_int e0) (me_int f0) =? 0) eqn:E; [reflexivity | rewrite E; reflexivity].
Qed.

(* ------------------------------------------------------------------ witnesses *)
Definition mvn_cmp_strings (zfix : bool) (a b : bytes) : option Z :=
  match mvn_parse_with zfix a, mvn_parse_with zfix b with
  | Some (Ok va), Some (Ok vb) => match compare va vb with Ok z => Some z | _ => None end
  | _, _ => None
  end.

Definition s_1_00 : bytes := [49; 46; 48; 48]%N.
Definition s_1 : bytes := [49]%N.
(* F-C02-11: 1.00 against 1; with the repaired zero test the two agree *)
Lemma maven_zero_witness :
  mvn_cmp_strings false s_1_00 s_1 = Some 1 /\ mspec_compare s_1_00 s_1 = 0 /\ mvn_cmp_strings true s_1_00 s_1 = Some 0.
Proof. vm_compute. repeat split; reflexivity. Qed.

Definition s_1_final_snapshot : bytes := [49; 45; 102; 105; 110; 97; 108; 45; 83; 78; 65; 80; 83; 72; 79; 84]%N.
Definition s_1_snapshot : bytes := [49; 45; 83; 78; 65; 80; 83; 72; 79; 84]%N.
(* F-C02-15: 1-final-SNAPSHOT against 1-SNAPSHOT, under both variants of the zero test *)
Lemma maven_nulldash_witness z :
  mvn_cmp_strings z s_1_final_snapshot s_1_snapshot = Some 0 /\ d_mvn_c02_str s_1_final_snapshot = true /\
  d_mvn_c02_str s_1_snapshot = true /\ mspec_compare s_1_final_snapshot s_1_snapshot = 1.
Proof. destruct z; vm_compute; repeat split; reflexivity. Qed.

(* what the tree does with the pair of F-C02-11 *)
Lemma maven_zero_tree :
  mvn_cmp_strings mvn_fix_zero_spelling s_1_00 s_1 = (if go_mvn_zero_spelling_fixed then Some 0 else Some 1) /\
  mspec_compare s_1_00 s_1 = 0.
Proof.
  destruct maven_zero_witness as [A [B C]]. split; [|exact B].
  unfold mvn_fix_zero_spelling. destruct go_mvn_zero_spelling_fixed; assumption.
Qed.

(* non-vacuity: 1.0-alpha-1 and 1.0-SNAPSHOT are in the domain of the theorem, their element
   lists stand for the normalised ComparableVersion trees of the strings, and both sides say -1 *)
Lemma maven_c02_nonvacuous :
  match mvn_parse_with false s_1_0_alpha_1, mvn_parse_with false s_1_0_snapshot with
  | Some (Ok a), Some (Ok b) =>
      c02_wide_b (mvn_elems a) = true /\ c02_wide_b (mvn_elems b) = true /\
      items_of (mvn_elems a) = comparable_version s_1_0_alpha_1 /\
      items_of (mvn_elems b) = comparable_version s_1_0_snapshot /\
      compare a b = Ok (-1) /\ mspec_compare s_1_0_alpha_1 s_1_0_snapshot = -1
  | _, _ => False
  end.
Proof. vm_compute. repeat split; reflexivity. Qed.

(* ------------------------------------------------------------------ qualifiers attached by '.' (F-C02-24) *)
Definition s_1_SP : bytes := [49; 46; 83; 80]%N.                                              (* 1.SP *)
Definition s_1_0_SP : bytes := [49; 46; 48; 45; 83; 80]%N.                                    (* 1.0-SP *)
Definition s_2_0_jre2 : bytes := [50; 46; 48; 46; 106; 114; 101; 50]%N.                       (* 2.0.jre2 *)
Definition s_2_0_0_jre2 : bytes := [50; 46; 48; 46; 48; 45; 106; 114; 101; 50]%N.             (* 2.0.0-jre2 *)
Definition s_10_Beta7 : bytes := [49; 48; 46; 48; 46; 48; 46; 48; 46; 66; 101; 116; 97; 55]%N. (* 10.0.0.0.Beta7 *)
Definition s_10_CR : bytes := [49; 48; 45; 67; 82]%N.                                         (* 10-CR *)

(* the library's comparison (both variants of the zero test) against ComparableVersion 3.8.x *)
Lemma maven_dotted_witness z :
  (mvn_cmp_strings z s_1_SP s_1_0_SP = Some (-1) /\ mspec_compare s_1_SP s_1_0_SP = 0) /\
  (mvn_cmp_strings z s_2_0_jre2 s_2_0_0_jre2 = Some 1 /\ mspec_compare s_2_0_jre2 s_2_0_0_jre2 = 0) /\
  (mvn_cmp_strings z s_10_Beta7 s_10_CR = Some 1 /\ mspec_compare s_10_Beta7 s_10_CR = -1).
Proof. destruct z; vm_compute; repeat split; reflexivity. Qed.
